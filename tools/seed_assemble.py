#!/usr/bin/env python3
# usage: tools/seed_assemble.py <verify.log> <checks.log> <needs.json>
import os, re, json, shutil, sys
V='/verif'
ver={}
for l in open(sys.argv[1]):
    m=re.match(r'RESULT /tmp/seed_(C\d+)_out/(\d+): ctest-with-change=\[(.*)\] demo-with-change=(\d+) demo-without=(\d+)',l)
    if m: ver[(m.group(1),m.group(2))]=(m.group(3),int(m.group(4)),int(m.group(5)))
chk={}; cur=None
for l in open(sys.argv[2]):
    m=re.match(r'== seed (C\d+)/(\d+)',l)
    if m: cur=(m.group(1),m.group(2)); chk[cur]={'sigs':[],'viol':0,'rc':None}; continue
    if cur is None: continue
    m=re.match(r'\s+signature: (.*) \((\d+) case',l)
    if m: chk[cur]['sigs'].append(m.group(1))
    if l.startswith('VIOLATION'): chk[cur]['viol']+=1
    m=re.match(r'mutant_run: check exit code (\d+)',l)
    if m: chk[cur]['rc']=int(m.group(1))
needs=json.load(open(sys.argv[3]))
for key,(ct,rc1,rc0) in sorted(ver.items()):
    pid,k=key
    if not ('100% tests passed' in ct and rc1!=0 and rc0==0): print("NOT CONFIRMED",key,ct,rc1,rc0); continue
    src='/tmp/seed_%s_out/%s'%(pid,k); dst=os.path.join(V,'seeded','%s-%s'%(pid,k)); os.makedirs(dst,exist_ok=True)
    for f in ('patch.diff','demo.cpp','notes.txt'):
        shutil.copy(os.path.join(src,f),os.path.join(dst,f))
    c=chk.get(key,{'sigs':[],'viol':0,'rc':None})
    det = (c['rc']==1) or c['viol']>0
    meta={"property":pid,"origin":"produced by a fresh sub-agent given only the property text and a scratch git worktree of /repo (nothing from /verif)",
          "needs_to_manifest":needs.get("%s-%s"%(pid,k),"see notes.txt"),
          "confirmed_by_lead":{"how":"tools/seed_verify.sh: applied in the scratch worktree, cmake+ninja build, ctest, demo compiled against the patched tree; then reverted, rebuilt, demo again",
                               "ctest_with_change":ct,"demo_exit_with_change":rc1,"demo_exit_without_change":rc0},
          "check_run":{"cmd":"tools/mutant_run.sh seeded/%s-%s/patch.diff %s quick"%(pid,k,pid),"exit_code":c['rc'],"violation_lines":c['viol'],"signatures_seen":c['sigs'][:12]},
          "detected": det}
    json.dump(meta,open(os.path.join(dst,'meta.json'),'w'),indent=1)
    print(pid,k,"detected" if det else "MISSED",c['sigs'][:2])
