#!/usr/bin/env python3
"""usage: tools/seed_prompts.py <round-tag> <first-k> Cxx...
Writes /tmp/seed_prompt<round-tag>_Cxx.txt for each property: the generic seeding brief (property text only, scratch worktree,
nothing from /verif) plus the 'needs to manifest' lines and touched files of the changes already stored under seeded/, so that a new
round picks other mechanisms. Also writes /tmp/prop_Cxx.json and creates the worktree /tmp/seed_Cxx and the out directories."""
import json, os, re, subprocess, sys, glob
tag, k0 = sys.argv[1], int(sys.argv[2]); props = sys.argv[3:]
P = {json.loads(l)['id']: json.loads(l) for l in open('/verif/properties.jsonl')}
T = open('/verif/tools/seed_prompt_template.txt').read()
for p in props:
    json.dump(P[p], open('/tmp/prop_%s.json' % p, 'w'), indent=1)
    needs, files = [], set()
    for d in sorted(glob.glob('/verif/seeded/%s-*' % p), key=lambda s: int(s.rsplit('-', 1)[1])):
        m = json.load(open(d + '/meta.json')); needs.append(m.get('needs_to_manifest', ''))
        for l in open(d + '/patch.diff'):
            mm = re.match(r'\+\+\+ b/(\S+)', l)
            if mm: files.add(mm.group(1))
    txt = T.replace('@P@', p).replace('@K1@', str(k0)).replace('@K2@', str(k0 + 1))
    txt = txt.replace('@NEEDS@', '\n'.join(' - ' + n for n in needs)).replace('@FILES@', ', '.join(sorted(files)))
    open('/tmp/seed_prompt%s_%s.txt' % (tag, p), 'w').write(txt)
    wt = '/tmp/seed_%s' % p
    if not os.path.isdir(wt): subprocess.check_call(['git', '-C', '/repo', 'worktree', 'add', '--detach', '-q', wt, 'HEAD'])
    for k in (k0, k0 + 1): os.makedirs('/tmp/seed_%s_out/%d' % (p, k), exist_ok=True)
    print('wrote prompt for', p, len(needs), 'earlier changes')
