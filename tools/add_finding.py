#!/usr/bin/env python3
# usage: tools/add_finding.py <property> fixed|known <signature(s) comma-separated> <commit-or-dash> <what failed>
import json, sys, os
V = os.path.dirname(os.path.dirname(os.path.abspath(__file__)))
p = os.path.join(V, "known_findings.json")
d = json.load(open(p))
prop, status, sigs, commit, what = sys.argv[1:6]
for sig in sigs.split(","):
    e = {"property": prop, "status": status, "signature": sig, "description": what}
    if status == "fixed":
        e["commit"] = commit
        e["line"] = "fixed: property=%s %s %s" % (prop, commit, what)
    d["findings"] = [x for x in d["findings"] if not (x["property"] == prop and x["signature"] == sig and x.get("commit", "-") == (commit if status == "fixed" else "-"))]
    d["findings"].append(e)
json.dump(d, open(p, "w"), indent=1)
print("recorded", prop, status, sigs)
