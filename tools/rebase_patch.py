#!/usr/bin/env python3
"""usage: tools/rebase_patch.py <out.patch> <repo-relative file> <old text file> <new text file>
Writes a unified diff (a/ b/ paths) that replaces the first occurrence of <old> by <new> in the current /repo file."""
import sys, difflib, os
out, rel, oldf, newf = sys.argv[1:5]
src = open(os.path.join("/repo", rel)).read()
old = open(oldf).read(); new = open(newf).read()
assert old in src, "old text not found in " + rel
dst = src.replace(old, new, 1)
d = difflib.unified_diff(src.splitlines(True), dst.splitlines(True), "a/" + rel, "b/" + rel, n=3)
open(out, "w").write("".join(d))
print("wrote", out)
