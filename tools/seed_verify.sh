#!/bin/bash
# usage: tools/seed_verify.sh <worktree> <outdir> <k>
# confirms: with the change the library builds and ctest passes; the demo fails with the change and passes without it.
WT=$1; OUT=$2; K=$3; B=$OUT/build; D=$OUT/$K
set -u
cd $WT && git checkout -q -- . && git status --short | grep -v '^??' | head -3
conf() { cmake -G Ninja -S $WT -B $B -DCMAKE_BUILD_TYPE=RelWithDebInfo >/dev/null 2>&1; }
build() { cmake --build $B -j8 >/dev/null 2>&1; }
demo() { LIB=$(ls $B/src/*.so | head -1); g++ -std=c++14 -I$WT/src $D/demo.cpp -L$B/src -l$(basename $LIB .so | sed 's/^lib//') -Wl,-rpath,$B/src -o $D/demo.bin 2>$D/demo.build.log || { echo "DEMO BUILD FAILED"; return 99; }; timeout 300 $D/demo.bin >/dev/null 2>&1; return $?; }
[ -d $B ] || conf
git apply $D/patch.diff || { echo "RESULT $D: patch does not apply"; exit 1; }
build || { echo "RESULT $D: build failed with change"; git checkout -q -- .; exit 1; }
T=$(ctest --test-dir $B -j8 --timeout 900 2>&1 | grep "tests passed")
demo; RC1=$?
git checkout -q -- .
build
demo; RC0=$?
echo "RESULT $D: ctest-with-change=[$T] demo-with-change=$RC1 demo-without=$RC0"
