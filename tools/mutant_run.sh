#!/bin/bash
# usage: tools/mutant_run.sh <patch-file> <Cxx> [quick|thorough] [--baseline]
# Applies a patch to a scratch copy of /repo (outside /repo and /verif), runs the check against it with its own build
# cache, prints the check's output and exit code, removes the scratch copy. With --baseline also builds and runs the
# repository's own tests on the patched copy first (they must still pass for a mutant to count).
set -u
PATCH=$(readlink -f "$1"); ID=$2; TIER=${3:-quick}; BASE=${4:-}
S=$(mktemp -d /tmp/bppmut.XXXXXX)
trap 'rm -rf "$S"' EXIT
mkdir -p "$S/r" && cp -r /repo/src /repo/test /repo/CMakeLists.txt /repo/cmake /repo/package.cmake.in /repo/Doxyfile /repo/LICENSES /repo/*.txt /repo/*.license /repo/README.md /repo/ChangeLog /repo/bpp-core.spec "$S/r/" 2>/dev/null
( cd "$S/r" && patch -p1 -s < "$PATCH" ) || { echo "PATCH FAILED"; exit 3; }
if [ "$BASE" = "--baseline" ]; then
  ( cmake -G Ninja -S "$S/r" -B "$S/b" -DCMAKE_BUILD_TYPE=RelWithDebInfo >/dev/null && cmake --build "$S/b" -j16 >/dev/null && ctest --test-dir "$S/b" -j8 --timeout 900 2>&1 | tail -3 ) || { echo "BASELINE FAILED on mutant"; exit 4; }
  rm -rf "$S/b"
fi
cd /verif && VERIF_REPO="$S/r" VERIF_CACHE="$S/cache" ./check "$ID" "$TIER"
rc=$?
echo "mutant_run: check exit code $rc"
exit $rc
