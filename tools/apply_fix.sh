#!/bin/bash
# usage: tools/apply_fix.sh <patch> <commit message file>
set -e
P=$(readlink -f "$1"); M=$(readlink -f "$2")
cd /repo
patch -p1 -s --no-backup-if-mismatch < "$P"
git add -u
git commit -q -F "$M"
git log --oneline | head -1
