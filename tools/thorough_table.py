#!/usr/bin/env python3
"""usage: tools/thorough_table.py <sweep log> [<sweep log> ...]
Merges 'Cxx rc=.. ..s viol=.. known=.. Cxx thorough: ...' lines (later logs win) into thorough_results.json and rewrites the
GEN:THOROUGH table of DESIGN.md from it."""
import sys, re, json, os
V = os.path.dirname(os.path.dirname(os.path.abspath(__file__)))
p = os.path.join(V, "thorough_results.json")
res = json.load(open(p)) if os.path.exists(p) else {}
for f in sys.argv[1:]:
    for l in open(f):
        m = re.match(r"(C\d\d) rc=(\d+) (\d+)s viol=(\d+) known=(\d+) C\d\d thorough: (\w+); evaluations=(\d+) nontrivial=(\d+) states=(\d+) transitions=(\d+) wall=([\d.]+)s (.*)", l)
        if m:
            res[m.group(1)] = {"exit": int(m.group(2)), "wall_s": int(m.group(3)), "violations": int(m.group(4)), "known_findings": int(m.group(5)), "verdict": m.group(6),
                               "evaluations": int(m.group(7)), "states": int(m.group(9)), "transitions": int(m.group(10)), "exhaustive": m.group(12).strip() == "exhaustive", "source": os.path.basename(os.path.dirname(os.path.abspath(f))) or f}
json.dump(res, open(p, "w"), indent=1, sort_keys=True)
rows = ["| check | exit | wall (s) | states | transitions / evaluations | known-finding lines | every space completed |", "|---|---|---|---|---|---|---|"]
for k in sorted(res):
    r = res[k]
    rows.append("| %s | %d | %d | %d | %d | %d | %s |" % (k, r["exit"], r["wall_s"], r["states"], r["transitions"], r["known_findings"], "yes" if r["exhaustive"] else "no (global deadline; see evidence)"))
s = open(os.path.join(V, "DESIGN.md")).read()
block = "<!-- GEN:THOROUGH -->\n" + "\n".join(rows) + "\n<!-- /GEN:THOROUGH -->"
s = re.sub(r"<!-- GEN:THOROUGH -->.*?<!-- /GEN:THOROUGH -->", lambda m: block, s, flags=re.S)
open(os.path.join(V, "DESIGN.md"), "w").write(s)
print("thorough table:", len(res), "checks")
