#!/bin/bash
# usage: tools/thorough_sweep.sh [Cxx ...]   runs the thorough tier of each check to completion, one after the other,
# and prints one line per check (exit code, wall time, violation/known-finding lines, exhaustive flag of the evidence)
cd "$(dirname "$0")/.."
IDS=${@:-C01 C02 C03 C04 C05 C06 C07 C08 C09 C10 C11 C12 C13 C14 C15 C16 C17 C18 C19 C20}
for c in $IDS; do
  s=$(date +%s); ./check $c thorough > thorough_$c.log 2>&1; rc=$?; e=$(date +%s)
  echo "$c rc=$rc $((e-s))s viol=$(grep -c '^VIOLATION' thorough_$c.log) known=$(grep -c '^KNOWN-FINDING' thorough_$c.log) $(tail -1 thorough_$c.log | cut -c1-200)"
done
