#!/bin/bash
# lists every seeded / mutant patch that no longer applies to /repo's working tree (a later fix: commit touched the same lines);
# such a patch is rebased with tools/rebase_patch.py, the original being kept as patch.orig.diff
cd /repo && for p in /verif/seeded/*/patch.diff /verif/mutants/*.patch; do git apply --check "$p" 2>/dev/null || patch -p1 --dry-run -s < "$p" >/dev/null 2>&1 || echo "DOES NOT APPLY: $p"; done
