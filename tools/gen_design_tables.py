#!/usr/bin/env python3
"""Rewrites the generated tables of DESIGN.md section 11 (between <!-- GEN:x --> markers) from known_findings.json, seeded/*/meta.json and mutants/."""
import json, os, glob, re
V = os.path.dirname(os.path.dirname(os.path.abspath(__file__)))
d = json.load(open(os.path.join(V, "known_findings.json")))
rows = {}
for f in d["findings"]:
    key = (f["property"], f.get("commit", "-") if f["status"] == "fixed" else f["description"][:60], f["status"])
    rows.setdefault(key, {"sigs": [], "desc": f["description"]})
    rows[key]["sigs"].append(f["signature"])
fixed = ["| prop | commit | what failed (witness) | check signature(s) |", "|---|---|---|---|"]
known = ["| prop | signature | what fails |", "|---|---|---|"]
for (p, c, st), r in sorted(rows.items()):
    if st == "fixed":
        fixed.append("| %s | %s | %s | `%s` |" % (p, c, r["desc"].replace("|", "\\|"), "`, `".join(s.replace("|", "\\|") for s in r["sigs"][:4]) + (" …" if len(r["sigs"]) > 4 else "")))
    else:
        known.append("| %s | `%s` | %s |" % (p, "`, `".join(s.replace("|", "\\|") for s in r["sigs"]), r["desc"].replace("|", "\\|")))
def skey(m): n = os.path.basename(os.path.dirname(m)); a, b = n.split("-"); return (a, int(b))
seed = ["| seeded change | property | needs, to manifest | detected by quick check | signatures |", "|---|---|---|---|---|"]
for m in sorted(glob.glob(os.path.join(V, "seeded", "*", "meta.json")), key=skey):
    j = json.load(open(m)); name = os.path.basename(os.path.dirname(m))
    seed.append("| seeded/%s | %s | %s | %s | %s |" % (name, j["property"], j["needs_to_manifest"].replace("|", "\\|"), "yes" if j.get("detected") else "**no** (%s)" % j.get("miss_reason", "see meta.json"),
                                                       ", ".join("`%s`" % s.replace("|", "\\|") for s in j["check_run"].get("signatures_seen", [])[:3])))
miss = ["| seeded change | why the check was blind, and what was added (from its meta.json `history`) |", "|---|---|"]
nmiss = 0
for m in sorted(glob.glob(os.path.join(V, "seeded", "*", "meta.json")), key=skey):
    j = json.load(open(m)); name = os.path.basename(os.path.dirname(m))
    if "history" in j or not j.get("detected"):
        nmiss += 1
        miss.append("| seeded/%s | %s |" % (name, (j.get("history") or ("**still missed**: " + j.get("miss_reason", "see meta.json"))).replace("|", "\\|")))
tot = first = later = never = other = 0; perprop = {}
for m in glob.glob(os.path.join(V, "seeded", "*", "meta.json")):
    j = json.load(open(m)); tot += 1; pp = perprop.setdefault(j["property"], [0, 0, 0])
    if not j.get("detected"): never += 1; pp[2] += 1
    elif j.get("detected_by"): other += 1; pp[2] += 1
    elif "history" in j and j["history"].startswith(("missed", "first detected only")): later += 1; pp[1] += 1
    else: first += 1; pp[0] += 1
ssum = ["%d seeded changes are stored: %d were reported by the check of their property the first time it was run against them, %d after the check had been strengthened (section 11.1c), %d is reported by the check of another property only (its code belongs to that property; see its meta.json), %d is a documented miss." % (tot, first, later, other, never), "",
        "| property | reported at once | reported after strengthening | not reported by this property's check |", "|---|---|---|---|"] + ["| %s | %d | %d | %d |" % (p, v[0], v[1], v[2]) for p, v in sorted(perprop.items())]
mut = {}
for m in sorted(glob.glob(os.path.join(V, "mutants", "*.patch"))):
    n = os.path.basename(m)[:-6]; mut.setdefault(n.split("_")[0], []).append(n)
mt = ["| property | hand-made mutants and reverse-of-fix patches (mutants/) |", "|---|---|"] + ["| %s | %s |" % (p, ", ".join(v)) for p, v in sorted(mut.items())]
s = open(os.path.join(V, "DESIGN.md")).read()
for tag, lines in (("FIXED", fixed), ("KNOWN", known), ("SEEDSUM", ssum), ("SEEDED", seed), ("MISSES", miss), ("MUTANTS", mt)):
    pat = re.compile(r"<!-- GEN:%s -->.*?<!-- /GEN:%s -->" % (tag, tag), re.S)
    block = "<!-- GEN:%s -->\n%s\n<!-- /GEN:%s -->" % (tag, "\n".join(lines), tag)
    if pat.search(s): s = pat.sub(lambda m: block, s)
    else: print("marker missing:", tag)
open(os.path.join(V, "DESIGN.md"), "w").write(s)
print("tables regenerated: fixed=%d known=%d seeded=%d (missed at first: %d)" % (len(fixed) - 2, len(known) - 2, len(seed) - 2, nmiss))
