#!/usr/bin/env python3-vt
"""C08 reference table:  python3-vt oracle/C08_ref.py <quick|thorough> <outfile>

Defines the FIXED lattices of the C08 check (nothing random: every point is a closed-form function of the tier), evaluates
the reference values with scipy.special, validates scipy against mpmath (40 digits) on a sub-lattice of every family and
writes a binary table that carries the arguments bit-exactly (the harness reads arguments and references from the table).

Layout: magic "C08REF2\\n", then sections {char name[16]; u64 rows; u64 cols; f64 data[rows*cols]} (little endian).
  <fam>_L : one row per lattice line  (parameters..., first point row, number of points)
  <fam>_P : one row per lattice point (argument, reference value(s)), ascending in the argument inside each line
Families: pnorm(z,ref) qnorm(p,xlo,xhi) gam(x,ref)[alpha,beta] chi(x,ref)[df] bet(x,ref)[a,b]
          qchi(p,xlo,xhi)[df] qgam(p,xlo,xhi)[alpha,beta] qbet(p,xlo,xhi)[a,b] lnb(a,b,ref)
Quantile rows carry a bracket [xlo,xhi] with F(xlo) <= p-1e-8 and F(xhi) >= p+1e-8 for the exact cdf F, so that
|F(q)-p| <= 1e-8  <=>  xlo <= q <= xhi (F is monotone): the harness decides the inversion accuracy against the exact cdf
by two comparisons. The bracket is computed at p -+ (1e-8+1e-12) and verified with the validated cdf.
"""
import sys, math, struct, time
import numpy as np
import scipy.special as sp
import mpmath as mp

T0 = time.time()
tier = sys.argv[1]
outfile = sys.argv[2]
TH = (tier == "thorough")
mp.mp.dps = 40
INF = float("inf")
QTOL = 1e-8          # documented inversion accuracy (judged in the harness through the bracket)
QMARGIN = 1e-12      # bracket computed this much outside, verified below
sections = []
report = {}


def W(name, arr, cols):
    a = np.ascontiguousarray(np.asarray(arr, dtype="<f8").reshape(-1, cols))
    sections.append((name, a))


def steps(x, k):
    """x moved by k ulps (k may be negative)"""
    x = float(x)
    for _ in range(abs(k)):
        x = math.nextafter(x, INF if k > 0 else -INF)
    return x


def cluster(x, n=3):
    return [steps(x, k) for k in range(-n, n + 1)]


def flip(pred, lo, hi):
    """adjacent doubles (a,b), lo<=a<b<=hi with pred(a)!=pred(b); None when pred(lo)==pred(hi)"""
    pl = pred(lo)
    if pl == pred(hi):
        return None
    while math.nextafter(lo, INF) < hi:
        mid = lo + (hi - lo) / 2
        if mid <= lo or mid >= hi:
            break
        if pred(mid) == pl:
            lo = mid
        else:
            hi = mid
    return (lo, hi)


def logspace(a, b, n):
    la, lb = math.log(a), math.log(b)
    v = [math.exp(la + (lb - la) * i / (n - 1)) for i in range(n)]
    v[0], v[-1] = a, b
    return v


def uniq(v):
    return np.unique(np.asarray(v, dtype=float))


def logit_grid(n):
    L = math.log((1 - 1e-6) / 1e-6)
    out = []
    for i in range(n):
        t = -L + 2 * L * i / (n - 1)
        out.append(1 / (1 + math.exp(-t)) if t <= 0 else 1 - 1 / (1 + math.exp(t)))
    out[0], out[-1] = 1e-6, 1 - 1e-6
    return out


# --------------------------------------------------------------------------------------------------------------------
# validation helpers (scipy against mpmath on a sub-lattice)
def validate(name, idx, sc, mpf, tol):
    worst = 0.0
    for i in idx:
        d = abs(float(mpf(i) - mp.mpf(float(sc[i]))))
        if not d <= tol:
            sys.stderr.write("C08_ref: scipy disagrees with mpmath for %s at row %d: %g\n" % (name, i, d))
            sys.exit(3)
        worst = max(worst, d)
    report[name] = (len(idx), worst)


def mp_gam(a, x):
    if x == 0:
        return mp.mpf(0)
    return mp.gammainc(mp.mpf(a), 0, mp.mpf(x), regularized=True)


def mp_bet(a, b, x):
    if x == 0:
        return mp.mpf(0)
    if x == 1:
        return mp.mpf(1)
    return mp.betainc(mp.mpf(a), mp.mpf(b), 0, mp.mpf(x), regularized=True)


# --------------------------------------------------------------------------------------------------------------------
# 1. normal cdf: z in [-40,40]
den = 256 if TH else 64
z = [k / den for k in range(-40 * den, 40 * den + 1)]
SQ32 = math.sqrt(32.0)
for s in (0.0, 1e-20, 0.67448975, SQ32, 37.5193, 8.2924):
    for sg in (-1.0, 1.0):
        z += cluster(sg * s)
k = 11
while k / 16 <= 37.5625:          # trunc(y*16)/16 changes at every multiple of 1/16
    for sg in (-1.0, 1.0):
        z += cluster(sg * k / 16)
    k += 1
z = uniq(z)
z = z[(z >= -40) & (z <= 40)]
pn = sp.ndtr(z)
validate("pnorm", range(0, len(z), 16), pn, lambda i: mp.ncdf(mp.mpf(float(z[i]))), 1e-15)
W("pnorm_P", np.column_stack([z, pn]), 2)

# 2. normal quantile
pq = logit_grid(16001 if TH else 4001) + cluster(0.5)
pq = uniq(pq)


def bracket(p, ppf, cdf, lo_end, hi_end):
    """doubles xl<=xh with F(xl) <= p-QTOL and F(xh) >= p+QTOL for the exact cdf F (certified with the validated cdf).
    Start: quantile at p-+(QTOL+QMARGIN) rounded to double; while the rounded end is not certified it is moved outwards ulp
    by ulp (needed where the quantile is within a few ulps of a support end and doubles cannot resolve 1e-8 in probability:
    the accepted interval then still contains both doubles adjacent to the exact quantile). An end that cannot be certified
    within 16 ulps is replaced by the support end (vacuous on that side; counted in the report)."""
    pl = p - QTOL - QMARGIN
    ph = p + QTOL + QMARGIN
    with np.errstate(all="ignore"):
        xl = np.where(pl > 0, ppf(np.maximum(pl, 1e-300)), lo_end)
        xh = np.where(ph < 1, ppf(np.minimum(ph, 1 - 1e-17)), hi_end)
        xl = np.where(np.isfinite(xl), xl, lo_end)
        xh = np.where(np.isnan(xh), hi_end, xh)
        for _ in range(16):
            badl = ~(cdf(xl) <= p - QTOL - QMARGIN / 4) & (xl > lo_end)
            badh = ~(cdf(xh) >= p + QTOL + QMARGIN / 4) & (xh < hi_end)
            if not badl.any() and not badh.any():
                break
            xl = np.where(badl, np.maximum(np.nextafter(xl, -INF), lo_end), xl)
            xh = np.where(badh, np.minimum(np.nextafter(xh, INF), hi_end), xh)
        badl = ~(cdf(xl) <= p - QTOL - QMARGIN / 4) & (xl > lo_end)
        badh = ~(cdf(xh) >= p + QTOL + QMARGIN / 4) & (xh < hi_end)
    xl = np.where(badl, lo_end, xl)
    xh = np.where(badh, hi_end, xh)
    return xl, xh, int((xl <= lo_end).sum()), int((xh >= hi_end).sum())


xl, xh, b1, b2 = bracket(pq, sp.ndtri, sp.ndtr, -INF, INF)
report["qnorm_open_ends"] = (b1, b2)
idx = list(range(0, len(pq), 16))
for i in idx:
    if not (mp.ncdf(mp.mpf(float(xl[i]))) <= mp.mpf(float(pq[i])) - QTOL and mp.ncdf(mp.mpf(float(xh[i]))) >= mp.mpf(float(pq[i])) + QTOL):
        sys.stderr.write("C08_ref: qnorm bracket not certified by mpmath at p=%r\n" % pq[i]); sys.exit(3)
W("qnorm_P", np.column_stack([pq, xl, xh]), 3)


# --------------------------------------------------------------------------------------------------------------------
# 3. gamma-type cdfs
def gamma_tgrid(alpha):
    """arguments t (rate 1) for shape alpha: 0, 1e-300 .. far tail, bulk, +-3 ulp around the series/continued-fraction switch"""
    sd = math.sqrt(alpha)
    far = alpha + 40 * sd + 800          # upper tail < 1e-300 there
    g = [0.0]
    g += logspace(1e-300, 1e-8, 33)[:-1]
    g += logspace(1e-8, far, 512 if TH else 128)
    nb = 385 if TH else 97
    g += [alpha + sd * (-8 + 20 * i / (nb - 1)) for i in range(nb)]
    g += [1e5, 1e10, 1e100, 1e150, 1e300, INF]   # far beyond the bulk: the cdf is 1 there (and must be returned, not looped for)
    g += cluster(1.0) + cluster(alpha)   # x>1 && x>=alpha : continued fraction
    g = uniq(g)
    return g[g >= 0]


special_shapes = [0.5, 1.0, 1.5, 2.0, 2.5, 3.0, 4.0, 5.0, 10.0, 20.0, 50.0, 100.0, steps(1.0, -1), steps(1.0, 1)]
shapes = sorted(set(logspace(0.05, 200.0, 384 if TH else 96) + special_shapes))
rates = [1.0, 1e-3, 0.1, 10.0, 1e3]
L = []; P = []
n = 0
for beta in rates:
    for si, alpha in enumerate(shapes):
        if beta != 1.0 and not (si % 8 == 0 or alpha in (0.5, 1.0, 2.0, 100.0)):
            continue
        t = gamma_tgrid(alpha)
        x = uniq(t / beta)
        tt = beta * x                       # the argument the implementation forms (same IEEE product)
        L.append([alpha, beta, n, len(x)])
        P.append(np.column_stack([x, tt, np.full(len(x), alpha)]))
        n += len(x)
P = np.vstack(P)
gref = sp.gammainc(P[:, 2], P[:, 1])
gref[P[:, 1] == 0] = 0.0
validate("gamma", range(0, len(P), 16), gref, lambda i: mp_gam(P[i, 2], P[i, 1]), 1e-13)
W("gam_L", L, 4)
W("gam_P", np.column_stack([P[:, 0], gref]), 2)

# chi-square cdf: x = 2t exactly, so 0.5*x is the gamma argument without rounding
dfs = sorted(set(logspace(0.1, 400.0, 192 if TH else 64) + [1.0, 2.0, 3.0, 4.0, 5.0, 10.0, 30.0, 100.0]))
L = []; P = []
n = 0
for v in dfs:
    t = gamma_tgrid(v / 2)
    L.append([v, n, len(t)])
    P.append(np.column_stack([2 * t, t, np.full(len(t), v / 2)]))
    n += len(t)
P = np.vstack(P)
cref = sp.gammainc(P[:, 2], P[:, 1])
cref[P[:, 1] == 0] = 0.0
validate("chisq", range(0, len(P), 16), cref, lambda i: mp_gam(P[i, 2], P[i, 1]), 1e-13)
W("chi_L", L, 3)
W("chi_P", np.column_stack([P[:, 0], cref]), 2)

# --------------------------------------------------------------------------------------------------------------------
# 4. beta cdf
MAXLOG = math.log(1.7e23)   # log(NumConstants::VERY_BIG()): power form / log form switch of the prefactor
MAXGAM = 171.624376956302725
xlow = logspace(1e-300, 1e-3, 49)[:-1]
xmid = [i / 512 for i in range(1, 512)] if TH else [i / 128 for i in range(1, 128)]
xdy = [2.0 ** -k for k in range(2, 61)] + [1 - 2.0 ** -k for k in range(2, 54)]


def beta_xgrid(a, b):
    g = [0.0, 1.0] + xlow + xmid + xdy
    m = a / (a + b)
    sd = math.sqrt(a * b / ((a + b) ** 2 * (a + b + 1)))
    nb = 257 if TH else 65
    g += [m + sd * (-8 + 16 * i / (nb - 1)) for i in range(nb)]
    # branch switches of incompleteBeta
    sw = [0.95, 0.05, m, 1.0 / b, 1.0 - 1.0 / a]
    if a + b != 2:
        sw.append((a - 1) / (a + b - 2))
    for s in sw:
        if 0 < s < 1:
            g += cluster(s)
    for (f, lo, hi) in ((lambda x: abs(a * math.log(x)) < MAXLOG, 1e-320, 0.5), (lambda x: abs(b * math.log(1 - x)) < MAXLOG, 0.5, steps(1.0, -1))):
        fl = flip(f, lo, hi)
        if fl:
            g += cluster(fl[0]) + cluster(fl[1])
    g = uniq(g)
    return g[(g >= 0) & (g <= 1)]


bshapes = logspace(0.1, 200.0, 72 if TH else 48)
pairs = [(a, b) for a in bshapes for b in bshapes]
spec = [0.1, 0.5, 1.0, 2.0, 7.5, 200.0]
pairs += [(1.0, 1.0)] + [(a, 1.0) for a in spec if a != 1.0] + [(1.0, b) for b in spec if b != 1.0]
pairs += [(steps(1.0, -1), 3.0), (steps(1.0, 1), 3.0), (3.0, steps(1.0, -1)), (3.0, steps(1.0, 1))]
for a in (0.5, 20.0, 85.8, 150.0):                         # a+b around maxgam (power form / log form of the prefactor)
    for k in (-2, -1, 0, 1, 2):
        pairs.append((a, steps(MAXGAM - a, k)))
L = []; P = []
n = 0
for (a, b) in pairs:
    x = beta_xgrid(a, b)
    L.append([a, b, n, len(x)])
    P.append(np.column_stack([x, np.full(len(x), a), np.full(len(x), b)]))
    n += len(x)
P = np.vstack(P)
bref = sp.betainc(P[:, 1], P[:, 2], P[:, 0])
validate("beta", range(0, len(P), 101 if TH else 41), bref, lambda i: mp_bet(P[i, 1], P[i, 2], P[i, 0]), 1e-13)
W("bet_L", L, 4)
W("bet_P", np.column_stack([P[:, 0], bref]), 2)

# lnBeta: evaluated with mpmath directly (scipy.special.betaln returns -inf for a+b just above 171.62 in this scipy)
lb = np.array(pairs)
lref = [float(mp.loggamma(mp.mpf(a)) + mp.loggamma(mp.mpf(b)) - mp.loggamma(mp.mpf(a) + mp.mpf(b))) for (a, b) in pairs]
W("lnb_P", np.column_stack([lb[:, 0], lb[:, 1], lref]), 3)

# --------------------------------------------------------------------------------------------------------------------
# 5. chi-square / gamma quantiles
pgrid = logit_grid(16001 if TH else 4001)
pgrid_small = logit_grid(4001 if TH else 1001)
plim = cluster(0.000002) + cluster(0.999998) + cluster(0.5)


def qchisq_pgrid(v, base):
    g = list(base) + plim
    fl = flip(lambda p: v >= -1.24 * math.log(p), 1e-7, 1 - 1e-7)     # start-value switch of AS91
    if fl:
        g += cluster(fl[0]) + cluster(fl[1])
    g = uniq(g)
    return g[(g >= 1e-6) & (g <= 1 - 1e-6)]


qdfs = sorted(set(dfs + cluster(0.32)))
L = []; P = []
n = 0
for v in qdfs:
    p = qchisq_pgrid(v, pgrid)
    L.append([v, n, len(p)])
    P.append(np.column_stack([p, np.full(len(p), v / 2)]))
    n += len(p)
P = np.vstack(P)
a_ = P[:, 1]
xl, xh, b1, b2 = bracket(P[:, 0], lambda q: sp.gammaincinv(a_, q), lambda x: sp.gammainc(a_, x), 0.0, INF)
report["qchisq_open_ends"] = (b1, b2)
for i in range(0, len(P), 997):
    pp = mp.mpf(float(P[i, 0]))
    if not (mp_gam(P[i, 1], xl[i]) <= pp - QTOL and (xh[i] == INF or mp_gam(P[i, 1], xh[i]) >= pp + QTOL)):
        sys.stderr.write("C08_ref: qchisq bracket not certified by mpmath at row %d\n" % i); sys.exit(3)
W("qchi_L", L, 3)
W("qchi_P", np.column_stack([P[:, 0], 2 * xl, 2 * xh]), 3)      # chi-square quantile = 2 * gamma(v/2,1) quantile (exact doubling)

L = []; P = []; R = []
n = 0
for beta in (1.0, 1e-3, 1e3):
    for si, alpha in enumerate(shapes):
        if beta != 1.0 and not (si % 8 == 0 or alpha in (0.5, 1.0, 2.0, 100.0)):
            continue
        p = qchisq_pgrid(2 * alpha, pgrid_small)
        L.append([alpha, beta, n, len(p)])
        P.append(np.column_stack([p, np.full(len(p), alpha), np.full(len(p), beta)]))
        n += len(p)
P = np.vstack(P)
a_ = P[:, 1]
xl, xh, b1, b2 = bracket(P[:, 0], lambda q: sp.gammaincinv(a_, q), lambda x: sp.gammainc(a_, x), 0.0, INF)
report["qgamma_open_ends"] = (b1, b2)
# scale by the rate with outward rounding (the exact quantile of Gamma(alpha,beta) is Q/beta)
xl = np.nextafter(xl / P[:, 2], -INF); xl = np.where(xl < 0, 0.0, xl)
xh = np.nextafter(xh / P[:, 2], INF)
W("qgam_L", L, 4)
W("qgam_P", np.column_stack([P[:, 0], xl, xh]), 3)

# --------------------------------------------------------------------------------------------------------------------
# 6. beta quantile (shapes in [0.3,200])
qshapes = logspace(0.3, 200.0, 48 if TH else 24)
qpairs = [(a, b) for a in qshapes for b in qshapes]
qpairs += [(1.0, 1.0), (1.0, 2.0), (2.0, 1.0), (0.5, 0.5), (steps(1.0, 1), steps(1.0, 1)), (steps(1.0, 1), 3.0), (3.0, steps(1.0, 1)), (1.0, 3.0), (3.0, 1.0)]
pb = uniq(logit_grid(1001 if TH else 401) + cluster(0.5))
L = []; P = []
n = 0
for (a, b) in qpairs:
    L.append([a, b, n, len(pb)])
    P.append(np.column_stack([pb, np.full(len(pb), a), np.full(len(pb), b)]))
    n += len(pb)
P = np.vstack(P)
a_ = P[:, 1]; b_ = P[:, 2]
xl, xh, b1, b2 = bracket(P[:, 0], lambda q: sp.betaincinv(a_, b_, q), lambda x: sp.betainc(a_, b_, x), 0.0, 1.0)
report["qbeta_open_ends"] = (b1, b2)
for i in range(0, len(P), 499):
    pp = mp.mpf(float(P[i, 0]))
    if not (mp_bet(P[i, 1], P[i, 2], xl[i]) <= pp - QTOL and mp_bet(P[i, 1], P[i, 2], xh[i]) >= pp + QTOL):
        sys.stderr.write("C08_ref: qbeta bracket not certified by mpmath at row %d\n" % i); sys.exit(3)
W("qbet_L", L, 4)
W("qbet_P", np.column_stack([P[:, 0], xl, xh]), 3)

# --------------------------------------------------------------------------------------------------------------------
with open(outfile, "wb") as fh:
    fh.write(b"C08REF2\n")
    for (name, a) in sections:
        fh.write(name.encode().ljust(16, b"\0"))
        fh.write(struct.pack("<QQ", a.shape[0], a.shape[1]))
        fh.write(a.tobytes())
sys.stderr.write("C08_ref %s: %s  validation(points,worst |scipy-mpmath|)=%s  %.1fs\n" % (
    tier, " ".join("%s=%d" % (n, a.shape[0]) for (n, a) in sections), report, time.time() - T0))
