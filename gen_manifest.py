#!/usr/bin/env python3
"""Regenerates MANIFEST.json from harness metadata (VF-* header lines) so it is always schema-valid."""
import json, os, re, glob, subprocess
V = os.path.dirname(os.path.abspath(__file__))
props = [json.loads(l) for l in open(os.path.join(V, "properties.jsonl")) if l.strip()]
NA = json.load(open(os.path.join(V, "not_applicable.json"))) if os.path.exists(os.path.join(V, "not_applicable.json")) else {}
checks, na = [], []
READY = set(open(os.path.join(V, "ready.txt")).read().split()) if os.path.exists(os.path.join(V, "ready.txt")) else set()
for p in props:
    pid = p["id"]
    src = os.path.join(V, "harness", pid + ".cpp")
    if not os.path.exists(src) or pid in NA or pid not in READY:
        na.append({"property_id": pid, "reason": NA.get(pid, "check not built yet in this round (planned: see DESIGN.md section 5)")})
        continue
    meta = {}
    for line in open(src):
        m = re.match(r"//\s*VF-(\w+):\s*(.*\S)", line)
        if m: meta[m.group(1).lower()] = m.group(2)
    checks.append({
        "property_id": pid,
        "quick_cmd": "./check %s quick" % pid,
        "thorough_cmd": "./check %s thorough" % pid,
        "evidence_file": "evidence/%s.json" % pid,
        "replay_cmd_template": "./check --replay {path}",
        "engine": "vf",
        "level_claimed": {"category": "model_checking",
                          "text": meta.get("level", "Bounded-exhaustive exploration of the real implementation against a C++ reference model: every case of each stated finite space is executed (no sampling) under ASan/UBSan; history spaces are searched breadth-first with state de-duplication until the frontier empties (closure) or the stated depth."),
                          "design_ref": "DESIGN.md section 5, " + pid},
        "level_note": meta.get("assume", "trusted: g++/ASan/UBSan/libstdc++ assertions, the reference model written in the harness, the stated bounds"),
        "technique": meta.get("technique", "explicit-state / bounded-exhaustive enumeration on the implementation with lock-step reference model"),
    })
hooks_commits = []
hc = os.path.join(V, "hook_commits.txt")
if os.path.exists(hc):
    hooks_commits = [l.split()[0] for l in open(hc) if l.strip() and not l.startswith("#")]
m = {
    "version": 1,
    "setup_cmd": "./check --setup",
    "hooks": {"guard": "BPP_CORE_VERIF", "enable": "./check compiles every source of /repo/src with -DBPP_CORE_VERIF (g++ -std=c++14, ASan+UBSan)",
              "baseline_off_cmd": "./check --baseline", "source_commits": hooks_commits, "add_only": True},
    "engines": [{"name": "vf", "path": "engine/vf.hpp", "serves_properties": [c["property_id"] for c in checks],
                 "kind_free_text": "stateless explicit-state explorer on the real objects: E1 breadth-first search over operation histories with canonical-state de-duplication and lock-step reference model; E2 exhaustive enumeration of finite input/configuration products; forked-worker supervisor turning crashes, sanitizer reports and hangs into violations of the exact case"}],
    "checks": checks,
    "not_applicable": na,
    "notes": "All checks rebuild the library from /repo's working tree (content-hash keyed cache under .cache/). Known genuine defects: known_findings.json.",
}
json.dump(m, open(os.path.join(V, "MANIFEST.json"), "w"), indent=1)
print("checks:", [c["property_id"] for c in checks], "not_applicable:", [n["property_id"] for n in na])
