// vf.hpp — bounded-exhaustive exploration engine (E1 history explorer, E2 enumerator, supervisor).
// Header-only, C++14. A harness is one translation unit:
//
//   int main(int argc,char**argv){ vf::Runner R(argc,argv,"C20");
//     R.space("prims:U8", N, [&](uint64_t i, vf::Case& c){ ... c.fail(sig,detail) ... });
//     R.explore("multirange:U8", maxDepth, nops, factory);   // E1
//     return R.finish(); }
//
// Every case runs in a forked worker; a worker that dies (signal, sanitizer abort) or exceeds
// the per-case alarm is recorded as a violation of that very case and a replacement worker
// continues behind it. Nothing is sampled: a space is either executed completely or reported
// as incomplete (deadline).
#pragma once
#include <cstdint>
#include <cstdio>
#include <cstdlib>
#include <cstring>
#include <cerrno>
#include <cmath>
#include <string>
#include <vector>
#include <map>
#include <set>
#include <unordered_set>
#include <functional>
#include <sstream>
#include <algorithm>
#include <memory>
#include <atomic>
#include <chrono>
#include <unistd.h>
#include <signal.h>
#include <fcntl.h>
#include <sys/mman.h>
#include <sys/wait.h>
#include <sys/time.h>
#include <sys/stat.h>

namespace vf {

inline double now_s() {
  using namespace std::chrono;
  return duration<double>(steady_clock::now().time_since_epoch()).count();
}

inline std::string esc(const std::string& s) {
  std::string r; r.reserve(s.size());
  for (char ch : s) {
    if (ch == '\\') r += "\\\\"; else if (ch == '\t') r += "\\t"; else if (ch == '\n') r += "\\n"; else r += ch;
  }
  return r;
}
inline std::string unesc(const std::string& s) {
  std::string r; r.reserve(s.size());
  for (size_t i = 0; i < s.size(); ++i) {
    if (s[i] == '\\' && i + 1 < s.size()) { ++i; r += (s[i] == 't' ? '\t' : s[i] == 'n' ? '\n' : s[i]); }
    else r += s[i];
  }
  return r;
}
inline std::string jstr(const std::string& s) {
  std::string r = "\"";
  for (unsigned char ch : s) {
    switch (ch) {
      case '"': r += "\\\""; break; case '\\': r += "\\\\"; break;
      case '\n': r += "\\n"; break; case '\t': r += "\\t"; break; case '\r': r += "\\r"; break;
      default:
        if (ch < 0x20 || ch >= 0x7f) { char b[8]; snprintf(b, sizeof b, "\\u%04x", ch); r += b; }
        else r += char(ch);
    }
  }
  return r + "\"";
}
inline std::string num(double x) {
  char b[64];
  if (std::isnan(x)) return "nan"; if (std::isinf(x)) return x > 0 ? "inf" : "-inf";
  snprintf(b, sizeof b, "%.17g", x); return b;
}
template<class T> inline std::string str(const T& x) { std::ostringstream o; o << x; return o.str(); }
template<class T> inline std::string vstr(const std::vector<T>& v) {
  std::ostringstream o; o << "["; for (size_t i = 0; i < v.size(); ++i) { if (i) o << ","; o << v[i]; } o << "]"; return o.str();
}
inline std::string vstr(const std::vector<double>& v) {
  std::string o = "["; for (size_t i = 0; i < v.size(); ++i) { if (i) o += ","; o += num(v[i]); } return o + "]";
}

inline uint64_t h64a(const std::string& s) { uint64_t h = 1469598103934665603ULL; for (unsigned char c : s) { h ^= c; h *= 1099511628211ULL; } return h; }
inline uint64_t h64b(const std::string& s) {
  uint64_t h = 0x9E3779B97F4A7C15ULL;
  for (unsigned char c : s) { h += c; h ^= h >> 29; h *= 0xBF58476D1CE4E5B9ULL; h ^= h >> 32; }
  return h;
}

struct Viol { std::string sig, space, witness, detail; };

struct Out {
  uint64_t evals = 0, nontrivial = 0;
  std::map<std::string, uint64_t> hist;
  std::map<std::string, uint64_t> violcount;
  std::vector<Viol> viols;          // first few per signature
  std::vector<std::string> samples; // a few cases written out
  std::vector<std::string> emitted; // E1: transition records
  void clear() { *this = Out(); }
  void addViol(const Viol& v, uint64_t cnt = 1) {
    uint64_t& n = violcount[v.sig];
    if (n < 3) viols.push_back(v);
    n += cnt;
  }
  void merge(const Out& o) {
    evals += o.evals; nontrivial += o.nontrivial;
    for (auto& kv : o.hist) hist[kv.first] += kv.second;
    std::map<std::string, uint64_t> had = violcount;
    for (auto& v : o.viols) { uint64_t& n = had[v.sig]; if (n < 3) { viols.push_back(v); ++n; } }
    for (auto& kv : o.violcount) violcount[kv.first] += kv.second;
    for (auto& s : o.samples) if (samples.size() < 12) samples.push_back(s);
    for (auto& e : o.emitted) emitted.push_back(e);
  }
  void write(FILE* f) const {
    fprintf(f, "E %llu %llu\n", (unsigned long long)evals, (unsigned long long)nontrivial);
    for (auto& kv : hist) fprintf(f, "H %llu %s\n", (unsigned long long)kv.second, esc(kv.first).c_str());
    for (auto& kv : violcount) fprintf(f, "N %llu %s\n", (unsigned long long)kv.second, esc(kv.first).c_str());
    for (auto& v : viols) fprintf(f, "V %s\t%s\t%s\t%s\n", esc(v.sig).c_str(), esc(v.space).c_str(), esc(v.witness).c_str(), esc(v.detail).c_str());
    for (auto& s : samples) fprintf(f, "S %s\n", esc(s).c_str());
    for (auto& e : emitted) fprintf(f, "M %s\n", esc(e).c_str());
  }
};

// per-worker slot in shared memory
struct Slot {
  volatile uint64_t cur, cstart, cend;
  volatile int active;
  char site[160];
};

struct Case {
  Out* out = nullptr;
  Slot* slot = nullptr;
  const std::string* space = nullptr;
  std::string witness;   // index or history
  bool verbose = false;  // replay mode
  bool failed = false;
  bool muted = false;    // E1 prefix replay: failures are not recorded
  // E2: the index ranges this worker executed before the current case (a violation that does not reproduce alone is replayed after them:
  // an answer that depends on the calls made before it -- hidden state in the code under test -- is still a reproducible violation)
  const std::string* ctxDone = nullptr; uint64_t ctxStart = 0, ctxIndex = 0;
  void site(const char* s) { if (slot) { strncpy(slot->site, s, sizeof(slot->site) - 1); slot->site[sizeof(slot->site) - 1] = 0; } }
  void tag(const std::string& k) { if (!muted) out->hist[k]++; }
  void nontrivial() { if (!muted) out->nontrivial++; }
  void sample(const std::string& s) { if (!muted && out->samples.size() < 4) out->samples.push_back(s); }
  void emit(const std::string& s) { if (!muted) out->emitted.push_back(s); }
  void fail(const std::string& sig, const std::string& detail) {
    if (muted) return;
    failed = true;
    Viol v; v.sig = sig; v.space = *space; v.witness = witness; v.detail = detail;
    if (ctxDone && witness == str(ctxIndex) && (!ctxDone->empty() || ctxStart < ctxIndex)) v.witness += "@" + *ctxDone + str(ctxStart) + "-" + str(ctxIndex);
    out->addViol(v);
    if (verbose) printf("  FAIL sig=%s\n       %s\n", sig.c_str(), detail.c_str());
  }
  void note(const std::string& s) { if (verbose) printf("  %s\n", s.c_str()); }
};

struct SpaceStat {
  std::string name; uint64_t size = 0, executed = 0; bool complete = false; double wall = 0;
  uint64_t evals = 0, nontrivial = 0; uint64_t crashes = 0, hangs = 0;
  // E1
  bool isE1 = false; uint64_t states = 0, transitions = 0, traces = 0; int depth = 0; bool closed = false; uint64_t cut = 0;
};

class Runner {
 public:
  std::string prop, tier = "quick", outpath, replaySpace, replayWitness;
  bool replay = false;
  int workers = 16;
  double deadline = 0, t0 = 0;
  Out total;
  std::vector<SpaceStat> stats;
  std::vector<std::string> notes;
  std::map<std::string, std::string> extra; // extra coverage keys (raw JSON values)
  bool harnessError = false; std::string harnessErrorMsg;
  int replayFailed = 0; bool replayRan = false;
  std::string tmpdir;

  Runner(int argc, char** argv, const std::string& property) : prop(property) {
    t0 = now_s();
    double budget = 0;
    for (int i = 1; i < argc; ++i) {
      std::string a = argv[i];
      if (a == "--tier" && i + 1 < argc) tier = argv[++i];
      else if (a == "--out" && i + 1 < argc) outpath = argv[++i];
      else if (a == "--workers" && i + 1 < argc) workers = atoi(argv[++i]);
      else if (a == "--budget" && i + 1 < argc) budget = atof(argv[++i]);
      else if (a == "--replay" && i + 2 < argc) { replay = true; replaySpace = argv[++i]; replayWitness = argv[++i]; }
    }
    if (budget <= 0) budget = (tier == "thorough") ? 1500 : 150;
    deadline = t0 + budget;
    const char* td = getenv("VF_TMPDIR");
    char buf[512]; snprintf(buf, sizeof buf, "%s/vf.%d", td ? td : "/tmp", (int)getpid());
    tmpdir = buf; mkdir(tmpdir.c_str(), 0700);
    setvbuf(stdout, nullptr, _IOLBF, 0);
  }
  bool thorough() const { return tier == "thorough"; }
  bool timeLeft() const { return now_s() < deadline; }

  typedef std::function<void(uint64_t, Case&)> CaseFn;

  // ---- E2: run every index of a finite space -------------------------------------------
  // returns the merged Out of this space (also merged into total)
  typedef std::function<void(const std::string&)> EmitFn;
  typedef std::function<std::string(uint64_t)> WitFn;
  Out space(const std::string& name, uint64_t size, CaseFn fn, double caseTimeout = 5.0, uint64_t chunk = 0, bool isE1level = false, EmitFn onEmit = EmitFn(), WitFn wit = WitFn()) {
    Out res;
    if (replay) {
      if (name != replaySpace || isE1level) return res;
      uint64_t idx = strtoull(replayWitness.c_str(), nullptr, 10);
      // witness "i@a-b,c-d,...,s-i" with VF_REPLAY_CONTEXT set: first the cases the worker had executed before i (muted), in one process
      std::vector<std::pair<uint64_t, uint64_t>> pre; size_t at = replayWitness.find('@'); uint64_t npre = 0;
      if (at != std::string::npos && getenv("VF_REPLAY_CONTEXT")) {
        std::string r = replayWitness.substr(at + 1); size_t p0 = 0;
        while (p0 < r.size()) { size_t cm = r.find(',', p0); std::string one = r.substr(p0, cm == std::string::npos ? std::string::npos : cm - p0); size_t da = one.find('-');
          if (da != std::string::npos) { uint64_t a = strtoull(one.c_str(), nullptr, 10), b = strtoull(one.c_str() + da + 1, nullptr, 10); if (b > a) { pre.push_back({a, b}); npre += b - a; } }
          if (cm == std::string::npos) break; p0 = cm + 1; }
        if (!pre.empty() && pre.back().second == idx) { /* last range ends just before the case */ }
        printf("REPLAY in context: %llu earlier case(s) of the same worker are executed first (muted)\n", (unsigned long long)npre);
      }
      double budget = caseTimeout * 20 + (double)npre * std::min(caseTimeout, 0.05); if (budget > 3000) budget = 3000;
      replayOne(name, replayWitness, [&](Case& c) {
        for (auto& rg : pre) for (uint64_t i = rg.first; i < rg.second; ++i) { if (i == idx) continue; Out o2; Case m = c; m.out = &o2; m.muted = true; m.verbose = false; m.witness = str(i); fn(i, m); }
        fn(idx, c); }, budget);
      return res;
    }
    SpaceStat st; st.name = name; st.size = size;
    double ts = now_s();
    curWit = wit; runParallel(name, size, fn, caseTimeout, chunk, res, st, onEmit); curWit = WitFn();
    st.wall = now_s() - ts; st.evals = res.evals; st.nontrivial = res.nontrivial;
    if (!isE1level) { stats.push_back(st); mergeTotal(res); }
    else lastLevel = st;
    return res;
  }

  // ---- E1: breadth-first exploration of operation histories on a fresh real object ------
  // Sys must provide: void apply(int op, Case& c)  (applies op to implementation and model, checks; may c.fail)
  //                   std::string canon()           (complete concrete state, addresses relabelled)
  //                   std::string opname(int op)
  //                   bool enabled(int op)          (optional pruning of the alphabet in this state)
  template<class Factory>
  void explore(const std::string& name, int maxDepth, int nops, Factory make, double caseTimeout = 5.0, uint64_t maxStates = 0) {
    typedef std::vector<uint16_t> Hist;
    if (replay) {
      if (name != replaySpace) return;
      Hist h; std::stringstream ss(replayWitness); std::string tok;
      while (std::getline(ss, tok, '.')) if (!tok.empty()) h.push_back((uint16_t)atoi(tok.c_str()));
      replayOne(name, replayWitness, [&](Case& c) {
        auto sys = make();
        c.note("initial canon: " + sys->canon());
        for (size_t k = 0; k < h.size(); ++k) {
          c.note("op[" + str(k) + "] " + sys->opname(h[k]));
          bool last = (k + 1 == h.size());
          c.muted = !last; bool v = c.verbose; c.verbose = last && v;
          sys->apply(h[k], c);
          c.verbose = v; c.muted = false;
          c.note("   canon: " + sys->canon());
        }
      }, caseTimeout * 20);
      return;
    }
    SpaceStat st; st.name = name; st.isE1 = true;
    double ts = now_s();
    std::vector<Hist> frontier(1);
    std::unordered_set<std::string> seen; // 16-byte digests
    { auto sys = make(); seen.insert(digest(sys->canon())); }
    st.states = 1;
    Out all;
    int d = 0; bool closed = false, capped = false;
    for (d = 1; d <= maxDepth; ++d) {
      if (frontier.empty()) { closed = true; break; }
      if (!timeLeft()) { capped = true; break; }
      const std::vector<Hist>* fr = &frontier;
      std::string lname = name;
      auto fn = [&, fr](uint64_t i, Case& c) {
        uint64_t f = i / (uint64_t)nops; int op = (int)(i % (uint64_t)nops);
        const Hist& h = (*fr)[f];
        // witness = full history
        std::string w; for (uint16_t o : h) { w += str(o); w += '.'; } w += str(op);
        c.witness = w;
        auto sys = make();
        c.muted = true;
        for (uint16_t o : h) sys->apply(o, c);
        c.muted = false;
        if (!sys->enabled(op)) { c.out->evals--; c.tag("op-disabled"); return; }
        { std::string on = sys->opname(op); size_t par = on.find('('); c.site((par == std::string::npos ? on : on.substr(0, par)).c_str()); }  // arguments stay out of the crash signature
        sys->apply(op, c);
        if (c.failed) { c.emit("X"); return; }
        std::string cn = sys->canon();
        // determinism gate: all histories at depth<=2, every 64th beyond
        if (h.size() < 2 || (i % 64) == 0) {
          auto s2 = make(); Case c2 = c; Out o2; c2.out = &o2; c2.muted = true; c2.verbose = false;
          for (uint16_t o : h) s2->apply(o, c2);
          s2->apply(op, c2);
          if (s2->canon() != cn) c.fail("HARNESS-NONDETERMINISM", "history " + w + " gave two different canonical states:\n" + cn + "\n" + s2->canon());
        }
        if (c.out->samples.size() < 2 && (i % 97) == 0) {
          std::string s = "history ["; { auto s3 = make(); Case c3 = c; Out o3; c3.out = &o3; c3.muted = true; c3.verbose = false;
            for (uint16_t o : h) { s += s3->opname(o) + "; "; s3->apply(o, c3); } s += s3->opname(op) + "] -> " + cn; }
          c.sample(s);
        }
        c.emit(str(f) + " " + str(op) + " " + digest(cn));
      };
      std::vector<Hist> next;
      uint64_t ntrans = 0;
      auto onEmit = [&](const std::string& e) {
        if (e == "X") { st.cut++; ntrans++; return; }
        unsigned long long f; int op; char dg[64];
        if (sscanf(e.c_str(), "%llu %d %40s", &f, &op, dg) != 3) return;
        ntrans++;
        if (seen.insert(std::string(dg)).second) {
          Hist h = frontier[f]; h.push_back((uint16_t)op); next.push_back(std::move(h));
        }
      };
      auto wit = [&, fr](uint64_t i) { const Hist& h = (*fr)[i / (uint64_t)nops]; std::string w; for (uint16_t o : h) { w += str(o); w += '.'; } return w + str((int)(i % (uint64_t)nops)); };
      Out lv = space(lname, frontier.size() * (uint64_t)nops, fn, caseTimeout, 0, true, onEmit, wit);
      bool levelComplete = lastLevel.complete;
      st.crashes += lastLevel.crashes; st.hangs += lastLevel.hangs;
      lv.emitted.clear();
      st.transitions += ntrans; st.traces += ntrans;
      all.merge(lv);
      if (!levelComplete) { capped = true; break; }
      st.depth = d;
      st.states = seen.size();
      frontier.swap(next);
      if (maxStates && seen.size() > maxStates) { capped = true; break; }
    }
    if (!capped && !closed && frontier.empty()) closed = true;
    st.closed = closed; st.complete = !capped;
    st.states = seen.size();
    st.size = st.transitions; st.executed = st.transitions;
    st.wall = now_s() - ts; st.evals = all.evals; st.nontrivial = all.nontrivial;
    stats.push_back(st);
    mergeTotal(all);
  }

  void note(const std::string& s) { notes.push_back(s); }
  void harnessFail(const std::string& msg) { harnessError = true; harnessErrorMsg += msg + "\n"; }
  // vacuity guard: demand that an outcome class was observed
  // evaluated in finish(), and only when no violation was found (a violation cuts the exploration behind it)
  void expectSeen(const std::string& key, uint64_t atLeast = 1) { expected.push_back({key, atLeast}); }

  int finish() {
    std::string rm = "rm -rf '" + tmpdir + "'"; if (system(rm.c_str())) {}
    if (replay) {
      if (!replayRan) { printf("replay: space '%s' not found in harness for tier %s\n", replaySpace.c_str(), tier.c_str()); return 2; }
      return replayFailed ? 1 : 0;
    }
    for (auto& kv : total.violcount) if (kv.first == "HARNESS-NONDETERMINISM") harnessFail("determinism gate failed");
    bool allComplete = true; for (auto& s : stats) if (!s.complete) allComplete = false;
    if (total.violcount.empty() && allComplete) for (auto& e : expected) { auto it = total.hist.find(e.first);
      if (it == total.hist.end() || it->second < e.second) harnessFail("vacuity guard: outcome class '" + e.first + "' observed fewer than " + str(e.second) + " times"); }
    if (!outpath.empty()) {
      FILE* f = fopen(outpath.c_str(), "w");
      if (!f) { perror("out"); return 2; }
      writeJson(f); fclose(f);
    }
    if (harnessError) { fprintf(stderr, "HARNESS ERROR: %s", harnessErrorMsg.c_str()); return 2; }
    return total.violcount.empty() ? 0 : 1;
  }

 private:
  SpaceStat lastLevel; WitFn curWit;
  std::vector<std::pair<std::string, uint64_t>> expected;
  void mergeTotal(const Out& o) { Out c = o; c.emitted.clear(); total.merge(c); }
  static std::string digest(const std::string& s) { char b[40]; snprintf(b, sizeof b, "%016llx%016llx", (unsigned long long)h64a(s), (unsigned long long)h64b(s)); return b; }

  static const char* signame(int s) {
    switch (s) { case SIGSEGV: return "SIGSEGV"; case SIGABRT: return "SIGABRT"; case SIGFPE: return "SIGFPE"; case SIGBUS: return "SIGBUS";
      case SIGILL: return "SIGILL"; case SIGKILL: return "SIGKILL"; case SIGALRM: return "SIGALRM"; default: return "SIG"; }
  }
  // classify the tail of a worker's stderr
  static std::string classify(const std::string& errtail, int status) {
    std::string kind;
    if (WIFSIGNALED(status)) kind = signame(WTERMSIG(status)); else kind = "exit" + str(WEXITSTATUS(status));
    auto grab = [&](const char* key) -> std::string {
      size_t p = errtail.rfind(key); if (p == std::string::npos) return "";
      size_t e = errtail.find('\n', p); return errtail.substr(p, e == std::string::npos ? std::string::npos : e - p);
    };
    std::string s;
    if (!(s = grab("SUMMARY: AddressSanitizer:")).empty()) {
      std::stringstream ss(s.substr(26)); std::string w; ss >> w; return "asan:" + w;
    }
    if (!(s = grab("runtime error:")).empty()) {
      // UBSan: keep the first few words, drop numbers/addresses
      std::string t = s.substr(15); std::string r; int words = 0; std::stringstream ss(t); std::string w;
      while (ss >> w && words < 4) { bool hasdigit = false; for (char ch : w) if (isdigit((unsigned char)ch)) hasdigit = true; if (hasdigit) break; r += (words ? "-" : "") + w; ++words; }
      return "ubsan:" + r;
    }
    if (errtail.find("Assertion '") != std::string::npos && errtail.find("failed") != std::string::npos) return "glibcxx-assertion";
    if (!(s = grab("terminate called after throwing an instance of")).empty()) {
      size_t q = s.find('\''); std::string t = q == std::string::npos ? "?" : s.substr(q + 1); if (!t.empty() && t.back() == '\'') t.pop_back();
      return "uncaught:" + t;
    }
    if (errtail.find("terminate called") != std::string::npos) return "terminate";
    if (errtail.find("AddressSanitizer") != std::string::npos && errtail.find("allocation-size-too-big") != std::string::npos) return "asan:allocation-size-too-big";
    if (errtail.find("out of memory") != std::string::npos || errtail.find("rss limit") != std::string::npos) return "asan:out-of-memory";
    return kind;
  }
  static std::string readTail(const std::string& path, size_t n = 6000) {
    FILE* f = fopen(path.c_str(), "r"); if (!f) return "";
    fseek(f, 0, SEEK_END); long sz = ftell(f); long st = sz > (long)n ? sz - (long)n : 0; fseek(f, st, SEEK_SET);
    std::string s((size_t)(sz - st), 0); size_t r = fread(&s[0], 1, s.size(), f); s.resize(r); fclose(f); return s;
  }
  static std::string firstFrames(const std::string& errtail) {
    // first 3 frames mentioning bpp::
    std::string r; int n = 0; std::stringstream ss(errtail); std::string line;
    while (std::getline(ss, line) && n < 3) {
      size_t p = line.find(" in "); if (line.find("    #") == 0 && p != std::string::npos && line.find("bpp::") != std::string::npos) { r += line.substr(p + 4) + " | "; ++n; }
    }
    return r;
  }

  static void alarmHandler(int) { _exit(99); }
  // per-case budget: CPU time (a loaded machine must not turn a microsecond case into a "hang"), plus a wall-clock backstop at 20x
  // for a case that blocks without burning CPU.
  static void armTimer(double s) {
    struct itimerval it; memset(&it, 0, sizeof it);
    it.it_value.tv_sec = (long)s; it.it_value.tv_usec = (long)((s - (long)s) * 1e6);
    setitimer(ITIMER_VIRTUAL, &it, nullptr);
    double w = s * 20; memset(&it, 0, sizeof it);
    it.it_value.tv_sec = (long)w; it.it_value.tv_usec = (long)((w - (long)w) * 1e6);
    setitimer(ITIMER_REAL, &it, nullptr);
  }
  static void installAlarm() { signal(SIGALRM, alarmHandler); signal(SIGVTALRM, alarmHandler); }

  struct Range { uint64_t a, b; };

  void runParallel(const std::string& name, uint64_t size, CaseFn& fn, double caseTimeout, uint64_t chunk, Out& res, SpaceStat& st, EmitFn& onEmit) {
    if (size == 0) { st.complete = true; return; }
    int W = workers; if ((uint64_t)W > size) W = (int)size; if (W < 1) W = 1;
    if (chunk == 0) { chunk = size / (uint64_t)(W * 16) + 1; if (chunk > 2048) chunk = 2048; }
    struct Shared { std::atomic<uint64_t> next; std::atomic<int> stop; Slot slots[64]; };
    Shared* sh = (Shared*)mmap(nullptr, sizeof(Shared), PROT_READ | PROT_WRITE, MAP_SHARED | MAP_ANONYMOUS, -1, 0);
    new (&sh->next) std::atomic<uint64_t>(0); new (&sh->stop) std::atomic<int>(0);
    memset(sh->slots, 0, sizeof sh->slots);
    static int serial = 0; ++serial;
    std::vector<pid_t> pids(W, 0);
    std::vector<int> gen(W, 0);
    std::vector<std::vector<std::string>> files(W);
    double dl = deadline;
    auto spawn = [&](int w, std::vector<Range> prelude) {
      char pf[600]; snprintf(pf, sizeof pf, "%s/s%d.w%d.g%d", tmpdir.c_str(), serial, w, gen[w]++);
      std::string outf = std::string(pf) + ".out", errf = std::string(pf) + ".err";
      files[w].push_back(pf);
      fflush(stdout); fflush(stderr);
      pid_t p = fork();
      if (p < 0) { perror("fork"); exit(2); }
      if (p == 0) {
        int fd = open(errf.c_str(), O_WRONLY | O_CREAT | O_TRUNC, 0600); if (fd >= 0) { dup2(fd, 2); close(fd); }
        FILE* of = fopen(outf.c_str(), "w"); if (!of) _exit(98);
        installAlarm();
        Slot* sl = &sh->slots[w]; sl->active = 1;
        Out o; Case c; c.out = &o; c.slot = sl; c.space = &name;
        std::string ctxDone; c.ctxDone = &ctxDone;
        auto doRange = [&](uint64_t a, uint64_t b) {
          sl->cstart = a; sl->cend = b;
          for (uint64_t i = a; i < b; ++i) {
            sl->cur = i; sl->site[0] = 0;
            c.failed = false; c.muted = false; c.witness = str(i); c.ctxStart = a; c.ctxIndex = i;
            o.evals++;
            armTimer(caseTimeout);
            fn(i, c);
          }
          armTimer(0);
          sl->cur = b;
          o.write(of); fprintf(of, "C %llu %llu\n", (unsigned long long)a, (unsigned long long)b); fflush(of);
          o.clear();
          if (ctxDone.size() < 20000) ctxDone += str(a) + "-" + str(b) + ",";
        };
        for (auto& r : prelude) doRange(r.a, r.b);
        while (!sh->stop.load()) {
          if (now_s() > dl) break;
          uint64_t a = sh->next.fetch_add(chunk); if (a >= size) break;
          uint64_t b = a + chunk; if (b > size) b = size;
          doRange(a, b);
        }
        fclose(of);
        _exit(0);
      }
      pids[w] = p;
    };
    for (int w = 0; w < W; ++w) spawn(w, {});
    int live = W; uint64_t slowDone = 0; std::map<std::string, int> hangConfirmed;
    std::vector<Viol> crashViols;
    while (live > 0) {
      int status = 0; pid_t p = wait(&status);
      if (p < 0) { if (errno == EINTR) continue; break; }
      int w = -1; for (int k = 0; k < W; ++k) if (pids[k] == p) w = k;
      if (w < 0) continue;
      pids[w] = 0; --live;
      if (WIFEXITED(status) && WEXITSTATUS(status) == 0) continue;
      // abnormal end: the case in the slot is the culprit
      Slot* sl = &sh->slots[w];
      uint64_t k = sl->cur, a = sl->cstart, b = sl->cend;
      std::string site = sl->site;
      std::string tail = readTail(files[w].back() + ".err");
      bool hang = WIFEXITED(status) && WEXITSTATUS(status) == 99;
      if (hang) {
        // re-run alone with a 10x budget before calling it a hang (first 3 per site; further time-outs at a site already confirmed are taken as hangs)
        Out alone; int rs = 99;
        if (hangConfirmed[site] < 3) rs = runAlone(name, fn, k, caseTimeout * 10, alone);
        if (onEmit) { for (auto& e : alone.emitted) onEmit(e); alone.emitted.clear(); }
        res.merge(alone);
        if (rs == 0) { ++slowDone; /* slow, not hanging: results merged */ }
        else if (rs == 99) { st.hangs++; hangConfirmed[site]++; Viol v; v.sig = "hang|" + site; v.space = name; v.witness = curWit ? curWit(k) : str(k); v.detail = "case did not return within " + num(caseTimeout * 10) + " s (site: " + site + ")"; crashViols.push_back(v); }
        else { st.crashes++; Viol v; v.sig = "crash|" + site + "|after-timeout"; v.space = name; v.witness = curWit ? curWit(k) : str(k); v.detail = "case died when re-run alone"; crashViols.push_back(v); }
      } else if (k < b) {
        st.crashes++;
        std::string kind = classify(tail, status);
        Viol v; v.sig = "crash|" + site + "|" + kind; v.space = name; v.witness = curWit ? curWit(k) : str(k);
        v.detail = "worker died (" + kind + ") at site '" + site + "'; frames: " + firstFrames(tail);
        size_t p1 = tail.find("ERROR:"); if (p1 == std::string::npos) p1 = tail.find("runtime error"); if (p1 == std::string::npos) p1 = tail.size() > 300 ? tail.size() - 300 : 0;
        v.detail += " | " + tail.substr(p1, 300);
        crashViols.push_back(v);
      } else {
        // died outside a case (should not happen)
        harnessFail("worker died outside a case in space " + name + ": " + tail.substr(tail.size() > 400 ? tail.size() - 400 : 0));
        continue;
      }
      // redo the uncommitted part of the chunk around the culprit, then continue
      std::vector<Range> pre; if (k > a) pre.push_back({a, k}); if (k + 1 < b) pre.push_back({k + 1, b});
      res.evals++; // the culprit case itself
      spawn(w, pre); ++live;
    }
    // gather committed blocks
    uint64_t executed = 0;
    for (int w = 0; w < W; ++w) for (auto& pf : files[w]) {
      FILE* f = fopen((pf + ".out").c_str(), "r"); if (!f) continue;
      Out blk; char* line = nullptr; size_t cap = 0; ssize_t n;
      while ((n = getline(&line, &cap, f)) > 0) {
        if (line[n - 1] == '\n') line[--n] = 0;
        std::string L(line, (size_t)n); if (L.size() < 2) continue;
        char t = L[0]; std::string rest = L.substr(2);
        if (t == 'E') { unsigned long long e1, n1; sscanf(rest.c_str(), "%llu %llu", &e1, &n1); blk.evals += e1; blk.nontrivial += n1; }
        else if (t == 'H') { size_t sp = rest.find(' '); blk.hist[unesc(rest.substr(sp + 1))] += strtoull(rest.c_str(), nullptr, 10); }
        else if (t == 'N') { size_t sp = rest.find(' '); blk.violcount[unesc(rest.substr(sp + 1))] += strtoull(rest.c_str(), nullptr, 10); }
        else if (t == 'V') { std::vector<std::string> p; size_t s0 = 0; for (int q = 0; q < 3; ++q) { size_t tb = rest.find('\t', s0); p.push_back(rest.substr(s0, tb - s0)); s0 = tb + 1; } p.push_back(rest.substr(s0));
          Viol v; v.sig = unesc(p[0]); v.space = unesc(p[1]); v.witness = unesc(p[2]); v.detail = unesc(p[3]); blk.viols.push_back(v); }
        else if (t == 'S') blk.samples.push_back(unesc(rest));
        else if (t == 'M') blk.emitted.push_back(unesc(rest));
        else if (t == 'C') { unsigned long long a1, b1; sscanf(rest.c_str(), "%llu %llu", &a1, &b1); executed += b1 - a1;
          if (onEmit) { for (auto& e : blk.emitted) onEmit(e); blk.emitted.clear(); }
          res.merge(blk); blk.clear(); }
      }
      free(line); fclose(f);
      unlink((pf + ".out").c_str()); unlink((pf + ".err").c_str());
    }
    for (auto& v : crashViols) { res.addViol(v); executed++; }
    executed += slowDone;
    // hangs resolved as "slow" were executed too
    st.executed = executed;
    st.complete = (executed >= size);
    munmap(sh, sizeof(Shared));
  }

  // run one case in its own child with a budget; merges its Out on success. returns 0 ok, 99 hang, other = crash
  int runAlone(const std::string& name, CaseFn& fn, uint64_t k, double budget, Out& res) {
    char pf[600]; snprintf(pf, sizeof pf, "%s/alone.%llu", tmpdir.c_str(), (unsigned long long)k);
    fflush(stdout); fflush(stderr);
    pid_t p = fork();
    if (p == 0) {
      int fd = open((std::string(pf) + ".err").c_str(), O_WRONLY | O_CREAT | O_TRUNC, 0600); if (fd >= 0) { dup2(fd, 2); close(fd); }
      installAlarm();
      Out o; Case c; c.out = &o; c.space = &name; c.witness = str(k); o.evals = 1;
      armTimer(budget); fn(k, c); armTimer(0);
      FILE* of = fopen((std::string(pf) + ".out").c_str(), "w"); if (of) { o.write(of); fclose(of); }
      _exit(0);
    }
    int status = 0; waitpid(p, &status, 0);
    int rc = WIFEXITED(status) ? WEXITSTATUS(status) : 1;
    if (rc == 0) {
      FILE* f = fopen((std::string(pf) + ".out").c_str(), "r");
      if (f) { Out blk; char* line = nullptr; size_t cap = 0; ssize_t n;
        while ((n = getline(&line, &cap, f)) > 0) { if (line[n - 1] == '\n') line[--n] = 0; std::string L(line, (size_t)n); if (L.size() < 2) continue; char t = L[0]; std::string rest = L.substr(2);
          if (t == 'E') { unsigned long long e1, n1; sscanf(rest.c_str(), "%llu %llu", &e1, &n1); blk.evals += e1; blk.nontrivial += n1; }
          else if (t == 'H') { size_t sp = rest.find(' '); blk.hist[unesc(rest.substr(sp + 1))] += strtoull(rest.c_str(), nullptr, 10); }
          else if (t == 'N') { size_t sp = rest.find(' '); blk.violcount[unesc(rest.substr(sp + 1))] += strtoull(rest.c_str(), nullptr, 10); }
          else if (t == 'V') { std::vector<std::string> q; size_t s0 = 0; for (int z = 0; z < 3; ++z) { size_t tb = rest.find('\t', s0); q.push_back(rest.substr(s0, tb - s0)); s0 = tb + 1; } q.push_back(rest.substr(s0));
            Viol v; v.sig = unesc(q[0]); v.space = unesc(q[1]); v.witness = unesc(q[2]); v.detail = unesc(q[3]); blk.viols.push_back(v); }
          else if (t == 'M') blk.emitted.push_back(unesc(rest)); }
        free(line); fclose(f); res.merge(blk); }
    }
    unlink((std::string(pf) + ".out").c_str()); unlink((std::string(pf) + ".err").c_str());
    return rc;
  }

  void replayOne(const std::string& name, const std::string& witness, std::function<void(Case&)> body, double budget) {
    replayRan = true;
    printf("REPLAY property=%s space=%s witness=%s\n", prop.c_str(), name.c_str(), witness.c_str());
    fflush(stdout);
    pid_t p = fork();
    if (p == 0) {
      installAlarm();
      Out o; Case c; c.out = &o; c.space = &name; c.witness = witness; c.verbose = true;
      static Slot sl; c.slot = &sl;
      armTimer(budget); body(c); armTimer(0);
      fflush(stdout);
      _exit(o.violcount.empty() ? 0 : 1);
    }
    int status = 0; waitpid(p, &status, 0);
    if (WIFEXITED(status) && WEXITSTATUS(status) == 0) { printf("REPLAY RESULT: no violation\n"); }
    else if (WIFEXITED(status) && WEXITSTATUS(status) == 1) { printf("REPLAY RESULT: violation reproduced (oracle)\n"); replayFailed = 1; }
    else if (WIFEXITED(status) && WEXITSTATUS(status) == 99) { printf("REPLAY RESULT: violation reproduced (did not return within %g s)\n", budget); replayFailed = 1; }
    else { printf("REPLAY RESULT: violation reproduced (process died: %s)\n", WIFSIGNALED(status) ? signame(WTERMSIG(status)) : "abnormal exit"); replayFailed = 1; }
  }

  void writeJson(FILE* f) {
    uint64_t states = 0, trans = 0, traces = 0, cut = 0; bool anyE1 = false; bool allComplete = true;
    fprintf(f, "{\n \"property\": %s,\n \"tier\": %s,\n \"wall_s\": %.3f,\n", jstr(prop).c_str(), jstr(tier).c_str(), now_s() - t0);
    fprintf(f, " \"evaluations\": %llu,\n \"distinct_nontrivial\": %llu,\n", (unsigned long long)total.evals, (unsigned long long)total.nontrivial);
    fprintf(f, " \"spaces\": [");
    for (size_t i = 0; i < stats.size(); ++i) {
      auto& s = stats[i]; if (!s.complete) allComplete = false;
      fprintf(f, "%s\n  {\"name\": %s, \"kind\": %s, \"size\": %llu, \"executed\": %llu, \"complete\": %s, \"wall_s\": %.3f, \"evaluations\": %llu, \"nontrivial\": %llu, \"crashes\": %llu, \"hangs\": %llu",
              i ? "," : "", jstr(s.name).c_str(), s.isE1 ? "\"E1-history-bfs\"" : "\"E2-enumeration\"", (unsigned long long)s.size, (unsigned long long)s.executed, s.complete ? "true" : "false", s.wall,
              (unsigned long long)s.evals, (unsigned long long)s.nontrivial, (unsigned long long)s.crashes, (unsigned long long)s.hangs);
      if (s.isE1) { anyE1 = true; states += s.states; trans += s.transitions; traces += s.traces; cut += s.cut;
        fprintf(f, ", \"states\": %llu, \"transitions\": %llu, \"depth_completed\": %d, \"closed\": %s, \"transitions_cut_at_violation\": %llu",
                (unsigned long long)s.states, (unsigned long long)s.transitions, s.depth, s.closed ? "true" : "false", (unsigned long long)s.cut); }
      else { states += s.executed; trans += s.evals; traces += s.evals; }
      fprintf(f, "}");
    }
    fprintf(f, "\n ],\n \"states\": %llu,\n \"transitions\": %llu,\n \"traces_validated_against_impl\": %llu,\n \"has_history_exploration\": %s,\n \"exhaustive\": %s,\n",
            (unsigned long long)states, (unsigned long long)trans, (unsigned long long)traces, anyE1 ? "true" : "false", allComplete ? "true" : "false");
    fprintf(f, " \"outcomes\": {"); { bool first = true; for (auto& kv : total.hist) { fprintf(f, "%s\n  %s: %llu", first ? "" : ",", jstr(kv.first).c_str(), (unsigned long long)kv.second); first = false; } }
    fprintf(f, "\n },\n \"samples\": ["); for (size_t i = 0; i < total.samples.size(); ++i) fprintf(f, "%s\n  %s", i ? "," : "", jstr(total.samples[i]).c_str());
    fprintf(f, "\n ],\n \"notes\": ["); for (size_t i = 0; i < notes.size(); ++i) fprintf(f, "%s\n  %s", i ? "," : "", jstr(notes[i]).c_str());
    fprintf(f, "\n ],\n \"extra\": {"); { bool first = true; for (auto& kv : extra) { fprintf(f, "%s\n  %s: %s", first ? "" : ",", jstr(kv.first).c_str(), kv.second.c_str()); first = false; } }
    fprintf(f, "\n },\n \"violation_counts\": {"); { bool first = true; for (auto& kv : total.violcount) { fprintf(f, "%s\n  %s: %llu", first ? "" : ",", jstr(kv.first).c_str(), (unsigned long long)kv.second); first = false; } }
    fprintf(f, "\n },\n \"violations\": [");
    for (size_t i = 0; i < total.viols.size(); ++i) { auto& v = total.viols[i];
      fprintf(f, "%s\n  {\"sig\": %s, \"space\": %s, \"witness\": %s, \"detail\": %s}", i ? "," : "", jstr(v.sig).c_str(), jstr(v.space).c_str(), jstr(v.witness).c_str(), jstr(v.detail).c_str()); }
    fprintf(f, "\n ],\n \"harness_error\": %s\n}\n", harnessError ? jstr(harnessErrorMsg).c_str() : "null");
  }
};

// mixed-radix odometer helper: decode index into digits (least significant first)
inline std::vector<int> digits(uint64_t idx, const std::vector<int>& radices) {
  std::vector<int> d(radices.size());
  for (size_t i = 0; i < radices.size(); ++i) { d[i] = (int)(idx % (uint64_t)radices[i]); idx /= (uint64_t)radices[i]; }
  return d;
}
inline uint64_t product(const std::vector<int>& radices) { uint64_t p = 1; for (int r : radices) p *= (uint64_t)r; return p; }

// a base class giving default enabled()
struct SysBase { bool enabled(int) { return true; } };

} // namespace vf
