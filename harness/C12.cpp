// C12 — numerical derivatives are transparent and exact on low-degree polynomials
// VF-VARIANT: san
// VF-RULE: E2 "single": for each scheme, every (polynomial of the family, interval, cross on/off [three-point], evaluation point of the grid {lb, lb+h/2, lb+3h/2, mid, ub-3h/2, ub-h/2, ub}^constrained x {-1.5,0,0.75}^unconstrained) is run on a fresh wrapper with all variables selected, one full setParameters and every query; thorough adds every entry point (all variables selected) and every ordered non-empty selection of variables (interval 1e-4). E1 "hist": breadth-first over all operation histories (level 1 chooses polynomial x kind of wrapped function, later levels the operations setParameters / setParametersValues / matchParametersValues(+unknown name) / f() over every non-empty variable subset and value combination, setAllParametersValues, setParameterValue, setParametersToDerivate(every ordered subset), setInterval(1e-2,1e-4,1e-6), toggles of first/second/cross derivative computation), all queries after every operation, states de-duplicated on the complete concrete state. A case is non-trivial when the operation made the wrapper probe the wrapped function (at least one recorded evaluation away from the requested point) or changed the state.
// VF-BOUND: polynomials: every monomial of total degree 0..5 in 1..3 variables (coefficients cycling 1,-2,3) + dense polynomials of degree 1..5 + x^2y+3y^2 (E2: 100 polynomials; E1: 2/3/2 (quick) or 4/3/4 (thorough) per arity) instead of random coefficients and 4 variables; intervals {1e-2,1e-4,1e-6}; boxes x in [-1,2], y in [0.5,3], z free; E1 values per variable: 5 (1 var) / 3 (2 vars) / 2 (3 vars) including on-bound and 5e-7 next to a bound; E1 history depth after the configuration level: quick 4/3/2, thorough 5/3/3 for 1/2/3 variables; wrapped function follows the library's own TestFunction idiom (setParameters = matchParametersValues)
// VF-LEVEL: exhaustive over the stated finite alphabet on the real wrapper classes: transparency (position, value, last evaluation point) judged exactly, derivatives judged against analytic derivatives with a derived truncation+rounding bound (zero truncation where the scheme is exact), after every operation of every history up to the depth bound
// VF-ASSUME: the harness polynomial class (evaluation, symbolic derivative, abs-polynomial bounds) is correct;; the wrapped harness function built on bpp::AbstractParametrizable/ParameterList/IntervalConstraint behaves as documented (those are C01/C02's subject);; floating-point arithmetic is IEEE double, rounding bound gamma_k with k = terms+7
// VF-TECHNIQUE: bounded-exhaustive history exploration of the real classes against an analytic reference model
// VF-BUDGET_QUICK: 300
// VF-BUDGET_THOROUGH: 2400
#include "vf.hpp"
#include "common.hpp"
#include <Bpp/Numeric/Function/TwoPointsNumericalDerivative.h>
#include <Bpp/Numeric/Function/ThreePointsNumericalDerivative.h>
#include <Bpp/Numeric/Function/FivePointsNumericalDerivative.h>
#include <Bpp/Numeric/AbstractParametrizable.h>
#include <Bpp/Numeric/Constraints.h>
#include <array>
#include <map>
#include <cmath>
#include <limits>
using namespace bpp;
using vf::str;
using vf::num;

static const double UR = 1.1102230246251565e-16; // unit roundoff 2^-53
static const double INF = std::numeric_limits<double>::infinity();
static const char* VN[3] = {"x", "y", "z"};
static const double LB[3] = {-1.0, 0.5, -INF}, UB[3] = {2.0, 3.0, INF}; // box of each variable (z unconstrained)
static const double X0[3] = {0.5, 1.25, 0.75};                          // initial point of the wrapped function
static const char* SCH[3] = {"TwoPoints", "ThreePoints", "FivePoints"};
typedef std::array<double, 3> Pt;

// ------------------------------------------------------------------ polynomials (reference)
struct Term { double c; int e[3]; };
struct Poly {
  int n = 1;
  std::vector<Term> t;
  mutable std::map<int, std::shared_ptr<Poly>> dc;
  // value: every term by repeated multiplication, summed in order. |fl(f)-f| <= gamma_{T+6} * absEval(|x|)
  double eval(const double* x) const {
    double s = 0;
    for (auto& m : t) { double p = m.c; for (int v = 0; v < 3; ++v) for (int k = 0; k < m.e[v]; ++k) p *= x[v]; s += p; }
    return s;
  }
  double absEval(const double* ax) const {
    double s = 0;
    for (auto& m : t) { double p = std::fabs(m.c); for (int v = 0; v < 3; ++v) for (int k = 0; k < m.e[v]; ++k) p *= ax[v]; s += p; }
    return s;
  }
  double gamma() const { double k = (double)t.size() + 7; return 1.01 * k * UR; }
  Poly d1(int v) const {
    Poly r; r.n = n;
    for (auto& m : t) if (m.e[v] > 0) { Term q = m; q.c *= m.e[v]; q.e[v]--; r.t.push_back(q); }
    return r;
  }
  // partial derivative of multi-order (a,b,c), memoised
  const Poly& D(int a, int b, int c) const {
    int key = a * 100 + b * 10 + c;
    auto it = dc.find(key);
    if (it != dc.end()) return *it->second;
    Poly r = *this; r.dc.clear();
    for (int k = 0; k < a; ++k) r = r.d1(0);
    for (int k = 0; k < b; ++k) r = r.d1(1);
    for (int k = 0; k < c; ++k) r = r.d1(2);
    auto sp = std::make_shared<Poly>(r);
    dc[key] = sp;
    return *sp;
  }
  const Poly& Dv(int v, int k) const { int o[3] = {0, 0, 0}; o[v] = k; return D(o[0], o[1], o[2]); }
  const Poly& Dvw(int v, int kv, int w, int kw) const { int o[3] = {0, 0, 0}; o[v] += kv; o[w] += kw; return D(o[0], o[1], o[2]); }
  std::string name() const {
    if (t.empty()) return "0";
    std::string s;
    for (auto& m : t) {
      std::string c = vf::str(m.c);
      if (!s.empty() && m.c >= 0) s += "+";
      s += c;
      for (int v = 0; v < 3; ++v) if (m.e[v]) { s += std::string("*") + VN[v]; if (m.e[v] > 1) s += "^" + str(m.e[v]); }
    }
    return s;
  }
};
static Term T_(double c, int a, int b, int d) { Term t; t.c = c; t.e[0] = a; t.e[1] = b; t.e[2] = d; return t; }
static Poly mk(int n, std::vector<Term> ts) { Poly p; p.n = n; p.t = ts; return p; }

// all monomials of total degree <= D in n variables, by total degree then lexicographic
static std::vector<Term> monomials(int n, int Dg) {
  std::vector<Term> r; const double cyc[3] = {1, -2, 3};
  for (int d = 0; d <= Dg; ++d)
    for (int a = d; a >= 0; --a) for (int b = d - a; b >= 0; --b) {
      int c = d - a - b;
      if (n < 3 && c) continue; if (n < 2 && b) continue;
      r.push_back(T_(cyc[r.size() % 3], a, b, c));
    }
  return r;
}
// E2 family for arity n
static std::vector<Poly> wideFamily(int n) {
  std::vector<Poly> f;
  std::vector<Term> ms = monomials(n, 5);
  for (auto& m : ms) f.push_back(mk(n, {m}));
  for (int d = 1; d <= 5; ++d) f.push_back(mk(n, monomials(n, d)));
  if (n >= 2) f.push_back(mk(n, {T_(1, 2, 1, 0), T_(3, 0, 2, 0)}));
  return f;
}
// E1 family for arity n (quick: the first 2/3/2 of them)
static std::vector<Poly> histFamilyAll(int n) {
  if (n == 1) return {mk(1, {T_(1, 2, 0, 0), T_(-2, 1, 0, 0)}), mk(1, {T_(1, 5, 0, 0), T_(-2, 2, 0, 0)}), mk(1, {T_(1, 1, 0, 0)}), mk(1, {T_(1, 3, 0, 0), T_(3, 0, 0, 0)})};
  if (n == 2) return {mk(2, {T_(1, 1, 1, 0)}), mk(2, {T_(1, 2, 1, 0), T_(3, 0, 2, 0)}), mk(2, {T_(1, 3, 2, 0), T_(-2, 1, 1, 0)}), mk(2, {T_(1, 0, 0, 0), T_(-2, 1, 0, 0), T_(3, 0, 1, 0)})};
  return {mk(3, {T_(1, 1, 1, 1)}), mk(3, {T_(1, 2, 1, 0), T_(1, 0, 2, 1), T_(-2, 1, 0, 1)}), mk(3, {T_(1, 1, 1, 0), T_(3, 0, 0, 2), T_(-2, 1, 0, 0)}), mk(3, {T_(1, 2, 1, 2), T_(3, 0, 1, 0)})};
}

static std::vector<Poly> histFamily(int n, bool all) {
  std::vector<Poly> f = histFamilyAll(n);
  if (!all) f.resize(n == 2 ? 3 : 2);
  return f;
}

// ------------------------------------------------------------------ harness-supplied wrapped function
// Follows the library's own idiom (Functions.h TestFunction, test/PolynomialFunction.h): AbstractParametrizable stores the
// parameters, setParameters = matchParametersValues, the value is computed when a parameter changes. Every evaluation point is recorded.
class PolyFn : public virtual FunctionInterface, public AbstractParametrizable {
public:
  const Poly* P; int n; double val_; std::vector<Pt> rec;
  PolyFn(const Poly* p) : AbstractParametrizable(""), P(p), n(p->n), val_(0), rec() {
    for (int v = 0; v < n; ++v) {
      std::shared_ptr<ConstraintInterface> ct;
      if (std::isfinite(LB[v])) ct = std::make_shared<IntervalConstraint>(LB[v], UB[v], true, true);
      addParameter_(new Parameter(VN[v], X0[v], ct));
    }
    fireParameterChanged(getParameters());
  }
  PolyFn* clone() const override { return new PolyFn(*this); }
  void setParameters(const ParameterList& pl) override { matchParametersValues(pl); }
  double getValue() const override { return val_; }
  void fireParameterChanged(const ParameterList&) override { Pt x = cur(); val_ = P->eval(x.data()); rec.push_back(x); }
  Pt cur() const { Pt x = {{0, 0, 0}}; for (int v = 0; v < n; ++v) x[v] = getParameter_((size_t)v).getValue(); return x; }
  int vidx(const std::string& s) const { for (int v = 0; v < n; ++v) if (s == VN[v]) return v; throw Exception("PolyFn: unknown variable " + s); }
  // analytic derivatives, always for the current point
  double an1(const std::string& a) const { Pt x = cur(); return P->Dv(vidx(a), 1).eval(x.data()); }
  double an2(const std::string& a, const std::string& b) const { Pt x = cur(); return P->Dvw(vidx(a), 1, vidx(b), 1).eval(x.data()); }
};
class PolyFnD1 : public PolyFn, public virtual FirstOrderDerivable {
public:
  bool en1;
  PolyFnD1(const Poly* p) : PolyFn(p), en1(true) {}
  PolyFnD1* clone() const override { return new PolyFnD1(*this); }
  void enableFirstOrderDerivatives(bool yn) override { en1 = yn; }
  bool enableFirstOrderDerivatives() const override { return en1; }
  double getFirstOrderDerivative(const std::string& v) const override { return an1(v); }
};
class PolyFnD2 : public PolyFn, public virtual SecondOrderDerivable {
public:
  bool en1, en2;
  PolyFnD2(const Poly* p) : PolyFn(p), en1(true), en2(true) {}
  PolyFnD2* clone() const override { return new PolyFnD2(*this); }
  void enableFirstOrderDerivatives(bool yn) override { en1 = yn; }
  bool enableFirstOrderDerivatives() const override { return en1; }
  double getFirstOrderDerivative(const std::string& v) const override { return an1(v); }
  void enableSecondOrderDerivatives(bool yn) override { en2 = yn; }
  bool enableSecondOrderDerivatives() const override { return en2; }
  double getSecondOrderDerivative(const std::string& v) const override { return an2(v, v); }
  double getSecondOrderDerivative(const std::string& v, const std::string& w) const override { return an2(v, w); }
};

// ------------------------------------------------------------------ operations
enum OpK { UPD, SELECT, INTERVAL, TOGGLE };
enum Entry { E_SETPARAMS = 0, E_SETALL, E_SETONE, E_SETVALUES, E_MATCH, E_F, E_LIVE_SET, E_LIVE_MATCH };
static const char* ENAME[8] = {"setParameters", "setAllParametersValues", "setParameterValue", "setParametersValues", "matchParametersValues", "f", "setParameters[the wrapped function's own live list]", "matchParametersValues[the wrapper's own live list]"};
struct OpDesc {
  OpK k; Entry e; int mask; double val[3]; std::vector<int> sel; double h; int flag;
  OpDesc() : k(UPD), e(E_SETPARAMS), mask(0), sel(), h(0), flag(0) { val[0] = val[1] = val[2] = 0; }
};
static std::string ptstr(int mask, const double* v) {
  std::string s = "{"; bool f = true;
  for (int i = 0; i < 3; ++i) if (mask & (1 << i)) { if (!f) s += ","; f = false; s += std::string(VN[i]) + "=" + num(v[i]); }
  return s + "}";
}
static std::string selstr(const std::vector<int>& s) { std::string r = "["; for (size_t i = 0; i < s.size(); ++i) { if (i) r += ","; r += VN[s[i]]; } return r + "]"; }
static std::string opstr(const OpDesc& o) {
  switch (o.k) {
    case UPD: return std::string("nd.") + ENAME[o.e] + "(" + (o.e == E_MATCH ? "+unknown w, " : "") + ptstr(o.mask, o.val) + ")";
    case SELECT: return "nd.setParametersToDerivate(" + selstr(o.sel) + ")";
    case INTERVAL: return "nd.setInterval(" + num(o.h) + ")";
    default: return std::string("nd.toggle ") + (o.flag == 0 ? "enableFirstOrderDerivatives" : o.flag == 1 ? "enableSecondOrderDerivatives" : "enableSecondOrderCrossDerivatives");
  }
}
static std::vector<std::vector<int>> orderedSubsets(int n, bool withEmpty) {
  std::vector<std::vector<int>> r; if (withEmpty) r.push_back({});
  for (int a = 0; a < n; ++a) r.push_back({a});
  for (int a = 0; a < n; ++a) for (int b = 0; b < n; ++b) if (a != b) r.push_back({a, b});
  if (n == 3) for (int a = 0; a < 3; ++a) for (int b = 0; b < 3; ++b) for (int c = 0; c < 3; ++c) if (a != b && a != c && b != c) r.push_back({a, b, c});
  return r;
}
// E1 values per variable
static std::vector<double> histValues(int n, int v) {
  if (n == 1) return {-1.0, -1.0 + 5e-7, 0.5, 2.0 - 5e-7, 2.0};
  if (n == 2) return v == 0 ? std::vector<double>{-1.0, 0.5, 2.0 - 5e-7} : std::vector<double>{0.5 + 5e-7, 1.25, 3.0};
  if (v == 0) return {-1.0, 0.5};
  if (v == 1) return {1.25, 3.0 - 5e-7};
  return {0.0, 0.75};
}
static std::vector<OpDesc> histAlphabet(int scheme, int n) {
  std::vector<OpDesc> A;
  std::vector<std::vector<double>> V; for (int v = 0; v < n; ++v) V.push_back(histValues(n, v));
  auto addLists = [&](Entry e, int onlyMask) {
    for (int mask = 1; mask < (1 << n); ++mask) {
      if (onlyMask && mask != onlyMask) continue;
      std::vector<int> radix; std::vector<int> vars;
      for (int v = 0; v < n; ++v) if (mask & (1 << v)) { vars.push_back(v); radix.push_back((int)V[v].size()); }
      uint64_t tot = 1; for (int r : radix) tot *= r;
      for (uint64_t i = 0; i < tot; ++i) {
        std::vector<int> d = vf::digits(i, radix);
        OpDesc o; o.k = UPD; o.e = e; o.mask = mask;
        for (size_t k = 0; k < vars.size(); ++k) o.val[vars[k]] = V[vars[k]][d[k]];
        A.push_back(o);
      }
    }
  };
  for (int v = 0; v < n; ++v) for (double x : V[v]) { OpDesc o; o.k = UPD; o.e = E_SETONE; o.mask = 1 << v; o.val[v] = x; A.push_back(o); }
  addLists(E_SETALL, (1 << n) - 1);
  addLists(E_SETPARAMS, 0); addLists(E_SETVALUES, 0); addLists(E_MATCH, 0); addLists(E_F, 0);
  // the usual idioms nd.setParameters(f->getParameters()) / nd.matchParametersValues(nd.getParameters()): the argument IS the list the probes
  // move; every value equals the current one, so the point does not change, the probes still run and must leave everything where it was
  { OpDesc o; o.k = UPD; o.e = E_LIVE_SET; o.mask = 0; A.push_back(o); o.e = E_LIVE_MATCH; A.push_back(o); }
  for (auto& s : orderedSubsets(n, true)) { OpDesc o; o.k = SELECT; o.sel = s; A.push_back(o); }
  for (double h : {1e-2, 1e-4, 1e-6}) { OpDesc o; o.k = INTERVAL; o.h = h; A.push_back(o); }
  int nflags = scheme == 0 ? 1 : scheme == 1 ? 3 : 2; // two-point offers no second order, five-point no cross derivatives
  for (int f = 0; f < nflags; ++f) { OpDesc o; o.k = TOGGLE; o.flag = f; A.push_back(o); }
  return A;
}

// ------------------------------------------------------------------ system = real wrapper + reference model
struct Sys : vf::SysBase {
  int scheme, n;
  const std::vector<Poly>* fam; const std::vector<OpDesc>* alpha; // E1 only
  bool configured = false, poisoned = false;
  int polyId = -1, kind = 0; const Poly* P = nullptr;
  std::shared_ptr<PolyFn> fn; FirstOrderDerivable* f1 = nullptr; SecondOrderDerivable* f2 = nullptr;
  std::unique_ptr<AbstractNumericalDerivative> nd;
  // reference model
  Pt pos; std::vector<int> sel; bool D1 = true, D2 = true, X = false; double h = 1e-4;
  bool everUpd = false;    // an update entry point has been used (wrapper getValue is defined)
  bool derCur = false;     // numeric derivatives were due at the last update and the selection has not changed since
  double hU = 0; bool D2U = false, XU = false, XnearU = false; int lastMask = 0; bool lastWasUpdate = false;
  // cached derivative values before the current update operation (read from the wrapper's arrays; only used to CLASSIFY a wrong value as
  // "not recomputed" vs "recomputed wrongly", never to decide whether it is wrong)
  double prev1[3], prev2[3], prevX[3][3];
  void snap() {
    double nan = std::numeric_limits<double>::quiet_NaN();
    for (int v = 0; v < 3; ++v) { prev1[v] = prev2[v] = nan; for (int w = 0; w < 3; ++w) prevX[v][w] = nan; }
    for (int v = 0; v < n; ++v) {
      auto it = nd->index_.find(VN[v]); if (it == nd->index_.end()) continue;
      if (it->second < nd->der1_.size()) prev1[v] = nd->der1_[it->second];
      if (it->second < nd->der2_.size()) prev2[v] = nd->der2_[it->second];
      for (int w = 0; w < n; ++w) { auto jt = nd->index_.find(VN[w]); if (jt == nd->index_.end()) continue;
        if (it->second < nd->crossDer2_.getNumberOfRows() && jt->second < nd->crossDer2_.getNumberOfColumns()) prevX[v][w] = nd->crossDer2_(it->second, jt->second); }
    }
  }

  Sys(int s, int nv, const std::vector<Poly>* f, const std::vector<OpDesc>* a) : scheme(s), n(nv), fam(f), alpha(a) { pos = {{0, 0, 0}}; }
  std::string S() const { return SCH[scheme]; }

  int nkinds() const { return scheme == 0 ? 2 : 3; } // the two-point wrapper has no constructor for second-order derivable functions
  void configure(const Poly* p, int k, int id) {
    if (scheme == 0 && k == 2) k = 1;
    P = p; kind = k; polyId = id; configured = true;
    if (kind == 0) {
      auto q = std::make_shared<PolyFn>(P); fn = q;
      std::shared_ptr<FunctionInterface> fi = q;
      if (scheme == 0) nd.reset(new TwoPointsNumericalDerivative(fi)); else if (scheme == 1) nd.reset(new ThreePointsNumericalDerivative(fi)); else nd.reset(new FivePointsNumericalDerivative(fi));
    } else if (kind == 1) {
      auto q = std::make_shared<PolyFnD1>(P); fn = q; f1 = q.get();
      std::shared_ptr<FirstOrderDerivable> fi = q;
      if (scheme == 0) nd.reset(new TwoPointsNumericalDerivative(fi)); else if (scheme == 1) nd.reset(new ThreePointsNumericalDerivative(fi)); else nd.reset(new FivePointsNumericalDerivative(fi));
    } else {
      auto q = std::make_shared<PolyFnD2>(P); fn = q; f1 = q.get(); f2 = q.get();
      std::shared_ptr<SecondOrderDerivable> fi = q;
      if (scheme == 1) nd.reset(new ThreePointsNumericalDerivative(fi)); else nd.reset(new FivePointsNumericalDerivative(fi));
    }
    for (int v = 0; v < n; ++v) pos[v] = X0[v];
    // initial configuration: all variables selected in natural order (typical use), library defaults otherwise
    std::vector<std::string> names; for (int v = 0; v < n; ++v) { names.push_back(VN[v]); sel.push_back(v); }
    nd->setParametersToDerivate(names);
  }
  int nconfig() const { return (int)fam->size() * nkinds(); }
  int nops() const { return std::max(nconfig(), (int)alpha->size()); }
  bool enabled(int op) { if (poisoned) return false; return configured ? op < (int)alpha->size() : op < nconfig(); }
  std::string opname(int op) const {
    if (!configured) {
      if (op >= nconfig()) return "-";
      static const char* kn[3] = {"plain function", "first-order derivable", "second-order derivable"};
      return "configure f=" + (*fam)[op / nkinds()].name() + " wrapped as " + kn[op % nkinds()] + " in " + S() + "NumericalDerivative, all variables selected";
    }
    if (op >= (int)alpha->size()) return "-";
    return opstr((*alpha)[op]);
  }
  bool inSel(int v) const { for (int s : sel) if (s == v) return true; return false; }

  std::string canon() const {
    if (!configured) return "unconfigured";
    std::string s = "cfg:" + str(polyId) + "/" + str(kind) + (poisoned ? "|POISONED" : "");
    Pt x = fn->cur();
    s += "|fn:" + num(x[0]) + "," + num(x[1]) + "," + num(x[2]) + ";v=" + num(fn->val_);
    if (f1) s += ";e1=" + str(f1->enableFirstOrderDerivatives()); if (f2) s += ";e2=" + str(f2->enableSecondOrderDerivatives());
    s += "|nd:h=" + num(nd->h_) + ";vars=";
    for (auto& v : nd->variables_) s += v + ",";
    s += ";idx="; for (auto& kv : nd->index_) s += kv.first + ":" + str(kv.second) + ",";
    s += ";d1=" + vf::vstr(nd->der1_) + ";d2=" + vf::vstr(nd->der2_) + ";x=";
    for (size_t i = 0; i < nd->crossDer2_.getNumberOfRows(); ++i) for (size_t j = 0; j < nd->crossDer2_.getNumberOfColumns(); ++j) s += num(nd->crossDer2_(i, j)) + ",";
    s += ";fl=" + str(nd->computeD1_) + str(nd->computeD2_) + str(nd->computeCrossD2_) + ";f=";
    if (scheme == 0) { auto* w = static_cast<TwoPointsNumericalDerivative*>(nd.get()); s += num(w->f1_) + "," + num(w->f2_); }
    else if (scheme == 1) { auto* w = static_cast<ThreePointsNumericalDerivative*>(nd.get()); s += num(w->f1_) + "," + num(w->f2_) + "," + num(w->f3_) + "," + num(w->f11_) + "," + num(w->f12_) + "," + num(w->f21_) + "," + num(w->f22_); }
    else { auto* w = static_cast<FivePointsNumericalDerivative*>(nd.get()); s += num(w->f1_) + "," + num(w->f2_) + "," + num(w->f3_) + "," + num(w->f4_) + "," + num(w->f5_); }
    s += "|model:pos=" + num(pos[0]) + "," + num(pos[1]) + "," + num(pos[2]) + ";sel=" + selstr(sel) + ";fl=" + str(D1) + str(D2) + str(X) + ";h=" + num(h)
         + ";upd=" + str(everUpd) + str(derCur) + ";hU=" + num(hU) + ";U=" + str(D2U) + str(XU) + str(XnearU) + ";lm=" + str(lastMask);
    return s;
  }

  // --- geometry of the probes (the code's step is (1+|x|)*interval; documented in the class headers as relative to x)
  double step(int v, double hh) const { return (1. + std::fabs(pos[v])) * hh; }
  bool nearBound(int v, double reach) const { return !((pos[v] - LB[v]) > reach * (1 + 1e-6) && (UB[v] - pos[v]) > reach * (1 + 1e-6)); }
  bool crossNear() const { for (int v : sel) if (nearBound(v, step(v, h))) return true; return false; }

  ParameterList makeList(const OpDesc& o) const {
    ParameterList pl;
    bool carrying = (o.e == E_SETPARAMS || o.e == E_SETALL); // lists cloned from the function's own parameters (carry the constraints) vs bare Parameter objects
    bool reversed = (o.e == E_SETVALUES || o.e == E_F);
    if (o.e == E_MATCH) pl.addParameter(Parameter("w", 7.0)); // a name the function does not know, first in the list
    for (int k = 0; k < n; ++k) {
      int v = reversed ? n - 1 - k : k;
      if (!(o.mask & (1 << v))) continue;
      if (carrying) { Parameter p(fn->getParameters()[(size_t)v]); p.setValue(o.val[v]); pl.addParameter(p); }
      else pl.addParameter(Parameter(VN[v], o.val[v]));
    }
    return pl;
  }

  void apply(int op, vf::Case& c) {
    if (!configured) { configure(&(*fam)[op / nkinds()], op % nkinds(), op); if (!c.muted) { audit(c, opname(op), false); c.nontrivial(); c.tag("configure"); } return; }
    applyDesc((*alpha)[op], c);
  }

  void applyDesc(const OpDesc& o, vf::Case& c) {
    std::string before = c.muted ? std::string() : canon();
    fn->rec.clear();
    lastWasUpdate = false;
    std::string on = c.muted ? std::string() : opstr(o);
    switch (o.k) {
      case SELECT: {
        std::vector<std::string> names; for (int v : o.sel) names.push_back(VN[v]);
        nd->setParametersToDerivate(names); sel = o.sel; derCur = false; break;
      }
      case INTERVAL: nd->setInterval(o.h); h = o.h; break;
      case TOGGLE:
        if (o.flag == 0) { D1 = !D1; nd->enableFirstOrderDerivatives(D1); }
        else if (o.flag == 1) { D2 = !D2; nd->enableSecondOrderDerivatives(D2); }
        else { X = !X; nd->enableSecondOrderCrossDerivatives(X); }
        break;
      case UPD: {
        ParameterList pl = makeList(o);
        if (!c.muted) snap();
        for (int v = 0; v < n; ++v) if (o.mask & (1 << v)) pos[v] = o.val[v];
        lastMask = (o.e == E_LIVE_SET || o.e == E_LIVE_MATCH) ? (1 << n) - 1 : o.mask; lastWasUpdate = true;
        bool raised = false; std::string what; double ret = 0;
        try {
          switch (o.e) {
            case E_SETPARAMS: nd->setParameters(pl); break;
            case E_SETALL: nd->setAllParametersValues(pl); break;
            case E_SETONE: { int v = 0; while (!(o.mask & (1 << v))) ++v; nd->setParameterValue(VN[v], o.val[v]); break; }
            case E_SETVALUES: nd->setParametersValues(pl); break;
            case E_MATCH: nd->matchParametersValues(pl); break;
            case E_F: ret = nd->f(pl); break;
            case E_LIVE_SET: nd->setParameters(fn->getParameters()); break;
            case E_LIVE_MATCH: nd->matchParametersValues(nd->getParameters()); break;
          }
        } catch (bpp::Exception& e) { raised = true; what = e.what(); }
        everUpd = true; hU = h; D2U = D2; XU = X;
        derCur = D1 && !sel.empty();
        // three-point cross derivatives at a constraint raise by design (not judged): the object is abandoned after that
        bool crossDue = (scheme == 1 && derCur && X && sel.size() >= 2);
        XnearU = crossDue && crossNear();
        if (raised) {
          if (XnearU) { poisoned = true; c.tag("cross-at-bound-raised-by-design"); return; }
          c.fail("update|raised-on-admissible-point|" + S(), ctx(on) + ": raised " + what);
          return;
        }
        if (!c.muted && o.e == E_F) {
          double want = P->eval(pos.data());
          if (ret != want) c.fail("transparency|f()-return-differs|" + S(), ctx(on) + ": f() returned " + num(ret) + ", polynomial there = " + num(want));
        }
        break;
      }
    }
    if (c.muted) return;
    audit(c, on, true);
    bool probed = false; for (auto& r : fn->rec) if (r != pos) probed = true;
    if (probed || canon() != before) c.nontrivial();
    c.tag(o.k == UPD ? std::string("update:") + ENAME[o.e] : o.k == SELECT ? "select" : o.k == INTERVAL ? "interval" : "toggle");
    if (o.k == UPD) c.tag(probed ? "update-with-probes" : "update-without-probes");
  }

  std::string ctx(const std::string& on) const {
    return S() + " f=" + P->name() + " kind=" + str(kind) + " sel=" + selstr(sel) + " interval=" + num(h) + " flags(D1,D2,X)=" + str(D1) + str(D2) + str(X) + " after " + on + ", requested point " + ptstr((1 << n) - 1, pos.data());
  }

  // ---- tolerances: |estimate - analytic| <= truncation + rounding, both derived from abs-polynomial bounds on the probe neighbourhood
  struct Bnd { double an, tol; bool near; };
  // neighbourhood |x_j| (+ reach on the probed coordinates)
  void nbhd(double* ax, int v, double rv, int w = -1, double rw = 0) const { for (int j = 0; j < 3; ++j) ax[j] = std::fabs(pos[j]); ax[v] += rv; if (w >= 0) ax[w] += rw; }
  Bnd bound1(int v) const {
    double s = step(v, hU), reach = scheme == 2 ? 2 * s : s; double ax[3]; nbhd(ax, v, reach);
    Bnd b; b.an = P->Dv(v, 1).eval(pos.data()); b.near = nearBound(v, reach);
    double M1 = P->Dv(v, 1).absEval(ax), M2 = P->Dv(v, 2).absEval(ax), M3 = P->Dv(v, 3).absEval(ax), M5 = P->Dv(v, 5).absEval(ax);
    double central = scheme == 0 ? 0.5 * s * M2            // (f(x+-s)-f(x))/(+-s): s/2 f''
                   : scheme == 1 ? s * s / 6 * M3          // (f(x+s)-f(x-s))/2s: s^2/6 f'''
                   : s * s * s * s / 30 * M5;              // five-point: s^4/30 f^(5)
    double oneSided = scheme == 1 ? s * M2                 // secant through x+-s/2, x+-s: f'(xi), |xi-x|<=s
                    : 0.5 * s * M2;                        // five-point fallback (f(x+-s)-f(x))/(+-s)
    double trunc = b.near ? std::max(central, oneSided) : central;
    double errF = P->gamma() * P->absEval(ax), dx = 2 * UR * ax[v];
    // at most two function values over a spacing >= s/2 (three-point fallback) resp. weights summing to <= 1.5/s: 4/s covers all
    double round = 4 * (errF + M1 * dx) / s + 8 * UR * std::fabs(b.an) + P->Dv(v, 1).gamma() * P->Dv(v, 1).absEval(ax);
    b.tol = trunc + round; return b;
  }
  Bnd bound2(int v) const {
    double s = step(v, hU), reach = scheme == 2 ? 2 * s : s; double ax[3]; nbhd(ax, v, reach);
    Bnd b; b.an = P->Dv(v, 2).eval(pos.data()); b.near = nearBound(v, reach);
    double M1 = P->Dv(v, 1).absEval(ax), M3 = P->Dv(v, 3).absEval(ax), M4 = P->Dv(v, 4).absEval(ax), M6 = P->Dv(v, 6).absEval(ax);
    double central = scheme == 1 ? s * s / 12 * M4 : s * s * s * s / 90 * M6;
    double oneSided = scheme == 1 ? s * M3                 // 2 f[x, x+-s/2, x+-s] = f''(xi), |xi-x| <= s
                    : 2 * s * M3;                          // second difference on x, x+-s, x+-2s = f''(xi), |xi-x| <= 2s
    double trunc = b.near ? std::max(central, oneSided) : central;
    double errF = P->gamma() * P->absEval(ax), dx = 2 * UR * ax[v];
    // weights: central three 4/s^2, three-point fallback (steps s, s/2) 24/s^2, five central 5.34/s^2, five fallback 4/s^2
    double round = 24 * (errF + M1 * dx) / (s * s) + 8 * UR * std::fabs(b.an) + P->Dv(v, 2).gamma() * P->Dv(v, 2).absEval(ax);
    b.tol = trunc + round; return b;
  }
  Bnd boundX(int v, int w) const {
    double sv = step(v, hU), sw = step(w, hU); double ax[3]; nbhd(ax, v, sv, w, sw);
    Bnd b; b.an = P->Dvw(v, 1, w, 1).eval(pos.data()); b.near = false;
    // ((f++ - f+-) - (f-+ - f--))/(4 sv sw) = sum over odd a,b of sv^(a-1) sw^(b-1)/(a! b!) d^a_v d^b_w f ; degree <= 5 leaves (3,1) and (1,3)
    double trunc = sv * sv / 6 * P->Dvw(v, 3, w, 1).absEval(ax) + sw * sw / 6 * P->Dvw(v, 1, w, 3).absEval(ax);
    double errF = P->gamma() * P->absEval(ax);
    double pert = P->Dv(v, 1).absEval(ax) * 2 * UR * ax[v] + P->Dv(w, 1).absEval(ax) * 2 * UR * ax[w];
    double round = 2 * (errF + pert) / (sv * sw) + 8 * UR * std::fabs(b.an) + P->Dvw(v, 1, w, 1).gamma() * P->Dvw(v, 1, w, 1).absEval(ax);
    b.tol = trunc + round; return b;
  }

  void judge(vf::Case& c, const std::string& what, const std::string& vars, bool absent, double prev, double got, const Bnd& b, const std::string& cx) {
    absent = absent && lastWasUpdate && (got == prev || (std::isnan(got) && std::isnan(prev))); // absent from the update list AND the cached value was left untouched
    if (std::fabs(got - b.an) <= b.tol) { c.tag(what + (b.near ? ":ok-next-to-bound" : ":ok-interior")); return; }
    std::string sig;
    if (!std::isfinite(got)) sig = what + "|not-finite" + (b.near ? "-next-to-bound" : "");
    else if (absent) sig = what + "|not-refreshed-for-variable-absent-from-update-list";
    else sig = what + (b.near ? "|differs-from-analytic-next-to-bound" : "|differs-from-analytic");
    c.fail(sig + "|" + S(), cx + ": " + what + "(" + vars + ") = " + num(got) + ", analytic " + num(b.an) + ", allowed error " + num(b.tol));
  }

  void audit(vf::Case& c, const std::string& on, bool afterOp) {
    std::string cx = ctx(on);
    Pt x = fn->cur();
    bool posok = (x == pos);
    double want = P->eval(pos.data());
    c.site("transparency queries");
    if (!posok) c.fail("transparency|wrapped-function-not-at-requested-point|" + S(), cx + ": wrapped function sits at " + ptstr((1 << n) - 1, x.data()));
    else {
      if (fn->getValue() != want) c.fail("transparency|wrapped-function-value-differs|" + S(), cx + ": wrapped getValue " + num(fn->getValue()) + " expected " + num(want));
      for (int v = 0; v < n; ++v) if (nd->getParameterValue(VN[v]) != pos[v]) c.fail("transparency|wrapper-parameter-differs|" + S(), cx + ": wrapper reports " + VN[v] + "=" + num(nd->getParameterValue(VN[v])));
      if (lastWasUpdate && !fn->rec.empty() && fn->rec.back() != pos) c.fail("transparency|last-evaluation-not-at-requested-point|" + S(), cx + ": last evaluation at " + ptstr((1 << n) - 1, fn->rec.back().data()));
    }
    if (everUpd) { double gv = nd->getValue(); if (gv != want) c.fail("transparency|wrapper-getValue-differs|" + S(), cx + ": wrapper getValue " + num(gv) + ", polynomial there " + num(want)); }
    if (lastWasUpdate) for (auto& r : fn->rec) for (int v = 0; v < n; ++v) if (r[v] < LB[v] || r[v] > UB[v]) c.fail("transparency|evaluated-outside-box|" + S(), cx);

    AbstractNumericalDerivative& A = *nd; // FivePoints hides the 1-argument getSecondOrderDerivative
    // queries that are documented/expected to raise are asked once per audit and order only (every bpp::Exception captures a backtrace: slow)
    bool una1 = false, una2 = false, unaX = false;
    for (int v = 0; v < n; ++v) {
      bool absent = !(lastMask & (1 << v));
      // first order
      {
        c.site("getFirstOrderDerivative");
        bool raised = false; double got = 0;
        bool numeric = D1 && inSel(v);
        if (!numeric && !f1) { if (una1) goto second; una1 = true; }
        try { got = A.getFirstOrderDerivative(VN[v]); } catch (bpp::Exception&) { raised = true; }
        if (D1 && inSel(v)) {
          if (raised) c.fail("d1|query-raised-for-selected-variable|" + S(), cx + ": variable " + VN[v]);
          else if (derCur) judge(c, "d1", VN[v], absent, prev1[v], got, bound1(v), cx);
        } else if (f1) {
          if (raised) c.fail("delegation|d1-raised-though-wrapped-function-provides-it|" + S(), cx + ": variable " + VN[v]);
          else if (got != fn->an1(VN[v])) c.fail("delegation|d1-differs-from-wrapped-function|" + S(), cx + ": variable " + VN[v] + " got " + num(got) + " wrapped function gives " + num(fn->an1(VN[v])));
          else if (posok) c.tag("d1:delegated");
        } else c.tag(raised ? "d1:unavailable-raised" : "d1:unavailable-returned");
      }
      // second order
      second:
      {
        c.site("getSecondOrderDerivative(1)");
        bool raised = false; double got = 0;
        bool numeric = scheme != 0 && D2 && inSel(v);
        if (!numeric && (!f2 || scheme == 0)) { if (una2) goto cross; una2 = true; }
        try { got = A.getSecondOrderDerivative(VN[v]); } catch (bpp::Exception&) { raised = true; }
        if (scheme == 0) c.tag(raised ? "d2:two-point-raises-as-documented" : "d2:two-point-returned");
        else if (D2 && inSel(v)) {
          if (raised) c.fail("d2|query-raised-for-selected-variable|" + S(), cx + ": variable " + VN[v]);
          else if (derCur && D2U) judge(c, "d2", VN[v], absent, prev2[v], got, bound2(v), cx);
        } else if (f2) {
          if (raised) c.fail("delegation|d2-raised-though-wrapped-function-provides-it|" + S(), cx + ": variable " + VN[v]);
          else if (got != fn->an2(VN[v], VN[v])) c.fail("delegation|d2-differs-from-wrapped-function|" + S(), cx + ": variable " + VN[v] + " got " + num(got));
          else if (posok) c.tag("d2:delegated");
        } else c.tag(raised ? "d2:unavailable-raised" : "d2:unavailable-returned");
      }
      // cross
      cross:
      for (int w = 0; w < n; ++w) {
        c.site("getSecondOrderDerivative(2)");
        bool raised = false; double got = 0;
        bool numeric = scheme == 1 && X && inSel(v) && inSel(w);
        if (!numeric && (!f2 || scheme != 1)) { if (unaX) continue; unaX = true; }
        try { got = A.getSecondOrderDerivative(VN[v], VN[w]); } catch (bpp::Exception&) { raised = true; }
        if (scheme != 1) { c.tag(raised ? "cross:not-offered-raises-as-documented" : "cross:not-offered-returned"); continue; }
        if (X && inSel(v) && inSel(w)) {
          if (raised) c.fail("cross|query-raised-for-selected-variables|" + S(), cx + ": variables " + VN[v] + "," + VN[w]);
          else if (derCur && XU && !XnearU && (v != w || D2U)) {
            bool ab = absent || !(lastMask & (1 << w));
            if (v == w) judge(c, "cross-diagonal", std::string(VN[v]) + "," + VN[w], ab, prevX[v][w], got, bound2(v), cx);
            else judge(c, "cross", std::string(VN[v]) + "," + VN[w], ab, prevX[v][w], got, boundX(v, w), cx);
          }
        } else if (f2) {
          if (raised) c.fail("delegation|cross-raised-though-wrapped-function-provides-it|" + S(), cx);
          else if (got != fn->an2(VN[v], VN[w])) c.fail("delegation|cross-differs-from-wrapped-function|" + S(), cx + ": variables " + VN[v] + "," + VN[w] + " got " + num(got));
          else if (posok) c.tag("cross:delegated");
        } else c.tag(raised ? "cross:unavailable-raised" : "cross:unavailable-returned");
      }
    }
    (void)afterOp;
  }
};

// ------------------------------------------------------------------ E2: one full update on a fresh wrapper, wide grid
struct Block { int n; uint64_t off, size; std::vector<int> radix; };
static std::vector<double> gridValues(int v, double h) {
  // 1e-9: a coordinate of tiny non-zero magnitude (a probe step taken relative to |x| alone collapses there)
  if (!std::isfinite(LB[v])) return {-1.5, 0.0, 0.75, 1e-9};
  std::vector<double> g = {LB[v], LB[v] + 0.5 * h, LB[v] + 1.5 * h, X0[v], UB[v] - 1.5 * h, UB[v] - 0.5 * h, UB[v]};
  if (LB[v] < 0 && UB[v] > 0) g.push_back(1e-9);
  return g;
}
// mode 0: setParameters x all variables selected; mode 1: setParameters x every ordered non-empty selection (interval 1e-4 only); mode 2: every entry point x all variables selected
static void single(vf::Runner& R, int scheme, int mode) {
  bool full = (mode == 2);
  static std::vector<Poly> FAM[4]; static std::vector<std::vector<int>> SELS[4];
  std::vector<Block> blocks; uint64_t total = 0;
  const double HS[3] = {1e-2, 1e-4, 1e-6};
  static const Entry ENT_FULL[6] = {E_SETPARAMS, E_SETALL, E_SETONE, E_SETVALUES, E_MATCH, E_F};
  int nent = full ? 6 : 1, nx = scheme == 1 ? 2 : 1;
  for (int n = 1; n <= 3; ++n) {
    FAM[n] = wideFamily(n);
    SELS[n].clear();
    if (mode == 1) SELS[n] = orderedSubsets(n, false);
    else { std::vector<int> s; for (int v = 0; v < n; ++v) s.push_back(v); SELS[n].push_back(s); }
    Block b; b.n = n; b.off = total;
    int npts = 1; for (int v = 0; v < n; ++v) npts *= (int)gridValues(v, 1e-2).size();
    b.radix = {npts, (int)SELS[n].size(), nent, nx, mode == 1 ? 1 : 3, (int)FAM[n].size()};
    b.size = vf::product(b.radix); total += b.size; blocks.push_back(b);
  }
  std::string name = std::string("single:") + SCH[scheme] + (mode == 2 ? ":entries6:all-selected" : mode == 1 ? ":setParameters:ordered-selections:h1e-4" : ":setParameters:all-selected") + ":polys<=deg5:n<=3:grid7+tiny";
  R.space(name, total, [=](uint64_t idx, vf::Case& c) {
    const Block* b = &blocks[0]; for (auto& bb : blocks) if (idx >= bb.off) b = &bb;
    std::vector<int> d = vf::digits(idx - b->off, b->radix);
    int n = b->n; double hh = mode == 1 ? 1e-4 : HS[d[4]]; const Poly* P = &FAM[n][d[5]];
    Sys sys(scheme, n, nullptr, nullptr);
    c.site("configure");
    sys.configure(P, 2, d[5]);
    vf::Case mc = c; vf::Out dummy; mc.out = &dummy; mc.muted = true;
    OpDesc o; o.k = INTERVAL; o.h = hh; sys.applyDesc(o, mc);
    OpDesc s; s.k = SELECT; s.sel = SELS[n][d[1]]; sys.applyDesc(s, mc);
    if (d[3]) { OpDesc t; t.k = TOGGLE; t.flag = 2; sys.applyDesc(t, mc); }
    OpDesc u; u.k = UPD; u.e = full ? ENT_FULL[d[2]] : E_SETPARAMS; u.mask = (1 << n) - 1;
    std::vector<int> pr; for (int v = 0; v < n; ++v) pr.push_back((int)gridValues(v, hh).size());
    std::vector<int> pd = vf::digits((uint64_t)d[0], pr);
    for (int v = 0; v < n; ++v) u.val[v] = gridValues(v, hh)[pd[v]];
    if (u.e == E_SETONE) {
      // set-one can only move one variable: bring the others to the point first (muted), then judge the set-one of the last variable
      OpDesc pre = u; pre.e = E_SETALL;
      u.mask = 1 << (n - 1);
      if (n > 1) {
        // the positioning update is judged too (into a scratch record): if it already violates the property the case ends here - that
        // violation is reported by the setAllParametersValues cases of this space, and what follows would only be its consequence
        pre.val[n - 1] = X0[n - 1];
        vf::Case pc = c; vf::Out scratch; pc.out = &scratch; pc.muted = false; pc.verbose = false; pc.failed = false;
        sys.applyDesc(pre, pc);
        if (sys.poisoned) { c.tag("cross-at-bound-raised-by-design"); return; }
        if (pc.failed) { c.tag("set-one:positioning-update-already-violates(reported-elsewhere)"); return; }
      }
    }
    c.site(ENAME[u.e]);
    sys.applyDesc(u, c);
    if (idx % 50021 == 11) c.sample(sys.ctx(opstr(u)));
  }, 5.0);
}

// ------------------------------------------------------------------ E1
static void hist(vf::Runner& R, int scheme, int n, int depth, bool allPolys) {
  static std::vector<Poly> FAM[4]; static std::vector<OpDesc> ALPHA[3][4];
  FAM[n] = histFamily(n, allPolys); ALPHA[scheme][n] = histAlphabet(scheme, n);
  const std::vector<Poly>* f = &FAM[n]; const std::vector<OpDesc>* a = &ALPHA[scheme][n];
  Sys proto(scheme, n, f, a);
  std::string name = std::string("hist:") + SCH[scheme] + ":n" + str(n) + ":polys" + str(f->size()) + "xkinds" + str(proto.nkinds()) + ":ops" + str(a->size()) + ":depth1+" + str(depth);
  R.explore(name, depth + 1, proto.nops(), [=]() { return std::unique_ptr<Sys>(new Sys(scheme, n, f, a)); }, 5.0);
}

int main(int argc, char** argv) {
  vf::Runner R(argc, argv, "C12");
  vfh::silence();
  bool th = R.thorough();
  for (int s = 0; s < 3; ++s) single(R, s, 0);
  for (int s = 0; s < 3; ++s) { hist(R, s, 1, th ? 5 : 4, th); hist(R, s, 2, 3, false); hist(R, s, 3, th ? 3 : 2, th); }
  if (th) for (int s = 0; s < 3; ++s) { single(R, s, 1); single(R, s, 2); }
  R.expectSeen("d1:ok-next-to-bound");
  R.expectSeen("d1:ok-interior");
  R.expectSeen("d2:ok-next-to-bound");
  R.expectSeen("d1:delegated");
  R.expectSeen("d2:delegated");
  R.expectSeen("cross:delegated");
  R.expectSeen("update-with-probes");
  R.note("the property is read as in DESIGN.md: after EVERY update entry point all selected variables' derivatives the scheme offers must be current at the requested point, whether or not the variable was in the update list");
  R.note("derivatives are judged only when due: an update entry point ran with first-order computation enabled and a non-empty selection, and setParametersToDerivate has not been called since; second order additionally needs second-order computation enabled at that update and now; cross derivatives only for the three-point scheme with cross computation enabled at that update");
  R.note("not judged (recorded in the histogram only): three-point cross derivatives when a selected variable is within one step of a bound (raises by design; the object is abandoned after the raise); second derivatives while first-order computation is disabled (the schemes compute nothing then); what a query returns when neither the wrapper nor the wrapped function offers the derivative; the return value of matchParametersValues");
  R.note("step in the tolerances is the code's (1+|x|)*interval; 'next to a bound' = closer than the scheme's reach (one step, two for five-point): there the one-sided order is accepted, everywhere else the central order is demanded");
  R.note("update lists: setParameters/setAllParametersValues use lists cloned from the function's parameters (carry the constraints), setParametersValues/f() bare Parameter lists in reversed order, matchParametersValues bare lists with an additional unknown name first");
  return R.finish();
}
