// C15 helper: independent reference algorithms (parent arrays, BFS, Kahn) and tree enumerators.
// Nothing in this file calls the library.
#pragma once
#include <vector>
#include <array>
#include <map>
#include <set>
#include <string>
#include <algorithm>
#include <cstdint>
#include "vf.hpp"

namespace c15 {

typedef std::array<int, 3> EdgeRec;   // {edge id, end point, end point} (orientation irrelevant)

// ---------- reference rooted tree: parent array obtained by BFS from the root over the undirected edge set ----------
struct RefTree {
  int n, root;
  std::vector<int> par, parEdge, depth;
  std::vector<std::vector<int>> kids;
  bool ok;   // the edge set is a spanning tree
  RefTree(int n_, const std::vector<EdgeRec>& edges, int r) : n(n_), root(r), par(n_, -2), parEdge(n_, -1), depth(n_, -1), kids(n_), ok(true) {
    std::vector<std::vector<std::pair<int, int>>> adj(n);
    for (auto& e : edges) { adj[e[1]].push_back({e[2], e[0]}); adj[e[2]].push_back({e[1], e[0]}); }
    std::vector<int> q; q.push_back(r); par[r] = -1; depth[r] = 0;
    for (size_t h = 0; h < q.size(); ++h) {
      int x = q[h];
      for (auto& p : adj[x]) if (par[p.first] == -2) { par[p.first] = x; parEdge[p.first] = p.second; depth[p.first] = depth[x] + 1; kids[x].push_back(p.first); q.push_back(p.first); }
    }
    if ((int)q.size() != n || (int)edges.size() != n - 1) ok = false;
  }
  bool isAnc(int a, int b) const { while (b != -1) { if (a == b) return true; b = par[b]; } return false; }   // a is b or above b
  int mrca(int a, int b) const {
    while (depth[a] > depth[b]) a = par[a];
    while (depth[b] > depth[a]) b = par[b];
    while (a != b) { a = par[a]; b = par[b]; }
    return a;
  }
  int mrca(const std::vector<int>& s) const { int m = s[0]; for (size_t i = 1; i < s.size(); ++i) m = mrca(m, s[i]); return m; }
  std::vector<int> path(int a, int b, bool includeAncestor) const {
    int m = mrca(a, b); std::vector<int> up, down;
    for (int x = a; x != m; x = par[x]) up.push_back(x);
    for (int x = b; x != m; x = par[x]) down.push_back(x);
    if (includeAncestor) up.push_back(m);
    up.insert(up.end(), down.rbegin(), down.rend());
    return up;
  }
  std::vector<int> edgePath(int a, int b) const {
    int m = mrca(a, b); std::vector<int> up, down;
    for (int x = a; x != m; x = par[x]) up.push_back(parEdge[x]);
    for (int x = b; x != m; x = par[x]) down.push_back(parEdge[x]);
    up.insert(up.end(), down.rbegin(), down.rend());
    return up;
  }
  std::vector<int> subtree(int x) const { std::vector<int> r; for (int y = 0; y < n; ++y) if (isAnc(x, y)) r.push_back(y); return r; }
  std::vector<int> leavesUnder(int x) const { std::vector<int> r; for (int y = 0; y < n; ++y) if (kids[y].empty() && isAnc(x, y)) r.push_back(y); return r; }
  std::vector<int> subtreeEdges(int x) const { std::vector<int> r; for (int y = 0; y < n; ++y) if (y != x && isAnc(x, y)) r.push_back(parEdge[y]); std::sort(r.begin(), r.end()); return r; }
  std::vector<int> sons(int x) const { std::vector<int> r = kids[x]; std::sort(r.begin(), r.end()); return r; }
  std::vector<int> branches(int x) const { std::vector<int> r; for (int k : kids[x]) r.push_back(parEdge[k]); std::sort(r.begin(), r.end()); return r; }
};

// ---------- a graph as read through the public getters ----------
struct GView {
  bool directed = true; unsigned root = 0;
  std::vector<unsigned> nodes;
  std::map<unsigned, std::vector<unsigned>> out, in;
  bool has(unsigned x) const { return out.count(x) != 0; }
  size_t arcs() const { size_t a = 0; for (auto& kv : out) a += kv.second.size(); return directed ? a : a / 2; }
  std::string str() const {
    std::string s = directed ? "directed" : "undirected"; s += " root=" + vf::str(root) + " nodes={";
    for (auto x : nodes) s += vf::str(x) + " "; s += "} arcs={";
    for (auto& kv : out) for (auto y : kv.second) if (directed || kv.first < y) s += vf::str(kv.first) + (directed ? ">" : "-") + vf::str(y) + " ";
    return s + "}";
  }
};

// definition: the graph is a tree spanning all nodes from the root <=> the root exists, there are n-1 arcs (edges) and every node is
// reachable from the root along arcs (edges). For a directed graph this is exactly "arborescence rooted at root".
inline bool refIsTree(const GView& g) {
  if (g.nodes.empty() || !g.has(g.root)) return false;
  if (g.arcs() != g.nodes.size() - 1) return false;
  std::set<unsigned> seen; std::vector<unsigned> q; q.push_back(g.root); seen.insert(g.root);
  for (size_t h = 0; h < q.size(); ++h) for (auto y : g.out.at(q[h])) if (seen.insert(y).second) q.push_back(y);
  return seen.size() == g.nodes.size();
}
// definition: acyclic <=> Kahn's algorithm removes every node
inline bool refIsDag(const GView& g) {
  std::map<unsigned, int> indeg; for (auto x : g.nodes) indeg[x] = 0;
  for (auto& kv : g.out) for (auto y : kv.second) indeg[y]++;
  std::vector<unsigned> q; for (auto& kv : indeg) if (kv.second == 0) q.push_back(kv.first);
  size_t removed = 0;
  for (size_t h = 0; h < q.size(); ++h) { ++removed; for (auto y : g.out.at(q[h])) if (--indeg[y] == 0) q.push_back(y); }
  return removed == g.nodes.size();
}
inline int fatherless(const GView& g) { int k = 0; for (auto x : g.nodes) if (g.in.at(x).empty()) ++k; return k; }

// ---------- tree enumerators (parent arrays rooted at node 0) ----------
inline uint64_t ipow(uint64_t b, int e) { uint64_t r = 1; while (e-- > 0) r *= b; return r; }
inline uint64_t nRecursive(int n) { uint64_t f = 1; for (int i = 2; i < n; ++i) f *= (uint64_t)i; return f; }   // (n-1)!
inline std::vector<int> recursiveTree(int n, uint64_t t) {   // par[i] < i ; t = 0 is the star
  std::vector<int> par(n, -1);
  for (int i = 1; i < n; ++i) { par[i] = (int)(t % (uint64_t)i); t /= (uint64_t)i; }
  return par;
}
inline uint64_t nLabelled(int n) { return n <= 2 ? 1 : ipow((uint64_t)n, n - 2); }                              // Cayley
inline std::vector<int> labelledTree(int n, uint64_t t) {   // Pruefer decoding, then oriented away from node 0
  std::vector<int> par(n, -1);
  if (n == 1) return par;
  std::vector<std::pair<int, int>> ed;
  if (n == 2) ed.push_back({0, 1});
  else {
    std::vector<int> seq(n - 2), deg(n, 1);
    for (int i = 0; i < n - 2; ++i) { seq[i] = (int)(t % (uint64_t)n); t /= (uint64_t)n; deg[seq[i]]++; }
    for (int i = 0; i < n - 2; ++i) {
      int leaf = 0; while (deg[leaf] != 1) ++leaf;
      ed.push_back({leaf, seq[i]}); deg[leaf]--; deg[seq[i]]--;
    }
    int a = -1, b = -1; for (int x = 0; x < n; ++x) if (deg[x] == 1) { if (a < 0) a = x; else b = x; }
    ed.push_back({a, b});
  }
  std::vector<std::vector<int>> adj(n); for (auto& e : ed) { adj[e.first].push_back(e.second); adj[e.second].push_back(e.first); }
  std::vector<int> q; q.push_back(0); std::vector<char> seen(n, 0); seen[0] = 1;
  for (size_t h = 0; h < q.size(); ++h) for (int y : adj[q[h]]) if (!seen[y]) { seen[y] = 1; par[y] = q[h]; q.push_back(y); }
  return par;
}
// structured families for larger trees; lab = 1 relabels node i >= 1 as n - i (non-monotone labels)
inline std::vector<int> familyTree(int fam, int n, int lab) {
  std::vector<int> par(n, -1);
  int k = (n + 1) / 2;
  for (int i = 1; i < n; ++i) switch (fam) {
      case 0: par[i] = i - 1; break;                                        // path
      case 1: par[i] = 0; break;                                            // star
      case 2: par[i] = i < k ? i - 1 : i - k; break;                        // caterpillar: spine 0..k-1, one leaf per spine node
      case 3: par[i] = (i - 1) / 2; break;                                  // balanced binary (heap order)
      case 4: par[i] = (i % 2) ? i - 1 : i - 2; break;                      // comb: even ids form the spine, odd ids are leaves
      default: par[i] = i < k ? i - 1 : k - 1; break;                       // broom: handle 0..k-1, bristles on k-1
    }
  if (!lab) return par;
  std::vector<int> p2(n, -1);
  auto rl = [n](int i) { return i == 0 ? 0 : n - i; };
  for (int i = 1; i < n; ++i) p2[rl(i)] = rl(par[i]);
  return p2;
}
inline const char* familyName(int fam) { static const char* nm[] = {"path", "star", "caterpillar", "balanced-binary", "comb", "broom"}; return nm[fam]; }

inline std::string parStr(const std::vector<int>& par) { std::string s = "parents=["; for (size_t i = 0; i < par.size(); ++i) s += (i ? "," : "") + vf::str(par[i]); return s + "]"; }
template<class T> std::string lst(const std::vector<T>& v) { std::string s = "["; for (size_t i = 0; i < v.size(); ++i) s += (i ? "," : "") + vf::str(v[i]); return s + "]"; }

} // namespace c15
