// C01 — a constrained parameter never holds a value its constraint rejects
// VF-VARIANT: san
// VF-RULE: E2: every interval over the bound alphabet x open/closed flags x every order-type representative test point (membership, emptiness, includes, accepted limit), every ordered pair of intervals (intersection, both operators), every string of the documented bracket grammar over a number alphabet, every (interval, start, request) triple for the auto-correcting parameter. E1: breadth-first closure over all histories of construct/copy/assign/setValue/setConstraint/removeConstraint/setPrecision on two stand-alone parameters, of list-level updates on a two-entry ParameterList, of owner-level updates on an AbstractParametrizable, and of an AutoParameter. Non-trivial: the interval is non-empty and the test point is one of its bounds or adjacent to one (E2); the transition changed the canonical state or raised (E1).
// VF-BOUND: bounds from {-inf,-1,0,1,2,+inf} (thorough adds +-1e3, 1e-9, -1e-9); test points = every bound, +-2^-20 around it, every midpoint, one point beyond each end, i.e. one representative of every order type of {bounds, value}; values {-1,0,0.5,1,2}; "random reals |x|<=1e3" are replaced by these representatives (complete for membership logic, not for rounding effects at other magnitudes)
// VF-LEVEL: Exhaustive over order types for the interval algebra (complete for all reals with bounds in the alphabet because every predicate is constant on an order type); explicit-state closure (all histories of any length over the alphabet) for the update protocol on the real Parameter/ParameterList/AbstractParametrizable/AutoParameter objects with a lock-step reference model.
// VF-ASSUME: ASan/UBSan/libstdc++ assertions are sound detectors;; the reference semantics in this file (textbook interval membership; validate-then-write updates; updates within precision/2 are silent no-ops as documented) state the property;; interval bounds outside the alphabet behave like their order type
// VF-TECHNIQUE: explicit-state model checking of operation histories on the real objects (BFS to closure, canonical-state de-duplication) + exhaustive order-type enumeration
#include "vf.hpp"
#include "common.hpp"
#include <Bpp/Numeric/Parameter.h>
#include <Bpp/Numeric/AutoParameter.h>
#include <Bpp/Numeric/ParameterList.h>
#include <Bpp/Numeric/AbstractParametrizable.h>
#include <Bpp/Numeric/Constraints.h>
#include <limits>
using namespace bpp;
using vf::str; using vf::num;

static const double INF = std::numeric_limits<double>::infinity();

// ---------------- reference interval ----------------
struct RI { double lb, ub; bool il, iu;
  bool has(double v) const { return (il ? v >= lb : v > lb) && (iu ? v <= ub : v < ub); }
  bool empty() const { return lb > ub || (lb == ub && !(il && iu)); }   // no real accepted (equal infinite bounds excluded from the alphabet)
  std::string s() const { return std::string(il ? "[" : "]") + num(lb) + ";" + num(ub) + (iu ? "]" : "["); }
};
static std::vector<double> boundAlphabet(bool th) {
  std::vector<double> b = {-INF, -1, 0, 1, 2, INF};
  if (th) { b.push_back(-1e3); b.push_back(1e3); b.push_back(1e-9); b.push_back(-1e-9); }
  std::sort(b.begin(), b.end()); return b;
}
static std::vector<RI> intervals(bool th) {
  std::vector<RI> r; auto B = boundAlphabet(th);
  for (double lb : B) for (double ub : B) { if (lb == ub && std::isinf(lb)) continue; for (int f = 0; f < 4; ++f) r.push_back({lb, ub, (f & 1) != 0, (f & 2) != 0}); }
  // simplest first: finite closed unit-ish intervals first is not needed; keep lexicographic
  return r;
}
static std::vector<double> testPoints(bool th) {
  auto B = boundAlphabet(th); std::vector<double> fin; for (double b : B) if (std::isfinite(b)) fin.push_back(b);
  std::set<double> s; const double d = 1.0 / (1 << 20);
  for (size_t i = 0; i < fin.size(); ++i) {
    s.insert(fin[i]); double dd = std::max(d * std::fabs(fin[i]), fin[i] == 0 ? 1e-12 : std::min(d, std::fabs(fin[i]) / 4));
    s.insert(fin[i] - dd); s.insert(fin[i] + dd);
    if (i + 1 < fin.size()) s.insert((fin[i] + fin[i + 1]) / 2);
  }
  s.insert(fin.front() - 1); s.insert(fin.back() + 1);
  return std::vector<double>(s.begin(), s.end());
}
static std::shared_ptr<IntervalConstraint> mk(const RI& r, double prec = 1e-12) { return std::make_shared<IntervalConstraint>(r.lb, r.ub, r.il, r.iu, prec); }

// ---------------- E1 systems ----------------
static const double VALS[] = {-1, 0, 0.5, 1, 2};
static const int NV = 5;
struct Pool {
  std::vector<std::shared_ptr<IntervalConstraint>> k; std::vector<RI> r;
  Pool() { RI a[] = {{0, 1, true, true}, {0, INF, false, false}, {1, 2, true, true}, {-1, 0.5, true, false}}; for (auto& x : a) { r.push_back(x); k.push_back(mk(x)); } }
  int idOf(const std::shared_ptr<const ConstraintInterface>& c) const { if (!c) return -1; for (size_t i = 0; i < k.size(); ++i) if (k[i].get() == c.get()) return (int)i; return 99; }
  std::shared_ptr<ConstraintInterface> get(int id) const { return id < 0 ? nullptr : k[(size_t)id]; }
  bool accepts(int id, double v) const { return id < 0 || r[(size_t)id].has(v); }
};
static const int NC = 5; // -1..3  (index 0 = none)
struct MP { double v; double prec; int c; };

static std::string pcanon(const Parameter& p, const Pool& pool) {
  std::string s = p.getName() + "=" + num(p.getValue()) + "/prec" + num(p.getPrecision()) + "/c";
  int id = pool.idOf(p.getConstraint()); s += str(id);
  if (id == 99) s += "{" + p.getConstraint()->getDescription() + "}";
  return s + "/l" + str(p.listeners_.size());
}
// the invariant of the property, on the real object with the reference membership
static void inv(const Parameter& p, const Pool& pool, vf::Case& c, const std::string& ctx) {
  int id = pool.idOf(p.getConstraint());
  if (id == 99) { c.fail("inv|unknown-constraint-object", ctx + ": " + pcanon(p, pool)); return; }
  if (!pool.accepts(id, p.getValue())) c.fail("inv|stored-value-rejected-by-constraint", ctx + ": parameter " + pcanon(p, pool) + " holds a value its constraint " + pool.r[(size_t)id].s() + " rejects");
  if (id >= 0 && !p.getConstraint()->isCorrect(p.getValue())) c.fail("inv|stored-value-rejected-by-own-isCorrect", ctx + ": " + pcanon(p, pool));
}
static void agree(const Parameter& p, const MP& m, const Pool& pool, vf::Case& c, const std::string& ctx) {
  if (p.getValue() != m.v || pool.idOf(p.getConstraint()) != m.c || p.getPrecision() != m.prec)
    c.fail("model|state-differs", ctx + ": real " + pcanon(p, pool) + " model v=" + num(m.v) + " c=" + str(m.c) + " prec=" + num(m.prec));
}
// expected outcome of a value write in the model: 0 ok/no-op, 1 must raise ConstraintException
static int mset(MP& m, double v, const Pool& pool) {
  if (!(std::fabs(v - m.v) > m.prec / 2)) return 0;            // silent no-op within precision/2 (documented)
  if (!pool.accepts(m.c, v)) return 1;
  m.v = v; return 0;
}
// run f, classify; expectRaise: 0 must not raise, 1 must raise ConstraintException
template<class F> static bool runExpect(F f, int expectRaise, vf::Case& c, const std::string& part, const std::string& ctx) {
  std::string got;
  try { f(); got = "ok"; }
  catch (ConstraintException&) { got = "ConstraintException"; }
  catch (Exception& e) { got = std::string("bpp::Exception:") + e.what(); }
  catch (std::exception& e) { got = std::string("std::exception:") + e.what(); }
  c.tag(part + "->" + (got.size() > 22 ? got.substr(0, 22) : got));
  if (expectRaise == 0 && got != "ok") { c.fail(part + "|raised-on-acceptable-update", ctx + ": raised " + got); return false; }
  if (expectRaise == 1 && got == "ok") { c.fail(part + "|rejected-update-did-not-raise", ctx + ": returned normally"); return false; }
  if (expectRaise == 1 && got != "ConstraintException") { c.fail(part + "|wrong-exception-class", ctx + ": raised " + got + " instead of ConstraintException"); return false; }
  return true;
}

// S1: two stand-alone parameters
struct S1 : vf::SysBase {
  Pool pool; std::unique_ptr<Parameter> P[2]; MP M[2];
  S1() { for (int i = 0; i < 2; ++i) { P[i].reset(new Parameter("x", 0.5)); M[i] = {0.5, 0, -1}; } }
  // ops: construct X(v,c,prec): 2*5*5*2=100 | copy-construct X from Y: 2 | assign X=Y: 2 | setValue: 10 | setConstraint: 10 | removeConstraint 2 | setPrecision 4
  enum { N_CT = 100, N_CP = 2, N_AS = 2, N_SV = 10, N_SC = 10, N_RC = 2, N_SP = 4 };
  static int nops() { return N_CT + N_CP + N_AS + N_SV + N_SC + N_RC + N_SP; }
  std::string opname(int op) const {
    const char* X[] = {"P", "Q"};
    if (op < N_CT) { int x = op / 50, r = op % 50; return std::string(X[x]) + " = Parameter(\"x\"," + num(VALS[r / 10]) + ",c" + str((r / 2) % 5 - 1) + ",prec=" + str(r % 2) + ")"; } op -= N_CT;
    if (op < N_CP) return std::string(X[op]) + " = copy-construct(" + X[1 - op] + ")"; op -= N_CP;
    if (op < N_AS) return std::string(X[op]) + " = " + X[1 - op] + " (assign)"; op -= N_AS;
    if (op < N_SV) return std::string(X[op / 5]) + ".setValue(" + num(VALS[op % 5]) + ")"; op -= N_SV;
    if (op < N_SC) return std::string(X[op / 5]) + ".setConstraint(c" + str(op % 5 - 1) + ")"; op -= N_SC;
    if (op < N_RC) return std::string(X[op]) + ".removeConstraint()"; op -= N_RC;
    return std::string(X[op / 2]) + ".setPrecision(" + str(op % 2) + ")";
  }
  std::string canon() const { return pcanon(*P[0], pool) + " | " + pcanon(*P[1], pool); }
  void apply(int op, vf::Case& c) {
    std::string on = c.muted ? "" : opname(op); std::string before = c.muted ? "" : canon();
    int o = op;
    if (o < N_CT) {
      int x = o / 50, r = o % 50; double v = VALS[r / 10]; int cid = (r / 2) % 5 - 1; double prec = r % 2;
      bool rej = !pool.accepts(cid, v);
      std::unique_ptr<Parameter> np;
      runExpect([&] { np.reset(new Parameter("x", v, pool.get(cid), prec)); }, rej ? 1 : 0, c, "ctor", on);
      if (np) { if (!c.muted) inv(*np, pool, c, on + " (freshly constructed)"); if (!rej) { P[x] = std::move(np); M[x] = {v, prec, cid}; } else if (!c.muted && c.failed) { /* keep old */ } }
    } else if ((o -= N_CT) < N_CP) { P[o].reset(new Parameter(*P[1 - o])); M[o] = M[1 - o]; }
    else if ((o -= N_CP) < N_AS) { *P[o] = *P[1 - o]; M[o] = M[1 - o]; }
    else if ((o -= N_AS) < N_SV) { int x = o / 5; double v = VALS[o % 5]; MP m2 = M[x]; int e = mset(m2, v, pool); runExpect([&] { P[x]->setValue(v); }, e, c, "setValue", on); M[x] = m2; }
    else if ((o -= N_SV) < N_SC) { int x = o / 5, cid = o % 5 - 1; int e = pool.accepts(cid, M[x].v) ? 0 : 1; runExpect([&] { P[x]->setConstraint(pool.get(cid)); }, e, c, "setConstraint", on); if (!e) M[x].c = cid; }
    else if ((o -= N_SC) < N_RC) { auto old = P[o]->removeConstraint(); if (!c.muted && pool.idOf(old) != M[o].c) c.fail("removeConstraint|returned-constraint", on); M[o].c = -1; }
    else { o -= N_RC; P[o / 2]->setPrecision(o % 2); M[o / 2].prec = o % 2; }
    if (c.muted) return;
    for (int i = 0; i < 2; ++i) { inv(*P[i], pool, c, on); agree(*P[i], M[i], pool, c, on); }
    if (canon() != before) c.nontrivial();
  }
};

// sources for bulk updates: every assignment of {absent, v in VALS} to names a,b (not both absent), plus an unknown name z
struct Src { int a, b; bool z; };  // -1 absent else index in VALS
static std::vector<Src> sources() { std::vector<Src> s; for (int z = 0; z < 2; ++z) for (int a = -1; a < NV; ++a) for (int b = -1; b < NV; ++b) { if (a < 0 && b < 0 && !z) continue; s.push_back({a, b, z != 0}); } return s; }
static ParameterList mkSrc(const Src& s, bool bFirst) {
  ParameterList pl;
  if (bFirst && s.b >= 0) pl.addParameter(Parameter("b", VALS[s.b]));
  if (s.a >= 0) pl.addParameter(Parameter("a", VALS[s.a]));
  if (!bFirst && s.b >= 0) pl.addParameter(Parameter("b", VALS[s.b]));
  if (s.z) pl.addParameter(Parameter("z", 7));
  return pl;
}
static std::string srcName(const Src& s) { return std::string("{") + (s.a >= 0 ? "a=" + num(VALS[s.a]) + " " : "") + (s.b >= 0 ? "b=" + num(VALS[s.b]) + " " : "") + (s.z ? "z=7 " : "") + "}"; }

struct Owner : public AbstractParametrizable {
  std::vector<std::string> fired;
  Owner() : AbstractParametrizable("") { addParameter_(new Parameter("a", 0.5)); addParameter_(new Parameter("b", 0.5)); }
  Owner* clone() const override { return new Owner(*this); }
  void fireParameterChanged(const ParameterList& pl) override { fired = pl.getParameterNames(); }
};

// S2 (OWNER=false): a two-entry ParameterList; S3 (OWNER=true): an AbstractParametrizable owning a,b
template<bool OWNER> struct S23 : vf::SysBase {
  Pool pool; ParameterList L; Owner O; MP M[2]; std::vector<Src> src;
  S23() : src(sources()) { L.addParameter(Parameter("a", 0.5)); L.addParameter(Parameter("b", 0.5)); M[0] = M[1] = {0.5, 0, -1}; }
  ParameterList& list() { return OWNER ? O.getParameters_() : L; }
  const ParameterList& list() const { return OWNER ? O.getParameters() : L; }
  int ns() const { return (int)src.size(); }
  // ops: setParameterValue 10 | setParametersValues ns*2 (two source orders) | matchParametersValues ns*2 | setAllParametersValues ns | includeParameters ns (list only)
  //      | setConstraint 10 | removeConstraint 2 | direct member setValue 10 (list only) | setParameters / matchParameters with constrained single-entry sources (list only)
  int nops() const { return 10 + 2 * ns() + 2 * ns() + ns() + ns() + 10 + 2 + 10 + 2 * 2 * NV * NC; }
  struct Dec { int kind, i, j; };
  Dec dec(int op) const {
    if (op < 10) return {0, op, 0}; op -= 10;
    if (op < 2 * ns()) return {1, op / 2, op % 2}; op -= 2 * ns();
    if (op < 2 * ns()) return {2, op / 2, op % 2}; op -= 2 * ns();
    if (op < ns()) return {3, op, 0}; op -= ns();
    if (op < ns()) return {4, op, 0}; op -= ns();
    if (op < 10) return {5, op, 0}; op -= 10;
    if (op < 2) return {6, op, 0}; op -= 2;
    if (op < 10) return {7, op, 0}; op -= 10;
    return {8 + op / (2 * NV * NC), (op % (2 * NV * NC)) / (NV * NC), op % (NV * NC)};
  }
  bool enabled(int op) { Dec d = dec(op); if (OWNER && (d.kind == 4 || d.kind == 7 || d.kind >= 8)) return false;
    if (d.kind >= 8) { double v = VALS[d.j / NC]; int cid = d.j % NC - 1; return pool.accepts(cid, v); } return true; }
  std::string opname(int op) const {
    Dec d = dec(op); const char* nm[] = {"a", "b"}; std::string pre = OWNER ? "owner." : "list.";
    switch (d.kind) {
      case 0: return pre + "setParameterValue(" + nm[d.i / 5] + "," + num(VALS[d.i % 5]) + ")";
      case 1: return pre + "setParametersValues(" + srcName(src[(size_t)d.i]) + (d.j ? " b-first" : "") + ")";
      case 2: return pre + "matchParametersValues(" + srcName(src[(size_t)d.i]) + (d.j ? " b-first" : "") + ")";
      case 3: return pre + "setAllParametersValues(" + srcName(src[(size_t)d.i]) + ")";
      case 4: return pre + "includeParameters(" + srcName(src[(size_t)d.i]) + ")";
      case 5: return pre + "setConstraint(" + nm[d.i / 5] + ",c" + str(d.i % 5 - 1) + ")";
      case 6: return pre + "removeConstraint(" + std::string(nm[d.i]) + ")";
      case 7: return pre + "parameter(" + nm[d.i / 5] + ").setValue(" + num(VALS[d.i % 5]) + ")";
      default: return pre + (d.kind == 8 ? "setParameters" : "matchParameters") + "({" + nm[d.i] + "=" + num(VALS[d.j / NC]) + " with c" + str(d.j % NC - 1) + "})";
    }
  }
  std::string canon() const { return pcanon(list()[0], pool) + " | " + pcanon(list()[1], pool) + " | n=" + str(list().size()); }
  void apply(int op, vf::Case& c) {
    std::string on = c.muted ? "" : opname(op); std::string before = c.muted ? "" : canon();
    Dec d = dec(op); const char* nm[] = {"a", "b"};
    switch (d.kind) {
      case 0: case 7: { int x = d.i / 5; double v = VALS[d.i % 5]; MP m2 = M[x]; int e = mset(m2, v, pool);
        runExpect([&] { if (d.kind == 7) list().parameter(nm[x]).setValue(v); else if (OWNER) O.setParameterValue(nm[x], v); else L.setParameterValue(nm[x], v); }, e, c, d.kind == 7 ? "member.setValue" : "setParameterValue", on);
        M[x] = m2; break; }
      case 1: case 2: case 3: {
        const Src& s = src[(size_t)d.i]; ParameterList pl = mkSrc(s, d.j != 0);
        // reference: validate every matching entry first; any rejection => ConstraintException and nothing changes. setAll: every target must be named.
        bool missing = d.kind == 3 && (s.a < 0 || s.b < 0);
        bool rej = (s.a >= 0 && !pool.accepts(M[0].c, VALS[s.a])) || (s.b >= 0 && !pool.accepts(M[1].c, VALS[s.b]));
        std::string got;
        bool ret = false; std::vector<size_t> upd;
        try { if (d.kind == 1) { if (OWNER) O.setParametersValues(pl); else L.setParametersValues(pl); }
              else if (d.kind == 2) { if (OWNER) ret = O.matchParametersValues(pl); else ret = L.matchParametersValues(pl, &upd); }
              else { if (OWNER) O.setAllParametersValues(pl); else L.setAllParametersValues(pl); } got = "ok"; }
        catch (ConstraintException&) { got = "ConstraintException"; }
        catch (ParameterNotFoundException&) { got = "ParameterNotFoundException"; }
        catch (Exception& e) { got = std::string("bpp::Exception:") + e.what(); }
        const char* part = d.kind == 1 ? "setParametersValues" : d.kind == 2 ? "matchParametersValues" : "setAllParametersValues";
        c.tag(std::string(part) + "->" + got.substr(0, 26));
        if (missing) {
          // a target not named by the source: the documented outcome is ParameterNotFoundException; state must be unchanged either way (no verdict on which exception wins when a value is also rejected)
          if (got == "ok") c.fail(std::string(part) + "|missing-name-did-not-raise", on);
        } else if (rej) {
          if (got != "ConstraintException") c.fail(std::string(part) + "|rejected-update-did-not-raise-ConstraintException", on + ": got " + got);
        } else {
          if (got != "ok") c.fail(std::string(part) + "|raised-on-acceptable-update", on + ": got " + got);
          else { bool ch = false; if (s.a >= 0) { ch |= (M[0].v != VALS[s.a]); M[0].v = VALS[s.a]; } if (s.b >= 0) { ch |= (M[1].v != VALS[s.b]); M[1].v = VALS[s.b]; }
            if (d.kind == 2 && ret != ch && !c.muted) c.fail("matchParametersValues|changed-flag", on + ": returned " + str(ret) + " expected " + str(ch)); }
        }
        break; }
      case 4: { const Src& s = src[(size_t)d.i]; ParameterList pl = mkSrc(s, false);
        // include: sequential value updates in source order (a, b, z); z is appended. A rejected value raises ConstraintException; earlier entries stay applied.
        bool willRaise = false; MP m0 = M[0], m1 = M[1];
        if (s.a >= 0) { if (mset(m0, VALS[s.a], pool)) willRaise = true; }
        if (!willRaise && s.b >= 0) { if (mset(m1, VALS[s.b], pool)) willRaise = true; }
        runExpect([&] { L.includeParameters(pl); }, willRaise ? 1 : 0, c, "includeParameters", on);
        M[0] = m0; M[1] = m1;
        if (L.size() > 2) L.deleteParameter("z");   // keep the system at two entries
        break; }
      case 5: { int x = d.i / 5, cid = d.i % 5 - 1; int e = pool.accepts(cid, M[x].v) ? 0 : 1;
        runExpect([&] { if (OWNER) O.setConstraint(nm[x], pool.get(cid)); else L.parameter(nm[x]).setConstraint(pool.get(cid)); }, e, c, "setConstraint", on); if (!e) M[x].c = cid; break; }
      case 6: { if (OWNER) O.removeConstraint(nm[d.i]); else L.parameter(nm[d.i]).removeConstraint(); M[d.i].c = -1; break; }
      default: { double v = VALS[d.j / NC]; int cid = d.j % NC - 1; ParameterList pl; pl.addParameter(Parameter(nm[d.i], v, pool.get(cid)));
        runExpect([&] { if (d.kind == 8) L.setParameters(pl); else L.matchParameters(pl); }, 0, c, d.kind == 8 ? "setParameters" : "matchParameters", on);
        M[d.i] = {v, 0, cid}; break; }
    }
    if (c.muted) return;
    if (list().size() != 2) { c.fail("list|size-changed", on); return; }
    for (int i = 0; i < 2; ++i) { inv(list()[(size_t)i], pool, c, on); agree(list()[(size_t)i], M[i], pool, c, on); }
    if (canon() != before) c.nontrivial();
  }
};

// S4: an auto-correcting parameter
static const double AVALS[] = {-2, -1, 0, 0.5, 1, 2, 3};
struct S4 : vf::SysBase {
  Pool pool; std::unique_ptr<AutoParameter> A; int cid = -1;
  S4() { A.reset(new AutoParameter("x", 0.5)); }
  static int nops() { return 7 + 5 + 1; }
  std::string opname(int op) const { if (op < 7) return "A.setValue(" + num(AVALS[op]) + ")"; if (op < 12) return "A.setConstraint(c" + str(op - 7 - 1) + ")"; return "A = AutoParameter(copy of A)"; }
  std::string canon() const { return pcanon(*A, pool); }
  void apply(int op, vf::Case& c) {
    std::string on = c.muted ? "" : opname(op); std::string before = c.muted ? "" : canon();
    if (op < 7) {
      double r = AVALS[op];
      std::string got = vfh::outcome([&] { A->setValue(r); });
      if (!c.muted) {
        if (got != "ok") c.fail("auto|setValue-raised", on + " in state " + before + ": " + got);
        else {
          double f = A->getValue();
          if (cid < 0 || pool.r[(size_t)cid].has(r)) { if (f != r) c.fail("auto|accepted-request-not-stored", on + ": value " + num(f)); }
          else { const RI& iv = pool.r[(size_t)cid]; bool below = !(iv.il ? r >= iv.lb : r > iv.lb);
            double bound = below ? iv.lb : iv.ub; bool closed = below ? iv.il : iv.iu; double want = closed ? bound : (below ? bound + 1e-12 : bound - 1e-12);
            if (closed ? f != want : std::fabs(f - want) > 2.5e-12) c.fail("auto|not-nearest-accepted-value", on + " with " + iv.s() + ": ended on " + num(f) + " expected " + num(want)); }
        }
      }
    } else if (op < 12) { int k = op - 7 - 1; bool e = !pool.accepts(k, A->getValue()); runExpect([&] { A->setConstraint(pool.get(k)); }, e ? 1 : 0, c, "auto.setConstraint", on); if (!e) cid = k; }
    else { std::unique_ptr<AutoParameter> B(new AutoParameter(*A)); A = std::move(B); }
    if (c.muted) return;
    inv(*A, pool, c, on);
    if (pool.idOf(A->getConstraint()) != cid) c.fail("auto|constraint-identity", on);
    if (canon() != before) c.nontrivial();
  }
};

int main(int argc, char** argv) {
  vf::Runner R(argc, argv, "C01");
  vfh::silence();
  bool th = R.thorough();
  std::vector<RI> IV = intervals(th); std::vector<double> PT = testPoints(th);
  std::string tg = th ? "B10" : "B6";
  const double precs[] = {1e-12, 1e-3};

  // ---- A1: membership, emptiness, includes, accepted limit: every interval x precision ----
  R.space("interval-membership:" + tg, IV.size() * 2, [=](uint64_t idx, vf::Case& c) {
    const RI& r = IV[idx / 2]; double prec = precs[idx % 2];
    std::string in = r.s() + " prec=" + num(prec);
    c.site("IntervalConstraint ctor"); auto k = mk(r, prec);
    bool any = false;
    for (double v : PT) {
      c.site("IntervalConstraint::isCorrect");
      bool got = k->isCorrect(v), want = r.has(v); any |= want;
      if (got != want) c.fail("interval|isCorrect", in + " isCorrect(" + num(v) + ")=" + str(got));
    }
    if (any != !r.empty()) c.fail("HARNESS-ERROR|test-points-incomplete", in);
    c.site("IntervalConstraint::isEmpty");
    if (k->isEmpty() != r.empty()) c.fail("interval|isEmpty", in + " isEmpty()=" + str(k->isEmpty()) + " but " + (r.empty() ? "no real is accepted" : "some real is accepted"));
    c.tag(r.empty() ? "empty-interval" : "non-empty-interval");
    if (!r.empty()) {
      c.nontrivial();
      c.site("IntervalConstraint::includes");
      for (double a : PT) for (double b : PT) if (a <= b) { bool want = r.has(a) && r.has(b); if (k->includes(a, b) != want) c.fail("interval|includes", in + " includes(" + num(a) + "," + num(b) + ")=" + str(k->includes(a, b))); }
      if (r.ub - r.lb >= 1e-9) {
        c.site("IntervalConstraint::getAcceptedLimit");
        for (double v : PT) {
          double got = k->getAcceptedLimit(v), want;
          if (r.has(v)) want = v; else if (!(r.il ? v >= r.lb : v > r.lb)) want = r.il ? r.lb : r.lb + prec; else want = r.iu ? r.ub : r.ub - prec;
          if (got != want) c.fail("interval|getAcceptedLimit", in + " getAcceptedLimit(" + num(v) + ")=" + num(got) + " expected " + num(want));
        }
      }
    }
    if (idx % 37 == 5) c.sample(in + " isEmpty=" + str(k->isEmpty()));
  });

  // ---- A2: intersection of every ordered pair, both operators ----
  R.space("interval-intersection:" + tg, (uint64_t)IV.size() * IV.size(), [=](uint64_t idx, vf::Case& c) {
    const RI& a = IV[idx / IV.size()]; const RI& b = IV[idx % IV.size()];
    std::string in = a.s() + " & " + b.s();
    auto ka = mk(a), kb = mk(b);
    c.site("IntervalConstraint::operator&");
    std::unique_ptr<ConstraintInterface> k(*ka & *kb);
    c.site("IntervalConstraint::operator&=");
    IntervalConstraint k2(*ka); k2 &= *kb;
    if (!k) { c.fail("interval|operator&-returned-null", in); return; }
    bool anyBoth = false;
    for (double v : PT) {
      bool want = a.has(v) && b.has(v); anyBoth |= want;
      if (k->isCorrect(v) != want) c.fail("interval|operator&", in + ": result " + k->getDescription() + " isCorrect(" + num(v) + ")=" + str(k->isCorrect(v)) + " but operands accept: " + str(a.has(v)) + "," + str(b.has(v)));
      if (k2.isCorrect(v) != want) c.fail("interval|operator&=", in + ": result " + k2.getDescription() + " isCorrect(" + num(v) + ")=" + str(k2.isCorrect(v)));
    }
    if (k->isEmpty() != !anyBoth) c.fail("interval|isEmpty-of-intersection", in + ": result " + k->getDescription() + " isEmpty()=" + str(k->isEmpty()));
    if (!a.empty() && !b.empty()) c.nontrivial();
    c.tag(anyBoth ? "intersection-non-empty" : "intersection-empty");
    if (ka->isCorrect(0.5) != a.has(0.5) || kb->isCorrect(0.5) != b.has(0.5)) c.fail("interval|operator&-mutated-operand", in);
  });

  // ---- A3: documented bracket syntax ----
  {
    struct NumS { const char* s; double v; };
    static const NumS lows[] = {{"-inf", -INF}, {"0", 0}, {"1", 1}, {"-1.5", -1.5}, {"1e3", 1e3}, {"2.5e-1", 0.25}, {"-2", -2}, {"0.5", 0.5}};
    static const NumS ups[] = {{"inf", INF}, {"+inf", INF}, {"0", 0}, {"1", 1}, {"-1.5", -1.5}, {"1e3", 1e3}, {"2.5e-1", 0.25}, {"-2", -2}, {"0.5", 0.5}};
    R.space("interval-description:grammar", 8 * 9 * 4, [=](uint64_t idx, vf::Case& c) {
      std::vector<int> d = vf::digits(idx, {8, 9, 2, 2});
      std::string desc = std::string(d[2] ? "[" : "]") + lows[d[0]].s + ";" + ups[d[1]].s + (d[3] ? "]" : "[");
      RI want = {lows[d[0]].v, ups[d[1]].v, d[2] != 0, d[3] != 0};
      c.site("IntervalConstraint(desc)");
      std::unique_ptr<IntervalConstraint> k;
      std::string got = vfh::outcome([&] { std::string s = desc; k.reset(new IntervalConstraint(s)); });
      c.tag("parse->" + got.substr(0, 8));
      if (got != "ok") { c.fail("description|valid-syntax-rejected", "\"" + desc + "\": " + got); return; }
      c.nontrivial();
      if (k->getLowerBound() != want.lb || k->getUpperBound() != want.ub || k->strictLowerBound() == want.il || k->strictUpperBound() == want.iu)
        c.fail("description|parsed-interval-differs", "\"" + desc + "\" parsed as " + k->getDescription() + " expected " + want.s());
      if (idx % 41 == 0) c.sample("\"" + desc + "\" -> " + k->getDescription());
      // the same description read into objects that already denote another interval: the result is the interval of the description, whatever was there
      static const RI PRE[4] = {{0, 1, true, true}, {3, 4, false, false}, {-INF, INF, true, true}, {-7, INF, true, false}};
      for (const RI& pre : PRE) {
        IntervalConstraint e(pre.lb, pre.ub, pre.il, pre.iu);
        c.site("IntervalConstraint::readDescription");
        std::string g2 = vfh::outcome([&] { std::string s = desc; e.readDescription(s); });
        if (g2 != "ok") { c.fail("description|valid-syntax-rejected", "readDescription(\"" + desc + "\") on " + pre.s() + ": " + g2); continue; }
        if (e.getLowerBound() != want.lb || e.getUpperBound() != want.ub || e.strictLowerBound() == want.il || e.strictUpperBound() == want.iu)
          c.fail("description|re-read-interval-differs", "readDescription(\"" + desc + "\") on an object holding " + pre.s() + " gives " + e.getDescription() + " expected " + want.s());
      }
    });
  }

  // ---- A4: auto-correcting parameter: every (interval >= 1e-9 wide, precision, start, request) ----
  {
    std::vector<RI> wide; for (auto& r : IV) if (!r.empty() && r.ub - r.lb >= 1e-9) wide.push_back(r);
    std::vector<double> req = PT; req.push_back(-1e3); req.push_back(1e3); req.push_back(-999.5); req.push_back(999.5);
    size_t nw = wide.size(), np = req.size();
    // boundary precisions: the default, a coarse one, and two below the spacing of doubles at the bounds (0 and 1e-17), for which "one
    // precision step inside an open bound" is the bound itself and the parameter has to fall back on its own smallest step
    static const double aprecs[4] = {1e-12, 1e-3, 0, 1e-17};
    R.space("auto-parameter:" + tg + ":precisions{1e-12,1e-3,0,1e-17}", (uint64_t)nw * 4 * np, [=](uint64_t idx, vf::Case& c) {
      const RI& r = wide[idx / (4 * np)]; double prec = aprecs[(idx / np) % 4]; double rq = req[idx % np];
      // "one precision step inside an open bound" must itself be an accepted value for the clause to have a referent: with an open end the
      // interval has to be wider than two precision steps (the quantifier's 'at least 1e-9 wide' is stated for the default precision 1e-12)
      if ((!r.il || !r.iu) && !(r.ub - r.lb > 2 * prec)) { c.tag("auto:outside-quantifier(open-interval-not-wider-than-two-precision-steps)"); return; }
      auto k = mk(r, prec);
      // start values: every accepted test point
      for (double s0 : req) {
        if (!r.has(s0)) continue;
        std::string in = "AutoParameter(start " + num(s0) + ", " + r.s() + " prec " + num(prec) + ").setValue(" + num(rq) + ")";
        c.site("AutoParameter ctor"); AutoParameter ap("x", s0, k);
        c.site("AutoParameter::setValue");
        std::string got = vfh::outcome([&] { ap.setValue(rq); });
        if (got != "ok") { c.fail("auto|setValue-raised", in + ": " + got); continue; }
        double f = ap.getValue();
        if (!r.has(f)) { c.fail("auto|ended-on-rejected-value", in + ": value " + num(f)); continue; }
        if (r.has(rq)) { if (f != rq) c.fail("auto|accepted-request-not-stored", in + ": value " + num(f)); c.tag("auto:accepted"); }
        else {
          bool below = !(r.il ? rq >= r.lb : rq > r.lb); double bound = below ? r.lb : r.ub; bool closed = below ? r.il : r.iu;
          double want = closed ? bound : (below ? bound + prec : bound - prec);
          double tol = closed ? 0 : 2.5e-12 + 4 * std::fabs(bound) * 2.3e-16;
          if (std::fabs(f - want) > tol) c.fail("auto|not-nearest-accepted-value", in + ": ended on " + num(f) + " expected " + num(want));
          c.tag(closed ? "auto:clamped-to-closed-bound" : "auto:clamped-inside-open-bound"); c.nontrivial();
        }
      }
    });
  }

  // ---- B: update histories (closure) ----
  R.explore("standalone-parameters", 64, S1::nops(), [] { return std::unique_ptr<S1>(new S1()); });
  { S23<false> proto; R.explore("parameter-list-updates", 64, proto.nops(), [] { return std::unique_ptr<S23<false>>(new S23<false>()); }); }
  { S23<true> proto; R.explore("owner-updates", 64, proto.nops(), [] { return std::unique_ptr<S23<true>>(new S23<true>()); }); }
  R.explore("auto-parameter-history", 64, S4::nops(), [] { return std::unique_ptr<S4>(new S4()); });

  R.expectSeen("setValue->ConstraintException"); R.expectSeen("setConstraint->ConstraintException"); R.expectSeen("ctor->ConstraintException");
  R.expectSeen("setParametersValues->ConstraintException"); R.expectSeen("auto:clamped-inside-open-bound");
  R.note("equal infinite bounds are excluded from the interval alphabet; updates within precision/2 of the current value are silent no-ops (documented) in the model too");
  R.note("description parser: only strings of the documented syntax (bracket, number or -inf / inf / +inf, ';', bracket; no blanks) are judged");
  R.note("mutating a constraint object shared by several parameters from outside is not an operation the property lists and is not explored");
  return R.finish();
}
