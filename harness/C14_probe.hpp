// C14_probe.hpp — result sink of one audited step, and the "black box" that makes crashes inside E1 exploration replayable.
//
// Why the black box: vf::Runner::explore records a worker that died (sanitizer abort, libstdc++ assertion, signal) or hung
// with the level-local case index as witness; that cannot be replayed as an operation history. Every worker therefore writes
// "B <case index> <site> <history>" to its own file before an audited step and flips the B to E afterwards. After
// R.explore() returned, records still starting with B belong to cases that never finished (a worker's last E record is the
// fall-back for a death right after the step); recoverWitnesses() puts their
// history into the corresponding crash|... / hang|... violation (matched on case index and site).
// (Running each step in a helper process was tried first: correct, but the ping-pong costs ~10 ms per transition on the
// loaded machine.)
#pragma once
#include "vf.hpp"
#include <dirent.h>

namespace c14 {

struct Sink {
  std::vector<std::pair<std::string, std::string>> fails;  // (signature, detail): at most one per signature per step
  std::vector<std::string> tags;
  bool nontrivial = false;
  bool diverged = false;  // implementation and reference no longer describe the same state: the transition is terminal
  bool quiet = false;     // prefix replay: nothing is recorded
  void fail(const std::string& sig, const std::string& detail, bool div) {
    if (quiet) return;
    if (div) diverged = true;
    for (auto& f : fails) if (f.first == sig) return;
    fails.push_back({sig, detail.substr(0, 1500)});
  }
  void tag(const std::string& k) { if (!quiet) tags.push_back(k); }
};

inline std::string& bbDir() { static std::string d; return d; }
struct BlackBox {
  int fd = -1; pid_t owner = 0;
  void open_() {
    if (owner == getpid() && fd >= 0) return;
    owner = getpid();
    std::string p = bbDir() + "/c14bb." + vf::str((long)owner);
    fd = ::open(p.c_str(), O_RDWR | O_CREAT | O_TRUNC, 0600);
  }
  void begin(const std::string& k, const std::string& site, const std::string& hist) {
    if (bbDir().empty()) return; open_(); if (fd < 0) return;
    std::string r = "B\t" + k + "\t" + site + "\t" + hist + "\n";
    if (pwrite(fd, r.data(), r.size(), 0) != (ssize_t)r.size()) return;
    if (ftruncate(fd, (off_t)r.size())) {}
  }
  void end() { if (fd >= 0 && owner == getpid()) { if (pwrite(fd, "E", 1, 0) != 1) {} } }
};
inline BlackBox& blackBox() { static BlackBox b; return b; }

// call right after R.explore(space,...) returned (in the main process)
inline void recoverWitnesses(vf::Runner& R, const std::string& space) {
  if (R.replay || bbDir().empty()) return;
  struct Rec { std::string k, site, hist; bool open; };
  std::vector<Rec> recs;
  DIR* d = opendir(bbDir().c_str());
  if (d) {
    while (struct dirent* e = readdir(d)) {
      std::string n = e->d_name; if (n.compare(0, 6, "c14bb.") != 0) continue;
      std::string p = bbDir() + "/" + n;
      FILE* f = fopen(p.c_str(), "r");
      if (f) { char* line = nullptr; size_t cap = 0; ssize_t len = getline(&line, &cap, f);
        if (len > 2 && (line[0] == 'B' || line[0] == 'E')) { std::string L(line, (size_t)len); if (!L.empty() && L.back() == '\n') L.pop_back();
          std::vector<std::string> t; size_t s0 = 0; for (int q = 0; q < 3; ++q) { size_t tb = L.find('\t', s0); if (tb == std::string::npos) break; t.push_back(L.substr(s0, tb - s0)); s0 = tb + 1; } t.push_back(L.substr(s0));
          if (t.size() == 4) recs.push_back({t[1], t[2], t[3], line[0] == 'B'}); }
        free(line); fclose(f); }
      unlink(p.c_str());
    }
    closedir(d);
  }
  for (auto& v : R.total.viols) {
    if (v.space != space) continue;
    bool crash = v.sig.compare(0, 6, "crash|") == 0, hang = v.sig.compare(0, 5, "hang|") == 0;
    if (!crash && !hang) continue;
    if (v.detail.find("[history recovered") != std::string::npos) continue;
    const Rec* best = nullptr;
    // pass 0: a step that never finished, same case index; pass 1: a finished step with the same case index (the worker died after
    // the step, e.g. in a destructor); pass 2: an unfinished step at the same site (the re-run of a hanging case has no case index)
    for (int pass = 0; pass < 3 && !best; ++pass)
      for (auto& r : recs) {
        bool siteOk = v.sig.find("|" + r.site + (crash ? "|" : "")) != std::string::npos;
        if (!siteOk) continue;
        if (pass == 0 && (!r.open || r.k != v.witness)) continue;
        if (pass == 1 && r.k != v.witness) continue;
        if (pass == 2 && !r.open) continue;
        if (!best || r.hist.size() < best->hist.size()) best = &r;
      }
    if (best) { v.detail += " [history recovered from the harness black box; engine case index was " + v.witness + "]"; v.witness = best->hist; }
    else R.harnessFail("C14: no black-box record for " + v.sig + " (case " + v.witness + " of " + space + ")");
  }
}

}  // namespace c14
