// C14_probe.hpp — audited steps run in a helper process so that a crash / sanitizer abort / hang of the library becomes an
// ordinary oracle failure of THIS transition (with the operation history as witness).
//
// Why: vf::Runner::explore records a dying worker with the level-local case index as witness, which cannot be replayed as a
// history. Here every engine worker keeps one helper child (forked lazily, re-forked after it died). For each transition the
// worker sends (history, op); the helper builds a fresh system, replays the history, runs the audited step and ships its
// findings back. When the helper dies or does not answer, the worker reports crash|<site>|<kind> / hang|<site> itself.
// (One fork per transition was measured at 5 ms under load on the sanitized binary — too slow; hence the persistent helper.)
#pragma once
#include "vf.hpp"
#include <sys/mman.h>
#include <poll.h>

namespace c14 {

struct Sink {
  std::vector<std::pair<std::string, std::string>> fails;  // (signature, detail): at most one per signature per step
  std::vector<std::string> tags;
  bool nontrivial = false;
  bool diverged = false;  // implementation and reference no longer describe the same state: the transition is terminal
  bool quiet = false;     // prefix replay: nothing is recorded
  void fail(const std::string& sig, const std::string& detail, bool div) {
    if (quiet) return;
    if (div) diverged = true;
    for (auto& f : fails) if (f.first == sig) return;
    fails.push_back({sig, detail.substr(0, 1500)});
  }
  void tag(const std::string& k) { if (!quiet) tags.push_back(k); }
};

struct ProbeResult {
  int how = 0;  // 0 helper answered, 1 helper died, 2 helper did not answer in time
  std::string kind, frames, errtail;
  Sink sink;
};

inline void writeAll(int fd, const std::string& s) {
  size_t off = 0;
  while (off < s.size()) { ssize_t n = ::write(fd, s.data() + off, s.size() - off); if (n <= 0) { if (n < 0 && errno == EINTR) continue; break; } off += (size_t)n; }
}
inline std::string readAllAt0(int fd) {
  std::string r; char buf[8192];
  lseek(fd, 0, SEEK_SET);
  for (;;) { ssize_t n = ::read(fd, buf, sizeof buf); if (n <= 0) break; r.append(buf, (size_t)n); }
  return r;
}

struct Helper {
  pid_t pid = -1; int req = -1, rsp = -1, err = -1; std::string key, buf;
  void closeAll() { if (req >= 0) close(req); if (rsp >= 0) close(rsp); if (err >= 0) close(err); req = rsp = err = -1; pid = -1; buf.clear(); }
  void kill9() { if (pid > 0) { ::kill(pid, SIGKILL); int st; while (waitpid(pid, &st, 0) < 0 && errno == EINTR) {} } closeAll(); }
  // read one '\n'-terminated line; false on EOF / timeout (timedOut set)
  bool line(std::string& out, int timeoutMs, bool& timedOut) {
    timedOut = false;
    for (;;) {
      size_t nl = buf.find('\n');
      if (nl != std::string::npos) { out = buf.substr(0, nl); buf.erase(0, nl + 1); return true; }
      struct pollfd pf; pf.fd = rsp; pf.events = POLLIN; pf.revents = 0;
      int pr = poll(&pf, 1, timeoutMs);
      if (pr < 0) { if (errno == EINTR) continue; return false; }
      if (pr == 0) { timedOut = true; return false; }
      char tmp[8192]; ssize_t n = ::read(rsp, tmp, sizeof tmp);
      if (n < 0 && errno == EINTR) continue;
      if (n <= 0) return false;
      buf.append(tmp, (size_t)n);
    }
  }
};
inline Helper& helper() { static Helper h; return h; }

inline std::string serialise(const Sink& s) {
  std::string o;
  for (auto& f : s.fails) o += "F " + vf::esc(f.first) + "\t" + vf::esc(f.second) + "\n";
  for (auto& t : s.tags) o += "T " + vf::esc(t) + "\n";
  if (s.nontrivial) o += "N\n";
  if (s.diverged) o += "D\n";
  return o + "OK\n";
}

// S needs: std::string key() const; std::unique_ptr<S> fresh() const; void step(int op, Sink&, bool audit); std::vector<int> hist;
template<class S> void serve(const S& proto, int reqfd, int rspfd, unsigned timeoutSec) {
  std::string buf; char tmp[4096];
  for (;;) {
    size_t nl;
    while ((nl = buf.find('\n')) == std::string::npos) { ssize_t n = ::read(reqfd, tmp, sizeof tmp); if (n < 0 && errno == EINTR) continue; if (n <= 0) _exit(0); buf.append(tmp, (size_t)n); }
    std::string ln = buf.substr(0, nl); buf.erase(0, nl + 1);
    std::vector<int> seq; { std::stringstream ss(ln); int x; while (ss >> x) seq.push_back(x); }
    if (seq.empty()) _exit(0);
    alarm(timeoutSec);
    Sink s;
    {
      std::unique_ptr<S> sys = proto.fresh();
      Sink q; q.quiet = true;
      for (size_t i = 0; i + 1 < seq.size(); ++i) sys->step(seq[i], q, false);
      sys->step(seq.back(), s, true);
    }
    alarm(0);
    writeAll(rspfd, serialise(s));
  }
}

template<class S> ProbeResult remoteStep(const S& sys, int op, unsigned timeoutSec) {
  ProbeResult R; Helper& H = helper();
  if (H.pid > 0 && H.key != sys.key()) H.kill9();
  if (H.pid <= 0) {
    int a[2], b[2];
    if (pipe(a) || pipe(b)) { perror("pipe"); _exit(97); }
    int efd = memfd_create("c14err", 0); if (efd < 0) { perror("memfd_create"); _exit(97); }
    signal(SIGPIPE, SIG_IGN);
    fflush(stdout); fflush(stderr);
    pid_t p = fork();
    if (p < 0) { perror("fork"); _exit(97); }
    if (p == 0) {
      close(a[1]); close(b[0]); dup2(efd, 2); close(efd);
      signal(SIGALRM, SIG_DFL); signal(SIGPIPE, SIG_DFL);
      struct itimerval z; memset(&z, 0, sizeof z); setitimer(ITIMER_REAL, &z, nullptr);
      serve(sys, a[0], b[1], timeoutSec);
      _exit(0);
    }
    close(a[0]); close(b[1]);
    H.pid = p; H.req = a[1]; H.rsp = b[0]; H.err = efd; H.key = sys.key(); H.buf.clear();
  }
  std::string rq; for (int h : sys.hist) rq += vf::str(h) + " "; rq += vf::str(op) + "\n";
  writeAll(H.req, rq);
  for (;;) {
    std::string ln; bool to = false;
    if (!H.line(ln, (int)(timeoutSec + 5) * 1000, to)) {
      if (to) { H.kill9(); R.how = 2; return R; }
      int status = 0; while (waitpid(H.pid, &status, 0) < 0 && errno == EINTR) {}
      std::string err = readAllAt0(H.err);
      H.closeAll();
      if (WIFSIGNALED(status) && WTERMSIG(status) == SIGALRM) { R.how = 2; return R; }
      R.how = 1;
      if (err.size() > 6000) err = err.substr(err.size() - 6000);
      // same classification as the engine's supervisor (private static helpers; reachable because of -fno-access-control)
      R.kind = vf::Runner::classify(err, status);
      R.frames = vf::Runner::firstFrames(err);
      size_t p1 = err.find("ERROR:"); if (p1 == std::string::npos) p1 = err.find("runtime error"); if (p1 == std::string::npos) p1 = err.size() > 300 ? err.size() - 300 : 0;
      R.errtail = err.substr(p1, 300);
      return R;
    }
    if (ln == "OK") return R;
    if (ln.size() > 2 && ln[0] == 'F') { size_t tb = ln.find('\t', 2); R.sink.fails.push_back({vf::unesc(ln.substr(2, tb - 2)), tb == std::string::npos ? "" : vf::unesc(ln.substr(tb + 1))}); }
    else if (ln.size() > 2 && ln[0] == 'T') R.sink.tags.push_back(vf::unesc(ln.substr(2)));
    else if (ln == "N") R.sink.nontrivial = true;
    else if (ln == "D") R.sink.diverged = true;
  }
}

}  // namespace c14
