// C07 helper: log-domain reductions against a max-shifted long-double reference and the laws named by the property.
#pragma once
#include "C07_ref.hpp"

namespace c07 {
static const double LOGMAX = 709.782712893384;    // log(DBL_MAX): exp overflows above
static const double LOGMIN = -745.1332191019412;  // exp rounds to zero below

static inline std::vector<double> shifted(const std::vector<double>& v, double cst) { std::vector<double> r(v); for (auto& x : r) x = x + cst; return r; }

// group 0: logSumExp, logMeanExp, logNorm + laws (with shift cst); group 1: sumExp (kept apart: it aborts on the empty vector today)
static inline void logChecks(int g, const std::vector<double>& v0, double cst, vf::Case& c) {
  const std::vector<double> v = shifted(v0, cst);
  const size_t n = v.size();
  auto in = [&] { return "v=" + vf::vstr(v) + (cst != 0 ? " (= " + vf::vstr(v0) + " shifted by " + vf::num(cst) + ")" : std::string()); };
  if (c.verbose) c.note("input " + in());
  Lse L = rlse(v);
  double mn = INF, mx = -INF; for (double x : v) { if (x < mn) mn = x; if (x > mx) mx = x; }
  if (g == 1) {
    c.site("VectorTools::sumExp");
    double r = 0; Ex e = guard<double>([&] { r = VT::sumExp(v); });
    if (n == 0) {   // empty sum: 0, or the empty-vector exception
      if (e == EMPTY) c.tag("sumExp-empty:exception"); else if (e == NONE && r == 0) c.tag("sumExp-empty:returns-0");
      else c.fail("sumExp|empty", in() + ": got " + vf::num(r) + " / " + exname(e));
      return;
    }
    SumExp S = rsumexp(L, n);
    if (e != NONE || !sumexpOk(r, S)) c.fail("sumExp|value", in() + ": got " + vf::num(r) + " / " + exname(e) + " expected " + ld(S.value));
    else if (L.kind == 0 && std::isfinite(r) && r > 0 && (mx > LOGMAX - 1 || mn < LOGMIN)) c.tag("sumExp:finite-near-range-end");
    return;
  }
  // ---- logSumExp ----
  c.site("VectorTools::logSumExp");
  double r = 0; Ex e = guard<double>([&] { r = VT::logSumExp(v); });
  if (n == 0) {
    if (e == EMPTY) c.tag("raised-EmptyVectorException"); else if (e == NONE && r == -INF) c.tag("logSumExp-empty:returns-log-zero");
    else c.fail("logSumExp|empty", in() + ": got " + vf::num(r) + " / " + exname(e));
    c.site("VectorTools::logMeanExp");
    e = guard<double>([&] { r = VT::logMeanExp(v); });
    if (e == NONE && !std::isnan(r) && r != -INF) c.fail("logMeanExp|empty", in() + ": got " + vf::num(r));
    return;
  }
  if (e != NONE) { c.fail("logSumExp|unexpected-exception", in() + ": " + exname(e)); return; }
  if (L.kind == 0) {
    if (!std::isfinite(r)) c.fail("logSumExp|not-finite-where-exact-value-is-finite", in() + ": got " + vf::num(r) + " expected " + ld(L.value));
    else {
      if (!closeTo(r, L.value, L.tol)) c.fail("logSumExp|value", in() + ": got " + vf::num(r) + " expected " + ld(L.value));
      // law: max <= lse <= max + log n (lower bound exact: the shifted sum contains the term exp(0) = 1)
      if (r < mx || (LD)r > (LD)mx + logl((LD)n) + L.tol) c.fail("logSumExp|outside[max,max+log n]", in() + ": got " + vf::num(r));
      if (mx > LOGMAX) c.tag("lse:finite-where-naive-overflows");
      if (mx < LOGMIN) c.tag("lse:finite-where-naive-underflows");
    }
  } else if ((LD)r != L.value) c.fail("logSumExp|infinite-maximum", in() + ": got " + vf::num(r) + " expected " + ld(L.value));
  else c.tag(L.kind < 0 ? "lse:all-log-zero" : "lse:+inf");
  // law: shift-equivariance lse(v0 + c) = lse(v0) + c. The shifted input is rounded (<= 1/2 ulp of each |v0_i + c|), which moves the
  // exact value by at most that much; plus the tolerances of both evaluations and the rounding of the addition.
  if (cst != 0 && L.kind == 0) {
    c.site("VectorTools::logSumExp");
    double r0 = VT::logSumExp(v0); Lse L0 = rlse(v0);
    if (L0.kind == 0 && std::isfinite(r0) && std::isfinite(r)) {
      LD big = 0; for (double x : v) if (std::isfinite(x) && fabsl((LD)x) > big) big = fabsl((LD)x);
      LD tol = L.tol + L0.tol + EPS * big + EPS * fabsl((LD)r0 + (LD)cst);
      if (fabsl((LD)r - ((LD)r0 + (LD)cst)) > tol) c.fail("logSumExp|shift-equivariance", in() + ": lse(v+c)=" + vf::num(r) + " lse(v)+c=" + ld((LD)r0 + (LD)cst));
      else c.tag("lse:shift-law-checked");
    }
  }
  // ---- logMeanExp ----
  c.site("VectorTools::logMeanExp");
  { double m = 0; e = guard<double>([&] { m = VT::logMeanExp(v); });
    if (e != NONE) c.fail("logMeanExp|unexpected-exception", in() + ": " + exname(e));
    else if (L.kind == 0) { LD ref = L.value - logl((LD)n), tol = L.tol + 4 * EPS * (logl((LD)n) + fabsl(ref));
      if (!closeTo(m, ref, tol)) c.fail("logMeanExp|value", in() + ": got " + vf::num(m) + " expected " + ld(ref));
      else if ((LD)m > (LD)mx + tol || (LD)m < (LD)mx - logl((LD)n) - tol) c.fail("logMeanExp|outside[max-log n,max]", in() + ": got " + vf::num(m)); }
    else if ((LD)m != L.value) c.fail("logMeanExp|infinite-maximum", in() + ": got " + vf::num(m)); }
  // ---- logNorm: v_i - lse(v) ----
  if (L.kind == 0) {
    c.site("VectorTools::logNorm");
    std::vector<double> w(v); VT::logNorm(w);
    bool ok = w.size() == n;
    for (size_t i = 0; ok && i < n; ++i) { LD ref = (LD)v[i] - L.value; ok = closeTo(w[i], ref, L.tol + 2 * EPS * fabsl(ref)); }
    if (!ok) c.fail("logNorm|value", in() + ": got " + vf::vstr(w));
  }
}

// weighted log-sum-exp and sum-exp; cst applied to v0
static inline void logWeightedChecks(const std::vector<double>& v0, const std::vector<double>& w, double cst, vf::Case& c) {
  const std::vector<double> v = shifted(v0, cst);
  const size_t n = v.size(); const bool eq = n == w.size();
  auto in = [&] { return "v=" + vf::vstr(v) + " w=" + vf::vstr(w) + (cst != 0 ? " (v = " + vf::vstr(v0) + " shifted by " + vf::num(cst) + ")" : std::string()); };
  if (c.verbose) c.note("input " + in());
  { bool infmax = false; for (double x : v0) if (x == INF) infmax = true; if (!infmax && !v0.empty()) { infmax = true; for (double x : v0) if (x != -INF) infmax = false; }
    // the maximum stays infinite under every shift: same refusal path as with shift 0, which is executed
    if (infmax && cst != 0) { c.tag("weighted:infinite-maximum:shift-changes-nothing(skipped)"); return; } }
  double r1 = 0, r2 = 0;
  c.site("VectorTools::logSumExp(v,w)");
  Ex e1 = guard<double>([&] { r1 = VT::logSumExp(v, w); });
  c.site("VectorTools::sumExp(v,w)");
  Ex e2 = guard<double>([&] { r2 = VT::sumExp(v, w); });
  if (!eq) {
    if (e1 != DIM) c.fail("logSumExp(v,w)|size-mismatch-not-reported", in() + ": " + exname(e1)); else c.tag("raised-DimensionException");
    if (e2 != DIM) c.fail("sumExp(v,w)|size-mismatch-not-reported", in() + ": " + exname(e2));
    return;
  }
  if (n == 0) {
    if (!(e1 == EMPTY || (e1 == NONE && r1 == -INF))) c.fail("logSumExp(v,w)|empty", in() + ": got " + vf::num(r1) + " / " + exname(e1));
    if (!(e2 == EMPTY || (e2 == NONE && r2 == 0))) c.fail("sumExp(v,w)|empty", in() + ": got " + vf::num(r2) + " / " + exname(e2));
    return;
  }
  double mx = -INF; for (double x : v) if (x > mx) mx = x;
  bool anyPosInf = false; for (double x : v) if (x == INF) anyPosInf = true;
  if (std::isinf(mx)) {
    // the code refuses an infinite maximum with BadNumberException (sumExp: except for length one): accepted as a deliberate refusal
    if (e1 == BADNUM) c.tag("weighted:infinite-maximum-refused(BadNumberException)");
    if (e2 == BADNUM) c.tag("weighted:infinite-maximum-refused(BadNumberException)");
    if (anyPosInf) return;                 // 0 * inf terms: no value defined
    if (e1 == NONE && r1 != -INF) c.fail("logSumExp(v,w)|all-log-zero", in() + ": got " + vf::num(r1));
    if (e2 == NONE && r2 != 0) c.fail("sumExp(v,w)|all-log-zero", in() + ": got " + vf::num(r2));
    if ((e1 != NONE && e1 != BADNUM) || (e2 != NONE && e2 != BADNUM)) c.fail("weighted-log|unexpected-exception", in() + ": " + exname(e1) + " / " + exname(e2));
    return;
  }
  Lse L = rlseW(v, w);
  // class of the input: does every entry above the largest positively weighted exponent carry weight zero?
  std::string cls = ((LD)mx > L.M) ? "max-has-zero-weight" : "max-has-positive-weight";
  // when the largest exponent with a positive weight is -inf (or no weight is positive) the value is log-zero / zero; the same
  // refusal as for an infinite overall maximum is accepted there
  bool refusable = L.kind != 0;
  if (e1 == BADNUM && refusable) c.tag("weighted:infinite-maximum-refused(BadNumberException)");
  else if (e1 != NONE) c.fail("logSumExp(v,w)|unexpected-exception|" + cls, in() + ": " + exname(e1));
  else if (L.kind < 0) { if (r1 != -INF) c.fail("logSumExp(v,w)|value|" + cls, in() + ": got " + vf::num(r1) + " expected -inf"); }
  else if (!closeTo(r1, L.value, L.tol)) c.fail("logSumExp(v,w)|value|" + cls, in() + ": got " + vf::num(r1) + " expected " + ld(L.value));
  else { if (mx > LOGMAX) c.tag("lse-weighted:finite-where-naive-overflows"); if (mx < LOGMIN) c.tag("lse-weighted:finite-where-naive-underflows"); }
  SumExp S = rsumexp(L, n);
  if (e2 == BADNUM && refusable) c.tag("weighted:infinite-maximum-refused(BadNumberException)");
  else if (e2 != NONE) c.fail("sumExp(v,w)|unexpected-exception|" + cls, in() + ": " + exname(e2));
  else if (!sumexpOk(r2, S)) {
        // input classes (disjoint): exp of the largest positively weighted exponent overflows on its own although the sum is representable;
    // the overall maximum carries weight zero; both
    bool ov = L.kind == 0 && L.M > (LD)LOGMAX && !S.mustBeInf && !S.mayBeInf, zw = (LD)mx > L.M;
    std::string cl2 = ov && zw ? "max-has-zero-weight+exp(max)-overflows" : ov ? "representable-sum-but-exp(max)-overflows" : cls;
    c.fail("sumExp(v,w)|value|" + cl2, in() + ": got " + vf::num(r2) + " expected " + ld(S.value));
  }
  if (cst != 0 && e1 == NONE && std::isfinite(r1) && L.kind == 0 && cls == "max-has-positive-weight") {
    double r0 = 0; Ex e0 = guard<double>([&] { r0 = VT::logSumExp(v0, w); }); Lse L0 = rlseW(v0, w);
    if (e0 == NONE && std::isfinite(r0) && L0.kind == 0) {
      LD big = 0; for (double x : v) if (std::isfinite(x) && fabsl((LD)x) > big) big = fabsl((LD)x);
      if (fabsl((LD)r1 - ((LD)r0 + (LD)cst)) > L.tol + L0.tol + EPS * big + EPS * fabsl((LD)r0 + (LD)cst)) c.fail("logSumExp(v,w)|shift-equivariance", in() + ": " + vf::num(r1) + " vs " + ld((LD)r0 + (LD)cst));
    }
  }
}

// NumTools::logsum on a pair (shift already applied by the caller when wanted)
static inline void logsumChecks(double a0, double b0, double cst, vf::Case& c) {
  double a = a0 + cst, b = b0 + cst;
  auto in = [&] { return "lnx=" + vf::num(a) + " lny=" + vf::num(b) + (cst != 0 ? " (shift " + vf::num(cst) + ")" : std::string()); };
  if (c.verbose) c.note("input " + in());
  std::vector<double> v(2); v[0] = a; v[1] = b; Lse L = rlse(v);
  std::string cls = (a == -INF && b == -INF) ? "two-log-zeros" : (a == INF && b == INF) ? "two-plus-infinities" : L.kind != 0 ? "one-infinite" : "finite";
  c.tag("logsum:" + cls);
  c.site("NumTools::logsum");
  double r = NumTools::logsum(a, b), rs = NumTools::logsum(b, a);
  if (!same<double>(r, rs)) c.fail("logsum|not-symmetric|" + cls, in() + ": " + vf::num(r) + " vs " + vf::num(rs));
  if (L.kind != 0) { if ((LD)r != L.value || std::isnan(r)) c.fail("logsum|value|" + cls, in() + ": got " + vf::num(r) + " expected " + ld(L.value)); return; }
  if (!std::isfinite(r)) { c.fail("logsum|not-finite-where-exact-value-is-finite", in() + ": got " + vf::num(r)); return; }
  double mx = a > b ? a : b;
  if (!closeTo(r, L.value, L.tol)) c.fail("logsum|value|finite", in() + ": got " + vf::num(r) + " expected " + ld(L.value));
  if (r < mx || (LD)r > (LD)mx + logl(2) + L.tol) c.fail("logsum|outside[max,max+log 2]", in() + ": got " + vf::num(r));
  if (mx > LOGMAX) c.tag("logsum:finite-where-naive-overflows");
  if (cst != 0) {
    double r0 = NumTools::logsum(a0, b0);
    if (std::isfinite(r0)) { LD big = std::max(fabsl((LD)a), fabsl((LD)b));
      if (fabsl((LD)r - ((LD)r0 + (LD)cst)) > 2 * L.tol + EPS * big + EPS * fabsl((LD)r0 + (LD)cst) + EPS * (fabsl((LD)a0) + fabsl((LD)b0) + 4)) c.fail("logsum|shift-equivariance", in() + ": " + vf::num(r) + " vs " + ld((LD)r0 + (LD)cst)); }
  }
}
} // namespace c07
