// C03 — aliased parameters track their source through every update, copy and renaming
// VF-VARIANT: san
// VF-RULE: E1: breadth-first exploration of all histories over one AbstractParameterAliasable object with N parameters: aliasParameters(i,j) for all ordered pairs incl. i==j, unaliasParameters(i,j), bulk aliasParameters(map) for every name map with <= 3 (N=3) / <= 2 (N=4) entries, setParameterValue, setParametersValues / matchParametersValues with every sub-list over values {1,2,3}, setAllParametersValues, copy-construction (continue on the copy; and transient copy mutated to show independence), assignment into objects with three different pre-existing alias forests (continue on the assigned object; and transient), self-assignment, setNamespace. Four constraint configurations (none; all equal; different nested intervals; one bound value shared with different open/closed ends, so that the intersection has to combine the end flags). Non-trivial: the transition changed the canonical state or was refused.
// VF-BOUND: quick: N=3 without constraints to closure, N=3 mixed constraints to depth 3, N=3 shared-bound/different-strictness constraints to depth 2, N=4 to depth 2, N=4 to depth 3 over the link-centred alphabet (alias, unalias, bulk alias, single-value updates, copy/assign/rename); thorough: N=3 to closure in all three constraint configurations, N=4 to depth 4, N=4 link-centred alphabet to depth 5; instead of 2..6 parameters; values {1,2,3} inside every intersected constraint
// VF-LEVEL: Explicit-state closure of the alias protocol on the real object for 3 parameters (every history of any length over the alphabet), depth-bounded for 4, against a parent-array reference model; every bulk-alias call runs under a CPU-time alarm so non-termination is reported with the map as witness.
// VF-ASSUME: ASan/UBSan/libstdc++ assertions are sound detectors;; reference model: parent array + values + per-parameter interval; aliasing does not copy the value at alias time (only later changes of the source propagate), as implemented and as the statement words it;; bulk aliasing is judged on termination, on performing every requested link when it returns, and on leaving a consistent object when it raises (partial application before a raise is allowed)
// VF-BUDGET_THOROUGH: 3000
// VF-TECHNIQUE: explicit-state model checking of operation histories on the real object (BFS to closure, canonical state = every private field with addresses relabelled)
#include "vf.hpp"
#include "common.hpp"
#include <Bpp/Numeric/AbstractParameterAliasable.h>
using namespace bpp;
using vf::str; using vf::num;

static std::string pname(int i) { return std::string(1, char('a' + i)); }

struct MC { bool has; double lb, ub; bool il = true, iu = true;   // il/iu: the bound itself is accepted (closed end)
  bool operator==(const MC& o) const { return has == o.has && (!has || (lb == o.lb && ub == o.ub && il == o.il && iu == o.iu)); }
  std::string s() const { return has ? std::string(il ? "[" : "]") + num(lb) + "," + num(ub) + (iu ? "]" : "[") : std::string(); } };
// textbook intersection of two intervals: the tighter bound wins with its own flag; on equal bounds the end is closed only if both are
static MC meet(const MC& a, const MC& b) {
  MC x; x.has = true;
  if (a.lb > b.lb) { x.lb = a.lb; x.il = a.il; } else if (b.lb > a.lb) { x.lb = b.lb; x.il = b.il; } else { x.lb = a.lb; x.il = a.il && b.il; }
  if (a.ub < b.ub) { x.ub = a.ub; x.iu = a.iu; } else if (b.ub < a.ub) { x.ub = b.ub; x.iu = b.iu; } else { x.ub = a.ub; x.iu = a.iu && b.iu; }
  return x; }
static MC ofReal(const std::shared_ptr<const IntervalConstraint>& ic) { MC m; m.has = ic != nullptr; m.lb = ic ? ic->getLowerBound() : 0; m.ub = ic ? ic->getUpperBound() : 0; m.il = ic ? !ic->strictLowerBound() : true; m.iu = ic ? !ic->strictUpperBound() : true; return m; }
// configurations: 4 bounds that differ beyond the sixth significant digit ([0.5,10] / [0.5000001,10] / [0.5,10.000001] / [0.5,10]); 0 none; 1 all [0,10]; 2 mixed [0,10] / [1,5] / none / [0,10]; 3 one bound value shared with different strictness: [0,10] / ]0,10] / [0,10[ / ]0,5]
static MC consCfg(int cfg, int i) { if (cfg == 0) return {false, 0, 0}; if (cfg == 1) return {true, 0, 10};
  if (cfg == 4) switch (i % 4) { case 0: return {true, 0.5, 10}; case 1: return {true, 0.5000001, 10}; case 2: return {true, 0.5, 10.000001}; default: return {true, 0.5, 10}; }   // equal when printed with six digits
  // seeded C03-11: different upper (and lower) bounds whose open/closed flags differ too: the tighter bound must win with its own flag
  if (cfg == 5) switch (i % 4) { case 0: return {true, 0, 10, true, true}; case 1: return {true, 0, 5, true, false}; case 2: return {true, 0.5, 10, false, false}; default: return {true, 0, 5, false, true}; }
  if (cfg == 3) switch (i % 4) { case 0: return {true, 0, 10, true, true}; case 1: return {true, 0, 10, false, true}; case 2: return {true, 0, 10, true, false}; default: return {true, 0, 5, false, true}; }
  switch (i % 4) { case 0: return {true, 0, 10}; case 1: return {true, 1, 5}; case 2: return {false, 0, 0}; default: return {true, 0, 10}; } }

struct Obj : public AbstractParameterAliasable {
  Obj(int n, int cfg, const std::string& ns) : AbstractParameterAliasable(ns) {
    for (int i = 0; i < n; ++i) { MC c = consCfg(cfg, i); addParameter_(new Parameter(ns + pname(i), 1, c.has ? std::make_shared<IntervalConstraint>(c.lb, c.ub, c.il, c.iu) : nullptr)); }
  }
  Obj* clone() const override { return new Obj(*this); }
};

struct Model {
  int n; std::vector<int> parent; std::vector<double> val; std::vector<MC> cons; std::string ns;
  bool isAncestor(int anc, int x) const { int guard = 0; while (x >= 0 && guard++ < 64) { if (x == anc) return true; x = parent[(size_t)x]; } return false; }
  void setValue(int j, double v, int depth = 0) { if (val[(size_t)j] == v || depth > 32) return; val[(size_t)j] = v; for (int c = 0; c < n; ++c) if (parent[(size_t)c] == j) setValue(c, v, depth + 1); }
  // returns false when the request must be refused
  bool alias(int i, int j) {
    if (parent[(size_t)j] >= 0) return false;           // already aliased
    if (isAncestor(j, i)) return false;                 // i == j, or j is a (transitive) source of i: would close a cycle
    MC& c1 = cons[(size_t)i]; MC& c2 = cons[(size_t)j];
    if (!c1.has) { if (c2.has) c1 = c2; }
    else if (c2.has && !(c1 == c2)) { MC x = meet(c1, c2); c1 = x; c2 = x; }
    parent[(size_t)j] = i; return true;
  }
  bool unalias(int i, int j) { if (i == j || parent[(size_t)j] != i) return false; parent[(size_t)j] = -1; return true; }
  std::string s() const { std::string r = "ns=" + ns + ";"; for (int i = 0; i < n; ++i) r += pname(i) + "<-" + (parent[(size_t)i] < 0 ? "." : pname(parent[(size_t)i])) + "=" + num(val[(size_t)i]) + cons[(size_t)i].s() + " "; return r; }
};

// complete private state of the real object, addresses replaced by roles
static std::string canonObj(const Obj& o) {
  const ParameterList& pl = o.getParameters(); std::string r = "ns=" + o.getNamespace() + ";";
  for (size_t i = 0; i < pl.size(); ++i) { const Parameter& p = pl[i]; r += p.getName() + "=" + num(p.getValue()) + (p.hasConstraint() ? p.getConstraint()->getDescription() : "") + "{";
    std::vector<std::string> ids; for (auto& l : p.listeners_) { std::string id = l->getId(); auto it = o.aliasListenersRegister_.find(id); id += (it != o.aliasListenersRegister_.end() && it->second.get() == l.get()) ? "" : "!FOREIGN"; ids.push_back(id); }
    std::sort(ids.begin(), ids.end()); for (auto& s : ids) r += s + ","; r += "} "; }
  r += "| reg:";
  for (auto& kv : o.aliasListenersRegister_) { auto& l = *kv.second; r += kv.first + "(" + l.id_ + "," + str(l.alias_) + "," + l.name_ + "," + l.from_ + "," + (l.pl_ == &o.getParameters() ? "own" : "FOREIGN-LIST") + ") "; }
  r += "| indep:";
  for (size_t i = 0; i < o.independentParameters_.size(); ++i) { const auto& sp = o.independentParameters_.getParameter(i); bool shared = pl.hasParameter(sp->getName()) && pl.getParameter(sp->getName()).get() == sp.get(); r += sp->getName() + (shared ? "" : "!STALE") + "=" + num(sp->getValue()) + " "; }
  return r;
}

// read the forest the real object holds (register) : parent index per parameter, -2 when inconsistent
static std::vector<int> realParents(const Obj& o, int n, std::string& problem) {
  std::vector<int> par((size_t)n, -1); std::string ns = o.getNamespace();
  for (auto& kv : o.aliasListenersRegister_) { auto& l = *kv.second; int j = (int)l.alias_; int i = -1; for (int k = 0; k < n; ++k) if (pname(k) == l.from_) i = k;
    if (j < 0 || j >= n || i < 0) { problem += "register entry " + kv.first + " names unknown parameters; "; continue; }
    if (par[(size_t)j] >= 0) problem += "parameter " + pname(j) + " has two sources; ";
    par[(size_t)j] = i; }
  return par;
}

struct Sys : vf::SysBase {
  int N, cfg; std::unique_ptr<Obj> O; Model M;
  std::vector<std::map<std::string, std::string>> maps; std::vector<std::vector<int>> subl;  // bulk alias maps; value sub-lists (0 = absent, 1..3)
  int nAlias, nUnalias, nMaps, nSet, nSub, nAll;
  Sys(int n, int c, bool reduced = false) : N(n), cfg(c), O(new Obj(n, c, "")) {
    M.n = n; M.parent.assign((size_t)n, -1); M.val.assign((size_t)n, 1); for (int i = 0; i < n; ++i) M.cons.push_back(consCfg(c, i)); M.ns = "";
    int maxEntries = n <= 3 ? 3 : 2;
    // all maps key->value with distinct keys, up to maxEntries entries
    std::function<void(int, std::map<std::string, std::string>&)> rec = [&](int from, std::map<std::string, std::string>& cur) {
      if (!cur.empty()) maps.push_back(cur);
      if ((int)cur.size() == maxEntries) return;
      for (int k = from; k < n; ++k) for (int v = 0; v < n; ++v) { cur[pname(k)] = pname(v); rec(k + 1, cur); cur.erase(pname(k)); }
    };
    std::map<std::string, std::string> cur; rec(0, cur);
    std::stable_sort(maps.begin(), maps.end(), [](const std::map<std::string, std::string>& a, const std::map<std::string, std::string>& b) { return a.size() < b.size(); });
    uint64_t tot = 1; for (int i = 0; i < n; ++i) tot *= 4;
    for (uint64_t k = 1; k < tot; ++k) { std::vector<int> d; uint64_t q = k; for (int i = 0; i < n; ++i) { d.push_back((int)(q % 4)); q /= 4; } subl.push_back(d); }
    // reduced alphabet (link-centred: alias, unalias, bulk alias, single-value updates, copy/assign/rename; no sub-list and all-values setters)
    if (reduced) subl.clear();
    nAlias = n * n; nUnalias = n * n; nMaps = (int)maps.size(); nSet = n * 3; nSub = (int)subl.size(); nAll = 1; for (int i = 0; i < n; ++i) nAll *= 3;
    if (reduced) nAll = 0;
  }
  int nops() const { return nAlias + nUnalias + nMaps + nSet + 2 * nSub + nAll + 2 + 6 + 2 + 1; }
  struct Dec { int kind, a, b; };
  Dec dec(int op) const {
    if (op < nAlias) return {0, op / N, op % N}; op -= nAlias;
    if (op < nUnalias) return {1, op / N, op % N}; op -= nUnalias;
    if (op < nMaps) return {2, op, 0}; op -= nMaps;
    if (op < nSet) return {3, op / 3, op % 3}; op -= nSet;
    if (op < nSub) return {4, op, 0}; op -= nSub;
    if (op < nSub) return {5, op, 0}; op -= nSub;
    if (op < nAll) return {6, op, 0}; op -= nAll;
    if (op < 2) return {7, op, 0}; op -= 2;
    if (op < 6) return {8, op / 2, op % 2}; op -= 6;
    if (op < 2) return {9, op, 0}; op -= 2;
    return {10, 0, 0};
  }
  std::string mapStr(const std::map<std::string, std::string>& m) const { std::string s = "{"; for (auto& kv : m) s += kv.first + "->" + kv.second + " "; return s + "}"; }
  std::string sublStr(const std::vector<int>& d) const { std::string s = "{"; for (int i = 0; i < N; ++i) if (d[(size_t)i]) s += pname(i) + "=" + str(d[(size_t)i]) + " "; return s + "}"; }
  std::string opname(int op) const {
    Dec d = dec(op);
    switch (d.kind) {
      case 0: return "aliasParameters(source " + pname(d.a) + ", alias " + pname(d.b) + ")";
      case 1: return "unaliasParameters(source " + pname(d.a) + ", alias " + pname(d.b) + ")";
      case 2: return "aliasParameters(map alias->source " + mapStr(maps[(size_t)d.a]) + ")";
      case 3: return "setParameterValue(" + pname(d.a) + "," + str(d.b + 1) + ")";
      case 4: return "setParametersValues(" + sublStr(subl[(size_t)d.a]) + ")";
      case 5: return "matchParametersValues(" + sublStr(subl[(size_t)d.a]) + ")";
      case 6: { std::string s = "setAllParametersValues({"; int q = d.a; for (int i = 0; i < N; ++i) { s += pname(i) + "=" + str(q % 3 + 1) + " "; q /= 3; } return s + "})"; }
      case 7: return d.a ? "copy-construct, mutate the copy, original must not change (copy dropped)" : "O := copy-construct(O) (continue on the copy)";
      case 8: return std::string(d.b ? "Q(forest " : "O := Q(forest ") + str(d.a) + ") = O" + (d.b ? "; mutate Q, O must not change (Q dropped)" : " (continue on the assigned object)");
      case 9: return std::string("setNamespace(\"") + (d.a ? "n." : "") + "\")";
      default: return "O = O (self-assignment)";
    }
  }
  std::string canon() const { return canonObj(*O) + " || " + M.s(); }
  ParameterList mkList(const std::vector<int>& d) const { ParameterList pl; for (int i = 0; i < N; ++i) if (d[(size_t)i]) pl.addParameter(Parameter(M.ns + pname(i), d[(size_t)i])); return pl; }

  // every clause of the property that is a state predicate, on object o against model m
  void audit(const Obj& o, const Model& m, vf::Case& c, const std::string& ctx, const std::string& who) {
    std::string where = ctx + " [" + who + "] real: " + canonObj(o) + " model: " + m.s();
    const ParameterList& pl = o.getParameters();
    if ((int)pl.size() != N) { c.fail("audit|parameter-count", where); return; }
    std::string problem; std::vector<int> rp = realParents(o, N, problem);
    if (!problem.empty()) c.fail("audit|register-inconsistent", where + " : " + problem);
    // forest acyclic
    for (int i = 0; i < N; ++i) { int x = i, g = 0; while (x >= 0 && g <= N) { x = rp[(size_t)x]; ++g; } if (g > N) { c.fail("audit|alias-cycle-present", where); break; } }
    if (rp != m.parent) c.fail("audit|alias-relations-differ-from-model", where);
    for (int i = 0; i < N; ++i) {
      const Parameter& p = pl[(size_t)i];
      if (p.getName() != m.ns + pname(i)) c.fail("audit|parameter-name", where);
      if (p.getValue() != m.val[(size_t)i]) c.fail("audit|value-differs-from-model", where);
      int par = m.parent[(size_t)i];
      auto ic = std::dynamic_pointer_cast<const IntervalConstraint>(p.getConstraint());
      MC rc = ofReal(ic);
      if (!(rc == m.cons[(size_t)i])) c.fail("audit|constraint-differs-from-model", where + " at " + pname(i));
      if (ic && !ic->isCorrect(p.getValue())) c.fail("audit|value-outside-constraint", where);
      // listeners attached to this parameter = links whose source it is, each registered and bound to the object's own list
      std::multiset<std::string> want, got; for (int j = 0; j < N; ++j) if (m.parent[(size_t)j] == i) want.insert("__alias_" + pname(j) + "_to_" + pname(i));
      for (auto& l : p.listeners_) { got.insert(l->getId()); auto it = o.aliasListenersRegister_.find(l->getId());
        if (it == o.aliasListenersRegister_.end() || it->second.get() != l.get()) c.fail("audit|listener-not-the-registered-one", where + " at " + pname(i));
        else if (it->second->pl_ != &pl) c.fail("audit|listener-bound-to-foreign-list", where + " at " + pname(i)); }
      if (want != got) c.fail("audit|listeners-on-parameter", where + " at " + pname(i));
      // getFrom
      std::string gf = o.getFrom(m.ns + pname(i)); if (gf != (par >= 0 ? pname(par) : "")) c.fail("query|getFrom", where + ": getFrom(" + pname(i) + ")=" + gf);
    }
    // independent parameters = parameters without source, sharing the objects of the main list
    std::set<std::string> wantI, gotI; for (int i = 0; i < N; ++i) if (m.parent[(size_t)i] < 0) wantI.insert(m.ns + pname(i));
    const ParameterList& ip = o.getIndependentParameters();
    for (size_t k = 0; k < ip.size(); ++k) { gotI.insert(ip[k].getName()); const auto& sp = ip.getParameter(k);
      if (!pl.hasParameter(sp->getName()) || pl.getParameter(sp->getName()).get() != sp.get()) c.fail("audit|independent-list-holds-foreign-object", where + " entry " + sp->getName()); }
    if (gotI.size() != ip.size()) c.fail("audit|independent-list-duplicate", where);
    if (wantI != gotI) c.fail("audit|independent-set", where);
    if (o.getNumberOfIndependentParameters() != ip.size()) c.fail("query|getNumberOfIndependentParameters", where);
    for (int i = 0; i < N; ++i) if (o.hasIndependentParameter(pname(i)) != (m.parent[(size_t)i] < 0)) c.fail("query|hasIndependentParameter", where);
    // getAliases: keys = aliased parameters, each mapped to one of its (transitive) sources
    std::map<std::string, std::string> al = o.getAliases(); std::set<std::string> keys; for (auto& kv : al) keys.insert(kv.first);
    std::set<std::string> wantK; for (int i = 0; i < N; ++i) if (m.parent[(size_t)i] >= 0) wantK.insert(m.ns + pname(i));
    if (m.ns.empty()) {
      if (keys != wantK) c.fail("query|getAliases-keys", where);
      for (auto& kv : al) { int k = kv.first[0] - 'a', v = kv.second.empty() ? -1 : kv.second[0] - 'a'; if (k >= 0 && k < N && v >= 0 && v < N && (k == v || !m.isAncestor(v, k))) c.fail("query|getAliases-value-not-a-source", where + " " + kv.first + "->" + kv.second); }
      for (int i = 0; i < N; ++i) { std::vector<std::string> ga = o.getAlias(pname(i)); std::multiset<std::string> g(ga.begin(), ga.end()), w; for (int j = 0; j < N; ++j) if (j != i && m.isAncestor(i, j)) w.insert(pname(j)); if (g != w) c.fail("query|getAlias", where + " getAlias(" + pname(i) + ")"); }
    }
  }

  void apply(int op, vf::Case& c) {
    Dec d = dec(op); std::string on = c.muted ? "" : opname(op); std::string before = c.muted ? "" : canon();
    auto nm = [&](int i) { return pname(i); };
    bool refusedExpected = false, raised = false; std::string what;
    auto call = [&](std::function<void()> f) { try { f(); } catch (Exception& e) { raised = true; what = e.what(); } };
    switch (d.kind) {
      case 0: { Model m2 = M; bool ok = m2.alias(d.a, d.b); refusedExpected = !ok; c.site("aliasParameters(p1,p2)"); call([&] { O->aliasParameters(nm(d.a), nm(d.b)); }); if (ok) M = m2; break; }
      case 1: { Model m2 = M; bool ok = m2.unalias(d.a, d.b); refusedExpected = !ok; c.site("unaliasParameters"); call([&] { O->unaliasParameters(nm(d.a), nm(d.b)); }); if (ok) M = m2; break; }
      case 2: {
        std::map<std::string, std::string> mp; for (auto& kv : maps[(size_t)d.a]) mp[M.ns + kv.first] = kv.second;   // keys are full names, sources short names (as the routine uses them)
        c.site("aliasParameters(map)"); call([&] { O->aliasParameters(mp, false); });
        // judged: terminated (alarm), performed every link when it returned, consistent object otherwise. The model adopts the forest the object now reports.
        std::string problem; std::vector<int> rp = realParents(*O, N, problem);
        if (!c.muted) {
          bool cyc = false; for (int i = 0; i < N; ++i) { int x = i, g = 0; while (x >= 0 && g <= N) { x = rp[(size_t)x]; ++g; } if (g > N) cyc = true; }
          if (cyc) c.fail("bulk-alias|cycle-accepted", on + " in " + before);
          if (!raised) for (auto& kv : maps[(size_t)d.a]) { int k = kv.first[0] - 'a', v = kv.second[0] - 'a'; if (rp[(size_t)k] != v) c.fail("bulk-alias|returned-without-performing-link", on + " in " + before + ": " + kv.first + " not aliased to " + kv.second);
            else if (O->getParameters()[(size_t)k].getValue() != O->getParameters()[(size_t)v].getValue()) c.fail("bulk-alias|alias-value-differs-from-source", on + " in " + before); }
          c.tag(std::string("bulk-alias->") + (raised ? "raised" : "linked"));
        }
        // adopt
        Model m2 = M; bool consistent = true;
        for (int j = 0; j < N; ++j) if (rp[(size_t)j] != M.parent[(size_t)j]) { if (M.parent[(size_t)j] >= 0 || rp[(size_t)j] < 0 || !m2.alias(rp[(size_t)j], j)) consistent = false; }
        // links are performed in an order the model does not know; retry until all requested links that the object holds are adopted
        if (!consistent) { m2 = M; std::vector<int> todo; for (int j = 0; j < N; ++j) if (rp[(size_t)j] != M.parent[(size_t)j]) todo.push_back(j); bool prog = true; while (prog && !todo.empty()) { prog = false; for (size_t t = 0; t < todo.size(); ++t) { int j = todo[t]; if (M.parent[(size_t)j] < 0 && rp[(size_t)j] >= 0 && m2.alias(rp[(size_t)j], j)) { todo.erase(todo.begin() + (long)t); prog = true; break; } } } consistent = todo.empty(); }
        if (consistent) { M = m2; for (int i = 0; i < N; ++i) M.val[(size_t)i] = O->getParameters()[(size_t)i].getValue();
          // constraints after a chain of intersections depend on link order; adopt what the object holds, the audit still checks value-in-constraint and equality with sources
          for (int i = 0; i < N; ++i) { auto ic = std::dynamic_pointer_cast<const IntervalConstraint>(O->getParameters()[(size_t)i].getConstraint()); M.cons[(size_t)i] = ofReal(ic); } }
        else if (!c.muted && !c.failed) c.fail("bulk-alias|object-holds-links-no-sequence-of-legal-alias-calls-produces", on + " in " + before + " -> " + canonObj(*O));
        raised = false; refusedExpected = false;
        break; }
      case 3: { M.setValue(d.a, d.b + 1); c.site("setParameterValue"); call([&] { O->setParameterValue(nm(d.a), d.b + 1); }); break; }
      case 4: case 5: { const std::vector<int>& s = subl[(size_t)d.a]; for (int i = 0; i < N; ++i) if (s[(size_t)i]) M.setValue(i, s[(size_t)i]); ParameterList pl = mkList(s);
        c.site(d.kind == 4 ? "setParametersValues" : "matchParametersValues"); call([&] { if (d.kind == 4) O->setParametersValues(pl); else O->matchParametersValues(pl); }); break; }
      case 6: { std::vector<int> s; int q = d.a; for (int i = 0; i < N; ++i) { s.push_back(q % 3 + 1); q /= 3; } for (int i = 0; i < N; ++i) M.setValue(i, s[(size_t)i]); ParameterList pl = mkList(s);
        c.site("setAllParametersValues"); call([&] { O->setAllParametersValues(pl); }); break; }
      case 7: case 8: {
        std::unique_ptr<Obj> Q;
        if (d.kind == 7) { c.site("copy constructor"); Q.reset(new Obj(*O)); }
        else { Q.reset(new Obj(N, cfg, M.ns)); // an object with a different alias forest and values
          if (d.a == 1) { Q->aliasParameters(nm(0), nm(1)); Q->setParameterValue(nm(0), 3); }
          if (d.a == 2) { Q->aliasParameters(nm(N - 1), nm(0)); Q->aliasParameters(nm(0), nm(1)); Q->setParameterValue(nm(N - 1), 2); }
          c.site("operator="); *Q = *O; }
        bool transient = (d.kind == 7 ? d.a == 1 : d.b == 1);
        if (!c.muted) audit(*Q, M, c, on, "copy");
        if (transient) {
          if (!c.muted && !c.failed) { Model mq = M; std::string orig = canonObj(*O);
            for (int j = 0; j < N && !c.failed; ++j) { double nv = mq.val[(size_t)j] == 3 ? 1 : mq.val[(size_t)j] + 1; mq.setValue(j, nv); std::string w; try { Q->setParameterValue(nm(j), nv); } catch (Exception& e) { c.fail("copy|update-on-copy-raised", on + ": " + e.what()); }
              audit(*Q, mq, c, on + " then copy.setParameterValue(" + nm(j) + "," + num(nv) + ")", "copy"); if (canonObj(*O) != orig) c.fail("copy|update-on-copy-changed-original", on + " then copy.setParameterValue(" + nm(j) + ")"); }
            // and the other direction: a copy of Q must not see later updates of Q (checked above: Q is mutated after O was copied into it and O stayed put);
            // here: copy Q once more, mutate Q, the second copy and O stay put
            std::unique_ptr<Obj> Q2(new Obj(*Q)); std::string q2c = canonObj(*Q2); double nv = mq.val[0] == 3 ? 1 : mq.val[0] + 1; mq.setValue(0, nv);
            try { Q->setParameterValue(nm(0), nv); } catch (Exception& e) { c.fail("copy|update-on-copy-raised", on + ": " + e.what()); }
            if (canonObj(*Q2) != q2c) c.fail("copy|update-on-original-changed-copy", on);
            if (canonObj(*O) != orig) c.fail("copy|update-on-copy-changed-original", on);
            audit(*Q, mq, c, on + " then second-level copy taken and source updated", "copy");
          }
        } else O = std::move(Q);
        break; }
      case 9: { std::string ns = d.a ? "n." : ""; M.ns = ns; c.site("setNamespace"); call([&] { O->setNamespace(ns); }); break; }
      default: { c.site("operator=(self)"); Obj& self = *O; call([&] { *O = self; }); break; }   // an assignment like any other: same relations, same independent set
    }
    if (c.muted) return;
    std::string part = on.substr(0, on.find('('));
    if (d.kind == 0 || d.kind == 1) {
      c.tag(part + (raised ? "->refused" : "->done"));
      if (refusedExpected && !raised) c.fail(part + "|illegal-request-accepted", on + " in " + before + " (already aliased target, or the link closes a cycle, or no such link)");
      if (!refusedExpected && raised) c.fail(part + "|legal-request-refused", on + " in " + before + ": " + what);
      if (raised && canonObj(*O) + " || " + M.s() != before) c.fail(part + "|refused-request-changed-state", on + " in " + before + " -> " + canonObj(*O));
    } else if (raised) c.fail(part + "|raised", on + " in " + before + ": " + what);
    audit(*O, M, c, on + " in " + before.substr(0, before.find(" || ")), "object");
    if (canon() != before || raised) c.nontrivial();
  }
};

int main(int argc, char** argv) {
  vf::Runner R(argc, argv, "C03");
  vfh::silence();
  bool th = R.thorough();
  auto run = [&](int n, int cfg, int depth) { Sys proto(n, cfg); std::string nm = "alias-histories:N" + str(n) + ":cons" + str(cfg) + (depth < 64 ? ":d" + str(depth) : "");
    R.explore(nm, depth, proto.nops(), [n, cfg] { return std::unique_ptr<Sys>(new Sys(n, cfg)); }, 2.0); };
  auto runReduced = [&](int n, int cfg, int depth) { Sys proto(n, cfg, true); std::string nm = "alias-histories:N" + str(n) + ":cons" + str(cfg) + ":link-centred-alphabet:d" + str(depth);
    R.explore(nm, depth, proto.nops(), [n, cfg] { return std::unique_ptr<Sys>(new Sys(n, cfg, true)); }, 2.0); };
  if (!th) { run(3, 0, 64); run(3, 2, 3); run(3, 3, 2); run(3, 4, 2); run(3, 5, 2); run(4, 2, 2); runReduced(4, 2, 3); }
  else { run(3, 0, 64); run(3, 1, 64); run(3, 2, 64); run(3, 3, 64); run(3, 4, 3); run(3, 5, 3); run(4, 2, 4); runReduced(4, 3, 4); runReduced(4, 0, 5); }
  R.expectSeen("aliasParameters->refused"); R.expectSeen("aliasParameters->done"); R.expectSeen("unaliasParameters->done"); R.expectSeen("bulk-alias->linked"); R.expectSeen("bulk-alias->raised");
  R.note("aliasing does not copy the value at alias time; a bulk update that names an aliased parameter directly is applied sequentially (the alias may then differ from its source until the source changes again)");
  R.note("getAliases maps every aliased parameter to one of its transitive sources (which one depends on register order); getAlias/getAliases are judged under the empty namespace only");
  return R.finish();
}
