// C20 — range collections behave as sets of points
// VF-VARIANT: san
// VF-RULE: E2: every pair of ranges with end points in 0..U (ordered, reversed, empty) for int/unsigned/double; E1: breadth-first closure over all histories of addRange/restrictTo/filterWithin/clear/copy/assign with every end-point pair in 0..U. A case is non-trivial when both operand ranges are non-empty (E2) or the transition changed the canonical state (E1).
// VF-BOUND: universes 0..8 (quick) / 0..12 (thorough) instead of 0..24; closure of the state graph covers histories of any length over the universe
#include "vf.hpp"
#include <Bpp/Numeric/Range.h>
#include <typeinfo>
using namespace bpp;
using vf::str;

template<class T> struct TN { static const char* n(); };
template<> const char* TN<int>::n() { return "int"; }
template<> const char* TN<unsigned>::n() { return "unsigned"; }
template<> const char* TN<double>::n() { return "double"; }

// ---------- reference: half-open integer intervals as bit sets of unit cells ----------
typedef uint32_t Bits;
static Bits cellsOf(int a, int b) { if (a > b) std::swap(a, b); Bits m = 0; for (int i = a; i < b; ++i) m |= (1u << i); return m; }
static int popc(Bits b) { return __builtin_popcount(b); }

template<class T> std::string rs(const Range<T>& r) { return "[" + str(r.begin()) + "," + str(r.end()) + "["; }

// ---------- E2: primitives on all pairs ----------
template<class T> void prims(vf::Runner& R, int U) {
  int n = U + 1;
  std::string name = std::string("prims:") + TN<T>::n() + ":U" + str(U);
  R.space(name, (uint64_t)n * n * n * n, [=](uint64_t idx, vf::Case& c) {
    std::vector<int> d = vf::digits(idx, {n, n, n, n});
    int a = d[0], b = d[1], x = d[2], y = d[3];
    std::string in = std::string(TN<T>::n()) + " Range(" + str(a) + "," + str(b) + ") vs Range(" + str(x) + "," + str(y) + ")";
    c.site("Range ctor");
    Range<T> r((T)a, (T)b), s((T)x, (T)y);
    int rb = std::min(a, b), re = std::max(a, b), sb = std::min(x, y), se = std::max(x, y);
    Bits rc = cellsOf(a, b), sc = cellsOf(x, y);
    bool ne = rc && sc;
    if (ne) c.nontrivial();
    if (r.begin() != (T)rb || r.end() != (T)re) c.fail("prims|ctor-normalisation", in + ": got " + rs(r));
    if (r.length() != (T)(re - rb)) c.fail("prims|length", in + ": length " + str(r.length()));
    if (r.isEmpty() != (rc == 0)) c.fail("prims|isEmpty", in);
    if ((r == s) != (rb == sb && re == se) || (r != s) == (r == s)) c.fail("prims|equality", in);
    if (r.toString() != "[" + TextTools::toString((T)rb) + "," + TextTools::toString((T)re) + "[") c.fail("prims|toString", in + ": " + r.toString());
    if (ne) {
      // predicates judged on non-empty operands (an empty operand is read differently by "point set" and "end point" semantics)
      c.site("Range::overlap");
      if (r.overlap(s) != ((rc & sc) != 0)) c.fail("prims|overlap", in + ": overlap=" + str(r.overlap(s)));
      c.site("Range::contains");
      if (r.contains(s) != ((sc & ~rc) == 0)) c.fail("prims|contains", in + ": contains=" + str(r.contains(s)));
      c.site("Range::isContiguous");
      if (r.isContiguous(s) != (re == sb || se == rb)) c.fail("prims|isContiguous", in + ": isContiguous=" + str(r.isContiguous(s)));
      c.tag(std::string("overlap=") + (r.overlap(s) ? "1" : "0"));
    } else c.tag("empty-operand");
    // expandWith: hull of the union when the union is an interval, unchanged otherwise (judged for non-empty receiver)
    if (rc) {
      c.site("Range::expandWith");
      Range<T> e(r); e.expandWith(s);
      bool connected = sc && ((rc & sc) || re == sb || se == rb);
      int eb = connected ? std::min(rb, sb) : rb, ee = connected ? std::max(re, se) : re;
      if (e.begin() != (T)eb || e.end() != (T)ee) c.fail("prims|expandWith", in + ": got " + rs(e) + " expected [" + str(eb) + "," + str(ee) + "[");
    }
    // sliceWith: intersection as a point set
    {
      c.site("Range::sliceWith");
      Range<T> e(r); e.sliceWith(s);
      Bits want = rc & sc;
      bool ok = (want == 0) ? e.isEmpty() : (e.begin() == (T)std::max(rb, sb) && e.end() == (T)std::min(re, se));
      if (!ok) c.fail("prims|sliceWith", in + ": got " + rs(e));
    }
    // shifts preserve length and are inverse of each other (kept inside the universe for unsigned)
    {
      c.site("Range shift");
      T k = (T)x;
      Range<T> e(r); e += k;
      if (e.length() != r.length() || e.begin() != (T)(rb + x)) c.fail("prims|shift+=", in + ": got " + rs(e));
      Range<T> f = r + k; if (!(f == e)) c.fail("prims|operator+", in);
      e -= k; if (!(e == r)) c.fail("prims|shift-=", in + ": got " + rs(e));
      Range<T> g = f - k; if (!(g == r)) c.fail("prims|operator-", in);
      if (!(r.begin() == (T)rb && r.end() == (T)re)) c.fail("prims|operator+ mutated receiver", in);
      // downward shift first (seeded C20-11): for an unsigned type the shift may pass below zero, where the two end points move by
      // modular arithmetic; the length (end - begin in the same arithmetic) is still preserved and the opposite shift restores the range
      Range<T> d(r); d -= k;
      if (d.length() != r.length()) c.fail("prims|shift-=-first-length", in + ": got " + rs(d) + " length " + str(d.length()));
      Range<T> d2 = r - k; if (!(d2.begin() == d.begin() && d2.end() == d.end())) c.fail("prims|operator--first", in + ": got " + rs(d2));
      d += k; if (!(d.begin() == (T)rb && d.end() == (T)re)) c.fail("prims|shift-=-then-+=", in + ": got " + rs(d));
    }
    // copies are independent
    {
      c.site("Range copy");
      Range<T> e(r); Range<T> f; f = r; std::unique_ptr<Range<T>> g(r.clone());
      e += (T)1; if (!(f == r) || !(*g == r)) c.fail("prims|copy-independent", in);
    }
    if (idx % 1201 == 7) c.sample(in + " overlap=" + str(r.overlap(s)) + " contains=" + str(r.contains(s)));
  }, 5.0);
}

// ---------- E1: MultiRange histories ----------
struct MRModel {
  // the point set only: union of everything added, intersected with every restriction since. The stored decomposition is NOT
  // dictated (touching ranges may or may not be merged); filterWithin is defined on the decomposition the object held before the call.
  Bits cells = 0;
  void add(int a, int b) { cells |= cellsOf(a, b); }
  void restrict_(int a, int b) { cells &= cellsOf(a, b); }
  void filter(int a, int b, const std::vector<std::pair<int, int>>& stored) {
    if (a > b) std::swap(a, b);
    Bits cs = 0; for (auto& p : stored) if (p.first >= a && p.second <= b) cs |= cellsOf(p.first, p.second);
    cells = cs;
  }
  void clear() { cells = 0; }
  std::string s() const { return "cells=" + str(cells); }
};

template<class T, bool PAIR> struct MRSys : vf::SysBase {
  // PAIR=false: one persistent object A; every base operation exists in three variants:
  //   plain | preceded by a copy-construction of a transient shadow | preceded by an assignment into a pre-filled transient shadow.
  //   After the operation the shadow must still equal the pre-state, and mutating the shadow must not change A. The shadow is then
  //   dropped, so the state graph stays that of a single object (and closes).
  // PAIR=true: two persistent objects A and B with the full alphabet on both plus B=copy(A), B=A, A=B (small universes only).
  int U, n;
  std::unique_ptr<MultiRange<T>> A, B;
  MRModel mA, mB;
  int perObj() const { return 3 * n * n + 1; }
  int nops() const { return PAIR ? 2 * perObj() + 3 : 3 * perObj() + 1; }   // single object: + self-assignment
  bool warm = false;   // every read-only query is asked before every operation (a value cached by a query must not survive the next edit)
  MRSys(int u, bool w = false) : U(u), n(u + 1), A(new MultiRange<T>()), B(new MultiRange<T>()), warm(w) {}
  std::string basename_(int k, const std::string& o) const {
    if (k == 3 * n * n) return o + ".clear()";
    int kind = k / (n * n), a = (k % (n * n)) / n, b = k % n;
    const char* nm[] = {"addRange", "restrictTo", "filterWithin"};
    return o + "." + nm[kind] + "(Range(" + str(a) + "," + str(b) + "))";
  }
  std::string opname(int op) const {
    int po = perObj();
    if (PAIR) {
      if (op < 2 * po) return basename_(op % po, op / po ? "B" : "A");
      switch (op - 2 * po) { case 0: return "B = copy-construct(A)"; case 1: return "B = A (assign)"; default: return "A = B (assign)"; }
    }
    if (op == 3 * po) return "A = A (self-assignment)";
    const char* pre[] = {"", "S=copy-construct(A); ", "S={[0,1[,[2,3[}; S=A; "};
    return std::string(pre[op / po]) + basename_(op % po, "A") + (op / po ? "; check S; S.restrictTo(Range(0,1)); check A" : "");
  }
  static std::string dump(const MultiRange<T>& m) {
    std::string r; for (auto* p : m.ranges_) r += "[" + str(p->begin()) + "," + str(p->end()) + "["; return r;
  }
  std::string canon() const { return "A:" + dump(*A) + "|B:" + dump(*B) + "|mA:" + mA.s() + "|mB:" + mB.s() + "|c:" + str(mA.cells) + "," + str(mB.cells); }
  void audit(const char* which, const MultiRange<T>& m, const MRModel& mod, vf::Case& c, const std::string& opn) {
    std::string ctx = std::string(TN<T>::n()) + " after " + opn + ": " + which + " stores " + dump(m) + ", model " + mod.s();
    Bits un = 0; bool ok = true; T prevEnd = 0; bool first = true;
    for (auto* p : m.ranges_) {
      if (p->isEmpty()) { c.fail("multirange|stores-empty-range", ctx); ok = false; }
      Bits cs = cellsOf((int)p->begin(), (int)p->end());
      if (cs & un) { c.fail("multirange|ranges-not-disjoint", ctx); ok = false; }
      if (!first && p->begin() < prevEnd) { c.fail("multirange|not-ascending", ctx); ok = false; }
      un |= cs; prevEnd = p->end(); first = false;
    }
    if (un != mod.cells) c.fail("multirange|union-differs-from-point-set", ctx + " (cells " + str(un) + " vs " + str(mod.cells) + ")");
    if (m.size() != m.ranges_.size() || m.isEmpty() != (m.ranges_.size() == 0)) c.fail("multirange|size/isEmpty", ctx);
    if (m.totalLength() != (size_t)popc(un)) c.fail("multirange|totalLength", ctx + " totalLength=" + str(m.totalLength()));
    std::vector<T> bd = m.getBounds(); std::string ts = "{ ";
    bool bok = bd.size() == 2 * m.ranges_.size();
    for (size_t i = 0; i < m.ranges_.size() && bok; ++i) { if (bd[2 * i] != m.getRange(i).begin() || bd[2 * i + 1] != m.getRange(i).end()) bok = false; }
    for (size_t i = 0; i < m.ranges_.size(); ++i) ts += m.getRange(i).toString() + " ";
    if (!bok) c.fail("multirange|getBounds", ctx);
    if (m.toString() != ts + "}") c.fail("multirange|toString", ctx + " toString=" + m.toString());
  }
  void base(int k, MultiRange<T>& X, MRModel& M) {
    if (warm) { volatile size_t sink = X.totalLength() + X.size() + (X.isEmpty() ? 1 : 0) + X.getBounds().size() + X.toString().size(); (void)sink; }
    if (k == 3 * n * n) { X.clear(); M.clear(); return; }
    int kind = k / (n * n), a = (k % (n * n)) / n, b = k % n;
    Range<T> r((T)a, (T)b);
    if (kind == 0) { X.addRange(r); M.add(a, b); }
    else if (kind == 1) { X.restrictTo(r); M.restrict_(a, b); }
    else { std::vector<std::pair<int, int>> st; for (auto* p : X.ranges_) st.push_back({(int)p->begin(), (int)p->end()}); X.filterWithin(r); M.filter(a, b, st); }
  }
  void apply(int op, vf::Case& c) {
    int po = perObj(); std::string on = c.muted ? std::string() : opname(op);
    std::string before = c.muted ? std::string() : canon();
    if (PAIR) {
      if (op < 2 * po) base(op % po, op / po ? *B : *A, op / po ? mB : mA);
      else switch (op - 2 * po) {
        case 0: B.reset(new MultiRange<T>(*A)); mB = mA; break;
        case 1: *B = *A; mB = mA; break;
        default: *A = *B; mA = mB; break;
      }
      if (c.muted) return;
      audit("A", *A, mA, c, on); audit("B", *B, mB, c, on);
      for (auto* p : A->ranges_) for (auto* q : B->ranges_) if (p == q) c.fail("multirange|copy-shares-range-objects", on);
    } else if (op == 3 * po) {
      MultiRange<T>& self = *A; *A = self;   // an assignment like any other: the object still holds what the source holds
      if (c.muted) return;
      audit("A", *A, mA, c, on);
    } else {
      int variant = op / po;
      if (variant == 0 || c.muted) { base(op % po, *A, mA); if (c.muted) return; audit("A", *A, mA, c, on); }
      else {
        std::unique_ptr<MultiRange<T>> S; MRModel mS = mA;
        if (variant == 1) S.reset(new MultiRange<T>(*A));
        else { S.reset(new MultiRange<T>()); S->addRange(Range<T>(0, 1)); S->addRange(Range<T>(2, 3)); *S = *A; }
        audit("S(copy)", *S, mS, c, on);
        for (auto* p : A->ranges_) for (auto* q : S->ranges_) if (p == q) c.fail("multirange|copy-shares-range-objects", on);
        base(op % po, *A, mA);
        audit("A", *A, mA, c, on);
        audit("S(after source changed)", *S, mS, c, on);
        S->restrictTo(Range<T>(0, 1)); mS.restrict_(0, 1);
        audit("S(restricted)", *S, mS, c, on);
        audit("A(after copy changed)", *A, mA, c, on);
      }
    }
    if (canon() != before) c.nontrivial();
    c.tag(on.substr(0, on.find('(')));
  }
};

// ---------- E1: RangeSet histories (depth bounded: the state space is infinite) ----------
template<class T> struct RSSys : vf::SysBase {
  int U, n;
  std::unique_ptr<RangeSet<T>> A, B;
  std::vector<std::pair<int, int>> mA, mB;
  RSSys(int u) : U(u), n(u + 1), A(new RangeSet<T>()), B(new RangeSet<T>()) {}
  int nops() const { return 3 * n * n + 1 + 4; }
  std::string opname(int op) const {
    if (op < 3 * n * n) { int kind = op / (n * n), a = (op % (n * n)) / n, b = op % n; const char* nm[] = {"addRange", "restrictTo", "filterWithin"};
      return std::string("A.") + nm[kind] + "(Range(" + str(a) + "," + str(b) + "))"; }
    switch (op - 3 * n * n) { case 0: return "A.clear()"; case 1: return "B = copy-construct(A)"; case 2: return "B = A (assign)"; case 3: return "A = B (assign)"; default: return "A = A (self-assignment)"; }
  }
  static std::string dump(const RangeSet<T>& m) { std::string r; for (auto* p : m.ranges_) r += "[" + str(p->begin()) + "," + str(p->end()) + "["; return r; }
  static std::string ms(const std::vector<std::pair<int, int>>& l) { std::string r; for (auto& p : l) r += "[" + str(p.first) + "," + str(p.second) + "["; return r; }
  std::string canon() const { return "A:" + dump(*A) + "|B:" + dump(*B) + "|mA:" + ms(mA) + "|mB:" + ms(mB); }
  void audit(const char* w, const RangeSet<T>& m, const std::vector<std::pair<int, int>>& mod, vf::Case& c, const std::string& on) {
    std::string ctx = std::string(TN<T>::n()) + " after " + on + ": " + w + " stores " + dump(m) + ", model " + ms(mod);
    if (dump(m) != ms(mod)) c.fail("rangeset|content-differs-from-model", ctx);
    size_t tl = 0; for (auto& p : mod) tl += (size_t)(p.second - p.first);
    if (m.size() != mod.size() || m.isEmpty() != mod.empty() || m.totalLength() != tl) c.fail("rangeset|size/totalLength", ctx);
    for (size_t i = 0; i < m.size() && i < mod.size(); ++i) if (m.getRange(i).begin() != (T)mod[i].first || m.getRange(i).end() != (T)mod[i].second) c.fail("rangeset|getRange", ctx);
    std::string ts = "{ "; for (auto& p : mod) ts += Range<T>((T)p.first, (T)p.second).toString() + " ";
    if (m.toString() != ts + "}") c.fail("rangeset|toString", ctx);
  }
  void apply(int op, vf::Case& c) {
    std::string on = opname(op); std::string before = c.muted ? std::string() : canon();
    if (op < 3 * n * n) {
      int kind = op / (n * n), a = (op % (n * n)) / n, b = op % n; Range<T> r((T)a, (T)b);
      int lo = std::min(a, b), hi = std::max(a, b);
      if (kind == 0) { A->addRange(r); if (lo < hi) mA.push_back({lo, hi}); }
      else if (kind == 1) { A->restrictTo(r); std::vector<std::pair<int, int>> k; for (auto& p : mA) { int l2 = std::max(p.first, lo), h2 = std::min(p.second, hi); if (l2 < h2) k.push_back({l2, h2}); } mA = k; }
      else { A->filterWithin(r); std::vector<std::pair<int, int>> k; for (auto& p : mA) if (p.first >= lo && p.second <= hi) k.push_back(p); mA = k; }
    } else switch (op - 3 * n * n) {
      case 0: A->clear(); mA.clear(); break;
      case 1: B.reset(new RangeSet<T>(*A)); mB = mA; break;
      case 2: *B = *A; mB = mA; break;
      case 3: *A = *B; mA = mB; break;
      default: { RangeSet<T>& self = *A; *A = self; break; }
    }
    if (c.muted) return;
    audit("A", *A, mA, c, on); audit("B", *B, mB, c, on);
    for (auto* p : A->ranges_) for (auto* q : B->ranges_) if (p == q) c.fail("rangeset|copy-shares-range-objects", on);
    if (canon() != before) c.nontrivial();
    c.tag(on.substr(0, on.find('(')));
  }
};

template<class T> void mr(vf::Runner& R, int U, int depth) {
  MRSys<T, false> proto(U);
  R.explore(std::string("multirange:") + TN<T>::n() + ":U" + str(U), depth, proto.nops(), [U]() { return std::unique_ptr<MRSys<T, false>>(new MRSys<T, false>(U)); });
}
template<class T> void mrwarm(vf::Runner& R, int U, int depth) {
  MRSys<T, false> proto(U, true);
  R.explore(std::string("multirange:") + TN<T>::n() + ":U" + str(U) + ":every-query-asked-before-every-operation", depth, proto.nops(), [U]() { return std::unique_ptr<MRSys<T, false>>(new MRSys<T, false>(U, true)); });
}
template<class T> void mrpair(vf::Runner& R, int U, int depth) {
  MRSys<T, true> proto(U);
  R.explore(std::string("multirange-pair:") + TN<T>::n() + ":U" + str(U), depth, proto.nops(), [U]() { return std::unique_ptr<MRSys<T, true>>(new MRSys<T, true>(U)); });
}
template<class T> void rset(vf::Runner& R, int U, int depth) {
  RSSys<T> proto(U);
  R.explore(std::string("rangeset:") + TN<T>::n() + ":U" + str(U) + ":d" + str(depth), depth, proto.nops(), [U]() { return std::unique_ptr<RSSys<T>>(new RSSys<T>(U)); });
}

int main(int argc, char** argv) {
  vf::Runner R(argc, argv, "C20");
  bool th = R.thorough();
  int U = th ? 12 : 8;
  prims<int>(R, U); prims<unsigned>(R, U); prims<double>(R, U);
  // closure: depth bound large enough never to bind (the frontier empties first)
  mr<int>(R, th ? 10 : 8, 64);
  mr<unsigned>(R, th ? 8 : 6, 64);
  mr<double>(R, th ? 8 : 6, 64);
  mrpair<int>(R, th ? 5 : 4, 64);
  mrwarm<int>(R, th ? 8 : 6, 64);
  rset<int>(R, th ? 6 : 4, 3);
  rset<unsigned>(R, th ? 4 : 3, 3);
  rset<double>(R, th ? 4 : 3, 3);
  if (th) mr<int>(R, 12, 64);
  R.note("predicates overlap/contains/isContiguous are judged on non-empty operands only; an empty operand is recorded, not judged");
  R.note("MultiRange: the stored decomposition is not dictated (touching ranges may or may not be merged); filterWithin is judged against the decomposition held before the call");
  return R.finish();
}
