// C02 — bulk parameter updates are atomic; names stay unique; copies are independent
// VF-VARIANT: san
// VF-RULE: E2: every (target list, source list, operation) triple — targets = every ordered name subset (<=3 quick, <=4 thorough, names a..d with fixed constraints, two admissible values per name), sources = every ordered name subset (<=3 / <=4) x values {-1,0,0.5,2}, operations = the three atomic bulk setters, their owner forwards, test/include/add/share/set/match/common. E1: breadth-first exploration of all histories over two live lists T and D (add clone/pointer, delete by name/index/name-list/index-set, sub-list create/share by names/indices, copy, assign, common, all bulk operations with D as source, swap roles, setParameterValue on both lists). Non-trivial: at least one source name matches a target name (E2) / the transition changed the canonical state or raised (E1).
// VF-BOUND: lists of 0..4 parameters over 4 names instead of 0..8; E1 to depth 3 (quick) / 4 (thorough) or closure; zero precision only (as the property states)
// VF-LEVEL: Exhaustive one-step check of every bulk operation from every small target state against every small source list (atomicity, exact change reporting, untouched non-named entries), plus explicit-state exploration of multi-step histories with object-identity tracking (sharing vs cloning) against a lock-step reference model of (name, value, identity) lists.
// VF-ASSUME: ASan/UBSan/libstdc++ assertions are sound detectors;; reference model in this file: atomic validate-then-apply for setParametersValues/setAllParametersValues/matchParametersValues and their owner forwards, sequential semantics for include/share/add/setParameters/matchParameters and name-list deletion (as the code does and the statement allows);; ParameterList::setParameter(index, param) is outside the statement (it neither adds, includes nor shares) and is not driven
// VF-TECHNIQUE: explicit-state model checking of operation histories (BFS, canonical-state de-duplication incl. object identity) + exhaustive enumeration of list pairs
#include "vf.hpp"
#include "common.hpp"
#include <Bpp/Numeric/Parameter.h>
#include <Bpp/Numeric/ParameterList.h>
#include <Bpp/Numeric/AbstractParametrizable.h>
#include <limits>
using namespace bpp;
using vf::str; using vf::num;

static const double INF = std::numeric_limits<double>::infinity();
static const char* NAMES[] = {"a", "b", "c", "d"};
static bool acceptsByName(int n, double v) { switch (n) { case 0: return v >= 0 && v <= 1; case 1: return v > 0; case 2: return true; default: return v >= -1 && v <= 1; } }
static std::shared_ptr<ConstraintInterface> consOf(int n) {
  static std::shared_ptr<ConstraintInterface> k[4] = {std::make_shared<IntervalConstraint>(0, 1, true, true), std::make_shared<IntervalConstraint>(0, INF, false, false), nullptr, std::make_shared<IntervalConstraint>(-1, 1, true, true)};
  return k[n];
}
static int nameIdx(const std::string& s) { for (int i = 0; i < 4; ++i) if (s == NAMES[i]) return i; return -1; }

// ---------------- reference model ----------------
struct Ent { int name; int tok; };
struct Tok { double v; bool constrained; };
enum Exc { NONE, DUP /*ParameterException*/, NOTFOUND, CONSTRAINT, INDEX };
static const char* excName(int e) { const char* n[] = {"ok", "ParameterException", "ParameterNotFoundException", "ConstraintException", "IndexOutOfBoundsException"}; return n[e]; }
struct Model {
  std::vector<Ent> L[2]; std::vector<Tok> tk;
  int fresh(double v, bool constrained) { tk.push_back({v, constrained}); return (int)tk.size() - 1; }
  int find(int l, int name) const { for (size_t i = 0; i < L[l].size(); ++i) if (L[l][i].name == name) return (int)i; return -1; }
  bool acc(int tok, int name, double v) const { return !tk[(size_t)tok].constrained || acceptsByName(name, v); }
  // single value write through list l
  Exc setValue(int l, int name, double v) { int i = find(l, name); if (i < 0) return NOTFOUND; int t = L[l][(size_t)i].tok; if (tk[(size_t)t].v == v) return NONE; if (!acc(t, name, v)) return CONSTRAINT; tk[(size_t)t].v = v; return NONE; }
  Exc add(int l, int name, double v, bool constrained) { if (find(l, name) >= 0) return DUP; L[l].push_back({name, fresh(v, constrained)}); return NONE; }
  // bulk: target t, source s
  Exc setParametersValues(int t, int s) {
    for (auto& e : L[s]) { int i = find(t, e.name); if (i >= 0 && !acc(L[t][(size_t)i].tok, e.name, tk[(size_t)e.tok].v)) return CONSTRAINT; }
    std::vector<double> sv; for (auto& e : L[s]) sv.push_back(tk[(size_t)e.tok].v);   // snapshot: a source may share objects with the target
    for (size_t k = 0; k < L[s].size(); ++k) { int i = find(t, L[s][k].name); if (i >= 0) tk[(size_t)L[t][(size_t)i].tok].v = tk[(size_t)L[s][k].tok].v; }
    (void)sv; return NONE;
  }
  Exc matchParametersValues(int t, int s, bool& ch, std::vector<size_t>& upd) {
    ch = false; upd.clear();
    for (auto& e : L[s]) { int i = find(t, e.name); if (i >= 0 && !acc(L[t][(size_t)i].tok, e.name, tk[(size_t)e.tok].v)) return CONSTRAINT; }
    for (size_t k = 0; k < L[s].size(); ++k) { int i = find(t, L[s][k].name); if (i < 0) continue; double& tv = tk[(size_t)L[t][(size_t)i].tok].v; double sv = tk[(size_t)L[s][k].tok].v; if (tv != sv) { tv = sv; ch = true; upd.push_back(k); } }
    return NONE;
  }
  Exc testParametersValues(int t, int s, bool& ch) const {
    ch = false;
    for (auto& e : L[s]) { int i = find(t, e.name); if (i >= 0 && !acc(L[t][(size_t)i].tok, e.name, tk[(size_t)e.tok].v)) return CONSTRAINT; }
    for (auto& e : L[s]) { int i = find(t, e.name); if (i >= 0 && tk[(size_t)L[t][(size_t)i].tok].v != tk[(size_t)e.tok].v) ch = true; }
    return NONE;
  }
  // returns NOTFOUND or CONSTRAINT when the call must raise (which of the two wins when both apply is not judged: 'either' flag)
  Exc setAllParametersValues(int t, int s, bool& either) {
    either = false; bool nf = false, rej = false;
    for (auto& e : L[t]) { int i = find(s, e.name); if (i < 0) { nf = true; continue; } if (!acc(e.tok, e.name, tk[(size_t)L[s][(size_t)i].tok].v)) rej = true; }
    if (nf && rej) { either = true; return NOTFOUND; } if (nf) return NOTFOUND; if (rej) return CONSTRAINT;
    for (auto& e : L[t]) { int i = find(s, e.name); tk[(size_t)e.tok].v = tk[(size_t)L[s][(size_t)i].tok].v; }
    return NONE;
  }
  Exc include(int t, int s, bool share) {   // sequential; collision => value update
    std::vector<Ent> src = L[s];
    for (auto& e : src) { int i = find(t, e.name); if (i >= 0) { Exc x = setValue(t, e.name, tk[(size_t)e.tok].v); if (x != NONE) return x; } else L[t].push_back({e.name, share ? e.tok : fresh(tk[(size_t)e.tok].v, tk[(size_t)e.tok].constrained)}); }
    return NONE;
  }
  Exc addParameters(int t, int s) { std::vector<Ent> src = L[s]; for (auto& e : src) { if (find(t, e.name) >= 0) return DUP; L[t].push_back({e.name, fresh(tk[(size_t)e.tok].v, tk[(size_t)e.tok].constrained)}); } return NONE; }
  Exc setParameters(int t, int s, bool mustExist) {  // whole-parameter assignment, sequential
    for (auto& e : L[s]) { int i = find(t, e.name); if (i < 0) { if (mustExist) return NOTFOUND; continue; } tk[(size_t)L[t][(size_t)i].tok] = tk[(size_t)e.tok]; }
    return NONE;
  }
  std::vector<Ent> common(int t, int s) { std::vector<Ent> r; for (auto& e : L[s]) if (find(t, e.name) >= 0) r.push_back({e.name, fresh(tk[(size_t)e.tok].v, tk[(size_t)e.tok].constrained)}); return r; }
  std::vector<Ent> cloneList(int l) { std::vector<Ent> r; for (auto& e : L[l]) r.push_back({e.name, fresh(tk[(size_t)e.tok].v, tk[(size_t)e.tok].constrained)}); return r; }
  std::string s(int nl = 2) const {
    std::map<int, int> rel; std::string r;
    for (int l = 0; l < nl; ++l) { r += (l ? " D:[" : "T:["); for (auto& e : L[l]) { auto it = rel.find(e.tok); if (it == rel.end()) it = rel.insert({e.tok, (int)rel.size()}).first; r += std::string(NAMES[e.name]) + "=" + num(tk[(size_t)e.tok].v) + "#" + str(it->second) + (tk[(size_t)e.tok].constrained ? "c " : "u "); } r += "]"; }
    return r;
  }
};
static std::string realStr(const ParameterList* const* X, int nl = 2) {
  std::map<const Parameter*, int> rel; std::string r;
  for (int l = 0; l < nl; ++l) { r += (l ? " D:[" : "T:["); for (size_t i = 0; i < X[l]->size(); ++i) { const Parameter* p = X[l]->getParameter(i).get(); auto it = rel.find(p); if (it == rel.end()) it = rel.insert({p, (int)rel.size()}).first;
      r += p->getName() + "=" + num(p->getValue()) + "#" + str(it->second) + (p->hasConstraint() ? "c " : "u "); } r += "]"; }
  return r;
}
static int classify(std::function<void()> f, std::string& what) {
  try { f(); return NONE; }
  catch (ConstraintException& e) { what = e.what(); return CONSTRAINT; }
  catch (ParameterNotFoundException& e) { what = e.what(); return NOTFOUND; }
  catch (ParameterException& e) { what = e.what(); return DUP; }
  catch (IndexOutOfBoundsException& e) { what = e.what(); return INDEX; }
  catch (Exception& e) { what = std::string("bpp::Exception ") + e.what(); return 90; }
  catch (std::exception& e) { what = std::string("std::exception ") + e.what(); return 91; }
}
static void uniqueNames(const ParameterList& l, vf::Case& c, const std::string& ctx) {
  auto n = l.getParameterNames(); std::set<std::string> s(n.begin(), n.end());
  if (s.size() != n.size()) c.fail("names|duplicate-name-in-list", ctx);
}
// lookups address exactly the named entries
static void lookups(const ParameterList& l, const std::vector<Ent>& m, const Model& M, vf::Case& c, const std::string& ctx) {
  for (int n = 0; n < 4; ++n) {
    int want = -1; for (size_t i = 0; i < m.size(); ++i) if (m[i].name == n) want = (int)i;
    if (l.hasParameter(NAMES[n]) != (want >= 0)) c.fail("lookup|hasParameter", ctx + " name " + NAMES[n]);
    std::string w; size_t got = 999; int e = classify([&] { got = l.whichParameterHasName(NAMES[n]); }, w);
    if (want >= 0 ? (e != NONE || got != (size_t)want) : e != NOTFOUND) c.fail("lookup|whichParameterHasName", ctx + " name " + NAMES[n]);
    double v = 0; e = classify([&] { v = l.getParameterValue(NAMES[n]); }, w);
    if (want >= 0 ? (e != NONE || v != M.tk[(size_t)m[(size_t)want].tok].v) : e != NOTFOUND) c.fail("lookup|getParameterValue", ctx + " name " + NAMES[n]);
  }
}

struct OwnerT : public AbstractParametrizable {
  std::vector<std::string> fired; int nfired = 0;
  OwnerT(const ParameterList& pl) : AbstractParametrizable("") { shareParameters_(pl); }
  OwnerT* clone() const override { return new OwnerT(*this); }
  void fireParameterChanged(const ParameterList& pl) override { fired = pl.getParameterNames(); ++nfired; }
};

// ---------------- E2: (target, source, op) ----------------
struct LDesc { std::vector<int> names; std::vector<int> vals; };
static std::vector<LDesc> enumLists(int maxLen, int nvals) {
  std::vector<LDesc> out; out.push_back({});
  for (int len = 1; len <= maxLen; ++len) {
    std::vector<int> idx((size_t)len, 0);
    // all ordered subsets (injective sequences) of 4 names of this length
    std::function<void(std::vector<int>&)> rec = [&](std::vector<int>& cur) {
      if ((int)cur.size() == len) { uint64_t nv = 1; for (int i = 0; i < len; ++i) nv *= (uint64_t)nvals;
        for (uint64_t k = 0; k < nv; ++k) { LDesc d; d.names = cur; uint64_t q = k; for (int i = 0; i < len; ++i) { d.vals.push_back((int)(q % (uint64_t)nvals)); q /= (uint64_t)nvals; } out.push_back(d); } return; }
      for (int n = 0; n < 4; ++n) { if (std::find(cur.begin(), cur.end(), n) != cur.end()) continue; cur.push_back(n); rec(cur); cur.pop_back(); }
    };
    std::vector<int> cur; rec(cur);
  }
  return out;
}
static const double TVALS[4][2] = {{0, 0.5}, {0.5, 2}, {-1, 2}, {-1, 0.5}};   // admissible values per name (targets)
static const double SVALS[] = {-1, 0.5, 2, 0};
// seeded C02-11: source values 4e-13 away from an admissible target value (zero precision: such an update is a change like any other)
static const double SVNEAR[] = {0.5 + 4e-13, 2 - 4e-13, -1 + 4e-13, 0.5};
static thread_local const double* SV = SVALS;                                  // sources carry no constraint (quick tier uses the first three)
static const char* E2OPS[] = {"setParametersValues", "matchParametersValues", "setAllParametersValues", "testParametersValues", "owner.setParametersValues", "owner.matchParametersValues", "owner.setAllParametersValues",
                              "includeParameters", "shareParameters", "addParameters", "setParameters", "matchParameters", "getCommonParametersWith"};
static const int NE2 = 13;

static void runE2(const LDesc& td, const LDesc& sd, int op, vf::Case& c) {
  Model M; ParameterList T, S;
  for (size_t i = 0; i < td.names.size(); ++i) { double v = TVALS[td.names[i]][td.vals[i]]; M.add(0, td.names[i], v, td.names[i] != 2); T.addParameter(Parameter(NAMES[td.names[i]], v, consOf(td.names[i]))); }
  for (size_t i = 0; i < sd.names.size(); ++i) { double v = SV[sd.vals[i]]; M.add(1, sd.names[i], v, false); S.addParameter(Parameter(NAMES[sd.names[i]], v)); }
  // constrained flag of 'c' entries: consOf(2)==nullptr -> unconstrained in both
  const ParameterList* X[2] = {&T, &S};
  std::string pre = realStr(X);
  std::string ctx = std::string(E2OPS[op]) + " on " + pre;
  bool match = false; for (int n : sd.names) if (std::find(td.names.begin(), td.names.end(), n) != td.names.end()) match = true;
  if (match) c.nontrivial();
  std::string what; int got = NONE, want = NONE; bool either = false;
  bool ch = false, mch = false; std::vector<size_t> upd, mupd;
  c.site(E2OPS[op]);
  switch (op) {
    case 0: want = M.setParametersValues(0, 1); got = classify([&] { T.setParametersValues(S); }, what); break;
    case 1: want = M.matchParametersValues(0, 1, mch, mupd); got = classify([&] { ch = T.matchParametersValues(S, &upd); }, what); break;
    case 2: want = M.setAllParametersValues(0, 1, either); got = classify([&] { T.setAllParametersValues(S); }, what); break;
    case 3: want = M.testParametersValues(0, 1, mch); got = classify([&] { ch = T.testParametersValues(S); }, what); break;
    case 4: case 5: case 6: {
      OwnerT O(T);   // the owner shares T's parameter objects, so T shows what the owner's list holds
      if (op == 4) { want = M.setParametersValues(0, 1); got = classify([&] { O.setParametersValues(S); }, what); }
      else if (op == 5) { want = M.matchParametersValues(0, 1, mch, mupd); got = classify([&] { ch = O.matchParametersValues(S); }, what);
        if (got == NONE && want == NONE) { std::vector<std::string> wf; for (size_t k : mupd) wf.push_back(NAMES[sd.names[k]]); if (mch ? O.fired != wf : O.nfired != 0) c.fail("owner|match-notification-list", ctx + ": fired " + vf::vstr(O.fired)); } }
      else { want = M.setAllParametersValues(0, 1, either); got = classify([&] { O.setAllParametersValues(S); }, what); }
      if (want != NONE && O.nfired) c.fail("owner|notified-although-update-raised", ctx);
      if (want == NONE && got == NONE && op != 5 && O.nfired != 1) c.fail("owner|not-notified-after-update", ctx);
      break; }
    case 7: want = M.include(0, 1, false); got = classify([&] { T.includeParameters(S); }, what); break;
    case 8: want = M.include(0, 1, true); got = classify([&] { T.shareParameters(S); }, what); break;
    case 9: want = M.addParameters(0, 1); got = classify([&] { T.addParameters(S); }, what); break;
    case 10: want = M.setParameters(0, 1, true); got = classify([&] { T.setParameters(S); }, what); break;
    case 11: want = M.setParameters(0, 1, false); got = classify([&] { T.matchParameters(S); }, what); break;
    default: { std::vector<Ent> r = M.common(0, 1); ParameterList Cn; got = classify([&] { Cn = T.getCommonParametersWith(S); }, what);
      std::string a; for (auto& e : r) a += std::string(NAMES[e.name]) + "=" + num(M.tk[(size_t)e.tok].v) + " "; std::string b; for (size_t i = 0; i < Cn.size(); ++i) b += Cn[i].getName() + "=" + num(Cn[i].getValue()) + " ";
      if (got != NONE || a != b) c.fail("common|result-differs", ctx + ": got [" + b + "] expected [" + a + "]");
      for (size_t i = 0; i < Cn.size(); ++i) for (int l = 0; l < 2; ++l) for (size_t j = 0; j < X[l]->size(); ++j) if (Cn.getParameter(i).get() == X[l]->getParameter(j).get()) c.fail("common|result-shares-objects", ctx);
      break; }
  }
  std::string opn = E2OPS[op];
  c.tag(opn + "->" + (got < 5 ? excName(got) : "other"));
  bool excOk = (got == want) || (either && (got == NOTFOUND || got == CONSTRAINT));
  if (!excOk) c.fail(opn + "|outcome-class", ctx + ": got " + (got < 5 ? excName(got) : what) + " expected " + excName(want));
  if ((op == 1 || op == 5) && got == NONE && want == NONE) {
    if (ch != mch) c.fail(opn + "|changed-flag", ctx + ": returned " + str(ch) + " expected " + str(mch));
    if (op == 1 && upd != mupd) c.fail(opn + "|changed-positions", ctx + ": positions " + vf::vstr(upd) + " expected " + vf::vstr(mupd));
  }
  if (op == 3 && got == NONE && want == NONE && ch != mch) c.fail(opn + "|changed-flag", ctx);
  std::string post = realStr(X), mpost = M.s();
  if (post != mpost) {
    bool atomicOp = (op <= 6);
    c.fail(opn + (atomicOp && want != NONE ? "|state-changed-although-raised" : "|state-differs-from-model"), ctx + "\n   real  " + post + "\n   model " + mpost);
  }
  uniqueNames(T, c, ctx); uniqueNames(S, c, ctx);
  { const ParameterList* Y[1] = {&S}; std::string sNow = realStr(Y, 1); ParameterList S0; for (size_t i = 0; i < sd.names.size(); ++i) S0.addParameter(Parameter(NAMES[sd.names[i]], SV[sd.vals[i]])); const ParameterList* Z[1] = {&S0};
    if (sNow != realStr(Z, 1)) c.fail(opn + "|source-list-modified", ctx + " -> " + post); }
}

// ---------------- E1 ----------------
struct OpD { int kind; std::vector<int> a; double v; std::string name; };
static const double UVALS[] = {-1, 0.5, 2};
static const double AVALS[3][2] = {{0.5, 1}, {0.5, 2}, {0.5, -1}};   // admissible construction values for a,b,c
static std::vector<OpD> buildOps() {
  std::vector<OpD> o; const int N = 3;
  auto seqs = [&](int maxLen, int universe) { std::vector<std::vector<int>> r; for (int i = 0; i < universe; ++i) r.push_back({i}); if (maxLen >= 2) for (int i = 0; i < universe; ++i) for (int j = 0; j < universe; ++j) if (i != j) r.push_back({i, j});
    if (maxLen >= 3) for (int i = 0; i < universe; ++i) for (int j = 0; j < universe; ++j) for (int k = 0; k < universe; ++k) if (i != j && j != k && i != k) r.push_back({i, j, k}); return r; };
  auto lst = [](const std::vector<int>& v, bool names) { std::string s = "{"; for (size_t i = 0; i < v.size(); ++i) { if (i) s += ","; s += names ? std::string(NAMES[v[i]]) : str(v[i]); } return s + "}"; };
  for (int n = 0; n < N; ++n) for (int k = 0; k < 2; ++k) { o.push_back({0, {n}, AVALS[n][k], std::string("T.addParameter(Parameter(") + NAMES[n] + "," + num(AVALS[n][k]) + "))"}); }
  for (int n = 0; n < N; ++n) o.push_back({1, {n}, AVALS[n][1], std::string("T.addParameter(new Parameter(") + NAMES[n] + "," + num(AVALS[n][1]) + "))"});
  for (int n = 0; n < N; ++n) o.push_back({2, {n}, 0, std::string("T.deleteParameter(\"") + NAMES[n] + "\")"});
  for (int i = 0; i < 4; ++i) o.push_back({3, {i}, 0, "T.deleteParameter(" + str(i) + ")"});
  for (auto& s : seqs(2, N)) if (s.size() == 2) for (int me = 0; me < 2; ++me) o.push_back({4, s, (double)me, "T.deleteParameters(" + lst(s, true) + ",mustExist=" + str(me) + ")"});
  for (auto& s : seqs(3, 4)) if (s.size() >= 2) o.push_back({5, s, 0, "T.deleteParameters(indices " + lst(s, false) + ")"});
  for (auto& s : seqs(2, N)) { o.push_back({6, s, 0, "D = T.createSubList(" + lst(s, true) + ")"}); o.push_back({8, s, 0, "D = T.shareSubList(" + lst(s, true) + ")"}); }
  // a names vector that repeats a name: extraction is built by adding, so the repeat is refused (createSubList) or turns into a value update (shareSubList)
  for (auto& s : std::vector<std::vector<int>>{{0, 0}, {1, 0, 1}}) { o.push_back({6, s, 0, "D = T.createSubList(" + lst(s, true) + ")"}); o.push_back({8, s, 0, "D = T.shareSubList(" + lst(s, true) + ")"}); }
  for (auto& s : seqs(2, 3)) { o.push_back({7, s, 0, "D = T.createSubList(indices " + lst(s, false) + ")"}); o.push_back({9, s, 0, "D = T.shareSubList(indices " + lst(s, false) + ")"}); }
  for (int n = 0; n < N; ++n) o.push_back({10, {n}, 0, std::string("D = T.createSubList(\"") + NAMES[n] + "\")"});
  o.push_back({11, {}, 0, "D = copy-construct(T)"}); o.push_back({12, {}, 0, "D = T (assign)"}); o.push_back({13, {}, 0, "T = D (assign)"}); o.push_back({14, {}, 0, "D = T.getCommonParametersWith(D)"});
  const char* bulk[] = {"setParametersValues", "matchParametersValues", "setAllParametersValues", "testParametersValues", "includeParameters", "shareParameters", "addParameters", "setParameters", "matchParameters"};
  for (int k = 0; k < 9; ++k) o.push_back({20 + k, {}, 0, std::string("T.") + bulk[k] + "(D)"});
  o.push_back({30, {}, 0, "swap roles of T and D"});
  for (int l = 0; l < 2; ++l) for (int n = 0; n < N; ++n) for (int k = 0; k < 3; ++k) o.push_back({31, {l, n}, UVALS[k], std::string(l ? "D" : "T") + ".setParameterValue(\"" + NAMES[n] + "\"," + num(UVALS[k]) + ")"});
  o.push_back({32, {}, 0, "D.reset()"});
  for (int n = 0; n < N; ++n) for (double v : {-1.0, 2.0}) o.push_back({33, {n}, v, std::string("D.addParameter(unconstrained Parameter(") + NAMES[n] + "," + num(v) + "))"});
  return o;
}
static const std::vector<OpD>& OPS() { static std::vector<OpD> o = buildOps(); return o; }

struct S2 : vf::SysBase {
  Model M; std::unique_ptr<ParameterList> X[2];
  // initial state: T holds a,b,c (every smaller list is reachable through deletions), D is empty
  S2() { X[0].reset(new ParameterList()); X[1].reset(new ParameterList()); for (int n = 0; n < 3; ++n) { M.add(0, n, 0.5, n != 2); X[0]->addParameter(Parameter(NAMES[n], 0.5, consOf(n))); } }
  std::string opname(int op) const { return OPS()[(size_t)op].name; }
  std::string canon() const { const ParameterList* P[2] = {X[0].get(), X[1].get()}; return realStr(P) + " || " + M.s(); }
  std::vector<std::string> names(const std::vector<int>& v) const { std::vector<std::string> r; for (int i : v) r.push_back(NAMES[i]); return r; }
  void apply(int op, vf::Case& c) {
    const OpD& d = OPS()[(size_t)op]; std::string before = c.muted ? "" : canon();
    ParameterList& T = *X[0]; ParameterList& D = *X[1];
    std::string what; int got = NONE, want = NONE; bool either = false; bool ch = false, mch = false; std::vector<size_t> upd, mupd;
    bool atomic = false;
    switch (d.kind) {
      case 0: want = M.add(0, d.a[0], d.v, d.a[0] != 2); got = classify([&] { T.addParameter(Parameter(NAMES[d.a[0]], d.v, consOf(d.a[0]))); }, what); break;
      case 1: { want = M.add(0, d.a[0], d.v, d.a[0] != 2); Parameter* p = new Parameter(NAMES[d.a[0]], d.v, consOf(d.a[0])); got = classify([&] { T.addParameter(p); }, what); if (got != NONE) delete p; break; }
      case 2: { int i = M.find(0, d.a[0]); if (i < 0) want = NOTFOUND; else M.L[0].erase(M.L[0].begin() + i); got = classify([&] { T.deleteParameter(NAMES[d.a[0]]); }, what); break; }
      case 3: { if ((size_t)d.a[0] >= M.L[0].size()) want = INDEX; else M.L[0].erase(M.L[0].begin() + d.a[0]); got = classify([&] { T.deleteParameter((size_t)d.a[0]); }, what); break; }
      case 4: { for (int n : d.a) { int i = M.find(0, n); if (i < 0) { if (d.v != 0) { want = NOTFOUND; break; } continue; } M.L[0].erase(M.L[0].begin() + i); } got = classify([&] { T.deleteParameters(names(d.a), d.v != 0); }, what); break; }
      case 5: { bool bad = false; for (int i : d.a) if ((size_t)i >= M.L[0].size()) bad = true; if (bad) want = INDEX; else { std::vector<int> s = d.a; std::sort(s.rbegin(), s.rend()); for (int i : s) M.L[0].erase(M.L[0].begin() + i); }
        std::vector<size_t> idx(d.a.begin(), d.a.end()); got = classify([&] { T.deleteParameters(idx); }, what); atomic = true; break; }
      case 6: case 8: case 10: { std::vector<Ent> r; for (int n : d.a) { int i = M.find(0, n); if (i < 0) { want = NOTFOUND; break; } const Ent& e = M.L[0][(size_t)i];
          { bool rep = false; for (auto& q : r) if (q.name == n) rep = true; if (rep) { if (d.kind == 8) continue; want = DUP; break; } } r.push_back({n, d.kind == 8 ? e.tok : M.fresh(M.tk[(size_t)e.tok].v, M.tk[(size_t)e.tok].constrained)}); }
        if (want == NONE) M.L[1] = r;
        // the result is taken by construction from the returned temporary (assigning it would clone, by design of operator=)
        got = classify([&] { std::unique_ptr<ParameterList> r2; if (d.kind == 6) r2.reset(new ParameterList(T.createSubList(names(d.a)))); else if (d.kind == 8) r2.reset(new ParameterList(T.shareSubList(names(d.a)))); else r2.reset(new ParameterList(T.createSubList(std::string(NAMES[d.a[0]])))); X[1] = std::move(r2); }, what); break; }
      case 7: case 9: { std::vector<Ent> r; for (int i : d.a) if ((size_t)i < M.L[0].size()) { const Ent& e = M.L[0][(size_t)i]; r.push_back({e.name, d.kind == 9 ? e.tok : M.fresh(M.tk[(size_t)e.tok].v, M.tk[(size_t)e.tok].constrained)}); }
        M.L[1] = r; std::vector<size_t> idx(d.a.begin(), d.a.end());
        got = classify([&] { std::unique_ptr<ParameterList> r2; if (d.kind == 7) r2.reset(new ParameterList(T.createSubList(idx))); else r2.reset(new ParameterList(T.shareSubList(idx))); X[1] = std::move(r2); }, what); break; }
      case 11: M.L[1] = M.cloneList(0); X[1].reset(new ParameterList(T)); break;
      case 12: M.L[1] = M.cloneList(0); got = classify([&] { D = T; }, what); break;
      case 13: M.L[0] = M.cloneList(1); got = classify([&] { T = D; }, what); break;
      case 14: { std::vector<Ent> r = M.common(0, 1); M.L[1] = r; got = classify([&] { ParameterList t = T.getCommonParametersWith(D); D = t; }, what); break; }
      case 20: want = M.setParametersValues(0, 1); got = classify([&] { T.setParametersValues(D); }, what); atomic = true; break;
      case 21: want = M.matchParametersValues(0, 1, mch, mupd); got = classify([&] { ch = T.matchParametersValues(D, &upd); }, what); atomic = true;
        if (!c.muted && got == NONE && want == NONE && (ch != mch || upd != mupd)) c.fail("matchParametersValues|changed-flag-or-positions", d.name + " in " + before + ": returned " + str(ch) + " " + vf::vstr(upd) + " expected " + str(mch) + " " + vf::vstr(mupd)); break;
      case 22: want = M.setAllParametersValues(0, 1, either); got = classify([&] { T.setAllParametersValues(D); }, what); atomic = true; break;
      case 23: want = M.testParametersValues(0, 1, mch); got = classify([&] { ch = T.testParametersValues(D); }, what); atomic = true;
        if (!c.muted && got == NONE && want == NONE && ch != mch) c.fail("testParametersValues|changed-flag", d.name + " in " + before); break;
      case 24: want = M.include(0, 1, false); got = classify([&] { T.includeParameters(D); }, what); break;
      case 25: want = M.include(0, 1, true); got = classify([&] { T.shareParameters(D); }, what); break;
      case 26: want = M.addParameters(0, 1); got = classify([&] { T.addParameters(D); }, what); break;
      case 27: want = M.setParameters(0, 1, true); got = classify([&] { T.setParameters(D); }, what); break;
      case 28: want = M.setParameters(0, 1, false); got = classify([&] { T.matchParameters(D); }, what); break;
      case 30: std::swap(X[0], X[1]); std::swap(M.L[0], M.L[1]); break;
      case 31: want = M.setValue(d.a[0], d.a[1], d.v); got = classify([&] { X[d.a[0]]->setParameterValue(NAMES[d.a[1]], d.v); }, what); atomic = true; break;
      case 33: want = M.add(1, d.a[0], d.v, false); got = classify([&] { D.addParameter(Parameter(NAMES[d.a[0]], d.v)); }, what); break;
      default: M.L[1].clear(); D.reset(); break;
    }
    if (c.muted) return;
    std::string ctx = d.name + " in state " + before.substr(0, before.find(" || "));
    std::string part = d.name.substr(0, d.name.find('('));
    c.tag(part + "->" + (got < 5 ? excName(got) : "other"));
    bool excOk = (got == want) || (either && (got == NOTFOUND || got == CONSTRAINT));
    if (!excOk) c.fail(part + "|outcome-class", ctx + ": got " + (got < 5 ? excName(got) : what) + " expected " + excName(want));
    const ParameterList* P[2] = {X[0].get(), X[1].get()};
    std::string post = realStr(P), mpost = M.s();
    if (post != mpost) c.fail(part + (atomic && want != NONE ? "|state-changed-although-raised" : "|state-differs-from-model"), ctx + "\n   real  " + post + "\n   model " + mpost);
    uniqueNames(*X[0], c, ctx); uniqueNames(*X[1], c, ctx);
    lookups(*X[0], M.L[0], M, c, ctx); lookups(*X[1], M.L[1], M, c, ctx);
    if (canon() != before || got != NONE) c.nontrivial();
  }
  // keep the model's token table from growing without bound in the canonical form: canon uses relabelled tokens only (M.s()).
  bool enabled(int op) { const OpD& d = OPS()[(size_t)op]; if (d.kind == 0 || d.kind == 1) return X[0]->size() < 4; if (d.kind == 33) return X[1]->size() < 4; return true; }
};

int main(int argc, char** argv) {
  vf::Runner R(argc, argv, "C02");
  vfh::silence();
  bool th = R.thorough();
  int tmax = th ? 4 : 3, smax = th ? 4 : 3;
  int nsv = th ? 4 : 3;
  std::vector<LDesc> TL = enumLists(tmax, 2), SL = enumLists(smax, nsv);
  uint64_t nT = TL.size(), nS = SL.size();
  R.space("bulk-ops:T<=" + str(tmax) + ":S<=" + str(smax) + ":v" + str(nsv), nT * nS * NE2, [=](uint64_t idx, vf::Case& c) {
    int op = (int)(idx % NE2); uint64_t q = idx / NE2; const LDesc& sd = SL[q % nS]; const LDesc& td = TL[q / nS];
    SV = SVALS;
    runE2(td, sd, op, c);
    if (idx % 500009 == 11) { std::string s = std::string(E2OPS[op]) + " T={"; for (size_t i = 0; i < td.names.size(); ++i) s += std::string(NAMES[td.names[i]]) + "=" + num(TVALS[td.names[i]][td.vals[i]]) + " "; s += "} S={"; for (size_t i = 0; i < sd.names.size(); ++i) s += std::string(NAMES[sd.names[i]]) + "=" + num(SVALS[sd.vals[i]]) + " "; c.sample(s + "}"); }
  }, 5.0);
  {
    int smaxN = th ? 3 : 2, nsvN = th ? 4 : 3;
    std::vector<LDesc> SN = enumLists(smaxN, nsvN); uint64_t nSN = SN.size();
    R.space("bulk-ops-near-equal-values:T<=" + str(tmax) + ":S<=" + str(smaxN) + ":v" + str(nsvN), nT * nSN * NE2, [=](uint64_t idx, vf::Case& c) {
      int op = (int)(idx % NE2); uint64_t q = idx / NE2; const LDesc& sd = SN[q % nSN]; const LDesc& td = TL[q / nSN];
      SV = SVNEAR;
      runE2(td, sd, op, c);
      SV = SVALS;
    }, 5.0);
  }
  R.explore(std::string("list-histories:d") + (th ? "6" : "4"), th ? 6 : 4, (int)OPS().size(), [] { return std::unique_ptr<S2>(new S2()); });
  R.expectSeen("setParametersValues->ConstraintException"); R.expectSeen("matchParametersValues->ConstraintException"); R.expectSeen("setAllParametersValues->ConstraintException");
  R.expectSeen("setAllParametersValues->ParameterNotFoundException"); R.expectSeen("addParameters->ParameterException"); R.expectSeen("owner.setParametersValues->ConstraintException");
  R.note("include/share/add/setParameters/matchParameters and deletion by name list are sequential (entries before the failing one stay applied); only the three bulk value setters and their owner forwards are held to all-or-nothing");
  R.note("setAllParametersValues with both a missing name and a rejected value may raise either exception; the list must be unchanged in both cases");
  return R.finish();
}
