// C18 — random draws follow the named law, keep structural constraints, are reproducible
// VF-VARIANT: san
// VF-RULE: E3 (environment answers): the process-wide Mersenne-Twister is loaded with chosen output words, so every random draw becomes an enumerated choice. Structure: every generator stream on a word lattice (M values per draw plus the two extremes) for sampling with/without replacement, picks (weighted or not), cumulative-sum picks, multinomial draws and contingency tables over all margin vectors with small totals. Hidden-state paths: FullHmmTransitionMatrix::sample(2) on a 64x64 lattice of its two draws, for 2 and 3 states x 4 row sets x 3 histories before the call (nothing read; other rows set and read first; stationary vector read), the object rebuilt for every lattice point: first state against the stationary distribution of the current rows (power iteration), second against the row of the first. Law: for each sampler x parameter setting the uniform lattice over the consumed draws (N per draw, first-attempt-accepted paths only) is pushed through the real sampler and the resulting distribution function is compared with the library's own cumulative function for the same parameters. Reproducibility: every history of sampler calls before setSeed(s) x every pair of calls after it, compared with a fresh process. Non-trivial: the stream was consumed by the call (structure), the lattice produced at least N/2 accepted paths (law), the history is non-empty (reproducibility).
// VF-BOUND: "all seeds" -> 4 (quick) / 16 (thorough) seeds; "follows the law" -> Kolmogorov distance on an N-per-draw lattice, tolerance 2d/N (d = uniform draws consumed), so distributional errors below that are invisible; weights/source sizes up to 5 (quick) / 6; margins with 2..3 rows/columns and total <= 6 (quick) / <= 8 and 2..4 (thorough) exhaustively plus structured margins up to total 200
// VF-LEVEL: Exhaustive enumeration of the random environment on a lattice (no sampling): structural guarantees are checked on every enumerated stream; laws are checked as deterministic quadratures of the sampler's push-forward measure, which separates mean/rate/variance/scale confusions (they move the distribution function by > 0.3) from correct code (measured distance about 0.01).
// VF-ASSUME: libstdc++ 12 mapping from 32-bit words to variates (observed, not assumed: the harness reads the generator position to see what a call consumed);; ASan/UBSan/libstdc++ assertions are sound detectors;; the library's own cumulative functions are the reference for the laws (they are checked independently in C08)
// VF-BUDGET_THOROUGH: 3600
// VF-TECHNIQUE: exhaustive enumeration of environment answers (injected generator words) on the real samplers; explicit history enumeration for reproducibility
#include "vf.hpp"
#include <Bpp/Numeric/Prob/MixtureOfDiscreteDistributions.h>
#include <Bpp/Numeric/Prob/InvariantMixedDiscreteDistribution.h>
#include "common.hpp"
#include <Bpp/Numeric/Random/RandomTools.h>
#include <Bpp/Numeric/Random/ContingencyTableGenerator.h>
#include <Bpp/Numeric/Stat/ContingencyTableTest.h>
#include <Bpp/Numeric/Prob/GammaDiscreteDistribution.h>
#include <Bpp/Numeric/Prob/GaussianDiscreteDistribution.h>
#include <Bpp/Numeric/Prob/ExponentialDiscreteDistribution.h>
#include <Bpp/Numeric/Prob/TruncatedExponentialDiscreteDistribution.h>
#include <Bpp/Numeric/Prob/UniformDiscreteDistribution.h>
#include <Bpp/Numeric/Prob/BetaDiscreteDistribution.h>
#include <Bpp/Numeric/Prob/SimpleDiscreteDistribution.h>
#include <Bpp/Numeric/Hmm/FullHmmTransitionMatrix.h>
#include <Bpp/Numeric/Hmm/AutoCorrelationTransitionMatrix.h>
#include <Bpp/Numeric/Hmm/HmmStateAlphabet.h>
#include <Bpp/Numeric/Matrix/Matrix.h>
using namespace bpp;
using vf::str; using vf::num;

// ---------------- owning the generator ----------------
static uint32_t untemper(uint32_t y) {
  y ^= y >> 18;
  y ^= (y << 15) & 0xefc60000u;
  uint32_t t = y; for (int i = 0; i < 5; ++i) t = y ^ ((t << 7) & 0x9d2c5680u); y = t;
  t = y; for (int i = 0; i < 3; ++i) t = y ^ (t >> 11); return t;
}
// default word for draws the explorer has not chosen: 0x7fffffff gives u ~ 0.5 for a double draw and, for an integer draw of any small
// range r, a low product word (0x7fffffff*r mod 2^32 = 2^32 - r... ) far above Lemire's rejection threshold, so a default draw is never rejected
static const uint32_t FILL = 0x7fffffffu;
static uint32_t g_x0 = 0, g_x623 = 0;
static void inject(const std::vector<uint32_t>& w, uint32_t fill) {
  std::mt19937& g = RandomTools::DEFAULT_GENERATOR;
  for (size_t i = 0; i < 624; ++i) g._M_x[i] = untemper(i < w.size() ? w[i] : fill);
  g._M_p = 0; g_x0 = (uint32_t)g._M_x[0]; g_x623 = (uint32_t)g._M_x[623];
}
// words consumed since inject(); 1000 when the 624 injected words were exhausted (the state was regenerated)
static size_t consumed() { const std::mt19937& g = RandomTools::DEFAULT_GENERATOR; if ((uint32_t)g._M_x[0] != g_x0 || (uint32_t)g._M_x[623] != g_x623) return 1000; return g._M_p; }
static bool selfTest() {
  std::vector<uint32_t> w = {0u, 1u, 0xffffffffu, 0x80000000u, 123456789u};
  inject(w, 42u);
  for (size_t i = 0; i < 8; ++i) { uint32_t got = (uint32_t)RandomTools::DEFAULT_GENERATOR(); if (got != (i < w.size() ? w[i] : 42u)) return false; }
  if (consumed() != 8) return false;
  inject({0x80000000u, 0x40000000u}, 0u);   // low word, high word -> u = (2^31 + 2^62)/2^64
  double u = RandomTools::giveRandomNumberBetweenZeroAndEntry(1.0);
  return consumed() == 2 && std::fabs(u - 0.25) < 1e-9;
}

// a draw is either a double uniform U (2 words: low fixed, high on the lattice) or an integer draw I (1 word on the lattice)
struct Lattice { int M; bool extremes;
  int nvals() const { return M + (extremes ? 2 : 0); }
  // value k -> words for a U draw / an I draw
  void U(int k, std::vector<uint32_t>& w) const { if (k < M) { w.push_back(FILL); w.push_back((uint32_t)(((double)k + 0.5) / M * 4294967296.0)); } else if (k == M) { w.push_back(0); w.push_back(0); } else { w.push_back(0xffffffffu); w.push_back(0xffffffffu); } }
  void I(int k, std::vector<uint32_t>& w) const { if (k < M) w.push_back((uint32_t)(((double)k + 0.5) / M * 4294967296.0)); else if (k == M) w.push_back(0); else w.push_back(0xffffffffu); }
};
// depth-first enumeration of every stream on the lattice: a path is extended by one draw whenever the call consumed more words than were chosen.
// body() performs the call on freshly built inputs; onPath(draws) judges one complete execution. Draws beyond maxDraws take the default (middle) value: deviation bound, reported.
template<class Body, class OnPath>
static void streams(const Lattice& L, char kind, int maxDraws, Body body, OnPath onPath, uint64_t& paths, uint64_t& capped) {
  std::vector<int> draws;
  std::function<void()> rec = [&]() {
    std::vector<uint32_t> w; for (int k : draws) { if (kind == 'U') L.U(k, w); else L.I(k, w); }
    inject(w, FILL);
    body();
    size_t c = consumed();
    if (c > w.size() && (int)draws.size() < maxDraws) { for (int k = 0; k < L.nvals(); ++k) { draws.push_back(k); rec(); draws.pop_back(); } return; }
    if (c > w.size()) ++capped;
    ++paths;
    // re-run is not needed: body() was executed with exactly these words; judge it
    onPath(draws);
  };
  rec();
}

// ---------------- law: Kolmogorov distance of the lattice push-forward ----------------
struct LawCfg { std::string name; int d; std::function<double()> draw; std::function<double(double)> cdf; };
static double ksLattice(const LawCfg& cfg, int N, uint64_t& accepted, uint64_t& total) {
  std::vector<double> xs; uint64_t tot = 1; for (int i = 0; i < cfg.d; ++i) tot *= (uint64_t)N;
  Lattice L{N, false};
  for (uint64_t idx = 0; idx < tot; ++idx) {
    std::vector<uint32_t> w; uint64_t q = idx; for (int i = 0; i < cfg.d; ++i) { L.U((int)(q % (uint64_t)N), w); q /= (uint64_t)N; }
    inject(w, FILL);
    double x = cfg.draw();
    if (consumed() == w.size()) xs.push_back(x);   // accepted at the first attempt: exactly the chosen draws were used
  }
  total = tot; accepted = xs.size();
  if (xs.empty()) return 1;
  std::sort(xs.begin(), xs.end());
  double ks = 0, n = (double)xs.size();
  for (size_t i = 0; i < xs.size(); ++i) { double F = cfg.cdf(xs[i]); ks = std::max(ks, std::max(std::fabs(F - (double)i / n), std::fabs(F - (double)(i + 1) / n))); }
  return ks;
}

// ---- hidden-state paths (AbstractHmmTransitionMatrix::sample): minimal state alphabet --------------------------------------------
struct HSt18 : Clonable { HSt18* clone() const override { return new HSt18(*this); } };
class HAl18 : public virtual HmmStateAlphabet, public AbstractParametrizable {
  std::vector<HSt18> st_;
public:
  HAl18(size_t n) : AbstractParametrizable(""), st_(n) {}
  HAl18* clone() const override { return new HAl18(*this); }
  const Clonable& getState(size_t i) const override { return st_[i]; }
  size_t getNumberOfStates() const override { return st_.size(); }
  bool worksWith(const HmmStateAlphabet& a) const override { return a.getNumberOfStates() == st_.size(); }
};
static const double HROWS[4][3][3] = {{{0.9, 0.05, 0.05}, {0.2, 0.7, 0.1}, {0.25, 0.25, 0.5}}, {{0.5, 0.25, 0.25}, {0.5, 0.25, 0.25}, {0.5, 0.25, 0.25}},
                                      {{0.1, 0.2, 0.7}, {0.6, 0.3, 0.1}, {0.3, 0.3, 0.4}}, {{0.25, 0.5, 0.25}, {0.125, 0.75, 0.125}, {0.0625, 0.0625, 0.875}}};
static std::vector<std::vector<double>> hrows(int which, int n) {   // n = 2: the leading 2x2 block renormalised
  std::vector<std::vector<double>> P((size_t)n, std::vector<double>((size_t)n));
  for (int i = 0; i < n; ++i) { double s = 0; for (int j = 0; j < n; ++j) s += HROWS[which][i][j]; for (int j = 0; j < n; ++j) P[(size_t)i][(size_t)j] = HROWS[which][i][j] / s; }
  return P;
}
static std::vector<double> stationary(const std::vector<std::vector<double>>& P) {   // power iteration in long double: all entries are positive
  size_t n = P.size(); std::vector<long double> v(n, 1.0L / n), w(n);
  for (int it = 0; it < 4000; ++it) { for (size_t j = 0; j < n; ++j) { w[j] = 0; for (size_t i = 0; i < n; ++i) w[j] += v[i] * P[i][j]; } v = w; }
  return std::vector<double>(v.begin(), v.end());
}

int main(int argc, char** argv) {
  vf::Runner R(argc, argv, "C18");
  vfh::silence();
  bool th = R.thorough();
  if (!selfTest()) { R.harnessFail("generator word injection self-test failed (libstdc++ mt19937 layout differs)"); return R.finish(); }

  // =========================== LAW ===========================
  std::vector<LawCfg> laws;
  const double P[] = {0.1, 0.5, 1, 4, 20};
  for (double e : {0.5, 1.0, 4.0}) laws.push_back({"giveRandomNumberBetweenZeroAndEntry(" + num(e) + ")", 1, [e] { return RandomTools::giveRandomNumberBetweenZeroAndEntry(e); }, [e](double x) { return x / e; }});
  for (double m : P) laws.push_back({"randExponential(mean=" + num(m) + ")", 1, [m] { return RandomTools::randExponential(m); }, [m](double x) { return 1 - std::exp(-x / m); }});
  for (double mu : {0.0, 1.0}) for (double var : {0.1, 1.0, 4.0, 20.0}) laws.push_back({"randGaussian(mean=" + num(mu) + ",variance=" + num(var) + ")", 2, [mu, var] { return RandomTools::randGaussian(mu, var); }, [mu, var](double x) { return RandomTools::pNorm(x, mu, std::sqrt(var)); }});
  for (double a : P) laws.push_back({"randGamma(alpha=" + num(a) + ")", a < 1 ? 4 : 3, [a] { return RandomTools::randGamma(a); }, [a](double x) { return RandomTools::pGamma(x, a, 1); }});
  for (double a : {0.5, 1.0, 4.0}) for (double b : {0.1, 0.5, 4.0, 20.0}) laws.push_back({"randGamma(alpha=" + num(a) + ",beta=" + num(b) + ")", a < 1 ? 4 : 3, [a, b] { return RandomTools::randGamma(a, b); }, [a, b](double x) { return RandomTools::pGamma(x, a, b); }});
  for (double a : {0.5, 1.0, 4.0}) for (double b : {0.5, 1.0, 4.0, 20.0}) laws.push_back({"randBeta(" + num(a) + "," + num(b) + ")", 1, [a, b] { return RandomTools::randBeta(a, b); }, [a, b](double x) { return RandomTools::pBeta(x, a, b); }});
  // each distribution's own continuous draw against its own cumulative function
  for (double a : {0.5, 4.0}) for (double b : {0.25, 4.0}) { auto d = std::make_shared<GammaDiscreteDistribution>(4, a, b); laws.push_back({"GammaDiscreteDistribution(alpha=" + num(a) + ",beta=" + num(b) + ").randC", a < 1 ? 4 : 3, [d] { return d->randC(); }, [d](double x) { return d->pProb(x); }}); }
  for (double off : {1.5, -1.0}) { auto d = std::make_shared<GammaDiscreteDistribution>(4, 2.0, 1.0, 0.05, 0.05, true, off); laws.push_back({"GammaDiscreteDistribution(alpha=2,beta=1,offset=" + num(off) + ").randC", 3, [d] { return d->randC(); }, [d](double x) { return d->pProb(x); }}); }
  for (double off : {1.5, -1.0}) { auto d = std::make_shared<GammaDiscreteDistribution>(4, 2.0, 1.0, 0.05, 0.05, false, off); laws.push_back({"GammaDiscreteDistribution(alpha=2,beta=1,constant offset=" + num(off) + ").randC", 3, [d] { return d->randC(); }, [d](double x) { return d->pProb(x); }}); }
  for (double mu : {0.0, 1.0}) for (double s : {0.25, 4.0}) { auto d = std::make_shared<GaussianDiscreteDistribution>(4, mu, s); laws.push_back({"GaussianDiscreteDistribution(mu=" + num(mu) + ",sigma=" + num(s) + ").randC", 2, [d] { return d->randC(); }, [d](double x) { return d->pProb(x); }}); }
  for (double l : {0.25, 4.0}) { auto d = std::make_shared<ExponentialDiscreteDistribution>(4, l); laws.push_back({"ExponentialDiscreteDistribution(lambda=" + num(l) + ").randC", 1, [d] { return d->randC(); }, [d](double x) { return d->pProb(x); }}); }
  for (double l : {0.25, 4.0}) { auto d = std::make_shared<TruncatedExponentialDiscreteDistribution>(4, l, 2.0); laws.push_back({"TruncatedExponentialDiscreteDistribution(lambda=" + num(l) + ",tp=2).randC", 1, [d] { return d->randC(); }, [d](double x) { return d->pProb(x); }}); }
  // seeded C18-11: the same draws after a parameter of the object was changed through the parameter interface (a support or a cached
  // constant left over from the previous value would make the draws follow the old law while pProb follows the new one)
  for (double l : {0.25, 4.0}) for (int up : {0, 1}) { auto d = std::make_shared<TruncatedExponentialDiscreteDistribution>(4, l, up ? 2.0 : 4.0); d->setParameterValue("tp", up ? 4.0 : 2.0);   // tp >= 2: the rejection step accepts more than a quarter of the first attempts at rate 0.25
    laws.push_back({"TruncatedExponentialDiscreteDistribution(lambda=" + num(l) + ",tp=" + (up ? "2" : "4") + "); tp:=" + (up ? "4" : "2") + "; randC", 1, [d] { return d->randC(); }, [d](double x) { return d->pProb(x); }}); }
  { auto d = std::make_shared<TruncatedExponentialDiscreteDistribution>(4, 0.25, 2.0); d->setParameterValue("lambda", 4.0); laws.push_back({"TruncatedExponentialDiscreteDistribution(lambda=0.25,tp=2); lambda:=4; randC", 1, [d] { return d->randC(); }, [d](double x) { return d->pProb(x); }}); }
  { auto d = std::make_shared<ExponentialDiscreteDistribution>(4, 0.25); d->setParameterValue("lambda", 4.0); laws.push_back({"ExponentialDiscreteDistribution(lambda=0.25); lambda:=4; randC", 1, [d] { return d->randC(); }, [d](double x) { return d->pProb(x); }}); }
  { auto d = std::make_shared<GaussianDiscreteDistribution>(4, 0.0, 0.25); d->setParameterValue("mu", 1.0); d->setParameterValue("sigma", 4.0); laws.push_back({"GaussianDiscreteDistribution(mu=0,sigma=0.25); mu:=1; sigma:=4; randC", 2, [d] { return d->randC(); }, [d](double x) { return d->pProb(x); }}); }
  { auto d = std::make_shared<GammaDiscreteDistribution>(4, 4.0, 0.25); d->setParameterValue("alpha", 2.0); d->setParameterValue("beta", 4.0); laws.push_back({"GammaDiscreteDistribution(alpha=4,beta=0.25); alpha:=2; beta:=4; randC", 3, [d] { return d->randC(); }, [d](double x) { return d->pProb(x); }}); }
  { auto d = std::make_shared<UniformDiscreteDistribution>(4, -1.0, 3.0); laws.push_back({"UniformDiscreteDistribution(-1,3).randC", 1, [d] { return d->randC(); }, [d](double x) { return d->pProb(x); }}); }
  for (double a : {0.5, 4.0}) { auto d = std::make_shared<BetaDiscreteDistribution>(4, a, 2.0); laws.push_back({"BetaDiscreteDistribution(" + num(a) + ",2).randC", 1, [d] { return d->randC(); }, [d](double x) { return d->pProb(x); }}); }
  std::vector<LawCfg>* lawsP = &laws;
  R.space(std::string("law:lattice:") + (th ? "thorough" : "quick"), laws.size(), [=](uint64_t idx, vf::Case& c) {
    const LawCfg& cfg0 = (*lawsP)[idx];
    c.site(cfg0.name.c_str());
    // how many uniform draws the sampler consumes at its first attempt is an implementation detail (a special case may take a shorter
    // route): the configured count is tried first, then every other count 1..4; the law is judged on the first count that yields
    // first-attempt paths for at least a quarter of the lattice. No such count: the configuration is not judged (vacuity guard below).
    LawCfg cfg = cfg0; uint64_t acc = 0, tot = 0; double ks = 1; int N = 0; bool usable = false;
    for (int d : {cfg0.d, 1, 2, 3, 4}) {
      if (usable || (d == cfg0.d && N != 0)) continue;
      cfg.d = d; N = d == 1 ? (th ? 4096 : 1024) : d == 2 ? (th ? 256 : 128) : d == 3 ? (th ? 64 : 40) : (th ? 32 : 24);
      ks = ksLattice(cfg, N, acc, tot); c.out->evals += tot;
      if (acc * 4 >= tot) usable = true;
    }
    if (!usable) { c.tag("law:not-judged(no draw count 1..4 gives first-attempt paths):" + cfg0.name); return; }
    if (cfg.d != cfg0.d) c.tag("law:draw-count-differs-from-configured");
    // lattice resolution: the push-forward of N^d equally weighted points deviates from the law by at most d/N in Kolmogorov distance per
    // unit of probability; when the sampler rejects a fraction of the lattice points the accepted ones carry the conditional law at
    // a resolution coarser by tot/acc (a rejection sampler with acceptance 0.4 keeps 0.4 N points per axis of probability)
    double tol = 2.0 * cfg.d / N * ((double)tot / (double)acc);
    if (acc * 2 >= (uint64_t)N) c.nontrivial();
    c.tag("law:judged");
    if (!(ks <= tol)) c.fail("law|distribution-differs-from-cumulative-function", cfg.name + ": Kolmogorov distance " + num(ks) + " between the sampler's lattice push-forward (N=" + str(N) + " per draw, " + str(cfg.d) + " draw(s), " + str(acc) + " first-attempt paths) and the library's cumulative function with the same parameters; tolerance 2d/N x lattice/accepted = " + num(tol));
    c.tag(ks <= tol / 4 ? "law:ks<=tol/4" : ks <= tol ? "law:ks<=tol" : "law:ks>tol");
    c.sample(cfg.name + ": KS=" + num(ks) + " tol=" + num(tol) + " accepted " + str(acc) + "/" + str(tot));
  }, 300.0, 1);

  // =========================== STRUCTURE ===========================
  int M = th ? 48 : 24; Lattice LI{M, true}; Lattice LU{th ? 64 : 32, true};
  int maxN = th ? 6 : 5;
  // sampling without / with replacement, unweighted: source sizes 0..maxN, sample sizes 0..maxN+2 (capped for the number of draws)
  R.space("structure:getSample:n<=" + str(maxN) + ":M" + str(M), (uint64_t)(maxN + 1) * (uint64_t)(maxN + 3) * 2, [=](uint64_t idx, vf::Case& c) {
    std::vector<int> d = vf::digits(idx, {2, maxN + 3, maxN + 1}); bool repl = d[0] != 0; size_t k = (size_t)d[1], n = (size_t)d[2];
    std::vector<int> vin; for (size_t i = 0; i < n; ++i) vin.push_back(100 + (int)i);
    std::string in = "getSample(source of " + str(n) + ", sample of " + str(k) + (repl ? ", with replacement)" : ", without replacement)");
    std::vector<int> vout; std::string oc; uint64_t paths = 0, capped = 0; std::set<std::vector<int>> outcomes;
    c.site("RandomTools::getSample");
    streams(LI, 'I', repl ? 4 : 5, [&] { vout.assign(k, -1); oc = vfh::outcome([&] { RandomTools::getSample(vin, vout, repl); }); },
      [&](const std::vector<int>& draws) {
        if (!repl && k > n) { if (oc.find("IndexOutOfBounds") == std::string::npos) c.fail("getSample|over-long-request-not-refused", in + ": " + oc); return; }
        if (repl && k > 0 && n == 0) { if (oc.find("EmptyVector") == std::string::npos) c.fail("getSample|empty-source-not-reported", in + ": " + oc); return; }
        if (oc != "ok") { c.fail("getSample|raised", in + ": " + oc); return; }
        for (int x : vout) if (x < 100 || x >= 100 + (int)n) c.fail("getSample|element-not-from-source", in + " draws " + vf::vstr(draws) + " -> " + vf::vstr(vout));
        if (!repl) { std::set<int> s(vout.begin(), vout.end()); if (s.size() != vout.size()) c.fail("getSample|repeated-element-without-replacement", in + " draws " + vf::vstr(draws) + " -> " + vf::vstr(vout)); }
        outcomes.insert(vout);
      }, paths, capped);
    c.out->evals += paths; if (paths > 1) c.nontrivial();
    if (!repl && k == n && n >= 1 && n <= 4 && capped == 0) { uint64_t f = 1; for (size_t i = 2; i <= n; ++i) f *= i; if (outcomes.size() != f) c.fail("getSample|not-every-permutation-reachable", in + ": " + str(outcomes.size()) + " of " + str(f) + " permutations over the lattice"); }
    c.tag(capped ? "getSample:draws-capped" : "getSample:all-streams");
    if (idx % 7 == 3) c.sample(in + ": " + str(paths) + " streams, " + str(outcomes.size()) + " distinct outcomes");
  }, 120.0, 1);

  // picks: pickOne (3 forms) on sizes 0..maxN
  R.space("structure:pickOne:n<=" + str(maxN), (uint64_t)(maxN + 1) * 3, [=](uint64_t idx, vf::Case& c) {
    size_t n = idx / 3; int form = (int)(idx % 3);
    std::vector<int> v0; for (size_t i = 0; i < n; ++i) v0.push_back(100 + (int)i);
    std::string in = std::string(form == 0 ? "pickOne(v,replace=false)" : form == 1 ? "pickOne(v,replace=true)" : "pickOne(const v)") + " on " + str(n) + " elements";
    std::vector<int> v; int e = -1; std::string oc; uint64_t paths = 0, capped = 0; std::set<int> got;
    c.site("RandomTools::pickOne");
    streams(LI, 'I', 2, [&] { v = v0; oc = vfh::outcome([&] { if (form == 0) e = RandomTools::pickOne(v, false); else if (form == 1) e = RandomTools::pickOne(v, true); else { const std::vector<int>& cv = v; e = RandomTools::pickOne(cv); } }); },
      [&](const std::vector<int>& draws) {
        if (n == 0) { if (oc.find("EmptyVector") == std::string::npos) c.fail("pickOne|empty-source-not-reported", in + ": " + oc); return; }
        if (oc != "ok") { c.fail("pickOne|raised", in + ": " + oc); return; }
        if (e < 100 || e >= 100 + (int)n) c.fail("pickOne|element-not-from-source", in);
        std::multiset<int> a(v.begin(), v.end()), b(v0.begin(), v0.end());
        if (form == 0) { a.insert(e); if (a != b) c.fail("pickOne|did-not-remove-exactly-the-returned-element", in + " draws " + vf::vstr(draws) + " returned " + str(e) + " left " + vf::vstr(v)); }
        else if (a != b) c.fail("pickOne|modified-source", in);
        got.insert(e);
      }, paths, capped);
    c.out->evals += paths; if (n) c.nontrivial();
    if (n && got.size() != n) c.fail("pickOne|element-never-drawn", in + ": " + str(got.size()) + " of " + str(n) + " elements reachable over the lattice");
  }, 60.0, 1);

  // emptiness is reported by exception: the weighted and cumulative-sum forms on empty vectors
  R.space("structure:empty-sources:weighted-pick,cumulative-pick,sample", 4, [=](uint64_t idx, vf::Case& c) {
    std::vector<int> v; std::vector<double> w; std::vector<int> out(idx == 3 ? 0 : 1);
    std::vector<uint32_t> ws; LU.U(0, ws); inject(ws, FILL);
    const char* nm[] = {"pickOne(v={},w={},replace=true)", "pickFromCumSum({})", "getSample(v={},vout(1),replace=true)", "getSample(v={},vout(0))"};
    c.site(nm[idx]);
    std::string oc = vfh::outcome([&] { if (idx == 0) (void)RandomTools::pickOne(v, w, true); else if (idx == 1) (void)RandomTools::pickFromCumSum(w); else RandomTools::getSample(v, out, idx == 2); });
    c.nontrivial(); c.tag(std::string("empty-source:") + (oc == "ok" ? "returned" : "raised"));
    if (idx == 3) { if (oc != "ok") c.fail("empty|empty-sample-of-empty-source-raised", std::string(nm[idx]) + ": " + oc); return; }   // nothing is asked for
    if (oc.find("EmptyVector") == std::string::npos) c.fail("empty|empty-source-not-reported", std::string(nm[idx]) + ": " + oc);
  }, 10.0, 1);

  // weighted picks, cumulative-sum picks, multinomial, discrete rand(): every weight vector over {0,1,3} (not all zero) of length 1..4, lattice over u
  {
    int NU = th ? 4096 : 1024; Lattice LW{NU, false};
    std::vector<std::vector<double>> W;
    for (int len = 1; len <= (th ? 5 : 4); ++len) { uint64_t tot = 1; for (int i = 0; i < len; ++i) tot *= 3; for (uint64_t k = 0; k < tot; ++k) { std::vector<double> w; uint64_t q = k; double s = 0; for (int i = 0; i < len; ++i) { double x = (q % 3 == 0 ? 0 : q % 3 == 1 ? 1 : 3); w.push_back(x); s += x; q /= 3; } if (s > 0) W.push_back(w); } }
    auto WP = std::make_shared<std::vector<std::vector<double>>>(W);
    R.space("structure:weighted-picks:len<=" + str(th ? 5 : 4) + ":N" + str(NU), W.size() * 4, [=](uint64_t idx, vf::Case& c) {
      const std::vector<double>& w = (*WP)[idx / 4]; int form = (int)(idx % 4); size_t n = w.size(); double s = 0; for (double x : w) s += x;
      const char* nm[] = {"pickOne(v,w,replace=true)", "pickOne(const v,const w)", "pickFromCumSum(cumulative w)", "randMultinomial(1,w)"};
      std::string in = std::string(nm[form]) + " weights " + vf::vstr(w);
      std::vector<int> v0; for (size_t i = 0; i < n; ++i) v0.push_back((int)i);
      std::vector<double> cum; double a = 0; for (double x : w) { a += x / s; cum.push_back(a); } cum.back() = 1.0;
      std::vector<uint64_t> cnt(n + 1, 0);
      c.site(nm[form]);
      for (int k = 0; k < NU; ++k) {
        std::vector<uint32_t> ws; LW.U(k, ws); inject(ws, FILL);
        size_t pos = 0;
        if (form == 0) { std::vector<int> v = v0; std::vector<double> w2 = w; pos = (size_t)RandomTools::pickOne(v, w2, true); }
        else if (form == 1) pos = (size_t)RandomTools::pickOne(v0, w);
        else if (form == 2) pos = RandomTools::pickFromCumSum(cum);
        else pos = RandomTools::randMultinomial(1, w)[0];
        if (pos >= n) { c.fail(std::string("weighted|index-out-of-range|") + nm[form], in + " u-lattice point " + str(k)); pos = n; }
        cnt[pos]++;
      }
      c.out->evals += (uint64_t)NU; c.nontrivial();
      for (size_t i = 0; i < n; ++i) {
        double f = (double)cnt[i] / NU, want = w[i] / s;
        if (w[i] == 0 && cnt[i]) c.fail(std::string("weighted|zero-weight-entry-drawn|") + nm[form], in + ": entry " + str(i) + " drawn " + str(cnt[i]) + " times");
        if (std::fabs(f - want) > 2.0 / NU) c.fail(std::string("weighted|frequencies-differ-from-weights|") + nm[form], in + ": entry " + str(i) + " frequency " + num(f) + " weight " + num(want));
      }
      if (idx % 97 == 5) c.sample(in + " -> counts " + vf::vstr(cnt));
    }, 60.0);
    // hidden-state paths: the first state follows the stationary distribution of the CURRENT rows, the second the row of the first;
    // three histories before the call (rows set and nothing asked; other rows set and read, then these rows set; rows set and the
    // stationary vector asked). The object is rebuilt for every lattice point: only the first sample after a change is of interest.
    {
      const int NH = 64;
      R.space("structure:hmm-sample:FullHmmTransitionMatrix:n2..3:rows4:history3:N" + str(NH) + "x" + str(NH), 2 * 4 * 3, [=](uint64_t idx, vf::Case& c) {
        std::vector<int> d = vf::digits(idx, {3, 4, 2}); int hist = d[0], which = d[1], n = 2 + d[2];
        auto P = hrows(which, n), Q = hrows((which + 1) % 4, n); std::vector<double> pi = stationary(P);
        std::string in = "FullHmmTransitionMatrix n=" + str(n) + " rows #" + str(which) + (hist == 0 ? " set, then sample(2)" : hist == 1 ? " set after other rows had been set and read, then sample(2)" : " set, stationary vector read, then sample(2)");
        auto al = std::make_shared<HAl18>((size_t)n);
        auto mat = [&](const std::vector<std::vector<double>>& A) { RowMatrix<double> M((size_t)n, (size_t)n); for (int i = 0; i < n; ++i) for (int j = 0; j < n; ++j) M((size_t)i, (size_t)j) = A[(size_t)i][(size_t)j]; return M; };
        std::vector<std::vector<uint64_t>> cnt((size_t)n + 1, std::vector<uint64_t>((size_t)n + 1, 0));
        Lattice LH{NH, false};
        c.site("AbstractHmmTransitionMatrix::sample");
        for (int k1 = 0; k1 < NH; ++k1) for (int k2 = 0; k2 < NH; ++k2) {
          FullHmmTransitionMatrix T(al, "");
          if (hist == 1) { T.setTransitionProbabilities(mat(Q)); (void)T.getPij(); (void)T.getEquilibriumFrequencies(); }
          T.setTransitionProbabilities(mat(P));
          if (hist == 2) (void)T.getEquilibriumFrequencies();
          std::vector<uint32_t> ws; LH.U(k1, ws); LH.U(k2, ws); inject(ws, FILL);
          std::vector<size_t> path = T.sample(2);
          if (path.size() != 2 || path[0] >= (size_t)n || path[1] >= (size_t)n) { c.fail("hmm-sample|path-shape-or-state-out-of-range", in + " lattice point (" + str(k1) + "," + str(k2) + ")"); return; }
          cnt[path[0]][path[1]]++;
        }
        c.out->evals += (uint64_t)NH * NH; c.nontrivial(); c.tag("hmm-sample-judged");
        // each of the two draws is resolved to 1/NH: a state's share is exact to 1/NH per cumulative threshold (two thresholds bound an interior state)
        double tol1 = 2.0 / NH, tol2 = 4.0 / NH;
        for (int a = 0; a < n; ++a) {
          double f = 0; for (int b = 0; b < n; ++b) f += (double)cnt[(size_t)a][(size_t)b]; f /= (double)NH * NH;
          if (std::fabs(f - pi[(size_t)a]) > tol1) { c.fail("hmm-sample|first-state-does-not-follow-the-stationary-distribution-of-the-current-rows", in + ": state " + str(a) + " frequency " + num(f) + ", stationary " + num(pi[(size_t)a])); return; }
          for (int b = 0; b < n; ++b) { double g = (double)cnt[(size_t)a][(size_t)b] / ((double)NH * NH), want = pi[(size_t)a] * P[(size_t)a][(size_t)b];
            if (std::fabs(g - want) > tol2) { c.fail("hmm-sample|transition-does-not-follow-the-row-of-the-first-state", in + ": path (" + str(a) + "," + str(b) + ") frequency " + num(g) + ", expected " + num(want)); return; } }
        }
        if (idx % 5 == 0) c.sample(in + ": first-state frequencies within " + num(tol1) + " of " + vf::vstr(pi));
      }, 60.0);
    }
    // weighted sampling without replacement: distinct elements, never a zero-weight one while positive ones remain
    R.space("structure:weighted-getSample:len<=" + str(th ? 5 : 4), W.size(), [=](uint64_t idx, vf::Case& c) {
      const std::vector<double>& w = (*WP)[idx]; size_t n = w.size(); std::vector<int> vin; for (size_t i = 0; i < n; ++i) vin.push_back(100 + (int)i);
      size_t npos = 0; for (double x : w) if (x > 0) ++npos;
      for (size_t k = 0; k <= n + 1; ++k) {
        std::string in = "getSample(v,w,sample of " + str(k) + ",replace=false) weights " + vf::vstr(w);
        std::vector<int> vout; std::string oc; uint64_t paths = 0, capped = 0; Lattice L8{8, false};
        c.site("RandomTools::getSample(weights)");
        streams(L8, 'U', 5, [&] { vout.assign(k, -1); oc = vfh::outcome([&] { RandomTools::getSample(vin, w, vout, false); }); },
          [&](const std::vector<int>& draws) {
            if (k > n) { if (oc.find("IndexOutOfBounds") == std::string::npos) c.fail("getSample(weights)|over-long-request-not-refused", in + ": " + oc); return; }
            if (oc != "ok") { c.fail("getSample(weights)|raised", in + ": " + oc); return; }
            std::set<int> s(vout.begin(), vout.end()); if (s.size() != vout.size()) c.fail("getSample(weights)|repeated-element-without-replacement", in + " draws " + vf::vstr(draws) + " -> " + vf::vstr(vout));
            for (size_t i = 0; i < vout.size(); ++i) { if (vout[i] < 100 || vout[i] >= 100 + (int)n) c.fail("getSample(weights)|element-not-from-source", in); else if (i < npos && w[(size_t)(vout[i] - 100)] == 0) c.fail("getSample(weights)|zero-weight-element-before-positive-ones-exhausted", in + " -> " + vf::vstr(vout)); }
          }, paths, capped);
        c.out->evals += paths;
      }
      c.nontrivial();
    }, 120.0);
    // discrete rand() of a distribution follows its class probabilities
    R.space("structure:distribution-rand", 3, [=](uint64_t idx, vf::Case& c) {
      std::unique_ptr<DiscreteDistributionInterface> d;
      if (idx == 0) d.reset(new GammaDiscreteDistribution(4, 0.5, 2.0)); else if (idx == 1) { std::vector<double> v = {1, 2, 5}, p = {0.2, 0.5, 0.3}; d.reset(new SimpleDiscreteDistribution(v, p)); } else d.reset(new BetaDiscreteDistribution(5, 2, 3));
      std::map<double, uint64_t> cnt; c.site("DiscreteDistribution::rand");
      for (int k = 0; k < NU; ++k) { std::vector<uint32_t> ws; LW.U(k, ws); inject(ws, FILL); cnt[d->rand()]++; }
      c.out->evals += (uint64_t)NU; c.nontrivial();
      for (size_t i = 0; i < d->getNumberOfCategories(); ++i) { double v = d->getCategory(i), p = d->getProbability(i); double f = (double)cnt[v] / NU; if (std::fabs(f - p) > 2.0 / NU) c.fail("rand|class-frequencies-differ-from-probabilities", d->getName() + " class " + str(i) + " frequency " + num(f) + " probability " + num(p)); cnt.erase(v); }
      for (auto& kv : cnt) if (kv.second) c.fail("rand|value-outside-classes", d->getName() + " value " + num(kv.first));
    }, 60.0, 1);
  }

  // ... also after the object has already been drawn from and one of its parameters was then changed (same number of classes): draws made
  // after the update follow the probabilities the object reports after the update
  {
    int NU2 = th ? 4096 : 1024; Lattice LW2{NU2, false};
    R.space("structure:distribution-rand-after-update", 5, [=](uint64_t idx, vf::Case& c) {
      typedef std::unique_ptr<DiscreteDistributionInterface> UP;
      UP d; std::string par; double nv = 0;
      if (idx == 0) { std::vector<double> v = {1, 2, 5}, p = {0.2, 0.5, 0.3}; d.reset(new SimpleDiscreteDistribution(v, p)); par = "theta1"; nv = 0.7; }
      else if (idx == 1) { d.reset(new InvariantMixedDiscreteDistribution(UP(new GammaDiscreteDistribution(3, 0.5, 0.5)), 0.1, 0.)); par = "p"; nv = 0.6; }
      else if (idx == 2) { std::vector<UP> v; v.push_back(UP(new GammaDiscreteDistribution(2, 0.5, 0.5))); v.push_back(UP(new ExponentialDiscreteDistribution(2, 3.0))); d.reset(new MixtureOfDiscreteDistributions(v, std::vector<double>{0.2, 0.8})); par = "theta1"; nv = 0.75; }
      else if (idx == 3) { d.reset(new GammaDiscreteDistribution(4, 0.5, 2.0)); par = "alpha"; nv = 3; }
      else { std::vector<double> v = {1, 2, 5}, p = {0.2, 0.5, 0.3}; d.reset(new SimpleDiscreteDistribution(v, p)); par = "V2"; nv = 3; }
      auto freq = [&](const std::string& when) {
        std::map<double, uint64_t> cnt; c.site("DiscreteDistribution::rand");
        for (int k = 0; k < NU2; ++k) { std::vector<uint32_t> ws; LW2.U(k, ws); inject(ws, FILL); cnt[d->rand()]++; }
        c.out->evals += (uint64_t)NU2;
        for (size_t i = 0; i < d->getNumberOfCategories(); ++i) { double v = d->getCategory(i), p = d->getProbability(i); double f = (double)cnt[v] / NU2; cnt.erase(v);
          if (std::fabs(f - p) > 2.0 / NU2) c.fail("rand|class-frequencies-differ-from-probabilities|" + when, d->getName() + " " + when + ": class " + str(i) + " (value " + num(v) + ") frequency " + num(f) + " probability " + num(p)); }
        for (auto& kv : cnt) if (kv.second) c.fail("rand|value-outside-classes|" + when, d->getName() + " " + when + ": value " + num(kv.first));
      };
      freq("before-any-update");
      c.site("setParameterValue"); d->setParameterValue(par, nv);
      freq("after-a-parameter-update-following-earlier-draws");
      c.nontrivial();
    }, 60.0, 1);
  }

  // contingency tables: all margin vectors with 2..R rows/cols and total <= T, every stream on a lattice (the largest space of the thorough
  // tier: registered last, so that the global deadline can only cut this one)
  std::function<void()> registerRcont2;
  {
    int RC = th ? 4 : 3, T = th ? 8 : 6;
    std::vector<std::pair<std::vector<size_t>, std::vector<size_t>>> MG;
    std::vector<std::vector<size_t>> comps[9][5];   // compositions of t into k non-negative parts
    for (int k = 2; k <= RC; ++k) for (int t = 1; t <= T; ++t) { std::vector<size_t> cur; std::function<void(int, int)> rec = [&](int left, int parts) { if (parts == 1) { cur.push_back((size_t)left); comps[t][k].push_back(cur); cur.pop_back(); return; } for (int x = 0; x <= left; ++x) { cur.push_back((size_t)x); rec(left - x, parts - 1); cur.pop_back(); } }; rec(t, k); }
    for (int t = 1; t <= T; ++t) for (int r = 2; r <= RC; ++r) for (int cc = 2; cc <= RC; ++cc) for (auto& a : comps[t][r]) for (auto& b : comps[t][cc]) MG.push_back({a, b});
    // structured larger margins
    for (size_t tot : {20, 50, 200}) { MG.push_back({{tot - 2, 1, 1}, {tot / 2, tot - tot / 2}}); MG.push_back({{tot / 2, tot - tot / 2}, {tot / 2, tot - tot / 2}}); MG.push_back({{tot / 3, tot / 3, tot - 2 * (tot / 3)}, {tot - 1, 0, 1}}); MG.push_back({{tot / 4, tot / 4, tot / 4, tot - 3 * (tot / 4)}, {tot / 5, tot / 5, tot / 5, tot / 5, tot - 4 * (tot / 5)}}); }
    auto MP = std::make_shared<std::vector<std::pair<std::vector<size_t>, std::vector<size_t>>>>(MG);
    size_t nMG = MG.size();
    registerRcont2 = [&R, RC, T, nMG, MP]() { R.space("structure:rcont2:rc<=" + str(RC) + ":total<=" + str(T) + "+structured", nMG, [=](uint64_t idx, vf::Case& c) {
      const auto& mg = (*MP)[idx]; size_t nr = mg.first.size(), nc = mg.second.size();
      std::string in = "margins rows " + vf::vstr(mg.first) + " cols " + vf::vstr(mg.second);
      c.site("ContingencyTableGenerator ctor");
      std::unique_ptr<ContingencyTableGenerator> g; std::string oc0 = vfh::outcome([&] { g.reset(new ContingencyTableGenerator(mg.first, mg.second)); });
      if (oc0 != "ok") { c.fail("rcont2|constructor-raised", in + ": " + oc0); return; }
      size_t cells = (nr - 1) * (nc - 1); int Mu = cells <= 1 ? 64 : cells <= 2 ? 24 : cells <= 4 ? 6 : 3; Lattice L{Mu, true};
      RowMatrix<size_t> tb; std::string oc; uint64_t paths = 0, capped = 0;
      c.site("ContingencyTableGenerator::rcont2");
      streams(L, 'U', (int)std::min<size_t>(cells, 6), [&] { oc = vfh::outcome([&] { tb = g->rcont2(); }); },
        [&](const std::vector<int>& draws) {
          if (oc != "ok") { c.fail("rcont2|raised", in + ": " + oc); return; }
          if (tb.getNumberOfRows() != nr || tb.getNumberOfColumns() != nc) { c.fail("rcont2|table-shape", in); return; }
          for (size_t i = 0; i < nr; ++i) { size_t s = 0; for (size_t j = 0; j < nc; ++j) s += tb(i, j); if (s != mg.first[i]) { c.fail("rcont2|row-total-differs-from-margin", in + " draws " + vf::vstr(draws)); return; } }
          for (size_t j = 0; j < nc; ++j) { size_t s = 0; for (size_t i = 0; i < nr; ++i) s += tb(i, j); if (s != mg.second[j]) { c.fail("rcont2|column-total-differs-from-margin", in + " draws " + vf::vstr(draws)); return; } }
        }, paths, capped);
      c.out->evals += paths; c.nontrivial(); c.tag(capped ? "rcont2:draws-capped" : "rcont2:all-streams");
      if (idx % 211 == 0) c.sample(in + ": " + str(paths) + " streams");
    }, 120.0); };
    // independence test: p-value in [0,1] for every table (all tables with positive margins, 2..3 x 2..3, total <= T), chi-square and randomisation variants
    std::vector<std::vector<std::vector<size_t>>> TB;
    for (int r = 2; r <= 3; ++r) for (int cc = 2; cc <= 3; ++cc) { int cells = r * cc; std::vector<size_t> cur; std::function<void(int, int)> rec = [&](int pos, int left) { if (pos == cells) { std::vector<std::vector<size_t>> t((size_t)r, std::vector<size_t>((size_t)cc)); for (int i = 0; i < cells; ++i) t[(size_t)(i / cc)][(size_t)(i % cc)] = cur[(size_t)i]; TB.push_back(t); return; } for (int x = 0; x <= left; ++x) { cur.push_back((size_t)x); rec(pos + 1, left - x); cur.pop_back(); } }; rec(0, th ? 6 : 5); }
    auto TP = std::make_shared<std::vector<std::vector<std::vector<size_t>>>>(TB);
    R.space("structure:contingency-test:total<=" + str(th ? 6 : 5), TB.size() * 2, [=](uint64_t idx, vf::Case& c) {
      const auto& t = (*TP)[idx / 2]; unsigned perm = (idx % 2) ? 3 : 0;
      bool positive = true; for (auto& row : t) { size_t s = 0; for (size_t x : row) s += x; if (!s) positive = false; } for (size_t j = 0; j < t[0].size(); ++j) { size_t s = 0; for (auto& row : t) s += row[j]; if (!s) positive = false; }
      std::string in = "table"; for (auto& row : t) in += " " + vf::vstr(row); in += " permutations=" + str(perm);
      inject({}, FILL);
      c.site("ContingencyTableTest");
      double p = -1; std::string oc = vfh::outcome([&] { ContingencyTableTest tt(t, perm, false); p = tt.getPValue(); });
      c.tag(std::string("contingency-test->") + oc.substr(0, 3));
      if (!positive) { if (oc == "ok") c.fail("contingency-test|zero-margin-not-reported", in); return; }
      c.nontrivial();
      if (oc != "ok") c.fail("contingency-test|raised", in + ": " + oc);
      else if (!(p >= 0 && p <= 1)) c.fail("contingency-test|p-value-outside-unit-interval", in + ": p=" + num(p));
    }, 30.0);
  }

  // =========================== REPRODUCIBILITY ===========================
  {
    static auto gd = std::make_shared<GammaDiscreteDistribution>(3, 0.7, 1.5); static auto nd = std::make_shared<GaussianDiscreteDistribution>(3, 0.0, 2.0);
    static std::vector<size_t> rm = {3, 2}, cm = {2, 2, 1}; static auto ctg = std::make_shared<ContingencyTableGenerator>(rm, cm);
    struct Call { const char* name; std::function<std::string()> f; };
    static std::vector<Call> calls = {
      {"giveRandomNumberBetweenZeroAndEntry(2)", [] { return num(RandomTools::giveRandomNumberBetweenZeroAndEntry(2.0)); }},
      {"flipCoin(0.3)", [] { return str(RandomTools::flipCoin(0.3)); }},
      {"giveIntRandomNumberBetweenZeroAndEntry(10)", [] { return str(RandomTools::giveIntRandomNumberBetweenZeroAndEntry<int>(10)); }},
      {"randGaussian(1,4)", [] { return num(RandomTools::randGaussian(1, 4)); }},
      {"randGamma(0.5)", [] { return num(RandomTools::randGamma(0.5)); }},
      {"randGamma(3,2)", [] { return num(RandomTools::randGamma(3, 2)); }},
      {"randBeta(2,3)", [] { return num(RandomTools::randBeta(2, 3)); }},
      {"randExponential(2)", [] { return num(RandomTools::randExponential(2)); }},
      {"getSample(5 of 7)", [] { std::vector<int> v = {1, 2, 3, 4, 5, 6, 7}, o(5); RandomTools::getSample(v, o); return vf::vstr(o); }},
      {"pickOne(weights)", [] { std::vector<int> v = {1, 2, 3}; std::vector<double> w = {1, 2, 3}; return str(RandomTools::pickOne(v, w, true)); }},
      {"randMultinomial(4)", [] { std::vector<double> p = {0.2, 0.3, 0.5}; return vf::vstr(RandomTools::randMultinomial(4, p)); }},
      {"GammaDiscreteDistribution.rand", [] { return num(gd->rand()); }},
      {"GammaDiscreteDistribution.randC", [] { return num(gd->randC()); }},
      {"GaussianDiscreteDistribution.randC", [] { return num(nd->randC()); }},
      {"rcont2", [] { RowMatrix<size_t> t = ctg->rcont2(); std::string s; for (size_t i = 0; i < 2; ++i) for (size_t j = 0; j < 3; ++j) s += str(t(i, j)) + ","; return s; }},
    };
    int NCALL = (int)calls.size(); int nseeds = th ? 16 : 4;
    uint32_t base = (uint32_t)(getenv("VERIF_SEED") ? strtoul(getenv("VERIF_SEED"), nullptr, 10) : 0);
    static std::vector<uint32_t> seeds; seeds.clear(); for (int i = 0; i < nseeds; ++i) seeds.push_back(i == 0 ? base : base * 2654435761u + (uint32_t)i * 40503u + 17u);
    // reference: each (seed, c1, c2) in a process of its own that has made no random call before
    static std::map<uint64_t, std::string> ref;
    {
      char tmpl[] = "/tmp/vfc18refXXXXXX"; const char* td = getenv("VF_TMPDIR"); std::string path = std::string(td ? td : "/tmp") + "/c18ref." + str(getpid());
      (void)tmpl;
      for (int s = 0; s < nseeds && !R.replay; ++s) {
        // one fresh child per (seed, c1): c2 follows directly (the pair is the unit compared); the child writes NCALL results
        for (int c1 = 0; c1 < NCALL; ++c1) for (int c2 = 0; c2 < NCALL; ++c2) {
          fflush(stdout); pid_t p = fork();
          if (p == 0) { RandomTools::setSeed(seeds[(size_t)s]); std::string a = calls[(size_t)c1].f(), b = calls[(size_t)c2].f(); FILE* f = fopen(path.c_str(), "w"); if (f) { fprintf(f, "%s\n%s\n", a.c_str(), b.c_str()); fclose(f); } _exit(0); }
          int st = 0; waitpid(p, &st, 0);
          std::string a, b; FILE* f = fopen(path.c_str(), "r"); if (f) { char buf[512]; if (fgets(buf, sizeof buf, f)) a = buf; if (fgets(buf, sizeof buf, f)) b = buf; fclose(f); }
          ref[((uint64_t)s * NCALL + (uint64_t)c1) * NCALL + (uint64_t)c2] = a + b;
          if (a.empty() || b.empty()) R.harnessFail("reference process failed for seed " + str(s) + " " + calls[(size_t)c1].name);
        }
      }
      unlink(path.c_str());
    }
    int HL = th ? 2 : 1;   // history length before setSeed
    uint64_t nh = 1; for (int i = 0; i < HL; ++i) nh *= (uint64_t)(NCALL + 1);   // each history slot: a call or nothing
    R.space("reproducibility:history<=" + str(HL) + ":seeds" + str(nseeds), nh * (uint64_t)nseeds * (uint64_t)NCALL * (uint64_t)NCALL, [=](uint64_t idx, vf::Case& c) {
      std::vector<int> d = vf::digits(idx, {NCALL, NCALL, nseeds, (int)nh});
      int c2 = d[0], c1 = d[1], s = d[2]; uint64_t h = (uint64_t)d[3];
      std::string hist; bool any = false;
      for (int i = 0; i < HL; ++i) { int k = (int)(h % (uint64_t)(NCALL + 1)); h /= (uint64_t)(NCALL + 1); if (k < NCALL) { c.site(calls[(size_t)k].name); calls[(size_t)k].f(); hist += std::string(calls[(size_t)k].name) + "; "; any = true; } }
      if (any) c.nontrivial();
      c.site("setSeed + calls");
      RandomTools::setSeed(seeds[(size_t)s]);
      std::string a = calls[(size_t)c1].f(), b = calls[(size_t)c2].f();
      std::string got = a + "\n" + b + "\n";
      if (R.replay) { printf("  history [%s] setSeed(%u) %s -> %s ; %s -> %s\n", hist.c_str(), seeds[(size_t)s], calls[(size_t)c1].name, a.c_str(), calls[(size_t)c2].name, b.c_str());
        fflush(stdout); pid_t p = fork(); if (p == 0) { RandomTools::setSeed(seeds[(size_t)s]); std::string a2 = calls[(size_t)c1].f(), b2 = calls[(size_t)c2].f(); _exit((a2 == a && b2 == b) ? 0 : 1); }
        int st = 0; waitpid(p, &st, 0); if (!(WIFEXITED(st) && WEXITSTATUS(st) == 0)) c.fail("reproducibility|stream-after-setSeed-depends-on-earlier-calls", "history [" + hist + "] then setSeed(" + str(seeds[(size_t)s]) + "); " + calls[(size_t)c1].name + "; " + calls[(size_t)c2].name + " differs from a fresh process");
        return; }
      auto it = ref.find(((uint64_t)s * NCALL + (uint64_t)c1) * NCALL + (uint64_t)c2);
      if (it == ref.end() || it->second != got) c.fail("reproducibility|stream-after-setSeed-depends-on-earlier-calls", "history [" + hist + "] then setSeed(" + str(seeds[(size_t)s]) + "); " + calls[(size_t)c1].name + "; " + calls[(size_t)c2].name + " gave " + a + " / " + b + " but a fresh process gives " + (it == ref.end() ? "?" : it->second));
      if (idx % 100003 == 1) c.sample("history [" + hist + "] setSeed(" + str(seeds[(size_t)s]) + ") " + calls[(size_t)c1].name + " -> " + a);
    }, 30.0);
  }

  registerRcont2();
  R.expectSeen("hmm-sample-judged"); R.expectSeen("law:ks<=tol/4"); R.expectSeen("law:judged", laws.size()); /* every law configuration must have been judged */ R.expectSeen("getSample:all-streams"); R.expectSeen("rcont2:all-streams"); R.expectSeen("contingency-test->ok");
  R.note("law tolerance is the lattice discretisation bound 2d/N; measured distances are written in the samples");
  R.note("a zero-weight entry is judged 'never drawn' on the interior lattice (u=0 exactly has probability 2^-64 and is part of the extremes only for range checks)");
  return R.finish();
}
