// Shared helpers of the C16 / C17 harnesses: string enumeration over letter alphabets, CPU-time watchdog, result consumers.
#pragma once
#include "vf.hpp"
#include <cxxabi.h>
#include <deque>
#include <map>
#include <string>
#include <vector>
#include <typeinfo>
#include <Bpp/Exceptions.h>
#include <Bpp/App/ApplicationTools.h>
#include <Bpp/Io/OutputStream.h>

namespace tx {

// ---- enumeration of all letter sequences of length 0..L over an alphabet of A letters, shortest first, then lexicographic ----
inline uint64_t countUpTo(uint64_t A, int L) { uint64_t n = 0, p = 1; for (int l = 0; l <= L; ++l) { n += p; p *= A; } return n; }
// largest L <= maxL with countUpTo(A,L)*mult <= cap (at least 1)
inline int fitLen(uint64_t A, int maxL, uint64_t mult, uint64_t cap) {
  int L = maxL; while (L > 1 && countUpTo(A, L) * mult > cap) --L; return L;
}
inline std::vector<int> seqOf(uint64_t sidx, uint64_t A) {
  int l = 0; uint64_t p = 1;
  while (sidx >= p) { sidx -= p; p *= A; ++l; }
  std::vector<int> d((size_t)l);
  for (int i = l - 1; i >= 0; --i) { d[(size_t)i] = (int)(sidx % A); sidx /= A; }
  return d;
}
inline std::string join(const std::vector<int>& d, const std::vector<std::string>& alpha) {
  std::string s; for (int k : d) s += alpha[(size_t)k]; return s;
}
// printable form of an input (witness details)
inline std::string show(const std::string& s) {
  std::string r = "\"";
  size_t n = s.size() > 80 ? 80 : s.size();
  for (size_t i = 0; i < n; ++i) {
    unsigned char ch = (unsigned char)s[i];
    if (ch == '\n') r += "\\n"; else if (ch == '\t') r += "\\t"; else if (ch == '\r') r += "\\r"; else if (ch == '\\') r += "\\\\"; else if (ch == '"') r += "\\\"";
    else if (ch < 0x20 || ch >= 0x7f) { char b[8]; snprintf(b, sizeof b, "\\x%02x", ch); r += b; }
    else r += (char)ch;
  }
  r += "\"";
  if (s.size() > 80) r += "...(" + vf::str(s.size()) + " bytes)";
  return r;
}
inline std::string showAlpha(const std::vector<std::string>& a) { std::string r; for (auto& w : a) { if (!r.empty()) r += " "; r += show(w); } return r; }

// ---- CPU-time watchdog: a case that burns more CPU time (user+system) than the limit is taken as non-terminating. The worker writes a
//      line to stderr and ends with exit code 97, which the supervisor records as crash|<site>|exit97 for exactly that case (workers are
//      respawned in parallel; the engine's own wall-clock alarm with its serial re-run stays armed as a backstop). CPU time is insensitive
//      to machine load, so no re-run is needed.
inline void cpuHandler(int) {
  const char m[] = "\nWATCHDOG: case exceeded its CPU-time limit (taken as non-termination)\n";
  if (write(2, m, sizeof m - 1)) {}
  _exit(97);
}
inline void armCpu(double s) {
  static bool inst = false; if (!inst) { signal(SIGPROF, cpuHandler); inst = true; }
  struct itimerval it; memset(&it, 0, sizeof it);
  it.it_value.tv_sec = (long)s; it.it_value.tv_usec = (long)((s - (double)(long)s) * 1e6);
  setitimer(ITIMER_PROF, &it, nullptr);
}

// ---- consumers: read every byte of what the library returned (so a corrupted result is seen by the sanitizer at this site) ----
static volatile size_t g_sink = 0;
inline void use(const std::string& s) { size_t h = s.size(); for (char ch : s) h = h * 31 + (unsigned char)ch; g_sink += h; }
inline void use(bool b) { g_sink += b; }
inline void use(char b) { g_sink += (size_t)(unsigned char)b; }
inline void use(int b) { g_sink += (size_t)b; }
inline void use(unsigned b) { g_sink += (size_t)b; }
inline void use(size_t b) { g_sink += b; }
inline void use(double b) { g_sink += (b > 0); }
template<class T> inline void use(const std::vector<T>& v) { g_sink += v.size(); for (const auto& x : v) use(x); }
template<class T> inline void use(const std::deque<T>& v) { g_sink += v.size(); for (const auto& x : v) use(x); }
inline void use(const std::map<std::string, std::string>& m) { for (auto& kv : m) { use(kv.first); use(kv.second); } }

inline std::string demangle(const char* n) {
  int st = 0; char* r = abi::__cxa_demangle(n, nullptr, nullptr, &st);
  std::string s = (st == 0 && r) ? r : n; free(r); return s;
}

inline void silence() {
  bpp::ApplicationTools::message = std::make_shared<bpp::NullOutputStream>();
  bpp::ApplicationTools::warning = std::make_shared<bpp::NullOutputStream>();
  bpp::ApplicationTools::error = std::make_shared<bpp::NullOutputStream>();
}

} // namespace tx
