// C07 helper: checks of the one-vector functions against the reference models.
#pragma once
#include "C07_ref.hpp"

namespace c07 {

// functions with a documented EmptyVectorException: on the empty vector that exception and nothing else
template<class T, class F> static void expectEmptyEx(vf::Case& c, const char* fn, F f) {
  c.site(fn);
  Ex e = guard<T>(f);
  if (e != EMPTY) c.fail(std::string(fn) + "|empty-input-not-reported", std::string(Alpha<T>::n()) + " v=[]: " + exname(e) + ", documented: EmptyVectorException");
  else c.tag("raised-EmptyVectorException");
}

// 'small' = exhaustive small-alphabet case (membership queries for every alphabet value)
template<class T> static void unaryChecks(const std::vector<T>& v, vf::Case& c, bool small) {
  const size_t n = v.size();
  const bool isInt = Alpha<T>::isInt;
  auto in = [&] { return std::string(Alpha<T>::n()) + " v=" + vf::vstr(v); };
  if (c.verbose) c.note("input " + in());

  // ---- sum, cumSum ----
  LD s = 0; std::vector<T> cs; for (auto x : v) { s += (LD)x; cs.push_back((T)s); }
  c.site("VectorTools::sum");
  { T g = VT::sum(v); if ((LD)g != s) c.fail("sum|value", in() + ": got " + vf::str(g) + " expected " + ld(s)); }
  c.site("VectorTools::cumSum");
  { auto g = VT::cumSum(v); if (!sameVec(g, cs)) c.fail("cumSum|value", in() + ": got " + vf::vstr(g) + " expected " + vf::vstr(cs)); }

  // ---- prod, cumProd (int: only when no partial product leaves the int range - overflow is the caller's business) ----
  {
    LD p = 1; bool fits = true; std::vector<LD> cp;
    for (auto x : v) { p *= (LD)x; cp.push_back(p); if (isInt && fabsl(p) > 2147483647.0L) fits = false; if (!isInt && fabsl(p) > 1e300L) fits = false; }
    if (fits) {
      LD rel = isInt ? 0 : (LD)(n + 1) * EPS;   // n correctly rounded multiplications
      c.site("VectorTools::prod");
      { T g = VT::prod(v); if (fabsl((LD)g - p) > rel * fabsl(p)) c.fail("prod|value", in() + ": got " + vf::str(g) + " expected " + ld(p)); }
      c.site("VectorTools::cumProd");
      { auto g = VT::cumProd(v); bool ok = g.size() == n; for (size_t i = 0; ok && i < n; ++i) ok = fabsl((LD)g[i] - cp[i]) <= rel * fabsl(cp[i]);
        if (!ok) c.fail("cumProd|value", in() + ": got " + vf::vstr(g)); }
    } else c.tag("prod-skipped:out-of-range");
  }

  // ---- extrema, positions, range, order ----
  if (n == 0) {
    expectEmptyEx<T>(c, "VectorTools::min", [&] { VT::min(v); });
    expectEmptyEx<T>(c, "VectorTools::max", [&] { VT::max(v); });
    expectEmptyEx<T>(c, "VectorTools::whichMin", [&] { VT::whichMin(v); });
    expectEmptyEx<T>(c, "VectorTools::whichMax", [&] { VT::whichMax(v); });
    expectEmptyEx<T>(c, "VectorTools::whichMinAll", [&] { VT::whichMinAll(v); });
    expectEmptyEx<T>(c, "VectorTools::whichMaxAll", [&] { VT::whichMaxAll(v); });
    expectEmptyEx<T>(c, "VectorTools::range", [&] { VT::range(v); });
    expectEmptyEx<T>(c, "VectorTools::order", [&] { VT::order(v); });
  } else {
    T mn = v[0], mx = v[0]; size_t pmn = 0, pmx = 0; std::vector<size_t> amn, amx;
    for (size_t i = 1; i < n; ++i) { if (v[i] < mn) { mn = v[i]; pmn = i; } if (v[i] > mx) { mx = v[i]; pmx = i; } }
    for (size_t i = 0; i < n; ++i) { if (v[i] == mn) amn.push_back(i); if (v[i] == mx) amx.push_back(i); }
    c.site("VectorTools::min"); { T g = VT::min(v); if (g != mn) c.fail("min|value", in() + ": got " + vf::str(g)); }
    c.site("VectorTools::max"); { T g = VT::max(v); if (g != mx) c.fail("max|value", in() + ": got " + vf::str(g)); }
    c.site("VectorTools::whichMin"); { size_t g = VT::whichMin(v); if (g != pmn) c.fail("whichMin|first-position", in() + ": got " + vf::str(g) + " expected " + vf::str(pmn)); }
    c.site("VectorTools::whichMax"); { size_t g = VT::whichMax(v); if (g != pmx) c.fail("whichMax|first-position", in() + ": got " + vf::str(g) + " expected " + vf::str(pmx)); }
    c.site("VectorTools::whichMinAll"); { auto g = VT::whichMinAll(v); if (g != amn) c.fail("whichMinAll|positions", in() + ": got " + vf::vstr(g)); }
    c.site("VectorTools::whichMaxAll"); { auto g = VT::whichMaxAll(v); if (g != amx) c.fail("whichMaxAll|positions", in() + ": got " + vf::vstr(g)); }
    c.site("VectorTools::range"); { auto g = VT::range(v); if (g.size() != 2 || g[0] != mn || g[1] != mx) c.fail("range|value", in() + ": got " + vf::vstr(g)); }
    c.site("VectorTools::order");
    { auto g = VT::order(v); bool ok = g.size() == n; std::vector<char> seen(n, 0);
      for (size_t i = 0; ok && i < n; ++i) { if (g[i] >= n || seen[g[i]]) ok = false; else seen[g[i]] = 1; }
      for (size_t i = 0; ok && i + 1 < n; ++i) if (v[g[i + 1]] < v[g[i]]) ok = false;
      if (!ok) c.fail("order|not-a-sorting-permutation", in() + ": got " + vf::vstr(g)); }
    if (amx.size() > 1 || amn.size() > 1) c.tag("ties-at-extremum");
  }

  // ---- median (sorts its argument: work on a copy) ----
  {
    std::vector<T> w(v), sv(v); std::sort(sv.begin(), sv.end());
    c.site("VectorTools::median");
    T g = 0; Ex e = guard<T>([&] { g = VT::median(w); });
    if (n == 0) { c.tag(e == NONE ? "median-empty:returns-0" : "median-empty:exception"); if (e == NONE && g != 0) c.fail("median|empty", in() + ": got " + vf::str(g)); }
    else if (e != NONE) c.fail("median|unexpected-exception", in() + ": " + exname(e));
    else if (n % 2) { if (g != sv[n / 2]) c.fail("median|value", in() + ": got " + vf::str(g) + " expected " + vf::str(sv[n / 2])); }
    else {
      LD two = (LD)sv[n / 2 - 1] + (LD)sv[n / 2];
      // an int result cannot hold a half: either neighbour of the mid-point is accepted then
      bool ok = isInt ? fabsl(2 * (LD)g - two) <= 1 : 2 * (LD)g == two;
      if (!ok) c.fail("median|value", in() + ": got " + vf::str(g) + " expected " + ld(two / 2));
    }
  }

  // ---- mean, center, var, sd, norm ----
  {
    c.site("VectorTools::mean");
    double g = 0; Ex e = guard<T>([&] { g = VT::mean<T, double>(v); });
    if (n == 0) c.tag("mean-empty:not-judged");
    else { LD m = s / (LD)n; if (e != NONE || !closeTo(g, m, 2 * EPS * fabsl(m))) c.fail("mean|value", in() + ": got " + vf::num(g) + " expected " + ld(m)); }
    c.site("VectorTools::center");
    std::vector<double> ce; e = guard<T>([&] { ce = VT::center<T, double>(v); });
    if (e != NONE || ce.size() != n) c.fail("center|size", in() + ": " + exname(e));
    else { LD m = n ? s / (LD)n : 0; for (size_t i = 0; i < n; ++i) if (!closeTo(ce[i], (LD)v[i] - m, 4 * EPS * (fabsl((LD)v[i]) + fabsl(m)))) { c.fail("center|value", in() + ": got " + vf::vstr(ce)); break; } }
    for (int ub = 0; ub < 2 && Mo<T>::has(); ++ub) {
      Cov r = rcov(v, v, uniformW(n), ub != 0, n > 1 ? (LD)(n - 1) / (LD)n : 0);
      c.site("VectorTools::var");
      double gv = 0, gs = 0; e = guard<T>([&] { gv = Mo<T>::var(v, ub != 0); });
      c.site("VectorTools::sd");
      Ex e2 = guard<T>([&] { gs = Mo<T>::sd(v, ub != 0); });
      if (!r.defined) { c.tag("var-undefined(n<2):not-judged"); continue; }
      if (e != NONE || !closeTo(gv, r.value, r.tol)) c.fail(std::string("var|value|") + (ub ? "unbiased" : "biased"), in() + ": got " + vf::num(gv) + " expected " + ld(r.value));
      // sd^2 must reproduce the variance: tolerance of the variance plus the rounding of sqrt and of the squaring here
      if (e2 != NONE || !(gs >= 0) || !closeTo((double)((LD)gs * (LD)gs), r.value, 2 * r.tol + 8 * EPS * fabsl(r.value))) c.fail(std::string("sd|value|") + (ub ? "unbiased" : "biased"), in() + ": got " + vf::num(gs) + " expected sqrt " + ld(r.value));
    }
    c.site("VectorTools::norm");
    { LD q = 0; for (auto x : v) q += (LD)x * (LD)x; double gn = VT::norm<T, double>(v); LD rn = sqrtl(q);
      if (!closeTo(gn, rn, sumTol(n, rn))) c.fail("norm|value", in() + ": got " + vf::num(gn) + " expected " + ld(rn)); }
  }

  // ---- entropy ----
  {
    std::map<T, size_t> cnt; for (auto x : v) cnt[x]++;
    const double bases[2] = {2.7182818, 2.0};   // the first is the header's default argument
    for (int b = 0; b < 2; ++b) {
      LD h = 0, mag = 0; for (auto& kv : cnt) { LD f = (LD)kv.second / (LD)n; LD t = f * logl(f) / logl((LD)bases[b]); h -= t; mag += fabsl(t); }
      c.site("VectorTools::shannonDiscrete");
      double g = b ? VT::shannonDiscrete<T, double>(v, bases[b]) : VT::shannonDiscrete<T, double>(v);
      if (!closeTo(g, h, sumTol(n, mag) + 4 * DENORM)) c.fail("shannonDiscrete|value", in() + " base=" + vf::num(bases[b]) + ": got " + vf::num(g) + " expected " + ld(h));
    }
    c.site("VectorTools::countValues");
    { auto g = VT::countValues(v); if (g != cnt) c.fail("countValues|value", in()); }
    std::vector<T> uq; for (auto& kv : cnt) uq.push_back(kv.first);
    c.site("VectorTools::unique");
    { auto g = VT::unique(v); if (g != uq) c.fail("unique|value", in() + ": got " + vf::vstr(g) + " expected " + vf::vstr(uq)); }
    c.site("VectorTools::isUnique");
    { bool g = VT::isUnique(v); if (g != (uq.size() == n)) c.fail("isUnique|value", in() + ": got " + vf::str(g)); }
    if (uq.size() < n) c.tag("repeated-elements");
  }

  // ---- membership: which, whichAll, contains ----
  {
    std::vector<T> probes;
    if (small) for (int d = 0; d < 5; ++d) probes.push_back(Alpha<T>::val(d));
    else if (n) { probes.push_back(v[0]); probes.push_back(v[n - 1]); probes.push_back(v[n / 2]); }
    probes.push_back(Alpha<T>::absent());
    bool threw = false;   // a throw costs ~50 us under ASan: which/whichAll meet one absent element per case, contains meets all of them
    for (T a : probes) {
      std::vector<size_t> pos; for (size_t i = 0; i < n; ++i) if (v[i] == a) pos.push_back(i);
      auto ina = [&] { return in() + " el=" + vf::str(a); };
      if (!pos.empty() || !threw) {
        c.site("VectorTools::which");
        size_t g = 0; Ex e = guard<T>([&] { g = VT::which(v, a); });
        c.site("VectorTools::whichAll");
        std::vector<size_t> ga; Ex e2 = guard<T>([&] { ga = VT::whichAll(v, a); });
        if (pos.empty()) {
          threw = true;
          if (e != NOTFOUND) c.fail("which|absent-element-not-reported", ina() + ": " + exname(e));
          if (e2 != NOTFOUND) c.fail("whichAll|absent-element-not-reported", ina() + ": " + exname(e2));
          if (e == NOTFOUND && e2 == NOTFOUND) c.tag("raised-ElementNotFoundException");
        } else {
          if (e != NONE || g != pos[0]) c.fail("which|first-position", ina() + ": got " + vf::str(g) + " / " + exname(e));
          if (e2 != NONE || ga != pos) c.fail("whichAll|positions", ina() + ": got " + vf::vstr(ga) + " / " + exname(e2));
        }
      }
      c.site("VectorTools::contains");
      if (VT::contains(v, a) != !pos.empty()) c.fail("contains|value", ina());
      if (VT::contains(v, (long)a) != VT::contains(v, (T)(long)a)) c.fail("contains<T,U>|value", ina());
    }
  }

  // ---- element-wise functions and vector (op) scalar ----
  {
    c.site("VectorTools::abs"); { auto g = VT::abs(v); std::vector<T> r(n); for (size_t i = 0; i < n; ++i) r[i] = v[i] < 0 ? -v[i] : v[i]; if (!sameVec(g, r)) c.fail("abs|value", in()); }
    c.site("VectorTools::sqr"); { auto g = VT::sqr(v); std::vector<T> r(n); for (size_t i = 0; i < n; ++i) r[i] = v[i] * v[i]; if (!sameVec(g, r)) c.fail("sqr|value", in()); }
    bool hasZero = false; for (auto x : v) if (x == 0) hasZero = true;
    const T consts[3] = {(T)2, (T)-1, (T)0};
    for (int k = 0; k < 3; ++k) {
      T a = consts[k]; std::vector<T> r(n), g;
      auto ina = [&] { return in() + " scalar=" + vf::str(a); };
      c.site("operator(vector,scalar)");
      for (size_t i = 0; i < n; ++i) r[i] = v[i] + a; g = v + a; if (!sameVec(g, r)) c.fail("operator+(v,c)|value", ina()); g = a + v; if (!sameVec(g, r)) c.fail("operator+(c,v)|value", ina());
      for (size_t i = 0; i < n; ++i) r[i] = v[i] - a; g = v - a; if (!sameVec(g, r)) c.fail("operator-(v,c)|value", ina());
      for (size_t i = 0; i < n; ++i) r[i] = a - v[i]; g = a - v; if (!sameVec(g, r)) c.fail("operator-(c,v)|value", ina());
      for (size_t i = 0; i < n; ++i) r[i] = v[i] * a; g = v * a; if (!sameVec(g, r)) c.fail("operator*(v,c)|value", ina()); g = a * v; if (!sameVec(g, r)) c.fail("operator*(c,v)|value", ina());
      if (a != 0 || !isInt) { for (size_t i = 0; i < n; ++i) r[i] = v[i] / a; g = v / a; if (!sameVec(g, r)) c.fail("operator/(v,c)|value", ina()); }
      if (!hasZero || !isInt) { for (size_t i = 0; i < n; ++i) r[i] = a / v[i]; g = a / v; if (!sameVec(g, r)) c.fail("operator/(c,v)|value", ina()); }
      c.site("operator(vector,scalar) in place");
      for (size_t i = 0; i < n; ++i) r[i] = v[i] + a; g = v; g += a; if (!sameVec(g, r)) c.fail("operator+=(v,c)|value", ina());
      for (size_t i = 0; i < n; ++i) r[i] = v[i] - a; g = v; g -= a; if (!sameVec(g, r)) c.fail("operator-=(v,c)|value", ina());
      for (size_t i = 0; i < n; ++i) r[i] = v[i] * a; g = v; g *= a; if (!sameVec(g, r)) c.fail("operator*=(v,c)|value", ina());
      if (a != 0 || !isInt) { for (size_t i = 0; i < n; ++i) r[i] = v[i] / a; g = v; g /= a; if (!sameVec(g, r)) c.fail("operator/=(v,c)|value", ina()); }
      for (size_t i = 0; i < n; ++i) r[i] = a; g = v; g &= a; if (!sameVec(g, r)) c.fail("operator&=(v,c)|value", ina());
      c.site("VectorTools::fill"); g = v; VT::fill(g, a); if (!sameVec(g, r)) c.fail("fill|value", ina());
    }
    c.site("VectorTools::rep");
    for (size_t k = 0; k < 4; ++k) {
      std::vector<T> r; for (size_t j = 0; j < k; ++j) r.insert(r.end(), v.begin(), v.end());
      auto g = VT::rep(v, k); if (!sameVec(g, r)) c.fail("rep|value", in() + " times=" + vf::str(k) + ": got " + vf::vstr(g));
    }
  }
}

// shannon on a vector of frequencies (doubles): terms x log x for x > 0 only, as the code and header say
static inline void shannonChecks(const std::vector<double>& v, vf::Case& c) {
  const double bases[2] = {2.7182818, 2.0};
  for (int b = 0; b < 2; ++b) {
    LD h = 0, mag = 0; for (double x : v) if (x > 0) { LD t = (LD)x * logl((LD)x) / logl((LD)bases[b]); h -= t; mag += fabsl(t); }
    c.site("VectorTools::shannon");
    double g = b ? VT::shannon<double, double>(v, bases[b]) : VT::shannon<double, double>(v);
    if (!closeTo(g, h, sumTol(v.size(), mag))) c.fail("shannon|value", "v=" + vf::vstr(v) + " base=" + vf::num(bases[b]) + ": got " + vf::num(g) + " expected " + ld(h));
  }
}
} // namespace c07
