// C10 — optimisers never end worse than they start, converge when convex, respect bounds
// VF-VARIANT: san
// VF-RULE: E2: every index of each stated configuration product is one complete optimiser run (init + optimize; every 8th index executed twice on fresh objects and compared bit for bit) on a fresh optimiser and a fresh harness objective that records every point it is evaluated at; spaces "run:<optimiser>:n<dim>:<slice>" are products objective x start x constraint set x policy x tolerance x budget x interval/direction variant, "bracket:*" are products objective x initial pair. A case is non-trivial when the run returned normally and moved away from its start.
// VF-BOUND: 15 optimiser configurations (BFGS, conjugate gradient, Powell, downhill simplex, SimpleMulti, SimpleNewtonMulti, 4 meta-optimiser compositions (one ending on a step-wise simplex), Brent outward/inward, golden section, Newton 1-D, Newton backtracking); dimensions 1..3 (quick) / 1..6 (thorough); quadratics c + (x-m)'Q(x-m)/2 with Q from a finite set of integer SPD matrices (diag with kappa in {1,10,100,1000}, [[2,+-1],[+-1,2]]*{1,100}, tridiagonal(2,-1), L L' with L unit lower 0/1), m on {-1,0,1.5}^n (complete for n<=1 quick / n<=3 thorough, 5 patterns above), c in {0,1} and, for two shapes, -10 (objective negative around its minimiser); non-quadratics sum-cosh, quartic+quadratic, log-sum-exp, sum-log-cosh(2d) (vanishing curvature away from the minimiser: raw Newton steps from the outer starts overshoot by orders of magnitude, so the step-halving safeguards and their give-up path are exercised); starts on {-2,0.5,3}^n (complete for n<=2, 5 patterns above; n=1 also -0.1, whose first simplex/interval straddles the minimiser 0 symmetrically; every n also the start minimiser + 1e-5, the origin, and (0,0.5,..,0.5), the last two not for the compositions); constraints {none, box [-4,4]^n, box with the minimiser on a face, box whose lower / upper / alternating bounds pass exactly through the start (judged on descent, value consistency, budget and feasibility; not on convergence)}; policies keep/auto/ignore; tolerances {1e-4,1e-6,1e-8,1e-10}; budgets {1,3,10,50,5000} (the small ones also on an optimiser object already used); three slices per optimiser and dimension (all objectives x all tolerances unconstrained; reduced objectives x constraint sets x policies; reduced objectives x small budgets) instead of the full product; "random" quadratics/starts replaced by these lattices
// VF-LEVEL: exhaustive over the stated finite configuration spaces on the real optimiser classes: descent, returned-value consistency and feasibility of every recorded evaluation judged exactly (no tolerance beyond 4 ulp on descent), budget judged on the optimiser's own evaluation counter at every step, convergence judged against a worst-case bound derived from the stop rule actually used (derivations next to the code; vacuous bounds are counted separately), bracketing judged on re-evaluated values
// VF-ASSUME: the harness objective (value, gradient, Hessian of the stated families) and its rounding bound gamma=(n^2+4)u are correct;; bpp::Parameter/ParameterList/IntervalConstraint/AbstractParametrizable behave as documented (C01/C02's subject);; convergence bounds: one iteration of each optimiser is modelled as documented at convBound() (for conjugate gradient with n>=2 the iteration is assumed at least as good as one steepest-descent line minimisation; for the downhill simplex no bound follows from its spread criterion and the loosest factor of the family is used);; IEEE double arithmetic without contraction
// VF-TECHNIQUE: bounded-exhaustive configuration enumeration on the real optimisers with a recording objective and analytic reference (minimiser, spectrum) of integer quadratics
// VF-BUDGET_QUICK: 400
// VF-BUDGET_THOROUGH: 2400
#include "vf.hpp"
#include "common.hpp"
#include "C10_obj.hpp"
#include <Bpp/Numeric/AutoParameter.h>
#include <Bpp/Numeric/Function/BfgsMultiDimensions.h>
#include <Bpp/Numeric/Function/ConjugateGradientMultiDimensions.h>
#include <Bpp/Numeric/Function/PowellMultiDimensions.h>
#include <Bpp/Numeric/Function/DownhillSimplexMethod.h>
#include <Bpp/Numeric/Function/SimpleMultiDimensions.h>
#include <Bpp/Numeric/Function/SimpleNewtonMultiDimensions.h>
#include <Bpp/Numeric/Function/BrentOneDimension.h>
#include <Bpp/Numeric/Function/GoldenSectionSearch.h>
#include <Bpp/Numeric/Function/NewtonOneDimension.h>
#include <Bpp/Numeric/Function/NewtonBacktrackOneDimension.h>
#include <Bpp/Numeric/Function/OneDimensionOptimizationTools.h>
#include <Bpp/Numeric/Function/MetaOptimizer.h>
#include <cstring>
using namespace bpp;
using namespace c10;
using vf::str;
using vf::num;

// ================================================================================================ alphabet
enum Opt { BFGS = 0, CG, POWELL, DSM, SIMPLE, SNEWTON, META0, META1, META2, META3, BRENT, BRENT_IN, GOLDEN, NEWTON1, NBOD, NOPT };
static const char* ON[NOPT] = {"Bfgs", "ConjugateGradient", "Powell", "DownhillSimplex", "SimpleMulti", "SimpleNewtonMulti",
                               "Meta[SimpleNewton|Simple]", "Meta[Bfgs|Powell]", "Meta[ConjugateGradient|DownhillSimplex]", "Meta[Powell|DownhillSimplex:step]",
                               "Brent", "BrentInward", "GoldenSection", "NewtonOneDimension", "NewtonBacktrack"};
static bool oneDim(int o) { return o >= BRENT; }
static const char* CONS[6] = {"none", "box", "face", "start-on-lower-bounds", "start-on-upper-bounds", "start-on-alternating-bounds"};
static const char* POL[3] = {"keep", "auto", "ignore"};
static const double TOLS[4] = {1e-4, 1e-6, 1e-8, 1e-10};
static const int BIG = 5000;   // the "large" budget (the library default of the simplex; others default to 1e4..1e6, which a NaN stop test would burn completely)
static const double BOXLO = -4, BOXHI = 4;

static std::vector<double> cyc(int n, const double* v, int off) { std::vector<double> r((size_t)n); for (int i = 0; i < n; ++i) r[(size_t)i] = v[(i + off) % 3]; return r; }
// lattice {v0,v1,v2}^n when 3^n <= cap, else the 5 patterns (all v0, all v1, all v2, cyclic, cyclic shifted)
static std::vector<std::vector<double>> lattice(int n, const double* v, int cap) {
  std::vector<std::vector<double>> out;
  int tot = 1; for (int i = 0; i < n; ++i) tot *= 3;
  if (tot <= cap) {
    for (int k = 0; k < tot; ++k) { std::vector<double> p((size_t)n); int r = k; for (int i = 0; i < n; ++i) { p[(size_t)i] = v[r % 3]; r /= 3; } out.push_back(p); }
  } else {
    for (int a = 0; a < 3; ++a) out.push_back(std::vector<double>((size_t)n, v[a]));
    out.push_back(cyc(n, v, 0)); out.push_back(cyc(n, v, 1));
  }
  return out;
}
static const double MV[3] = {0, -1, 1.5};     // minimiser lattice (simplest first)
static const double SV[3] = {0.5, -2, 3};     // start lattice

struct Shape { std::vector<double> Q; std::string label; };
static std::vector<Shape> shapes(int n) {
  std::vector<Shape> out;
  auto diag = [&](double kap) {
    Shape s; s.Q.assign((size_t)n * n, 0.0);
    for (int i = 0; i < n; ++i) { double e = (n == 1) ? std::log10(kap) : std::floor(i * std::log10(kap) / (n - 1) + 0.5); s.Q[(size_t)i * n + i] = std::pow(10.0, e); }
    s.label = "diag(k=" + str((int)kap) + ")"; out.push_back(s);
  };
  for (double k : {1.0, 10.0, 100.0, 1000.0}) diag(k);
  if (n == 2) for (double sc : {1.0, 100.0}) for (double sg : {1.0, -1.0}) { Shape s; s.Q = {2 * sc, sg * sc, sg * sc, 2 * sc}; s.label = "[[2," + str((int)sg) + "],[" + str((int)sg) + ",2]]*" + str((int)sc); out.push_back(s); }
  if (n >= 2) {
    Shape t; t.Q.assign((size_t)n * n, 0.0); for (int i = 0; i < n; ++i) { t.Q[(size_t)i * n + i] = 2; if (i + 1 < n) { t.Q[(size_t)i * n + i + 1] = -1; t.Q[(size_t)(i + 1) * n + i] = -1; } } t.label = "tridiag(2,-1)"; out.push_back(t);
    for (int full = 1; full >= 0; --full) {
      if (n == 2 && !full) continue;
      std::vector<double> L((size_t)n * n, 0.0);
      for (int i = 0; i < n; ++i) { L[(size_t)i * n + i] = 1; for (int j = 0; j < i; ++j) if (full || j == i - 1) L[(size_t)i * n + j] = 1; }
      Shape s; s.Q.assign((size_t)n * n, 0.0);
      for (int i = 0; i < n; ++i) for (int j = 0; j < n; ++j) { double a = 0; for (int k = 0; k < n; ++k) a += L[(size_t)i * n + k] * L[(size_t)j * n + k]; s.Q[(size_t)i * n + j] = a; }
      s.label = full ? "LL'(all ones)" : "LL'(subdiagonal)"; out.push_back(s);
    }
  }
  return out;
}

// objectives of dimension n: level 2 = all quadratics (shapes x m x c) + non-quadratics; level 1 = reduced (shapes {kappa 1, kappa 1000, last} x m x c=1) + non-quadratics at the first m;
static std::vector<Spec> objectives(int n, int level, int cap) {   // cap: the m-lattice is complete when 3^n <= cap
  std::vector<Spec> out;
  std::vector<Shape> sh = shapes(n);
  std::vector<std::vector<double>> ms = lattice(n, MV, cap);
  for (size_t si = 0; si < sh.size(); ++si) {
    if (level == 1 && !(si == 0 || si == 3 || (si + 1 == sh.size() && sh.size() > 4))) continue;
    for (double c : {1.0, 0.0, -10.0}) {   // -10: the objective is negative around its minimiser (relative stop rules must take magnitudes)
      if (level == 1 && c != 1.0) continue;
      if (c < 0 && !(si == 0 || si == 3)) continue;
      for (auto& m : ms) {
        Spec s; s.kind = QUAD; s.n = n; s.Q = sh[si].Q; s.m = m; s.c = c; s.label = "quad " + sh[si].label + " m=" + vf::vstr(m) + " c=" + str((int)c);
        finishSpec(s);
        if (s.lmax / s.lmin > 1000.0 * (1 + 1e-9)) continue;   // kappa <= 1000 (property quantifier)
        out.push_back(s);
      }
    }
  }
  for (int kind : {COSH, QUART, LSE, LOGCOSH}) for (size_t mi = 0; mi < ms.size(); ++mi) {
    if (level == 1 && mi != 1 % ms.size()) continue;
    Spec s; s.kind = kind; s.n = n; s.m = ms[mi]; s.c = 1;
    if (kind == QUART) s.Q = sh[n >= 2 ? 4 + (n == 2 ? 4 : 0) : 0].Q;   // tridiagonal (n>=2) / [1] (n=1)
    s.label = std::string(kind == COSH ? "sum-cosh" : kind == QUART ? "quartic+tridiag-quadratic" : kind == LSE ? "log-sum-exp" : "sum-log-cosh(2d)") + " m=" + vf::vstr(ms[mi]);
    finishSpec(s); out.push_back(s);
  }
  return out;
}

// ================================================================================================ one run
struct Cfg {
  int opt = 0; Spec spec; std::vector<double> start; int cons = 0, pol = 0; double tol = 1e-6; int bud = BIG; int var = 0;
  std::vector<double> lo, hi;
  std::string describe() const {
    return std::string(ON[opt]) + " on " + spec.label + " start=" + vf::vstr(start) + " constraints=" + CONS[cons] + (cons ? " lo=" + vf::vstr(lo) + " hi=" + vf::vstr(hi) : "") +
           " policy=" + POL[pol] + " tol=" + num(tol) + " budget=" + str(bud) + " variant=" + str(var);
  }
};

struct Snap { std::vector<double> x, dirs; double f = NaN; };

struct Run {
  std::shared_ptr<Obj> obj;
  std::shared_ptr<AbstractOptimizer> opt;
  bool returned = false; std::string exc, excWhat;
  double ret = NaN, fval = NaN; std::vector<double> xrep; bool tolReached = false; unsigned nbEval = 0;
  std::vector<unsigned> counts;    // optimiser's own counter after every step
  Snap prev, last; int steps = 0; bool trace = false; std::vector<Snap> hist;
  // final private state used by the oracle
  double fp = NaN, fret = NaN, yhi = NaN, ylo = NaN, ymax = NaN, ymin = NaN, gw = NaN;
  double slope = NaN, test = NaN;  // backtracking
  std::string metaUndercount;      // meta-optimiser: a round whose counter grew by less than its sub-optimisers counted
};

class Lis : public OptimizationListener {
 public:
  Run* r; int kind;
  Lis(Run* run, int k) : r(run), kind(k) {}
  Snap snap() {
    Snap s; const ParameterList& pl = r->opt->getParameters();
    for (size_t i = 0; i < pl.size(); ++i) s.x.push_back(pl[i].getValue());
    s.f = r->opt->getFunctionValue();
    if (kind == POWELL) { auto* p = dynamic_cast<PowellMultiDimensions*>(r->opt.get()); size_t n = p->xi_.size(); for (size_t i = 0; i < n; ++i) for (size_t j = 0; j < n; ++j) s.dirs.push_back(p->xi_[i][j]); }
    if (kind == CG) { auto* p = dynamic_cast<ConjugateGradientMultiDimensions*>(r->opt.get()); s.dirs = p->xi_; }
    return s;
  }
  void optimizationInitializationPerformed(const OptimizationEvent&) override { r->last = snap(); r->prev = r->last; }
  void optimizationStepPerformed(const OptimizationEvent&) override {
    unsigned before = r->counts.empty() ? 0u : r->counts.back();
    r->counts.push_back(r->opt->getNumberOfEvaluations()); r->prev = r->last; r->last = snap(); r->steps++; if (r->trace) r->hist.push_back(r->last);
    // a composed optimiser's counter is what its budget bounds: a round must add at least what the sub-optimisers it ran counted themselves
    if (auto* m = dynamic_cast<MetaOptimizer*>(r->opt.get())) {
      unsigned sub = 0; for (size_t i = 0; i < m->optDesc_->getNumberOfOptimizers(); ++i) if (m->nbParameters_[i] > 0) sub += m->optDesc_->optimizer(i).getNumberOfEvaluations();
      unsigned grown = r->counts.back() - before;
      if (grown < sub && r->metaUndercount.empty()) r->metaUndercount = "round " + std::to_string(r->steps) + ": counter grew by " + std::to_string(grown) + " while the sub-optimisers counted " + std::to_string(sub);
    }
  }
  bool listenerModifiesParameters() const override { return false; }
};

static std::shared_ptr<AbstractOptimizer> makeOpt(int kind, std::shared_ptr<Obj> f, int n) {
  switch (kind) {
    case BFGS: return std::make_shared<BfgsMultiDimensions>(f);
    case CG: return std::make_shared<ConjugateGradientMultiDimensions>(f);
    case POWELL: return std::make_shared<PowellMultiDimensions>(f);
    case DSM: return std::make_shared<DownhillSimplexMethod>(f);
    case SIMPLE: return std::make_shared<SimpleMultiDimensions>(f);
    case SNEWTON: return std::make_shared<SimpleNewtonMultiDimensions>(f);
    case META0: case META1: case META2: case META3: {
      auto* desc = new MetaOptimizerInfos();
      std::vector<std::string> a, b; int na = (n + 1) / 2;
      for (int i = 0; i < n; ++i) (i < na ? a : b).push_back(Obj::pname(i));
      if (kind == META0) { desc->addOptimizer("A", std::make_shared<SimpleNewtonMultiDimensions>(f), a, 2, MetaOptimizerInfos::IT_TYPE_STEP); desc->addOptimizer("B", std::make_shared<SimpleMultiDimensions>(f), b, 0, MetaOptimizerInfos::IT_TYPE_STEP); }
      if (kind == META1) { desc->addOptimizer("A", std::make_shared<BfgsMultiDimensions>(f), a, 1, MetaOptimizerInfos::IT_TYPE_FULL); desc->addOptimizer("B", std::make_shared<PowellMultiDimensions>(f), b, 0, MetaOptimizerInfos::IT_TYPE_FULL); }
      if (kind == META2) { desc->addOptimizer("A", std::make_shared<ConjugateGradientMultiDimensions>(f), a, 1, MetaOptimizerInfos::IT_TYPE_STEP); desc->addOptimizer("B", std::make_shared<DownhillSimplexMethod>(f), b, 0, MetaOptimizerInfos::IT_TYPE_FULL); }
      if (kind == META3) { desc->addOptimizer("A", std::make_shared<PowellMultiDimensions>(f), a, 0, MetaOptimizerInfos::IT_TYPE_FULL); desc->addOptimizer("B", std::make_shared<DownhillSimplexMethod>(f), b, 0, MetaOptimizerInfos::IT_TYPE_STEP); }   // a step-wise simplex comes last: the round ends on one of its steps
      return std::make_shared<MetaOptimizer>(f, std::unique_ptr<MetaOptimizerInfos>(desc));
    }
    case BRENT: case BRENT_IN: return std::make_shared<BrentOneDimension>(f);
    case GOLDEN: return std::make_shared<GoldenSectionSearch>(f);
    case NEWTON1: return std::make_shared<NewtonOneDimension>(f);
  }
  return nullptr;
}

static void doRun(const Cfg& cf, Run& r, vf::Case& c) {
  int n = cf.spec.n;
  bool lineMode = (cf.opt == NBOD);
  std::vector<double> dir;
  if (lineMode) {
    dir.resize((size_t)n);
    if (cf.var == 0) for (int i = 0; i < n; ++i) dir[(size_t)i] = cf.spec.m[(size_t)i] - cf.start[(size_t)i];          // towards the minimiser (the exact Newton step of a diagonal or 1-D quadratic)
    else for (int i = 0; i < n; ++i) dir[(size_t)i] = -gradSpec(cf.spec, cf.start.data(), i);                          // steepest descent
    r.obj = std::make_shared<Obj>(cf.spec, cf.start, dir, 0);
    double slope = 0, test = 0;
    for (int i = 0; i < n; ++i) { slope += dir[(size_t)i] * gradSpec(cf.spec, cf.start.data(), i); double x = std::fabs(cf.start[(size_t)i]), t = std::fabs(dir[(size_t)i]); if (x > 1) t /= x; if (t > test) test = t; }
    r.slope = slope; r.test = test;
    r.opt = std::make_shared<NewtonBacktrackOneDimension>(r.obj, slope, test);   // same call as OneDimensionOptimizationTools::lineSearch
  } else {
    // variant >= 10: the objective is handed over sitting at its minimiser (as after an earlier converged run), not at the requested start:
    // init() must move it to the start before anything is evaluated or differentiated
    r.obj = std::make_shared<Obj>(cf.spec, (cf.var >= 10 && cf.var < 20) ? cf.spec.m : cf.start);
    r.opt = makeOpt(cf.opt, r.obj, n);
  }
  AbstractOptimizer& o = *r.opt;
  o.setVerbose(0); o.setProfiler(nullptr); o.setMessageHandler(nullptr);
  o.setConstraintPolicy(cf.pol == 0 ? AutoParameter::CONSTRAINTS_KEEP : cf.pol == 1 ? AutoParameter::CONSTRAINTS_AUTO : AutoParameter::CONSTRAINTS_IGNORE);
  o.getStopCondition()->setTolerance(cf.tol);
  o.setMaximumNumberOfEvaluations((unsigned)cf.bud);
  o.addOptimizationListener(std::make_shared<Lis>(&r, cf.opt));
  double s0 = cf.start[0];
  if (cf.opt == BRENT || cf.opt == GOLDEN) {
    if (cf.var % 10 == 0) { if (cf.opt == BRENT) dynamic_cast<BrentOneDimension&>(o).setInitialInterval(s0, s0 + 0.01); else dynamic_cast<GoldenSectionSearch&>(o).setInitialInterval(s0, s0 + 0.01); }
    else { if (cf.opt == BRENT) dynamic_cast<BrentOneDimension&>(o).setInitialInterval(s0 - 1, s0 + 1); else dynamic_cast<GoldenSectionSearch&>(o).setInitialInterval(s0 - 1, s0 + 1); }
  }
  if (cf.opt == BRENT_IN) {
    auto& b = dynamic_cast<BrentOneDimension&>(o); b.setBracketing(BrentOneDimension::BRACKET_INWARD);
    if (cf.var % 10 == 0) b.setInitialInterval(BOXLO, BOXHI); else b.setInitialInterval(s0 - 5, s0 + 5);
  }
  ParameterList pl;
  if (lineMode) pl.addParameter(Parameter("x", 0.0));
  else for (int i = 0; i < n; ++i) {
    if (cf.cons) pl.addParameter(Parameter(Obj::pname(i), cf.start[(size_t)i], std::make_shared<IntervalConstraint>(cf.lo[(size_t)i], cf.hi[(size_t)i], true, true)));
    else pl.addParameter(Parameter(Obj::pname(i), cf.start[(size_t)i]));
  }
  if (cf.var >= 20 && !lineMode) {
    // the optimiser object has already been used: a complete unconstrained run from the mirrored start (nothing of it is judged or recorded);
    // the run under test then starts from init() on the same object with its own list, constraints and budget
    ParameterList pl0; for (int i = 0; i < n; ++i) pl0.addParameter(Parameter(Obj::pname(i), -cf.start[(size_t)i]));
    c.site((std::string(ON[cf.opt]) + "::earlier-run").c_str());
    try { o.setMaximumNumberOfEvaluations(200); o.init(pl0); o.optimize(); } catch (bpp::Exception&) {}
    o.setMaximumNumberOfEvaluations((unsigned)cf.bud);
    r.counts.clear(); r.steps = 0; r.hist.clear(); r.metaUndercount.clear();
  }
  r.obj->recording = true;
  try {
    c.site((std::string(ON[cf.opt]) + "::init").c_str());
    o.init(pl);
    c.site((std::string(ON[cf.opt]) + "::optimize").c_str());
    r.ret = o.optimize();
    r.returned = true;
  } catch (bpp::Exception& e) { r.exc = typeid(e).name(); r.excWhat = e.what(); }
  r.obj->recording = false;
  c.site("C10 oracle");
  if (r.returned) {
    const ParameterList& fin = o.getParameters();
    for (size_t i = 0; i < fin.size(); ++i) r.xrep.push_back(fin[i].getValue());
    r.fval = o.getFunctionValue(); r.tolReached = o.isToleranceReached(); r.nbEval = o.getNumberOfEvaluations();
    if (cf.opt == POWELL) { auto* p = dynamic_cast<PowellMultiDimensions*>(&o); r.fp = p->fp_; r.fret = p->fret_; }
    if (cf.opt == DSM) { auto* p = dynamic_cast<DownhillSimplexMethod*>(&o); if (p->y_.size() > std::max(p->iHighest_, p->iLowest_)) { r.yhi = p->y_[p->iHighest_]; r.ylo = p->y_[p->iLowest_]; r.ymax = r.ymin = p->y_[0]; for (double y : p->y_) { r.ymax = std::max(r.ymax, y); r.ymin = std::min(r.ymin, y); } } }
    if (cf.opt == GOLDEN) { auto* p = dynamic_cast<GoldenSectionSearch*>(&o); r.gw = std::fabs(p->x3 - p->x0); }
  }
}

// objective value at a reported point, computed by the harness alone (same arithmetic as the monitor)
static double reeval(const Cfg& cf, const Run& r, const std::vector<double>& x) {
  if (cf.opt == NBOD) { std::vector<double> p((size_t)cf.spec.n); for (int i = 0; i < cf.spec.n; ++i) p[(size_t)i] = r.obj->p0[(size_t)i] + x[0] * r.obj->dir[(size_t)i]; return evalSpec(cf.spec, p.data()); }
  return evalSpec(cf.spec, x.data());
}
static double dist(const std::vector<double>& x, const std::vector<double>& m) { double s = 0; for (size_t i = 0; i < m.size(); ++i) s += (x[i] - m[i]) * (x[i] - m[i]); return std::sqrt(s); }

// ================================================================================================ convergence bound
// Setting: f(x) = c + (x-m)'Q(x-m)/2, eigenvalues of Q in [l1, ln], kappa = ln/l1, E(x) = f(x) - c, g = Q(x-m).
//   (G)  |x-m|^2 <= 2 E(x) / l1           and   |g|^2 >= 2 l1 E(x),  |g|^2 <= 2 ln E(x).
//   (N)  rounding of the harness objective: |fl(f(x)) - f(x)| <= eta(r) = gamma (|c| + A r^2 / 2) for |x-m| <= r, gamma = 1.01 (n^2+4) u,
//        A = max absolute row sum of Q. A stop rule "|f~_k - f~_{k-1}| < t" therefore implies a true decrease D < t + 2 eta.
//   Every bound below is a bound on E at the point where the last iteration STARTED (x_{k-1}); the reported point has E <= E(x_{k-1}) + 2 eta
//   (descent), hence |x_rep - m| <= sqrt(2 (E(x_{k-1}) + 2 eta) / l1).
//   (B)  1-D Brent with relative tolerance tau (BODStopCondition: |x - xm| <= tol2 - (b-a)/2 with tol2 = 2 (tau |x| + 1e-10) computed at the
//        start of the step): the bracket [a,b] has width <= 2 tol2 and contains x and, for a convex function compared without error, the
//        minimiser: |x - x*| <= 2 tol2 <= 4 (tau X + 1e-10), X = largest |abscissa| evaluated. With evaluation noise eta a comparison
//        between two abscissae h apart can discard the minimiser only if it is closer than 2 eta / (q h) to the kept one (convexity,
//        curvature q), and Brent never evaluates closer than 1e-10 (ZEPS) to its best point: additional term 2 eta / (q 1e-10).
//   (L)  line minimisation inside conjugate gradient / Powell = Brent on lambda with tau = 0.01 from the pair (0, 0.01); every "best" abscissa
//        has g(lambda) <= g(0), hence |lambda| <= 2 |lambda*| on a parabola: |lambda^ - lambda*| <= r |lambda*| + z with r = 0.08,
//        z = 4e-10 + 2 eta / (q_d 1e-10), q_d = d'Qd.
//   (S)  sweep of line minimisations along the columns u_1..u_n of U (identity for the coordinate-wise optimisers, Powell's direction set
//        otherwise), each with error |eps_j| <= r |t_j*| + z in its line parameter; Q' = U'QU with eigenvalues in [l1', ln'], kappa' = ln'/l1'.
//        With a_j the directional derivative before substep j and t_j* = -a_j / Q'_jj:  S := sum a_j^2 / (2 Q'_jj) satisfies
//        D >= S (1 - 2 r^2) - n ln' z^2;  |a|^2 <= 2 ln' S;  |t|^2 <= 2 (1+r)^2 |a|^2 / l1'^2 + 2 n z^2;
//        g_j(x_{k-1}) = a_j - (L t)_j with L the strictly lower part of Q', |L|_F^2 <= n ln'^2 / 2, so |g|^2 <= 2 |a|^2 + n ln'^2 |t|^2 and
//        E(x_{k-1}) <= |g|^2 / (2 l1') <= 2 kappa' (1 + n (1+r)^2 kappa'^2) S + n^2 ln'^2 z^2 / l1'.
//   (A)  BFGS: quasi-Newton direction d = -Hg, Armijo backtracking f(x + lam d) <= f + 1e-4 lam g'd with lam_0 = 1, lam_{j+1} >= lam_j / 10,
//        abandoned (no move) when lam < 1e-4 / test, test = max_i |d_i| / max(|x_i|, 1). On a quadratic the BFGS update keeps the spectrum
//        of Q^{1/2} H Q^{1/2} inside [a, b] = [min(1,l1), max(1,ln)] (H_0 = I; the update is a compression plus a unit eigenvalue).
//        Armijo holds with margin for lam <= lam_A / 2, lam_A >= 2 (1 - 1e-4) a / b^2, so an accepted lam is >= Lm = min(1, 0.05 lam_A)
//        and D >= 1e-4 lam |g'd| - 2 eta >= 2e-4 Lm a E - 2 eta; abandoning implies test < 1e-4 / Lm, i.e. E < n ln (P 1e-4 / Lm)^2 / (2 a^2)
//        with P = max(1, max |x_i|); acceptance refused by noise only if lam |g'd| < 4.0004 eta, i.e. E < 2.0002 eta / (a Lm).
struct Conv { bool judged = false; double bound = 0; std::string why; };

static Conv convBound(const Cfg& cf, const Run& r) {
  Conv cv; const Spec& s = cf.spec; int n = s.n;
  double l1 = s.lmin * (1 - 1e-9), ln = s.lmax * (1 + 1e-9), kap = ln / l1;
  double gamma = 1.01 * (n * n + 4) * UR;
  double X = std::max(r.obj->maxAbs, 1e-300);
  for (double v : cf.start) X = std::max(X, std::fabs(v));
  double Ract = 0;
  if (cf.opt != NBOD) { Ract = dist(r.xrep, s.m); if (r.prev.x.size() == (size_t)n) Ract = std::max(Ract, dist(r.prev.x, s.m)); }
  auto eta = [&](double rad) { return gamma * (std::fabs(s.c) + 0.5 * s.A * rad * rad); };
  auto fromE = [&](double E, double et) { return std::sqrt(2 * (E + 2 * et) / l1); };
  const double ZEPS = 1e-10;
  auto brent = [&](double tau, double q) {   // (B): |x - x*| for a 1-D Brent run on a coordinate
    double t2 = 2 * (tau * X + ZEPS); double et = eta(Ract + 2 * t2); return 2 * t2 + 2 * et / (q * ZEPS);
  };
  auto sweep = [&](double l1p, double lnp, double rr, double z, double D) {   // (S)
    double kp = lnp / l1p; double S = (D + n * lnp * z * z) / (1 - 2 * rr * rr);
    return 2 * kp * (1 + n * (1 + rr) * (1 + rr) * kp * kp) * S + n * n * lnp * lnp * z * z / l1p;
  };
  switch (cf.opt) {
    case BRENT: case BRENT_IN: cv.judged = true; cv.bound = brent(cf.tol, l1); cv.why = "(B)"; return cv;
    case GOLDEN: {
      // intended stop rule |x3-x0| <= tol (|x1|+|x2|): the bracket [x0,x3] contains the minimiser and the reported trial point: |x-m| <= 2 tol X;
      // noise as in (B) with the golden spacing h >= 0.2 |x3-x0| of the final bracket
      double W = 2 * cf.tol * X; if (!(r.gw > 0)) { cv.why = "degenerate final bracket"; return cv; }
      cv.judged = true; cv.bound = W + 2 * eta(Ract + std::max(W, r.gw)) / (l1 * 0.2 * r.gw); cv.why = "golden"; return cv;
    }
    case NEWTON1: {
      // the Newton step of a 1-D quadratic lands on m up to rounding (<= 8 u X); FunctionStopCondition: D = E(x_{k-1}) - E(x_k) < tol + 2 eta
      double et = eta(2 * Ract); cv.judged = true; cv.bound = std::sqrt(2 * (cf.tol + 4 * et) / l1) + 8 * UR * X; cv.why = "newton"; return cv;
    }
    case SIMPLE:
      if (n == 1) { cv.judged = true; cv.bound = brent(cf.tol, l1); cv.why = "(B)"; return cv; }
      {
        double t2 = 2 * (cf.tol * X + ZEPS), et = eta(2 * Ract + 2 * t2), z = 2 * t2 + 2 * et / (l1 * ZEPS);
        double E = sweep(l1, ln, 0, z, cf.tol + 2 * et); cv.judged = true; cv.bound = fromE(E, et); cv.why = "(S)+(B)"; return cv;
      }
    case SNEWTON:
      if (n == 1) { double et = eta(2 * Ract); cv.judged = true; cv.bound = std::sqrt(2 * (cf.tol + 4 * et) / l1) + 8 * UR * X; cv.why = "newton"; return cv; }
      {
        // coordinate error of the inner Newton run: rounding of g_j / Q_jj (<= gamma (A/l1) R + u X) or, when the step is refused by the
        // noisy comparison newValue > currentValue (possible only if its true gain is <= 2 eta), at most 2 sqrt(eta / l1)
        double et = eta(2 * Ract), z = gamma * (s.A / l1) * 2 * Ract + UR * X + 2 * std::sqrt(et / l1);
        double E = sweep(l1, ln, 0, z, cf.tol + 2 * et); cv.judged = true; cv.bound = fromE(E, et); cv.why = "(S)+newton"; return cv;
      }
    case POWELL: {
      if (r.prev.dirs.size() != (size_t)n * n) { cv.why = "no direction set"; return cv; }
      std::vector<double> Qp((size_t)n * n, 0.0);   // Q' = U'QU, U_{j,i} = xi_[j][i] (column i = direction i)
      for (int a = 0; a < n; ++a) for (int b = 0; b < n; ++b) { double acc = 0; for (int i = 0; i < n; ++i) for (int j = 0; j < n; ++j) acc += r.prev.dirs[(size_t)i * n + a] * s.q(i, j) * r.prev.dirs[(size_t)j * n + b]; Qp[(size_t)a * n + b] = acc; }
      double lo, hi; symEigRange(Qp, n, lo, hi); lo *= (1 - 1e-9); hi *= (1 + 1e-9);
      if (!(lo > 0) || !(hi / lo < 1e7)) { cv.why = "direction set (numerically) singular"; return cv; }
      double et = eta(2 * Ract + 1e-6), z = 4e-10 + 2 * et / (lo * ZEPS);
      double tolAbs = cf.tol * (std::fabs(r.fp) + std::fabs(r.fret)) / 2;   // PMDStopCondition: 2 |fp - fret| / (|fp| + |fret|) < tol
      double E = sweep(lo, hi, 0.08, z, tolAbs + 2 * et); cv.judged = true; cv.bound = fromE(E, et); cv.why = "(S)+(L)"; return cv;
    }
    case CG: {
      // model: the last line minimisation gains at least as much as the exact steepest-descent line minimisation from x_{k-1} would
      // (exact for conjugate directions: d'Qd <= g'Qg; exact for n = 1), which is |g|^4 / (2 g'Qg) >= E / kappa. With (L): D >= S (1 - 2 r^2) - q_d z^2.
      if (r.prev.dirs.size() != (size_t)n) { cv.why = "no direction"; return cv; }
      double qd = 0; for (int i = 0; i < n; ++i) for (int j = 0; j < n; ++j) qd += r.prev.dirs[(size_t)i] * s.q(i, j) * r.prev.dirs[(size_t)j];
      if (!(qd > 0)) { cv.why = "zero direction"; return cv; }
      double et = eta(2 * Ract + 1e-6), z = 4e-10 + 2 * et / (qd * ZEPS), rr = 0.08;
      double S = (cf.tol + 2 * et + qd * z * z) / (1 - 2 * rr * rr);
      cv.judged = true; cv.bound = fromE(kap * S, et); cv.why = "steepest-descent model+(L)"; return cv;
    }
    case BFGS: {
      double a = std::min(1.0, l1), b = std::max(1.0, ln), al = 1e-4, et = eta(2 * Ract);
      double Lm = std::min(1.0, 0.05 * 2 * (1 - al) * a / (b * b)), P = std::max(1.0, X);
      double E = std::max((cf.tol + 4 * et) / (2 * al * a * Lm), std::max(n * ln * (P * 1e-4 / Lm) * (P * 1e-4 / Lm) / (2 * a * a), 2.0002 * et / (a * Lm)));
      cv.judged = true; cv.bound = fromE(E, et); cv.why = "(A)"; return cv;
    }
    case DSM: {
      // DSMStopCondition: 2 |y_hi - y_lo| / (|y_hi| + |y_lo|) < tol. No bound on E follows from a small spread of vertex values (vertices on one
      // level set have spread 0); the statement nevertheless ties accuracy to the tolerance, so the check uses the loosest factor of the family: (S) with r = z = 0.
      if (!(r.yhi == r.yhi)) { cv.why = "no simplex"; return cv; }
      double et = eta(2 * Ract), tolAbs = cf.tol * (std::fabs(r.yhi) + std::fabs(r.ylo)) / 2;
      cv.judged = true; cv.bound = fromE(sweep(l1, ln, 0, 0, tolAbs + 2 * et), et); cv.why = "spread model"; return cv;
    }
    case NBOD: {
      // direction m - start on a diagonal (or 1-D) quadratic is the exact Newton step: lambda = 1 gives f = c <= f(0) + 1e-4 slope, accepted at the first trial; start + (m - start) is exact on the dyadic lattice
      bool diagQ = true; for (int i = 0; i < n; ++i) for (int j = 0; j < n; ++j) if (i != j && s.q(i, j) != 0) diagQ = false;
      if (cf.var != 0 || !diagQ) { cv.why = "not a Newton direction"; return cv; }
      // two roundings (m - start, start + 1 * dir), each <= u times a magnitude <= |start|+|m|
      double mag = 0; for (int i = 0; i < n; ++i) mag = std::max(mag, std::fabs(cf.start[(size_t)i]) + std::fabs(s.m[(size_t)i]));
      // ... unless the search refuses to move at all: it gives up when the step, relative to max(|x_i|,1), is below its 1e-4 resolution
      // (alamin = 1e-4/test > 1 at the first trial); the start is then closer than that to the minimiser in every coordinate
      double refuse = 0; for (int i = 0; i < n; ++i) refuse = std::max(refuse, std::max(1.0, std::fabs(cf.start[(size_t)i])));
      refuse *= 1e-4 * std::sqrt((double)n);
      cv.judged = true; cv.bound = std::max(4 * UR * mag * std::sqrt((double)n), r.obj->nEval == 0 ? refuse : 0.0); cv.why = r.obj->nEval == 0 ? "step below the 1e-4 resolution of the search: no move" : "exact Newton step"; return cv;
    }
    default: cv.why = "meta-optimiser: no bound derived"; return cv;
  }
}

// ================================================================================================ the judged case
static void setBox(Cfg& cf);
static void judge(const Cfg& cf, vf::Case& c, bool sampleIt, bool twice) {
  Run r; r.trace = c.verbose; doRun(cf, r, c);
  if (c.verbose) { c.note(cf.describe()); for (size_t k = 0; k < r.hist.size(); ++k) c.note("step " + str(k + 1) + ": counter=" + str(r.counts[k]) + " x=" + vf::vstr(r.hist[k].x) + " f=" + num(r.hist[k].f) + (r.hist[k].dirs.empty() ? "" : " dirs=" + vf::vstr(r.hist[k].dirs))); c.note("true evaluations: " + str(r.obj->nEval) + (r.returned ? " returned " + num(r.ret) : " raised " + r.exc + ": " + r.excWhat)); }
  std::string on = (cf.opt == META0 || cf.opt == META1 || cf.opt == META2 || cf.opt == META3) ? "MetaOptimizer" : ON[cf.opt];   // signature class: the optimiser class (the three meta configurations are one class)
  std::string cls = on;
  std::string in = cf.describe();
  const Spec& s = cf.spec; int n = s.n; int np = r.obj->np;
  // time-independence / reproducibility: the same configuration on fresh objects gives bit-identical results (every 8th index)
  if (twice) {
    Run r2; vf::Out o2; vf::Case c2 = c; c2.out = &o2; c2.muted = true; c2.verbose = false; doRun(cf, r2, c2);
    bool same = r.returned == r2.returned && r.exc == r2.exc && r.obj->nEval == r2.obj->nEval && r.xrep == r2.xrep &&
                (!r.returned || std::memcmp(&r.ret, &r2.ret, sizeof(double)) == 0) && r.counts == r2.counts;
    if (!same) c.fail("repro|two-runs-differ|" + on, in + ": evaluations " + str(r.obj->nEval) + " vs " + str(r2.obj->nEval) + ", returned " + num(r.ret) + " vs " + num(r2.ret));
  }
  // feasibility of every recorded evaluation (automatic-constraint policy)
  if (cf.cons && cf.pol == 1 && cf.opt != NBOD) {
    size_t bad = 0, first = 0; size_t cnt = r.obj->pts.size() / (size_t)np;
    for (size_t k = 0; k < cnt; ++k) for (int i = 0; i < np; ++i) { double v = r.obj->pts[k * np + i]; if (!(v >= cf.lo[(size_t)i] && v <= cf.hi[(size_t)i])) { if (!bad) first = k; ++bad; } }
    if (bad) {
      std::vector<double> p(r.obj->pts.begin() + (long)(first * np), r.obj->pts.begin() + (long)(first * np + np));
      c.fail("feas|evaluated-outside-constraints|" + on, in + ": " + str(bad) + " coordinate(s) outside; first at evaluation #" + str(first) + " point=" + vf::vstr(p));
    }
    c.tag("auto:evaluations-checked");
  }
  if (!r.returned) {
    // keep: a rejected value raises by design (Parameter::setValue); ignore/none/auto: nothing should raise
    std::string t = std::string("raised:") + CONS[cf.cons] + "-" + POL[cf.pol];
    c.tag(t);
    bool byDesign = (cf.cons != 0 && cf.pol == 0 && r.exc.find("ConstraintException") != std::string::npos);
    if (!byDesign) c.fail("run|raised-exception|" + on + ":" + (cf.cons ? POL[cf.pol] : "unconstrained"), in + ": " + r.exc + ": " + r.excWhat);
    return;
  }
  double f0 = reeval(cf, r, cf.opt == NBOD ? std::vector<double>(1, 0.0) : cf.start);
  double fr = reeval(cf, r, r.xrep);
  bool moved = (cf.opt == NBOD) ? (r.xrep[0] != 0) : (r.xrep != cf.start);
  if (moved) c.nontrivial();
  // (1) descent: final value no greater than the starting value (4 ulp)
  if (!(fr <= f0 + 4 * 2.220446049250313e-16 * std::fabs(f0)))
    c.fail("descent|final-worse-than-start|" + cls, in + ": f(start)=" + num(f0) + " f(reported " + vf::vstr(r.xrep) + ")=" + num(fr) + " after " + str(r.steps) + " steps, " + str(r.obj->nEval) + " evaluations");
  // (2) the value returned by optimize() is the objective at getParameters()
  if (std::memcmp(&r.ret, &fr, sizeof(double)) != 0 && !(r.ret == fr))
    c.fail("value|returned-differs-from-objective-at-reported-point|" + cls, in + ": optimize() returned " + num(r.ret) + " but f(getParameters()=" + vf::vstr(r.xrep) + ")=" + num(fr) + " (getFunctionValue()=" + num(r.fval) + ")");
  if (!(r.fval == fr)) c.tag("diag:getFunctionValue-differs");
  // (3) budget: no step is started once the optimiser's own evaluation counter has reached the budget (counter at the start of step k+1 = counter after step k, + 1)
  for (size_t k = 0; k + 1 <= r.counts.size(); ++k) {
    unsigned atStart = (k == 0) ? 1u : r.counts[k - 1] + 1u;
    if (!(atStart < (unsigned)cf.bud)) { c.fail("budget|step-started-after-budget-exhausted|AbstractOptimizer::optimize",   /* the step loop of every optimiser here is AbstractOptimizer::optimize */ in + ": step " + str(k + 1) + " started with counter " + str(atStart) + " >= budget " + str(cf.bud)); break; }
  }
  if (!r.metaUndercount.empty()) c.fail("budget|counter-omits-evaluations-counted-by-the-sub-optimisers|MetaOptimizer", in + ": " + r.metaUndercount);
  c.tag(r.tolReached ? "stopped:tolerance" : "stopped:budget");
  if (r.obj->nEval > 4 * (size_t)cf.bud + 64) c.tag("diag:true-evaluations>4x-budget");
  // (4) reported point feasible under auto
  if (cf.cons && cf.pol == 1 && cf.opt != NBOD)
    for (int i = 0; i < n; ++i) if (!(r.xrep[(size_t)i] >= cf.lo[(size_t)i] && r.xrep[(size_t)i] <= cf.hi[(size_t)i])) { c.fail("feas|reported-point-infeasible|" + on, in + ": reported " + vf::vstr(r.xrep)); break; }
  // (5) convergence on strictly convex quadratics without active constraints, runs stopped by their stop rule with the large budget
  if (s.kind == QUAD && r.tolReached && cf.bud == BIG && cf.cons <= 1) {
    bool touched = false;
    if (cf.cons == 1 && cf.pol != 2) {   // a constraint is inactive for this clause when no evaluated coordinate came within 1e-5 of a bound (then no value was ever corrected, rejected or shortened)
      size_t cnt = r.obj->pts.size() / (size_t)np;
      for (size_t k = 0; k < cnt && !touched; ++k) for (int i = 0; i < np; ++i) { double v = r.obj->pts[k * np + i]; if (v < cf.lo[(size_t)i] + 1e-5 || v > cf.hi[(size_t)i] - 1e-5) touched = true; }
    }
    Conv cv = convBound(cf, r);
    std::vector<double> xr = r.xrep;
    if (cf.opt == NBOD) { xr.assign((size_t)n, 0.0); for (int i = 0; i < n; ++i) xr[(size_t)i] = r.obj->p0[(size_t)i] + r.xrep[0] * r.obj->dir[(size_t)i]; }
    double d = dist(xr, s.m), d0 = dist(cf.start, s.m);
    if (touched) {
      c.tag("conv:not-judged(bound-touched)");
      if (cv.judged && d > cv.bound && cv.bound < d0) { c.tag("diag:bound-touched-and-stopped-far:" + on + "-" + POL[cf.pol]); if (d > 1) c.sample("[not judged: a bound was touched] " + in + " stopped |x-m|=" + num(d) + " from the interior minimiser at " + vf::vstr(xr)); }
    } else if (!cv.judged) c.tag("conv:not-judged(" + cv.why + ")");
    else if (!(cv.bound < d0)) c.tag("conv:bound-vacuous:" + on);
    else {
      c.tag("conv:judged"); c.tag("conv:judged:" + on);
      // cause of a simplex stop, read from its state: the documented rule (relative spread between the highest and the lowest vertex value
      // below the tolerance) does not hold for the simplex as it is when the run stops -> the test used stale vertex indices (a different defect)
      if (!(d <= cv.bound) && cf.opt == DSM && !(2 * std::fabs(r.ymax - r.ymin) / (std::fabs(r.ymax) + std::fabs(r.ymin)) < cf.tol))
        c.fail("conv|stop-rule-not-satisfied-by-final-simplex|" + cls, in + ": |x-m|=" + num(d) + " > bound " + num(cv.bound) + "; vertex values range [" + num(r.ymin) + "," + num(r.ymax) + "] but the test compared " + num(r.ylo) + " with " + num(r.yhi) + "; reported " + vf::vstr(xr) + " minimiser " + vf::vstr(s.m) + " steps=" + str(r.steps));
      else if (!(d <= cv.bound) && cf.cons == 1 && [&] {
                 // which site? A box that no evaluation came near cannot explain a failure: if the same configuration without the box meets
                 // its bound, the constraint handling itself changed an unconstrained run (a different defect from a stop rule that fires early)
                 Cfg cu = cf; cu.cons = 0; setBox(cu); Run ru; vf::Out ou; vf::Case c2 = c; c2.out = &ou; c2.muted = true; c2.verbose = false; doRun(cu, ru, c2);
                 if (!ru.returned || !ru.tolReached) return false;
                 Conv cvu = convBound(cu, ru); return cvu.judged && dist(ru.xrep, s.m) <= cvu.bound; }())
        c.fail("conv|box-never-touched-yet-the-run-misses-the-minimiser-that-the-unconstrained-run-reaches|" + cls, in + ": |x-m|=" + num(d) + " > bound " + num(cv.bound) + " [" + cv.why + "]; reported " + vf::vstr(xr) + " minimiser " + vf::vstr(s.m) + " steps=" + str(r.steps) + " evaluations=" + str(r.obj->nEval));
      else if (!(d <= cv.bound))
        c.fail("conv|stopped-far-from-minimiser|" + cls, in + ": |x-m|=" + num(d) + " > bound " + num(cv.bound) + " [" + cv.why + "]; reported " + vf::vstr(xr) + " minimiser " + vf::vstr(s.m) + " kappa=" + num(s.lmax / s.lmin) + " steps=" + str(r.steps) + " evaluations=" + str(r.obj->nEval));
    }
  }
  if (sampleIt) c.sample(in + " -> f " + num(f0) + " -> " + num(fr) + " at " + vf::vstr(r.xrep) + ", " + str(r.steps) + " steps, " + str(r.obj->nEval) + " evaluations, " + (r.tolReached ? "tolerance" : "budget"));
}

// ================================================================================================ spaces
struct Slice {
  std::string name; int opt, n;
  std::vector<Spec> objs; std::vector<std::vector<double>> starts; std::vector<int> cons, pols, tols, buds, vars;
  uint64_t size() const { return (uint64_t)objs.size() * starts.size() * cons.size() * pols.size() * tols.size() * buds.size() * vars.size(); }
};

static void setBox(Cfg& cf) {
  int n = cf.spec.n; cf.lo.assign((size_t)n, BOXLO); cf.hi.assign((size_t)n, BOXHI);
  if (cf.cons == 2) {   // minimiser on a face of coordinate 0, on the side away from the start
    if (cf.start[0] > cf.spec.m[0]) cf.lo[0] = cf.spec.m[0]; else cf.hi[0] = cf.spec.m[0];
  }
  // the start lies exactly on a bound of every coordinate (the other bound stays at the box); depending on the side of the minimiser the
  // first move of a coordinate is inwards or is held back by the bound
  if (cf.cons == 3) for (int i = 0; i < n; ++i) cf.lo[(size_t)i] = cf.start[(size_t)i];
  if (cf.cons == 4) for (int i = 0; i < n; ++i) cf.hi[(size_t)i] = cf.start[(size_t)i];
  if (cf.cons == 5) for (int i = 0; i < n; ++i) { if (i % 2 == 0) cf.lo[(size_t)i] = cf.start[(size_t)i]; else cf.hi[(size_t)i] = cf.start[(size_t)i]; }
}

static void addSlice(vf::Runner& R, const Slice& sl) {
  std::shared_ptr<Slice> S = std::make_shared<Slice>(sl);
  R.space(sl.name, sl.size(), [S](uint64_t idx, vf::Case& c) {
    // least significant first: variant, budget, tolerance, policy, constraints, start, objective
    std::vector<int> d = vf::digits(idx, {(int)S->vars.size(), (int)S->buds.size(), (int)S->tols.size(), (int)S->pols.size(), (int)S->cons.size(), (int)S->starts.size(), (int)S->objs.size()});
    Cfg cf; cf.opt = S->opt; cf.var = S->vars[(size_t)d[0]]; cf.bud = S->buds[(size_t)d[1]]; cf.tol = TOLS[S->tols[(size_t)d[2]]]; cf.pol = S->pols[(size_t)d[3]]; cf.cons = S->cons[(size_t)d[4]];
    cf.start = S->starts[(size_t)d[5]]; cf.spec = S->objs[(size_t)d[6]];
    // marker start (NaN): a start next to the minimiser, m + 1e-5 in every coordinate (the line searches then work at the limit of their step rules)
    if (cf.start[0] != cf.start[0]) for (size_t i = 0; i < cf.start.size(); ++i) cf.start[i] = cf.spec.m[i] + 1e-5;
    setBox(cf);
    judge(cf, c, idx % 977 == 5, idx % 8 == 0);
  }, 20.0);
}

// ---- bracketing --------------------------------------------------------------------------------
static void bracketSpace(vf::Runner& R, bool th) {
  std::shared_ptr<std::vector<Spec>> objs = std::make_shared<std::vector<Spec>>(objectives(1, 2, 27));
  static const double W[6] = {0.01, -0.01, 1, -1, 5, -0.5};
  static const int IN[3] = {2, 5, 10};
  static const double IV[4][2] = {{-4, 4}, {4, -4}, {-2, 3}, {-2.5, 1.75}};
  (void)th;
  R.space("bracket:outward:obj" + str(objs->size()) + "xstart3xwidth6", objs->size() * 18, [objs](uint64_t idx, vf::Case& c) {
    std::vector<int> d = vf::digits(idx, {6, 3, (int)objs->size()});
    const Spec& s = (*objs)[(size_t)d[2]]; double a = SV[d[1]], b = a + W[d[0]];
    auto obj = std::make_shared<Obj>(s, std::vector<double>(1, a));
    ParameterList pl; pl.addParameter(Parameter("x0", a));
    std::string in = "bracketMinimum(" + num(a) + "," + num(b) + ") on " + s.label;
    c.site("OneDimensionOptimizationTools::bracketMinimum");
    Bracket br;
    try { br = OneDimensionOptimizationTools::bracketMinimum(a, b, *obj, pl); }
    catch (bpp::Exception& e) { c.fail("bracket|raised-exception|bracketMinimum", in + ": " + e.what()); return; }
    c.site("C10 oracle");
    double xs[3] = {br.a.x, br.b.x, br.c.x}, fs[3]; for (int i = 0; i < 3; ++i) fs[i] = evalSpec(s, &xs[i]);
    int o[3] = {0, 1, 2}; std::sort(o, o + 3, [&](int p, int q) { return xs[p] < xs[q]; });
    c.nontrivial();
    if (!(fs[o[1]] <= fs[o[0]] && fs[o[1]] <= fs[o[2]]))
      c.fail("bracket|middle-not-lowest|bracketMinimum", in + ": triple x=" + num(xs[o[0]]) + "," + num(xs[o[1]]) + "," + num(xs[o[2]]) + " f=" + num(fs[o[0]]) + "," + num(fs[o[1]]) + "," + num(fs[o[2]]));
    if (!(xs[o[0]] < xs[o[1]] && xs[o[1]] < xs[o[2]])) c.tag("bracket:coincident-abscissae");
    if (!(br.a.f == fs[0] && br.b.f == fs[1] && br.c.f == fs[2])) c.tag("diag:bracket-reports-stale-value");
    c.tag(o[1] == 1 ? "bracket:middle-in-field-b" : "bracket:middle-in-other-field");
  }, 10.0);
  R.space("bracket:inward:obj" + str(objs->size()) + "xinterval4xmesh3", objs->size() * 12, [objs](uint64_t idx, vf::Case& c) {
    std::vector<int> d = vf::digits(idx, {3, 4, (int)objs->size()});
    const Spec& s = (*objs)[(size_t)d[2]]; double a = IV[d[1]][0], b = IV[d[1]][1]; unsigned mesh = (unsigned)IN[d[0]];
    auto obj = std::make_shared<Obj>(s, std::vector<double>(1, a));
    ParameterList pl; pl.addParameter(Parameter("x0", a));
    std::string in = "inwardBracketMinimum(" + num(a) + "," + num(b) + "," + str(mesh) + ") on " + s.label;
    c.site("OneDimensionOptimizationTools::inwardBracketMinimum");
    Bracket br;
    try { br = OneDimensionOptimizationTools::inwardBracketMinimum(a, b, *obj, pl, mesh); }
    catch (bpp::Exception& e) { c.fail("bracket|raised-exception|inwardBracketMinimum", in + ": " + e.what()); return; }
    c.site("C10 oracle");
    double xs[3] = {br.a.x, br.b.x, br.c.x}, fs[3]; for (int i = 0; i < 3; ++i) fs[i] = evalSpec(s, &xs[i]);
    int o[3] = {0, 1, 2}; std::stable_sort(o, o + 3, [&](int p, int q) { return xs[p] < xs[q]; });
    c.nontrivial();
    // with coincident abscissae any of the coincident points is "in between"; they share one value, so the test below is unambiguous
    if (!(fs[o[1]] <= fs[o[0]] && fs[o[1]] <= fs[o[2]]))
      c.fail("bracket|middle-not-lowest|inwardBracketMinimum", in + ": triple x=" + num(xs[o[0]]) + "," + num(xs[o[1]]) + "," + num(xs[o[2]]) + " f=" + num(fs[o[0]]) + "," + num(fs[o[1]]) + "," + num(fs[o[2]]));
    if (!(xs[o[0]] < xs[o[1]] && xs[o[1]] < xs[o[2]])) c.tag("bracket:coincident-abscissae");
    c.tag(o[1] == 1 ? "bracket:middle-in-field-b" : "bracket:middle-in-other-field");
  }, 10.0);
}

int main(int argc, char** argv) {
  vf::Runner R(argc, argv, "C10");
  vfh::silence();
  bool th = R.thorough();
  int maxN = th ? 6 : 3, cap = th ? 27 : 3, capS = 9;   // minimiser lattice complete for n<=1 (quick) / n<=3 (thorough), start lattice complete for n<=2; 5 patterns above
  bracketSpace(R, th);
  for (int opt = 0; opt < NOPT; ++opt) {
    for (int n = 1; n <= maxN; ++n) {
      if (oneDim(opt) && opt != NBOD && n > 1) continue;
      if (opt == NBOD && n > 3) continue;
      if ((opt == META1 || opt == META2 || opt == META3) && n < 2) continue;
      std::vector<int> vars = {0};
      if (opt == BRENT || opt == BRENT_IN || opt == GOLDEN || opt == NBOD) vars = {0, 1};
      std::vector<std::vector<double>> starts = lattice(n, SV, capS);
      if (n == 1) starts.push_back(std::vector<double>(1, -0.1));   // tie case: the first simplex (-0.1, 0.1) / interval straddles the minimiser 0 symmetrically
      starts.push_back(std::vector<double>((size_t)n, NaN));        // marker: start = minimiser + 1e-5 in every coordinate
      if (!(opt >= META0 && opt <= META3)) {                        // (the compositions are left out for cost: a Powell stage from the origin takes seconds per run)
        starts.push_back(std::vector<double>((size_t)n, 0.0));      // a start with coordinates exactly 0: relative step sizes collapse there
        if (n >= 2) { std::vector<double> z((size_t)n, 0.5); z[0] = 0.0; starts.push_back(z); }
      }
      std::string base = std::string("run:") + ON[opt] + ":n" + str(n) + ":";
      {  // slice 1: every objective x every tolerance, unconstrained, large budget
        Slice s; s.opt = opt; s.n = n; s.objs = objectives(n, 2, cap); s.starts = starts; s.cons = {0}; s.pols = {0}; s.tols = {0, 1, 2, 3}; s.buds = {BIG}; s.vars = vars;
        // the compositions take the logarithm of the starting value for their tolerance schedule: started where the objective is negative every
        // stage runs to its own limit of 1e6 evaluations inside one round (within the letter of the budget clause, seconds per run): left out
        if (opt >= META0 && opt <= META3) { std::vector<Spec> keep; for (auto& sp : s.objs) if (!(sp.c < 0)) keep.push_back(sp); s.objs = keep; }
        s.name = base + "objectives" + str(s.objs.size()) + "xstarts" + str(starts.size()) + "xtol4xvariants" + str(vars.size()) + ":unconstrained:budget" + str(BIG);
        addSlice(R, s);
      }
      if (opt != NBOD) {  // slice 2: constraint sets x policies x (objective handed over at the start | at its minimiser)
        std::vector<int> vars2 = vars; for (int v : vars) vars2.push_back(v + 10); for (int v : vars) vars2.push_back(v + 20);   // + objective at its minimiser; + optimiser object already used
        Slice s; s.opt = opt; s.n = n; s.objs = objectives(n, 1, cap); s.starts = starts; s.cons = {0, 1, 2, 3, 4, 5}; s.pols = {0, 1, 2}; s.tols = th ? std::vector<int>{1, 3} : std::vector<int>{1}; s.buds = {BIG}; s.vars = vars2;
        s.name = base + "objectives" + str(s.objs.size()) + "xstarts" + str(starts.size()) + "xcons6xpolicy3xtol" + str(s.tols.size()) + "xvariants" + str(s.vars.size()) + ":budget" + str(BIG);
        addSlice(R, s);
      }
      {  // slice 3: small budgets (1: no step at all; 3: ends inside the first iteration of most optimisers), also on an optimiser object already used
        std::vector<int> vars2 = vars; for (int v : vars) vars2.push_back(v + 20);
        Slice s; s.opt = opt; s.n = n; s.objs = objectives(n, 1, cap); s.starts = starts; s.cons = (opt == NBOD) ? std::vector<int>{0} : std::vector<int>{0, 1}; s.pols = {1}; s.tols = {0, 3}; s.buds = {1, 3, 10, 50}; s.vars = vars2;
        s.name = base + "objectives" + str(s.objs.size()) + "xstarts" + str(starts.size()) + "xcons" + str(s.cons.size()) + ":auto:tol2xbudget{1,3,10,50}xvariants" + str(vars2.size());
        addSlice(R, s);
      }
    }
  }
  R.expectSeen("stopped:tolerance"); R.expectSeen("stopped:budget"); R.expectSeen("conv:judged"); R.expectSeen("auto:evaluations-checked");
  R.note("budget clause judged on the optimiser's own counter (getNumberOfEvaluations), which is what setMaximumNumberOfEvaluations bounds; the number of true objective evaluations (recorded by the monitor) is larger for most optimisers and is reported as a diagnostic tag only");
  R.note("keep policy with constraints: a ConstraintException leaving optimize() is the documented behaviour of Parameter::setValue and is tagged, not judged; under none/auto/ignore any exception is a violation");
  R.note("convergence is judged only for runs that stopped through their stop rule with the large budget, on quadratics, unconstrained or with a box that no evaluation came within 1e-5 of ('without active constraints' resolved towards the code); box-touching runs that end beyond the bound are counted under diag:bound-touched-and-stopped-far");
  R.note("the starting point of the interval-based 1-D optimisers is the parameter value handed to init(); the initial interval is (s, s+0.01) or (s-1, s+1) (outward bracketing) and (-4,4) or (s-5,s+5) (inward scan)");
  R.note("convergence of the meta-optimiser compositions and of the backtracking line search along a non-Newton direction is not judged (no bound derived); they are judged on descent, value consistency, budget and feasibility");
  R.note("a downhill-simplex convergence failure is classified by cause from the optimiser's state: 'stop-rule-not-satisfied-by-final-simplex' when the spread of the vertex values at the stop is not below the tolerance (stale vertex indices in the stop test), 'stopped-far-from-minimiser' when it is (the spread criterion itself is met by a simplex straddling the minimiser)");
  return R.finish();
}
