// C14_model.hpp — reference multigraph, private-state dumps / invariants of GlobalGraph, and the graph-level query audit.
#pragma once
#include "vf.hpp"
#include "C14_probe.hpp"
#include <Bpp/Graph/GlobalGraph.h>
#include <Bpp/Exceptions.h>

namespace c14 {
using bpp::GlobalGraph;
typedef unsigned U;
using vf::str;

inline std::string line1(const std::string& w) { return w.substr(0, w.find('\n')); }   // bpp::Exception::what() carries a stack trace
template<class T> std::vector<T> sorted(std::vector<T> v) { std::sort(v.begin(), v.end()); return v; }
template<class T> std::string ls(std::vector<T> v) { return vf::vstr(sorted(v)); }

// ------------------------------------------------------------------------------------------------------------
// reference: node-id set + edge multiset (id -> (top,bottom)) + directedness + id counters + root
struct GModel {
  bool directed = false; U nextN = 0, nextE = 0, root = 0;
  std::set<U> nodes;
  std::map<U, std::pair<U, U>> edges;
  bool hasN(U n) const { return nodes.count(n) != 0; }
  bool hasE(U e) const { return edges.count(e) != 0; }
  // edges listed by n in its "outgoing" view (undirected: every incident edge), resp. "incoming" view
  std::vector<U> outE(U n) const { std::vector<U> r; for (auto& e : edges) if (e.second.first == n || (!directed && e.second.second == n)) r.push_back(e.first); return r; }
  std::vector<U> inE(U n) const { std::vector<U> r; for (auto& e : edges) if (e.second.second == n || (!directed && e.second.first == n)) r.push_back(e.first); return r; }
  std::vector<U> incE(U n) const { std::vector<U> r; for (auto& e : edges) if (e.second.first == n || e.second.second == n) r.push_back(e.first); return r; }
  U other(U e, U n) const { auto& p = edges.at(e); return p.first == n ? p.second : p.first; }
  std::vector<U> ends(const std::vector<U>& es, U n) const { std::vector<U> r; for (U e : es) r.push_back(other(e, n)); return r; }
  // edges that "link a to b" (directed: a->b; undirected: either way)
  std::vector<U> fromTo(U a, U b) const { std::vector<U> r; for (auto& e : edges) if ((e.second.first == a && e.second.second == b) || (!directed && e.second.first == b && e.second.second == a)) r.push_back(e.first); return r; }
  bool reciprocal() const { for (auto& e : edges) for (auto& f : edges) if (e.first < f.first) { auto& p = e.second; auto& q = f.second; if ((p.first == q.second && p.second == q.first) || (p.first == q.first && p.second == q.second)) return true; } return false; }
  size_t distinctNeighbours(U n) const { std::set<U> s; for (U e : incE(n)) s.insert(other(e, n)); return s.size(); }
  std::string proj() const {
    std::string r = std::string("dir=") + (directed ? "1" : "0") + " hiN=" + str(nextN) + " hiE=" + str(nextE) + " root=" + str(root) + " nodes={";
    for (U n : nodes) r += str(n) + ",";
    r += "} edges={";
    for (auto& e : edges) r += str(e.first) + ":" + str(e.second.first) + ">" + str(e.second.second) + ";";
    return r + "}";
  }
  U newNode() { U n = nextN++; nodes.insert(n); return n; }
  U newEdge(U a, U b) { U e = nextE++; edges[e] = {a, b}; return e; }
  std::vector<U> removeNode(U n) { std::vector<U> gone = incE(n); for (U e : gone) edges.erase(e); nodes.erase(n); return gone; }
};

// ------------------------------------------------------------------------------------------------------------
// implementation: same projection read from the private fields, full dump, and cross-view invariants
inline std::string gproj(const GlobalGraph& g) {
  std::string r = std::string("dir=") + (g.directed_ ? "1" : "0") + " hiN=" + str(g.highestNodeID_) + " hiE=" + str(g.highestEdgeID_) + " root=" + str(g.root_) + " nodes={";
  for (auto& n : g.nodeStructure_) r += str(n.first) + ",";
  r += "} edges={";
  for (auto& e : g.edgeStructure_) r += str(e.first) + ":" + str(e.second.first) + ">" + str(e.second.second) + ";";
  return r + "}";
}
// every private field; observer addresses are named by the caller
inline std::string gdump(const GlobalGraph& g, const std::function<std::string(const void*)>& nameOf) {
  std::string r = gproj(g) + " observers={";
  std::vector<std::string> on; for (auto* p : g.observers_) on.push_back(nameOf((const void*)p));
  std::sort(on.begin(), on.end()); for (auto& s : on) r += s + ",";
  r += "} table={";
  for (auto& n : g.nodeStructure_) {
    r += str(n.first) + ":out(";
    for (auto& x : n.second.first) r += str(x.first) + "/" + str(x.second) + ",";
    r += ")in(";
    for (auto& x : n.second.second) r += str(x.first) + "/" + str(x.second) + ",";
    r += ");";
  }
  return r + "}";
}
// "" when the three views agree, else "clause: detail" (clause goes into the signature)
inline std::string ginvariant(const GlobalGraph& g) {
  bool d = g.directed_;
  auto& NS = g.nodeStructure_; auto& ES = g.edgeStructure_;
  for (auto& e : ES) {
    U id = e.first, t = e.second.first, b = e.second.second;
    std::string es = "edge " + str(id) + "=(" + str(t) + "," + str(b) + ")";
    auto ti = NS.find(t), bi = NS.find(b);
    if (ti == NS.end() || bi == NS.end()) return "edge-with-absent-end-point: " + es;
    auto f = ti->second.first.find(b);
    if (f == ti->second.first.end() || f->second != id) return "edge-not-listed-by-its-end-points: " + es + " is not in the outgoing map of " + str(t);
    auto r = bi->second.second.find(t);
    if (r == bi->second.second.end() || r->second != id) return "edge-not-listed-by-its-end-points: " + es + " is not in the incoming map of " + str(b);
    if (!d) {
      auto f2 = bi->second.first.find(t);
      if (f2 == bi->second.first.end() || f2->second != id) return "edge-not-listed-by-its-end-points: " + es + " is not in the outgoing map of " + str(b) + " (undirected)";
      auto r2 = ti->second.second.find(b);
      if (r2 == ti->second.second.end() || r2->second != id) return "edge-not-listed-by-its-end-points: " + es + " is not in the incoming map of " + str(t) + " (undirected)";
    }
  }
  for (auto& n : NS) for (int w = 0; w < 2; ++w) {
    const std::map<U, U>& mp = w == 0 ? n.second.first : n.second.second;
    for (auto& x : mp) {
      std::string ns = "node " + str(n.first) + (w == 0 ? " outgoing " : " incoming ") + str(x.first) + "/edge " + str(x.second);
      auto ei = ES.find(x.second);
      if (ei == ES.end()) return "node-lists-edge-missing-from-edge-table: " + ns;
      if (!NS.count(x.first)) return "node-lists-absent-neighbour: " + ns;
      U t = ei->second.first, b = ei->second.second;
      U from = w == 0 ? n.first : x.first, to = w == 0 ? x.first : n.first;
      bool ok = d ? (t == from && b == to) : ((t == from && b == to) || (t == to && b == from));
      if (!ok) return "node-table-direction-disagrees-with-edge-table: " + ns + " but edge table says (" + str(t) + "," + str(b) + ")";
    }
  }
  if (!NS.empty() && NS.rbegin()->first >= g.highestNodeID_) return "node-id-counter-not-above-live-ids: hiN=" + str(g.highestNodeID_);
  if (!ES.empty() && ES.rbegin()->first >= g.highestEdgeID_) return "edge-id-counter-not-above-live-ids: hiE=" + str(g.highestEdgeID_);
  return "";
}

// ------------------------------------------------------------------------------------------------------------
// query audit helpers. Signatures: <part>|query|<name>[|<class>]
struct Q {
  Sink& s; std::string part, ctx;
  void bad(const std::string& name, const std::string& cls, const std::string& d) { s.fail(part + "|query|" + name + (cls.empty() ? "" : "|" + cls), ctx + ": " + name + " " + d, false); }
};
template<class T, class F> void qList(Q& q, const std::string& name, const std::string& arg, F f, const std::vector<T>& want) {
  try { std::vector<T> got = f(); if (sorted(got) != sorted(want)) q.bad(name, "", arg + " returned " + ls(got) + ", reference " + ls(want)); }
  catch (bpp::Exception& e) { q.bad(name, "raised-unexpectedly", arg + " raised bpp::Exception '" + line1(e.what()) + "', reference " + ls(want)); }
  catch (std::exception& e) { q.bad(name, "raised-unexpectedly", arg + " raised " + typeid(e).name() + " '" + line1(e.what()) + "', reference " + ls(want)); }
}
template<class T, class F> void qVal(Q& q, const std::string& name, const std::string& arg, F f, const T& want) {
  try { T got = f(); if (!(got == want)) q.bad(name, "", arg + " returned " + str(got) + ", reference " + str(want)); }
  catch (bpp::Exception& e) { q.bad(name, "raised-unexpectedly", arg + " raised bpp::Exception '" + line1(e.what()) + "', reference " + str(want)); }
  catch (std::exception& e) { q.bad(name, "raised-unexpectedly", arg + " raised " + typeid(e).name() + " '" + line1(e.what()) + "', reference " + str(want)); }
}
// value must be one of several (e.g. getAnyEdge with reciprocal edges)
template<class T, class F> void qOneOf(Q& q, const std::string& name, const std::string& arg, F f, const std::vector<T>& want) {
  try { T got = f(); if (std::find(want.begin(), want.end(), got) == want.end()) q.bad(name, "", arg + " returned " + str(got) + ", reference one of " + ls(want)); }
  catch (bpp::Exception& e) { q.bad(name, "raised-unexpectedly", arg + " raised bpp::Exception '" + line1(e.what()) + "', reference one of " + ls(want)); }
  catch (std::exception& e) { q.bad(name, "raised-unexpectedly", arg + " raised " + typeid(e).name() + " '" + line1(e.what()) + "'"); }
}
template<class F> void qRaise(Q& q, const std::string& name, const std::string& arg, F f) {
  try { f(); q.bad(name, "must-raise-but-returned", arg + " returned although the argument is absent"); }
  catch (bpp::Exception&) { q.s.tag("query-raised-bpp"); }
  catch (std::exception& e) { q.bad(name, "raised-non-bpp-exception", arg + " raised " + typeid(e).name() + " '" + line1(e.what()) + "' instead of a bpp::Exception"); }
}
template<class It> std::vector<U> drainIds(It& it, bool& runaway) {
  std::vector<U> v; int guard = 0; runaway = false;
  for (; !it->end(); it->next()) { v.push_back(**it); if (++guard > 1000) { runaway = true; break; } }
  return v;
}
// iterator = list query (multiset), also after start()
template<class F> void qIter(Q& q, const std::string& name, const std::string& arg, F make, const std::vector<U>& want) {
  try {
    auto it = make(); bool run = false;
    std::vector<U> a = drainIds(it, run);
    if (run) { q.bad(name, "", arg + " did not reach end() within 1000 steps"); return; }
    if (sorted(a) != sorted(want)) { q.bad(name, "", arg + " enumerated " + ls(a) + ", reference " + ls(want)); return; }
    it->start(); std::vector<U> b = drainIds(it, run);
    if (run || sorted(b) != sorted(want)) q.bad(name, "", arg + " after start() enumerated " + ls(b) + ", reference " + ls(want));
  }
  catch (bpp::Exception& e) { q.bad(name, "raised-unexpectedly", arg + " raised bpp::Exception '" + line1(e.what()) + "'"); }
  catch (std::exception& e) { q.bad(name, "raised-unexpectedly", arg + " raised " + typeid(e).name() + " '" + line1(e.what()) + "'"); }
}

// every graph-level query and iterator against the reference
inline void auditGraphQueries(GlobalGraph& g, const GModel& m, Q& q) {
  const GlobalGraph& cg = g;
  qVal<bool>(q, "isDirected", "()", [&] { return cg.isDirected(); }, m.directed);
  qVal<U>(q, "getRoot", "()", [&] { return cg.getRoot(); }, m.root);
  qVal<size_t>(q, "getNumberOfNodes", "()", [&] { return cg.getNumberOfNodes(); }, m.nodes.size());
  qVal<size_t>(q, "getNumberOfEdges", "()", [&] { return cg.getNumberOfEdges(); }, m.edges.size());
  std::vector<U> allN(m.nodes.begin(), m.nodes.end()), allE, leaves;
  for (auto& e : m.edges) allE.push_back(e.first);
  for (U n : allN) if (m.distinctNeighbours(n) <= 1) leaves.push_back(n);
  qList<U>(q, "getAllNodes", "()", [&] { return cg.getAllNodes(); }, allN);
  qList<U>(q, "getAllEdges", "()", [&] { return cg.getAllEdges(); }, allE);
  qList<U>(q, "getAllLeaves", "()", [&] { return cg.getAllLeaves(); }, leaves);
  qList<U>(q, "getSetOfAllLeaves", "()", [&] { auto s = cg.getSetOfAllLeaves(); return std::vector<U>(s.begin(), s.end()); }, leaves);
  qIter(q, "allNodesIterator", "()", [&] { return g.allNodesIterator(); }, allN);
  qIter(q, "allNodesIterator const", "()", [&] { return cg.allNodesIterator(); }, allN);
  qIter(q, "allEdgesIterator", "()", [&] { return g.allEdgesIterator(); }, allE);
  qIter(q, "allEdgesIterator const", "()", [&] { return cg.allEdgesIterator(); }, allE);
  if (m.directed) qVal<bool>(q, "containsReciprocalRelations", "()", [&] { return cg.containsReciprocalRelations(); }, m.reciprocal());
  else qRaise(q, "containsReciprocalRelations", "() on an undirected graph", [&] { cg.containsReciprocalRelations(); });
  for (U n : allN) {
    std::string a = "(" + str(n) + ")";
    std::vector<U> oe = m.outE(n), ie = m.inE(n), ce = m.incE(n);
    std::vector<U> on = m.ends(oe, n), in = m.ends(ie, n), cn = m.ends(ce, n);
    qList<U>(q, "getOutgoingNeighbors", a, [&] { return cg.getOutgoingNeighbors(n); }, on);
    qList<U>(q, "getIncomingNeighbors", a, [&] { return cg.getIncomingNeighbors(n); }, in);
    qList<U>(q, "getNeighbors", a, [&] { return cg.getNeighbors(n); }, cn);
    qList<U>(q, "getOutgoingEdges", a, [&] { return cg.getOutgoingEdges(n); }, oe);
    qList<U>(q, "getIncomingEdges", a, [&] { return cg.getIncomingEdges(n); }, ie);
    qList<U>(q, "getEdges", a, [&] { return cg.getEdges(n); }, ce);
    qVal<size_t>(q, "getDegree", a, [&] { return cg.getDegree(n); }, ce.size());
    qVal<size_t>(q, "getNumberOfNeighbors", a, [&] { return cg.getNumberOfNeighbors(n); }, cn.size());
    qVal<size_t>(q, "getNumberOfOutgoingNeighbors", a, [&] { return cg.getNumberOfOutgoingNeighbors(n); }, on.size());
    qVal<size_t>(q, "getNumberOfIncomingNeighbors", a, [&] { return cg.getNumberOfIncomingNeighbors(n); }, in.size());
    qVal<bool>(q, "isLeaf", a, [&] { return cg.isLeaf(n); }, m.distinctNeighbours(n) <= 1);
    qIter(q, "outgoingNeighborNodesIterator", a, [&] { return g.outgoingNeighborNodesIterator(n); }, on);
    qIter(q, "outgoingNeighborNodesIterator const", a, [&] { return cg.outgoingNeighborNodesIterator(n); }, on);
    qIter(q, "incomingNeighborNodesIterator", a, [&] { return g.incomingNeighborNodesIterator(n); }, in);
    qIter(q, "incomingNeighborNodesIterator const", a, [&] { return cg.incomingNeighborNodesIterator(n); }, in);
    qIter(q, "outgoingEdgesIterator", a, [&] { return g.outgoingEdgesIterator(n); }, oe);
    qIter(q, "outgoingEdgesIterator const", a, [&] { return cg.outgoingEdgesIterator(n); }, oe);
    qIter(q, "incomingEdgesIterator", a, [&] { return g.incomingEdgesIterator(n); }, ie);
    qIter(q, "incomingEdgesIterator const", a, [&] { return cg.incomingEdgesIterator(n); }, ie);
    for (U b : allN) if (b != n) {
      std::string ab = "(" + str(n) + "," + str(b) + ")";
      std::vector<U> ft = m.fromTo(n, b), any = ft; for (U e : m.fromTo(b, n)) any.push_back(e);
      if (ft.empty()) qRaise(q, "getEdge", ab + " (no such edge)", [&] { cg.getEdge(n, b); });
      else qOneOf<U>(q, "getEdge", ab, [&] { return cg.getEdge(n, b); }, ft);
      if (any.empty()) qRaise(q, "getAnyEdge", ab + " (no such edge)", [&] { cg.getAnyEdge(n, b); });
      else qOneOf<U>(q, "getAnyEdge", ab, [&] { return cg.getAnyEdge(n, b); }, any);
    }
  }
  for (auto& e : m.edges) {
    std::string a = "(" + str(e.first) + ")"; U id = e.first;
    std::pair<U, U> w = e.second;
    try { auto p = cg.getNodes(id); if (p != w) q.bad("getNodes", "", a + " returned (" + str(p.first) + "," + str(p.second) + "), reference (" + str(w.first) + "," + str(w.second) + ")"); }
    catch (std::exception& x) { q.bad("getNodes", "raised-unexpectedly", a + " raised '" + line1(x.what()) + "'"); }
    qVal<U>(q, "getTop", a, [&] { return cg.getTop(id); }, w.first);
    qVal<U>(q, "getBottom", a, [&] { return cg.getBottom(id); }, w.second);
  }
  // absent arguments: one deleted id if any, else the never-used next id. List queries must raise. (Iterator factories on an
  // absent node are exercised by a dedicated operation, because they have no defined behaviour to fall back on.)
  // (a deleted id and a never-created id take the same path through the std::map tables: one of them per state)
  std::vector<U> absentN; for (U n = 0; n < m.nextN; ++n) if (!m.hasN(n)) { absentN.push_back(n); break; } if (absentN.empty()) absentN.push_back(m.nextN);
  for (U n : absentN) {
    std::string a = "(" + str(n) + " absent)";
    qRaise(q, "getOutgoingNeighbors", a, [&] { cg.getOutgoingNeighbors(n); });
    qRaise(q, "getIncomingNeighbors", a, [&] { cg.getIncomingNeighbors(n); });
    qRaise(q, "getNeighbors", a, [&] { cg.getNeighbors(n); });
    qRaise(q, "getOutgoingEdges", a, [&] { cg.getOutgoingEdges(n); });
    qRaise(q, "getIncomingEdges", a, [&] { cg.getIncomingEdges(n); });
    qRaise(q, "getEdges", a, [&] { cg.getEdges(n); });
    qRaise(q, "getDegree", a, [&] { cg.getDegree(n); });
    qRaise(q, "isLeaf", a, [&] { cg.isLeaf(n); });
    qRaise(q, "getNumberOfNeighbors", a, [&] { cg.getNumberOfNeighbors(n); });
    qRaise(q, "getNumberOfOutgoingNeighbors", a, [&] { cg.getNumberOfOutgoingNeighbors(n); });
    qRaise(q, "getNumberOfIncomingNeighbors", a, [&] { cg.getNumberOfIncomingNeighbors(n); });
    if (!allN.empty()) { U l = allN[0];
      qRaise(q, "getEdge", "(" + str(n) + " absent," + str(l) + ")", [&] { cg.getEdge(n, l); });
      qRaise(q, "getEdge", "(" + str(l) + "," + str(n) + " absent)", [&] { cg.getEdge(l, n); });
      qRaise(q, "getAnyEdge", "(" + str(n) + " absent," + str(l) + ")", [&] { cg.getAnyEdge(n, l); }); }
  }
  std::vector<U> absentE; for (U e = 0; e < m.nextE; ++e) if (!m.hasE(e)) { absentE.push_back(e); break; } if (absentE.empty()) absentE.push_back(m.nextE);
  for (U e : absentE) {
    std::string a = "(" + str(e) + " absent)";
    qRaise(q, "getNodes", a, [&] { cg.getNodes(e); });
    qRaise(q, "getTop", a, [&] { cg.getTop(e); });
    qRaise(q, "getBottom", a, [&] { cg.getBottom(e); });
  }
}

// after makeDirected the orientation of each edge is documented as arbitrary: take it from the implementation's node table
// (the edge table must then agree with it — that is what the invariant check demands)
inline void adoptOrientation(GModel& m, const GlobalGraph& g) {
  for (auto& e : m.edges) {
    U t = e.second.first, b = e.second.second;
    auto ti = g.nodeStructure_.find(t), bi = g.nodeStructure_.find(b);
    if (ti == g.nodeStructure_.end() || bi == g.nodeStructure_.end()) continue;
    auto f = ti->second.first.find(b); bool fwd = f != ti->second.first.end() && f->second == e.first;
    auto r = bi->second.first.find(t); bool bwd = r != bi->second.first.end() && r->second == e.first;
    if (!fwd && bwd) e.second = {b, t};
  }
}

enum Expect { MUST_OK, MUST_RAISE, MAY_RAISE };
enum Outcome { RETURNED, RAISED_BPP, RAISED_FOREIGN };
inline const char* expName(Expect e) { return e == MUST_OK ? "exp:must-succeed" : e == MUST_RAISE ? "exp:must-raise" : "exp:may-raise"; }

}  // namespace c14
