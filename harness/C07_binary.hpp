// C07 helper: checks of the two- and three-vector functions. Every crash-prone function lives in its own group so that one abort
// does not hide the verdicts on the other functions for the same input.
#pragma once
#include "C07_ref.hpp"

namespace c07 {
enum { G_OPS = 0, G_INPLACE, G_SUMPROD, G_MOMENTS, G_CONTAINSALL, G_DIFF, G_SETS, NGROUPS };
static inline const char* gname(int g) { static const char* n[] = {"operators", "in-place operators", "sumProd", "scalar/cos/cov/cor/kronecker/mi", "containsAll", "diff", "set-like"}; return n[g]; }

template<class T> static std::set<T> toSet(const std::vector<T>& v) { return std::set<T>(v.begin(), v.end()); }

template<class T> static void pairChecks(int g, const std::vector<T>& v1, const std::vector<T>& v2, vf::Case& c) {
  const size_t n1 = v1.size(), n2 = v2.size(), n = n1;
  const bool eq = n1 == n2, isInt = Alpha<T>::isInt;
  auto in = [&] { return std::string(Alpha<T>::n()) + " v1=" + vf::vstr(v1) + " v2=" + vf::vstr(v2); };
  if (c.verbose) c.note(std::string("group ") + gname(g) + ", input " + in());
  // a size mismatch must be answered by DimensionException
  auto mismatch = [&](const char* fn, Ex e) {
    if (e != DIM) c.fail(std::string(fn) + "|size-mismatch-not-reported", in() + ": " + exname(e) + ", expected DimensionException");
    else c.tag("raised-DimensionException");
  };
  bool zero2 = false; for (auto x : v2) if (x == 0) zero2 = true;

  switch (g) {
  case G_OPS: {
    for (int op = 0; op < 4; ++op) {
      static const char* nm[] = {"operator+(v,v)", "operator-(v,v)", "operator*(v,v)", "operator/(v,v)"};
      if (op == 3 && isInt && zero2 && eq) continue;        // integer division by zero: outside every definition
      std::vector<T> r, e_;
      c.site(nm[op]);
      Ex e = guard<T>([&] { switch (op) { case 0: r = v1 + v2; break; case 1: r = v1 - v2; break; case 2: r = v1 * v2; break; default: r = v1 / v2; } });
      if (!eq) { mismatch(nm[op], e); continue; }
      e_.resize(n);
      for (size_t i = 0; i < n; ++i) switch (op) { case 0: e_[i] = v1[i] + v2[i]; break; case 1: e_[i] = v1[i] - v2[i]; break; case 2: e_[i] = v1[i] * v2[i]; break; default: e_[i] = v1[i] / v2[i]; }
      if (e != NONE || !sameVec(r, e_)) c.fail(std::string(nm[op]) + "|value", in() + ": got " + vf::vstr(r) + " / " + exname(e));
    }
    c.site("VectorTools::kroneckerMult");
    { auto r = VT::kroneckerMult(v1, v2); bool ok = r.size() == n1 * n2; for (size_t i = 0; ok && i < n1; ++i) for (size_t j = 0; ok && j < n2; ++j) ok = same<T>(r[i * n2 + j], v1[i] * v2[j]);
      if (!ok) c.fail("kroneckerMult|value", in() + ": got " + vf::vstr(r)); }
    break; }
  case G_INPLACE: {
    if (!eq) { c.tag("in-place:unequal-lengths-judged-in-shape-space"); break; }
    for (int op = 0; op < 4; ++op) {
      static const char* nm[] = {"operator+=(v,v)", "operator-=(v,v)", "operator*=(v,v)", "operator/=(v,v)"};
      if (op == 3 && isInt && zero2) continue;
      std::vector<T> r(v1), e_(n);
      c.site(nm[op]);
      switch (op) { case 0: r += v2; break; case 1: r -= v2; break; case 2: r *= v2; break; default: r /= v2; }
      for (size_t i = 0; i < n; ++i) switch (op) { case 0: e_[i] = v1[i] + v2[i]; break; case 1: e_[i] = v1[i] - v2[i]; break; case 2: e_[i] = v1[i] * v2[i]; break; default: e_[i] = v1[i] / v2[i]; }
      if (!sameVec(r, e_)) c.fail(std::string(nm[op]) + "|value", in() + ": got " + vf::vstr(r));
    }
    break; }
  case G_SUMPROD: {
    c.site("VectorTools::sumProd");
    T r = 0; Ex e = guard<T>([&] { r = VT::sumProd(v1, v2); });
    if (!eq) { mismatch("sumProd", e); break; }
    LD s = 0, mag = 0; for (size_t i = 0; i < n; ++i) { s += (LD)v1[i] * (LD)v2[i]; mag += fabsl((LD)v1[i] * (LD)v2[i]); }
    if (n == 0) {   // empty sum: 0, or the empty-vector exception
      if (e == EMPTY) c.tag("sumProd-empty:exception"); else if (e == NONE && r == 0) c.tag("sumProd-empty:returns-0");
      else c.fail("sumProd|empty", in() + ": got " + vf::str(r) + " / " + exname(e));
    } else if (e != NONE || fabsl((LD)r - s) > (isInt ? 0 : sumTol(n, mag))) c.fail("sumProd|value", in() + ": got " + vf::str(r) + " expected " + ld(s));
    break; }
  case G_MOMENTS: {
    double r = 0; Ex e;
    c.site("VectorTools::scalar");
    e = guard<T>([&] { r = VT::scalar<T, double>(v1, v2); });
    LD s = 0, mag = 0, q1 = 0, q2 = 0;
    if (!eq) mismatch("scalar", e);
    else { for (size_t i = 0; i < n; ++i) { s += (LD)v1[i] * (LD)v2[i]; mag += fabsl((LD)v1[i] * (LD)v2[i]); q1 += (LD)v1[i] * (LD)v1[i]; q2 += (LD)v2[i] * (LD)v2[i]; }
      if (e != NONE || !closeTo(r, s, sumTol(n, mag))) c.fail("scalar|value", in() + ": got " + vf::num(r) + " expected " + ld(s)); }
    c.site("VectorTools::cos");
    e = guard<T>([&] { r = VT::cos<T, double>(v1, v2); });
    if (!eq) mismatch("cos", e);
    else if (q1 > 0 && q2 > 0) { LD d = sqrtl(q1) * sqrtl(q2), ref = s / d;
      // numerator error sumTol(n,mag); the two norms and their product: relative (n+4) eps each way
      if (e != NONE || !closeTo(r, ref, sumTol(n, mag) / d + fabsl(ref) * sumTol(n, 1))) c.fail("cos|value", in() + ": got " + vf::num(r) + " expected " + ld(ref)); }
    else c.tag("cos-undefined(zero norm):not-judged");
    Cov cv[2], va, vb;
    for (int ub = 0; ub < 2 && Mo<T>::has(); ++ub) {
      c.site("VectorTools::cov");
      e = guard<T>([&] { r = Mo<T>::cov(v1, v2, ub != 0); });
      if (!eq) { mismatch("cov", e); continue; }
      cv[ub] = rcov(v1, v2, uniformW(n), ub != 0, n > 1 ? (LD)(n - 1) / (LD)n : 0);
      if (!cv[ub].defined) { c.tag("cov-undefined(n<2):not-judged"); continue; }
      if (e != NONE || !closeTo(r, cv[ub].value, cv[ub].tol)) c.fail(std::string("cov|value|") + (ub ? "unbiased" : "biased"), in() + ": got " + vf::num(r) + " expected " + ld(cv[ub].value));
    }
    c.site("VectorTools::cor");
    if (Mo<T>::has()) e = guard<T>([&] { r = Mo<T>::cor(v1, v2); });
    if (!Mo<T>::has()) {}
    else if (!eq) mismatch("cor", e);
    else {
      LD D = n > 1 ? (LD)(n - 1) / (LD)n : 0;
      va = rcov(v1, v1, uniformW(n), true, D); vb = rcov(v2, v2, uniformW(n), true, D);
      if (cv[1].defined && va.defined && vb.defined && va.value > 4 * va.tol && vb.value > 4 * vb.tol) {
        LD d = sqrtl(va.value * vb.value), ref = cv[1].value / d;
        LD tol = cv[1].tol / d + fabsl(ref) * (va.tol / va.value + vb.tol / vb.value + 16 * EPS);   // first-order propagation through x/sqrt(a b)
        if (e != NONE || !closeTo(r, ref, 2 * tol)) c.fail("cor|value", in() + ": got " + vf::num(r) + " expected " + ld(ref));
        else if (fabsl(ref) > 1 - 1e-9L) c.tag("cor=+-1");
      } else c.tag("cor-undefined(zero variance):not-judged");
    }
    for (int b = 0; b < 2; ++b) {
      const double base = b ? 2.0 : 2.7182818;
      c.site("VectorTools::miDiscrete");
      e = guard<T>([&] { r = b ? VT::miDiscrete<T, double>(v1, v2, base) : VT::miDiscrete<T, double>(v1, v2); });
      if (!eq) { mismatch("miDiscrete", e); continue; }
      std::map<T, LD> c1, c2; std::map<std::pair<T, T>, LD> c12;
      for (size_t i = 0; i < n; ++i) { c1[v1[i]] += 1; c2[v2[i]] += 1; c12[std::make_pair(v1[i], v2[i])] += 1; }
      LD mi = 0, mg = 0; for (auto& kv : c12) { LD t = (kv.second / (LD)n) * logl(kv.second * (LD)n / (c1[kv.first.first] * c2[kv.first.second])) / logl((LD)base); mi += t; mg += fabsl(t); }
      if (e != NONE || !closeTo(r, mi, sumTol(n, mg) + 8 * EPS)) c.fail("miDiscrete|value", in() + " base=" + vf::num(base) + ": got " + vf::num(r) + " expected " + ld(mi));
    }
    break; }
  case G_CONTAINSALL: {
    std::vector<T> a(v1), b(v2); std::set<T> s1 = toSet(v1); bool want = true; for (auto x : v2) if (!s1.count(x)) want = false;
    c.site("VectorTools::containsAll");
    bool r = false; Ex e = guard<T>([&] { r = VT::containsAll(a, b); });
    if (e != NONE || r != want) c.fail("containsAll|value", in() + ": got " + vf::str(r) + " / " + exname(e) + " expected " + vf::str(want));
    break; }
  case G_DIFF: {
    std::vector<T> a(v1), b(v2), d; std::set<T> s2 = toSet(v2), want; for (auto x : v1) if (!s2.count(x)) want.insert(x);
    c.site("VectorTools::diff");
    Ex e = guard<T>([&] { VT::diff(a, b, d); });
    if (e != NONE || toSet(d) != want) c.fail("diff|elements", in() + ": got " + vf::vstr(d) + " / " + exname(e));
    else { for (size_t i = 0; i + 1 < d.size(); ++i) if (d[i + 1] < d[i]) { c.fail("diff|output-not-sorted", in() + ": got " + vf::vstr(d)); break; } }
    break; }
  case G_SETS: {
    std::set<T> s1 = toSet(v1), s2 = toSet(v2);
    std::vector<T> a1(v1), a2(v2); std::sort(a1.begin(), a1.end()); std::sort(a2.begin(), a2.end());
    c.site("VectorTools::haveSameElements");
    { const std::vector<T>& k1 = v1; const std::vector<T>& k2 = v2; bool r = VT::haveSameElements(k1, k2); if (r != (a1 == a2)) c.fail("haveSameElements(const)|value", in() + ": got " + vf::str(r)); }
    { std::vector<T> m1(v1), m2(v2); bool r = VT::haveSameElements(m1, m2); if (r != (a1 == a2)) c.fail("haveSameElements(sorting)|value", in() + ": got " + vf::str(r)); }
    c.site("VectorTools::vectorUnion");
    { auto r = VT::vectorUnion(v1, v2); std::set<T> u(s1); u.insert(s2.begin(), s2.end());
      if (toSet(r) != u) c.fail("vectorUnion|elements", in() + ": got " + vf::vstr(r));
      else if (r.size() != u.size()) c.fail("vectorUnion|duplicates-not-removed", in() + ": got " + vf::vstr(r) + " (header: 'Duplicate element will be removed')"); }
    c.site("VectorTools::vectorIntersection");
    { auto r = VT::vectorIntersection(v1, v2); std::vector<T> w; for (auto x : v1) if (s2.count(x)) w.push_back(x);
      // header: elements in the order of the first vector
      if (r != w) c.fail("vectorIntersection|value", in() + ": got " + vf::vstr(r) + " expected " + vf::vstr(w));
      std::vector<long> l2(v2.begin(), v2.end()); bool integral = true; for (auto x : v1) if ((T)(long)x != x) integral = false; for (auto x : v2) if ((T)(long)x != x) integral = false;
      if (integral) { auto r2 = VT::vectorIntersection(v1, l2); if (r2 != w) c.fail("vectorIntersection<T,U>|value", in() + ": got " + vf::vstr(r2)); } }
    { std::vector<T> r(v1), w(v1); w.insert(w.end(), v2.begin(), v2.end()); c.site("VectorTools::append"); VT::append(r, v2); if (r != w) c.fail("append(v,v)|value", in() + ": got " + vf::vstr(r)); }
    { std::vector<T> r(v1), w(v2); w.insert(w.end(), v1.begin(), v1.end()); c.site("VectorTools::prepend"); VT::prepend(r, v2); if (r != w) c.fail("prepend|value", in() + ": got " + vf::vstr(r)); }
    { std::vector<T> r(v1), w(v1); for (auto x : v2) if (std::find(w.begin(), w.end(), x) == w.end()) w.push_back(x);
      c.site("VectorTools::extend"); VT::extend(r, v2); if (r != w) c.fail("extend|value", in() + ": got " + vf::vstr(r) + " expected " + vf::vstr(w)); }
    break; }
  }
}

// ---------- weights: mean, center, var, sd, norm with a weight vector (double only: the int instantiation divides weights as ints) ----------
static inline void weightedChecks(const std::vector<double>& v, const std::vector<double>& w, vf::Case& c) {
  const size_t n = v.size(); const bool eq = n == w.size();
  auto in = [&] { return "v=" + vf::vstr(v) + " w=" + vf::vstr(w); };
  if (c.verbose) c.note("input " + in());
  auto mismatch = [&](const char* fn, Ex e) { if (e != DIM) c.fail(std::string(fn) + "|size-mismatch-not-reported", in() + ": " + exname(e) + ", expected DimensionException"); else c.tag("raised-DimensionException"); };
  LD sw = rsum(w);
  for (int norm = 1; norm >= 0; --norm) {
    // definition judged: weights normalised to one. With normalizeWeights=false only weight vectors that already sum to one are judged.
    bool judged = eq && sw > 0 && (norm || sw == 1);
    std::vector<LD> wn(w.size()); for (size_t i = 0; i < w.size(); ++i) wn[i] = sw > 0 ? (LD)w[i] / sw : 0;
    std::string cls = norm ? "normalised" : "as-given";
    double r = 0; Ex e;
    c.site("VectorTools::mean(v,w)");
    e = guard<double>([&] { r = VT::mean<double, double>(v, w, norm != 0); });
    LD m = 0, mag = 0;
    if (!eq) mismatch("mean(v,w)", e);
    else if (judged) { for (size_t i = 0; i < n; ++i) { m += wn[i] * (LD)v[i]; mag += wn[i] * fabsl((LD)v[i]); }
      if (e != NONE || !closeTo(r, m, sumTol(n, mag))) c.fail("mean(v,w)|value|" + cls, in() + ": got " + vf::num(r) + " expected " + ld(m)); }
    c.site("VectorTools::center(v,w)");
    std::vector<double> ce; e = guard<double>([&] { ce = VT::center<double, double>(v, w, norm != 0); });
    if (!eq) mismatch("center(v,w)", e);
    else if (judged) { bool ok = e == NONE && ce.size() == n; for (size_t i = 0; ok && i < n; ++i) ok = closeTo(ce[i], (LD)v[i] - m, sumTol(n, mag) + 4 * EPS * (fabsl((LD)v[i]) + fabsl(m)));
      if (!ok) c.fail("center(v,w)|value|" + cls, in() + ": got " + vf::vstr(ce)); }
    for (int ub = 0; ub < 2; ++ub) {
      double gs = 0; Ex e2;
      c.site("VectorTools::var(v,w)");
      e = guard<double>([&] { r = VT::var<double, double>(v, w, ub != 0, norm != 0); });
      c.site("VectorTools::sd(v,w)");
      e2 = guard<double>([&] { gs = VT::sd<double, double>(v, w, ub != 0, norm != 0); });
      if (!eq) { mismatch("var(v,w)", e); mismatch("sd(v,w)", e2); continue; }
      if (!judged) { c.tag("weighted-moment:not-judged(weights sum to 0 or unnormalised)"); continue; }
      LD D = 1; for (auto x : wn) D -= x * x;
      Cov rv = rcov(v, v, wn, ub != 0, D);
      if (!rv.defined) { c.tag("weighted-var-undefined:not-judged"); continue; }
      std::string cl2 = cls + (ub ? ",unbiased" : ",biased");
      if (e != NONE || !closeTo(r, rv.value, rv.tol)) c.fail("var(v,w)|value|" + cl2, in() + ": got " + vf::num(r) + " expected " + ld(rv.value));
      if (e2 != NONE || !(gs >= 0) || !closeTo((double)((LD)gs * (LD)gs), rv.value, 2 * rv.tol + 8 * EPS * fabsl(rv.value))) c.fail("sd(v,w)|value|" + cl2, in() + ": got " + vf::num(gs) + " expected sqrt " + ld(rv.value));
    }
  }
  c.site("VectorTools::norm(v,w)");
  { double r = 0; Ex e = guard<double>([&] { r = VT::norm<double, double>(v, w); });
    if (!eq) mismatch("norm(v,w)", e);
    else { LD q = 0; for (size_t i = 0; i < n; ++i) q += (LD)v[i] * (LD)v[i] * (LD)w[i]; LD rn = sqrtl(q);
      if (e != NONE || !closeTo(r, rn, sumTol(n, rn))) c.fail("norm(v,w)|value", in() + ": got " + vf::num(r) + " expected " + ld(rn)); } }
}

// ---------- three vectors of equal length: scalar, cos, cov, cor with weights ----------
static inline void tripleChecks(const std::vector<double>& a, const std::vector<double>& b, const std::vector<double>& w, vf::Case& c) {
  const size_t n = a.size();
  auto in = [&] { return "v1=" + vf::vstr(a) + " v2=" + vf::vstr(b) + " w=" + vf::vstr(w); };
  if (c.verbose) c.note("input " + in());
  double r = 0; Ex e;
  LD s = 0, mag = 0, q1 = 0, q2 = 0;
  for (size_t i = 0; i < n; ++i) { LD t = (LD)a[i] * (LD)b[i] * (LD)w[i]; s += t; mag += fabsl(t); q1 += (LD)a[i] * (LD)a[i] * (LD)w[i]; q2 += (LD)b[i] * (LD)b[i] * (LD)w[i]; }
  c.site("VectorTools::scalar(v,v,w)");
  e = guard<double>([&] { r = VT::scalar<double, double>(a, b, w); });
  if (e != NONE || !closeTo(r, s, sumTol(n, mag))) c.fail("scalar(v,v,w)|value", in() + ": got " + vf::num(r) + " expected " + ld(s));
  c.site("VectorTools::cos(v,v,w)");
  e = guard<double>([&] { r = VT::cos<double, double>(a, b, w); });
  if (q1 > 0 && q2 > 0) { LD d = sqrtl(q1) * sqrtl(q2), ref = s / d;
    if (e != NONE || !closeTo(r, ref, sumTol(n, mag) / d + fabsl(ref) * sumTol(n, 1))) c.fail("cos(v,v,w)|value", in() + ": got " + vf::num(r) + " expected " + ld(ref)); }
  else c.tag("cos-undefined(zero norm):not-judged");
  LD sw = rsum(w);
  if (!(sw > 0)) { c.tag("weighted-moment:not-judged(weights sum to 0 or unnormalised)"); return; }
  std::vector<LD> wn(n); LD D = 1; for (size_t i = 0; i < n; ++i) { wn[i] = (LD)w[i] / sw; D -= wn[i] * wn[i]; }
  for (int norm = 1; norm >= 0; --norm) {
    if (!norm && sw != 1) continue;
    std::string cls = norm ? "normalised" : "as-given";
    Cov cb; cb.defined = false;
    for (int ub = 0; ub < 2; ++ub) {
      c.site("VectorTools::cov(v,v,w)");
      e = guard<double>([&] { r = VT::cov<double, double>(a, b, w, ub != 0, norm != 0); });
      Cov rv = rcov(a, b, wn, ub != 0, D); if (!ub) cb = rv;
      if (!rv.defined) { c.tag("weighted-cov-undefined:not-judged"); continue; }
      if (e != NONE || !closeTo(r, rv.value, rv.tol)) c.fail("cov(v,v,w)|value|" + cls + (ub ? ",unbiased" : ",biased"), in() + ": got " + vf::num(r) + " expected " + ld(rv.value));
    }
    c.site("VectorTools::cor(v,v,w)");
    e = guard<double>([&] { r = VT::cor<double, double>(a, b, w, norm != 0); });
    Cov va = rcov(a, a, wn, false, D), vb = rcov(b, b, wn, false, D);
    if (cb.defined && va.value > 4 * va.tol && vb.value > 4 * vb.tol) {
      LD d = sqrtl(va.value * vb.value), ref = cb.value / d;
      LD tol = cb.tol / d + fabsl(ref) * (va.tol / va.value + vb.tol / vb.value + 16 * EPS);
      if (e != NONE || !closeTo(r, ref, 2 * tol)) c.fail("cor(v,v,w)|value|" + cls, in() + ": got " + vf::num(r) + " expected " + ld(ref));
    } else c.tag("cor-undefined(zero variance):not-judged");
  }
}
} // namespace c07
