// C14_obs.hpp — AssociationGraphImplObserver<N,E,GlobalGraph> against the reference (included inside C14.cpp's anonymous namespace)

struct NObj { int label; };
struct EObj { int label; };
typedef AssociationGraphImplObserver<NObj, EObj, GlobalGraph> Obs;
typedef std::shared_ptr<NObj> NR;
typedef std::shared_ptr<EObj> ER;

struct OModel {
  GModel g;
  std::map<int, U> nodeOf, edgeOf, nIdx, eIdx;   // object label -> graph id / index
  int objOfNode(U id) const { for (auto& kv : nodeOf) if (kv.second == id) return kv.first; return -1; }
  int objOfEdge(U id) const { for (auto& kv : edgeOf) if (kv.second == id) return kv.first; return -1; }
  int nodeAtIdx(U x) const { for (auto& kv : nIdx) if (kv.second == x) return kv.first; return -1; }
  int edgeAtIdx(U x) const { for (auto& kv : eIdx) if (kv.second == x) return kv.first; return -1; }
  void forgetEdge(U e) { int j = objOfEdge(e); if (j >= 0) { edgeOf.erase(j); eIdx.erase(j); } }
  void forgetNode(U n) { int i = objOfNode(n); if (i >= 0) { nodeOf.erase(i); nIdx.erase(i); } }
  void removeNode(U n) { for (U e : g.removeNode(n)) forgetEdge(e); forgetNode(n); }
  static std::string mp(const std::map<int, U>& m) { std::string r; for (auto& kv : m) r += str(kv.first) + ">" + str(kv.second) + ","; return r; }
  std::string proj() const { return g.proj() + " nodeOf{" + mp(nodeOf) + "} edgeOf{" + mp(edgeOf) + "} nIdx{" + mp(nIdx) + "} eIdx{" + mp(eIdx) + "}"; }
};

struct OSys : vf::SysBase {
  enum K { CREATE, CREATE_FROM, LINK, UNLINK, DELETE, SETROOT, COPY, G_MKDIR, G_MKUNDIR,
           ASSOCN, DISSN, ASSOCE, DISSE, SETNIDX, ADDNIDX, SETEIDX, ADDEIDX, G_CREATE, G_FROMNODE, G_DELETE, G_ONEDGE };
  struct Op { K k; int a, b, c; };
  bool dir0; int flavour, KN, KE, NN, EE, KI;
  std::vector<Op> ops; int depth = 0;
  std::vector<NR> N; std::vector<ER> E;
  std::unique_ptr<Obs> o; OModel m;

  // the observer layer has no mode-dependent code: its signatures carry no mode (the graph layer's do)
  std::string part() const { return "obs"; }
  std::string gpart() const { return m.g.directed ? "graph:dir" : "graph:undir"; }

  OSys(bool directed, int fl, int kn, int ke, int nn, int ee, int ki) : dir0(directed), flavour(fl), KN(kn), KE(ke), NN(nn), EE(ee), KI(ki) {
    for (int i = 0; i < KN; ++i) N.push_back(NR(new NObj{i}));   // allocated in label order
    for (int j = 0; j < KE; ++j) E.push_back(ER(new EObj{j}));
    o.reset(new Obs(directed));
    m.g.directed = directed;
    for (int i = 0; i < KN; ++i) ops.push_back({CREATE, i, 0, 0});
    for (int a = 0; a < KN; ++a) for (int b = 0; b < KN; ++b) if (a != b) for (int e = -1; e < KE; ++e) ops.push_back({CREATE_FROM, a, b, e});
    for (int a = 0; a < KN; ++a) for (int b = 0; b < KN; ++b) if (a != b) ops.push_back({UNLINK, a, b, 0});
    for (int i = 0; i < KN; ++i) ops.push_back({DELETE, i, 0, 0});
    ops.push_back({COPY, 0, 0, 0});
    // flavour 0 "topology": link / setRoot / direction changes on top of the common create/unlink/delete/copy alphabet
    // flavour 1 "association": associate / dissociate, and nodes and edges made directly on the subject graph (no object)
    // flavour 2 "index": explicit and allocated indices (dissociate included: it keeps the index, deletion must forget it)
    if (flavour == 0) {
      for (int a = 0; a < KN; ++a) for (int b = 0; b < KN; ++b) if (a != b) for (int e = -1; e < KE; ++e) ops.push_back({LINK, a, b, e});
      for (int i = 0; i < KN; ++i) ops.push_back({SETROOT, i, 0, 0});
      ops.push_back({G_MKDIR, 0, 0, 0}); ops.push_back({G_MKUNDIR, 0, 0, 0});
    }
    if (flavour == 1) {
      for (int i = 0; i < KN; ++i) for (int id = 0; id <= NN; ++id) ops.push_back({ASSOCN, i, id, 0});
      for (int j = 0; j < KE; ++j) for (int id = 0; id <= EE; ++id) ops.push_back({ASSOCE, j, id, 0});
      ops.push_back({G_CREATE, 0, 0, 0});
      for (int id = 0; id < NN; ++id) ops.push_back({G_FROMNODE, id, 0, 0});
      for (int id = 0; id < NN; ++id) ops.push_back({G_DELETE, id, 0, 0});
      for (int id = 0; id < EE; ++id) ops.push_back({G_ONEDGE, id, 0, 0});   // a node without object put on an edge, behind the observer's back
    }
    if (flavour == 1 || flavour == 2) {
      for (int i = 0; i < KN; ++i) ops.push_back({DISSN, i, 0, 0});
      for (int j = 0; j < KE; ++j) ops.push_back({DISSE, j, 0, 0});
    }
    if (flavour == 2) {
      for (int i = 0; i < KN; ++i) for (int x = 0; x < KI; ++x) ops.push_back({SETNIDX, i, x, 0});
      for (int i = 0; i < KN; ++i) ops.push_back({ADDNIDX, i, 0, 0});
      for (int j = 0; j < KE; ++j) for (int x = 0; x < KI; ++x) ops.push_back({SETEIDX, j, x, 0});
      for (int j = 0; j < KE; ++j) ops.push_back({ADDEIDX, j, 0, 0});
      // a node that holds an index deleted on the subject graph itself: the observer only hears of it through the notification
      for (int id = 0; id < NN; ++id) ops.push_back({G_DELETE, id, 0, 0});
    }
  }
  int nops() const { return (int)ops.size(); }
  static std::string nn(int i) { return "N" + str(i); }
  static std::string en(int j) { return j < 0 ? std::string("no-edge-object") : "E" + str(j); }
  std::string opname(int i) const {
    const Op& p = ops[i];
    switch (p.k) {
      case CREATE: return "createNode(" + nn(p.a) + ")";
      case CREATE_FROM: return "createNode(origin " + nn(p.a) + ", new " + nn(p.b) + ", " + en(p.c) + ")";
      case LINK: return "link(" + nn(p.a) + "," + nn(p.b) + "," + en(p.c) + ")";
      case UNLINK: return "unlink(" + nn(p.a) + "," + nn(p.b) + ")";
      case DELETE: return "deleteNode(" + nn(p.a) + ")";
      case SETROOT: return "setRoot(" + nn(p.a) + ")";
      case COPY: return "copy-construct and clone() the observer; check; destroy the copies";
      case G_MKDIR: return "getGraph()->makeDirected()"; case G_MKUNDIR: return "getGraph()->makeUndirected()";
      case ASSOCN: return "associateNode(" + nn(p.a) + ", id " + str(p.b) + ")"; case DISSN: return "dissociateNode(" + nn(p.a) + ")";
      case ASSOCE: return "associateEdge(" + en(p.a) + ", id " + str(p.b) + ")"; case DISSE: return "dissociateEdge(" + en(p.a) + ")";
      case SETNIDX: return "setNodeIndex(" + nn(p.a) + "," + str(p.b) + ")"; case ADDNIDX: return "addNodeIndex(" + nn(p.a) + ")";
      case SETEIDX: return "setEdgeIndex(" + en(p.a) + "," + str(p.b) + ")"; case ADDEIDX: return "addEdgeIndex(" + en(p.a) + ")";
      case G_CREATE: return "getGraph()->createNode()"; case G_FROMNODE: return "getGraph()->createNodeFromNode(" + str(p.a) + ")";
      case G_ONEDGE: return "getGraph()->createNodeOnEdge(edge " + str(p.a) + ")";
      default: return "getGraph()->deleteNode(" + str(p.a) + ")";
    }
  }
  bool hasN(int i) const { return m.nodeOf.count(i) != 0; }
  bool hasE(int j) const { return j >= 0 && m.edgeOf.count(j) != 0; }
  // class of the operation in the current state (goes into signatures) and what the reference expects
  std::string opclass(const Op& p) const { Expect e; return classify(p, e); }
  Expect expect(const Op& p) const { Expect e; classify(p, e); return e; }
  std::string classify(const Op& p, Expect& ex) const {
    ex = MUST_RAISE;
    switch (p.k) {
      case CREATE: if (hasN(p.a)) return "createNode(obj)[object-already-associated]"; ex = MUST_OK; return "createNode(obj)";
      case CREATE_FROM:
        if (hasN(p.b)) return "createNode(origin,new,edge)[new-object-already-associated]";
        if (!hasN(p.a)) return "createNode(origin,new,edge)[absent-origin]";
        if (hasE(p.c)) return "createNode(origin,new,edge)[edge-object-in-use]";
        ex = MUST_OK; return p.c < 0 ? "createNode(origin,new)[no-edge-object]" : "createNode(origin,new,edge)";
      case LINK:
        if (!hasN(p.a) || !hasN(p.b)) return "link[absent-node-object]";
        if (hasE(p.c)) return "link[edge-object-in-use]";
        if (!m.g.fromTo(m.nodeOf.at(p.a), m.nodeOf.at(p.b)).empty()) { ex = MAY_RAISE; return "link[already-linked-pair]"; }
        ex = MUST_OK; return p.c < 0 ? "link[no-edge-object]" : "link";
      case UNLINK:
        if (!hasN(p.a) || !hasN(p.b)) return "unlink[absent-node-object]";
        if (m.g.fromTo(m.nodeOf.at(p.a), m.nodeOf.at(p.b)).empty()) return "unlink[not-linked]";
        ex = MUST_OK; return "unlink";
      case DELETE: if (!hasN(p.a)) return "deleteNode[absent-node-object]"; ex = MUST_OK; return "deleteNode";
      case SETROOT: if (!hasN(p.a)) return "setRoot[absent-node-object]"; ex = MUST_OK; return "setRoot";
      case COPY: ex = MUST_OK; return "copy";
      case G_MKDIR: ex = MUST_OK; return "graph.makeDirected";
      case G_MKUNDIR: if (m.g.directed && m.g.reciprocal()) { ex = MAY_RAISE; return "graph.makeUndirected[reciprocal-relations]"; } ex = MUST_OK; return "graph.makeUndirected";
      case ASSOCN:
        if (hasN(p.a)) return "associateNode[object-already-associated]";
        if (!m.g.hasN((U)p.b)) return "associateNode[absent-node-id]";
        if (m.objOfNode((U)p.b) >= 0) { ex = MAY_RAISE; return "associateNode[id-has-an-object]"; }
        ex = MUST_OK; return "associateNode";
      case DISSN: if (!hasN(p.a)) return "dissociateNode[absent-node-object]"; ex = MUST_OK; return "dissociateNode";
      case ASSOCE:
        if (hasE(p.a)) return "associateEdge[object-already-associated]";
        if (!m.g.hasE((U)p.b)) return "associateEdge[absent-edge-id]";
        if (m.objOfEdge((U)p.b) >= 0) { ex = MAY_RAISE; return "associateEdge[id-has-an-object]"; }
        ex = MUST_OK; return "associateEdge";
      case DISSE: if (!hasE(p.a)) return "dissociateEdge[absent-edge-object]"; ex = MUST_OK; return "dissociateEdge";
      case SETNIDX:
        if (m.nodeAtIdx((U)p.b) >= 0) return "setNodeIndex[index-in-use]";
        if (m.nIdx.count(p.a)) return "setNodeIndex[object-has-an-index]";
        ex = MUST_OK; return "setNodeIndex";
      case ADDNIDX: if (m.nIdx.count(p.a)) return "addNodeIndex[object-has-an-index]"; ex = MUST_OK; return "addNodeIndex";
      case SETEIDX:
        if (m.edgeAtIdx((U)p.b) >= 0) return "setEdgeIndex[index-in-use]";
        if (m.eIdx.count(p.a)) return "setEdgeIndex[object-has-an-index]";
        ex = MUST_OK; return "setEdgeIndex";
      case ADDEIDX: if (m.eIdx.count(p.a)) return "addEdgeIndex[object-has-an-index]"; ex = MUST_OK; return "addEdgeIndex";
      case G_CREATE: ex = MUST_OK; return "graph.createNode";
      case G_FROMNODE: if (!m.g.hasN((U)p.a)) return "graph.createNodeFromNode[absent-node]"; ex = MUST_OK; return "graph.createNodeFromNode";
      case G_ONEDGE: if (!m.g.hasE((U)p.a)) return "graph.createNodeOnEdge[absent-edge]"; ex = MUST_OK; return "graph.createNodeOnEdge";
      default: if (!m.g.hasN((U)p.a)) return "graph.deleteNode[absent-node]"; ex = MUST_OK; return "graph.deleteNode";
    }
  }
  // createNode(origin,new,edge) is createNode(new) followed by link(origin,new,edge): when the link must raise, the new node
  // exists already (orphan, associated). The views stay consistent, so the reference models exactly that sequential effect.
  bool partialCreate(const Op& p) const { return p.k == CREATE_FROM && !hasN(p.b) && (!hasN(p.a) || hasE(p.c)); }
  bool enabled(int i) {
    const Op& p = ops[i];
    // associating an object with an id that does not exist (yet) is how the tree observers prepare link(a,b,edgeId): allowed by the
    // library, not part of the property -> not driven
    if (p.k == ASSOCN && !hasN(p.a) && !m.g.hasN((U)p.b)) return false;
    if (p.k == ASSOCE && !hasE(p.a) && !m.g.hasE((U)p.b)) return false;
    if (partialCreate(p)) return (int)m.g.nextN + 1 <= NN;
    if (expect(p) == MUST_RAISE) {
      // the objects of a pool are interchangeable: a single-object operation on an object that is not in the graph is tried with
      // the lowest-numbered such object only
      if (p.k == DELETE || p.k == SETROOT || p.k == DISSN) { for (int l = 0; l < p.a; ++l) if (!hasN(l)) return false; }
      if (p.k == DISSE) { for (int l = 0; l < p.a; ++l) if (!hasE(l)) return false; }
      return true;
    }
    int dn = 0, de = 0;
    switch (p.k) { case CREATE: case G_CREATE: dn = 1; break; case CREATE_FROM: case G_FROMNODE: dn = 1; de = 1; break; case LINK: de = 1; break; case G_ONEDGE: dn = 1; de = 2; break; default: break; }
    return (int)m.g.nextN + dn <= NN && (int)m.g.nextE + de <= EE;
  }

  // ---- private state ------------------------------------------------------------------------------------------
  std::string nameOf(const void* p) const {
    if (!p) return "-";
    for (int i = 0; i < KN; ++i) if (p == (const void*)N[i].get()) return nn(i);
    for (int j = 0; j < KE; ++j) if (p == (const void*)E[j].get()) return en(j);
    if (p == (const void*)static_cast<GraphObserver*>(o.get())) return "O";
    if (p == (const void*)o->subjectGraph_.get()) return "G";
    return "#";
  }
  int nlabel(const NR& r) const { if (!r) return -1; for (int i = 0; i < KN; ++i) if (r == N[i]) return i; return -2; }
  int elabel(const ER& r) const { if (!r) return -1; for (int j = 0; j < KE; ++j) if (r == E[j]) return j; return -2; }
  template<class V> std::string vecNames(const V& v) const { std::string r; for (auto& x : v) r += nameOf(x.get()) + ","; return r; }
  template<class M> std::string mapNames(const M& mp) const { std::vector<std::string> e; for (auto& kv : mp) e.push_back(nameOf(kv.first.get()) + ">" + str(kv.second)); std::sort(e.begin(), e.end()); std::string r; for (auto& x : e) r += x + ","; return r; }
  std::string dumpImpl() const {
    const Obs& x = *o;
    return "subject=" + nameOf(x.subjectGraph_.get()) + " graph{" + gdump(*x.subjectGraph_, [this](const void* p) { return nameOf(p); }) + "} idToN[" + vecNames(x.graphidToN_) + "] idToE[" + vecNames(x.graphidToE_) +
           "] NToId{" + mapNames(x.NToGraphid_) + "} EToId{" + mapNames(x.EToGraphid_) + "} idxToN[" + vecNames(x.indexToN_) + "] idxToE[" + vecNames(x.indexToE_) +
           "] NToIdx{" + mapNames(x.NToIndex_) + "} EToIdx{" + mapNames(x.EToIndex_) + "}";
  }
  std::string canon() const { return dumpImpl() + " || " + m.proj(); }

  template<class Ref, class Id> static std::string mapsInverse(const std::map<Ref, Id>& fwd, const std::vector<Ref>& back, const char* what) {
    for (auto& kv : fwd) {
      if (!kv.first) return std::string("null-key-in-") + what + "-map: a null object is recorded with id/index " + str(kv.second);
      if (kv.second >= back.size() || back[kv.second] != kv.first) return std::string(what) + "-maps-not-inverse: object -> " + str(kv.second) + " but slot " + str(kv.second) + " does not hold that object";
    }
    for (size_t i = 0; i < back.size(); ++i) if (back[i]) { auto f = fwd.find(back[i]); if (f == fwd.end() || f->second != i) return std::string(what) + "-maps-not-inverse: slot " + str(i) + " holds an object that is not mapped to " + str(i); }
    return "";
  }
  std::string oinvariant() const {
    const Obs& x = *o;
    if (!x.subjectGraph_) return "no-subject-graph: subjectGraph_ is null";
    const GlobalGraph& g = *x.subjectGraph_;
    if (g.observers_.size() != 1 || !g.observers_.count(static_cast<GraphObserver*>(o.get()))) return "observer-registration: the subject graph has " + str(g.observers_.size()) + " observers";
    std::string r;
    if (!(r = mapsInverse(x.NToGraphid_, x.graphidToN_, "node")).empty()) return r;
    if (!(r = mapsInverse(x.EToGraphid_, x.graphidToE_, "edge")).empty()) return r;
    for (auto& kv : x.NToGraphid_) if (!g.nodeStructure_.count(kv.second)) return "node-object-associated-to-absent-node: " + nameOf(kv.first.get()) + " -> node " + str(kv.second);
    for (auto& kv : x.EToGraphid_) if (!g.edgeStructure_.count(kv.second)) return "edge-object-associated-to-absent-edge: " + nameOf(kv.first.get()) + " -> edge " + str(kv.second);
    if (!(r = mapsInverse(x.NToIndex_, x.indexToN_, "node-index")).empty()) return r;
    if (!(r = mapsInverse(x.EToIndex_, x.indexToE_, "edge-index")).empty()) return r;
    return "";
  }
  template<class M, class L> std::string implMap(const M& mp, L lab) const { std::map<int, U> r; bool unk = false; for (auto& kv : mp) { int l = lab(kv.first); if (l < 0) unk = true; r[l] = kv.second; } return OModel::mp(r) + (unk ? "(+unknown object)" : ""); }

  // ---- one step -----------------------------------------------------------------------------------------------
  void step(int i, Sink& s, bool audit) {
    const Op p = ops[i];
    Expect ex; std::string cls = classify(p, ex);
    StepCtx k{s, part(), cls, ""};
    // operations made directly on the subject graph: findings about the graph layer itself get the graph-layer signature
    // (same as in the graph-only spaces), findings about the association layer keep obs|graph.<op>
    bool gop = cls.compare(0, 6, "graph.") == 0;
    StepCtx kg{s, gop ? gpart() : part(), gop ? cls.substr(6) : cls, ""};
    std::string before = audit ? dumpImpl() : std::string(), beforeRef = audit ? m.proj() : std::string();
    bool first = depth == 0; ++depth;
    if (audit) kg.ctx = k.ctx = "state [" + m.proj() + "] then " + opname(i);
    if (p.k == COPY) { if (audit) copyCheck(k, before); return; }
    Outcome out = RETURNED; std::string what; U ret = 0;
    bool partial = partialCreate(p), createdBeforeRaise = false;
    NR na = (p.a >= 0 && p.a < KN) ? N[p.a] : NR(), nb = (p.b >= 0 && p.b < KN) ? N[p.b] : NR();
    ER ec = (p.c >= 0 && p.c < KE) ? E[p.c] : ER(), ea = (p.a >= 0 && p.a < KE) ? E[p.a] : ER();
    try {
      switch (p.k) {
        case CREATE: o->createNode(na); break;
        case CREATE_FROM: if (p.c < 0) o->createNode(na, nb); else o->createNode(na, nb, ec); break;
        case LINK: if (p.c < 0) o->link(na, nb); else o->link(na, nb, ec); break;
        case UNLINK: o->unlink(na, nb); break;
        case DELETE: o->deleteNode(na); break;
        case SETROOT: o->setRoot(na); break;
        case G_MKDIR: o->getGraph()->makeDirected(); break;
        case G_MKUNDIR: o->getGraph()->makeUndirected(); break;
        case ASSOCN: o->associateNode(na, (U)p.b); break;
        case DISSN: o->dissociateNode(na); break;
        case ASSOCE: o->associateEdge(ea, (U)p.b); break;
        case DISSE: o->dissociateEdge(ea); break;
        case SETNIDX: ret = o->setNodeIndex(na, (U)p.b); break;
        case ADDNIDX: ret = o->addNodeIndex(na); break;
        case SETEIDX: ret = o->setEdgeIndex(ea, (U)p.b); break;
        case ADDEIDX: ret = o->addEdgeIndex(ea); break;
        case G_CREATE: ret = o->getGraph()->createNode(); break;
        case G_FROMNODE: ret = o->getGraph()->createNodeFromNode((U)p.a); break;
        case G_DELETE: o->getGraph()->deleteNode((U)p.a); break;
        case G_ONEDGE: ret = o->getGraph()->createNodeOnEdge((U)p.a); break;
        default: break;
      }
    }
    catch (bpp::Exception& e) { out = RAISED_BPP; what = line1(e.what()); }
    catch (std::exception& e) { out = RAISED_FOREIGN; what = std::string(typeid(e).name()) + " '" + line1(e.what()) + "'"; }
    // reference
    std::string retBad;
    if (partial && out != RETURNED && o->subjectGraph_->highestNodeID_ == m.g.nextN + 1) { createdBeforeRaise = true; m.nodeOf[p.b] = m.g.newNode(); }
    if (out == RETURNED && ex != MUST_RAISE) switch (p.k) {
      case CREATE: m.nodeOf[p.a] = m.g.newNode(); break;
      case CREATE_FROM: { U n = m.g.newNode(); m.nodeOf[p.b] = n; U e = m.g.newEdge(m.nodeOf.at(p.a), n); if (p.c >= 0) m.edgeOf[p.c] = e; break; }
      case LINK: { U e = m.g.newEdge(m.nodeOf.at(p.a), m.nodeOf.at(p.b)); if (p.c >= 0) m.edgeOf[p.c] = e; break; }
      case UNLINK: { U e = m.g.fromTo(m.nodeOf.at(p.a), m.nodeOf.at(p.b)).front(); m.g.edges.erase(e); m.forgetEdge(e); break; }
      case DELETE: m.removeNode(m.nodeOf.at(p.a)); break;
      case SETROOT: m.g.root = m.nodeOf.at(p.a); break;
      case G_MKDIR: if (!m.g.directed) { m.g.directed = true; adoptOrientation(m.g, *o->subjectGraph_); } break;
      case G_MKUNDIR: m.g.directed = false; break;
      case ASSOCN: { int old = m.objOfNode((U)p.b); if (old >= 0) m.nodeOf.erase(old); m.nodeOf[p.a] = (U)p.b; break; }
      case DISSN: m.nodeOf.erase(p.a); break;
      case ASSOCE: { int old = m.objOfEdge((U)p.b); if (old >= 0) m.edgeOf.erase(old); m.edgeOf[p.a] = (U)p.b; break; }
      case DISSE: m.edgeOf.erase(p.a); break;
      case SETNIDX: if (ret != (U)p.b) retBad = "returned " + str(ret) + ", reference " + str(p.b); m.nIdx[p.a] = (U)p.b; break;
      case ADDNIDX: if (m.nodeAtIdx(ret) >= 0) retBad = "allocated index " + str(ret) + " which is in use"; m.nIdx[p.a] = ret; break;
      case SETEIDX: if (ret != (U)p.b) retBad = "returned " + str(ret) + ", reference " + str(p.b); m.eIdx[p.a] = (U)p.b; break;
      case ADDEIDX: if (m.edgeAtIdx(ret) >= 0) retBad = "allocated index " + str(ret) + " which is in use"; m.eIdx[p.a] = ret; break;
      case G_CREATE: { U n = m.g.newNode(); if (ret != n) retBad = "returned " + str(ret) + ", reference " + str(n); break; }
      case G_FROMNODE: { U n = m.g.newNode(); m.g.newEdge((U)p.a, n); if (ret != n) retBad = "returned " + str(ret) + ", reference " + str(n); break; }
      case G_DELETE: m.removeNode((U)p.a); break;
      case G_ONEDGE: { auto ends = m.g.edges.at((U)p.a); m.g.edges.erase((U)p.a); m.forgetEdge((U)p.a); U n = m.g.newNode(); m.g.newEdge(ends.first, n); m.g.newEdge(n, ends.second);
        if (ret != n) retBad = "returned " + str(ret) + ", reference " + str(n); break; }
      default: break;
    }
    if (!audit) return;
    std::string after = dumpImpl();
    judgeOutcome(kg, ex, out, what, after != before && !createdBeforeRaise);
    if (after != before) s.nontrivial = true;
    s.tag(k.part + " " + cls);
    if (s.diverged) return;
    if (!retBad.empty()) { sfail(kg, "returned-value", retBad, true); return; }
    const Obs& x = *o;
    std::string inv = ginvariant(*x.subjectGraph_);
    if (!inv.empty()) { sfail(kg, "views-disagree:" + inv.substr(0, inv.find(':')), inv, true); return; }
    inv = oinvariant();
    if (!inv.empty()) { sfail(k, "association:" + inv.substr(0, inv.find(':')), inv + " | " + after, true); return; }
    if (gproj(*x.subjectGraph_) != m.g.proj()) { sfail(kg, "state-differs-from-reference", "implementation [" + gproj(*x.subjectGraph_) + "] reference [" + m.g.proj() + "]", true); return; }
    std::string a1 = implMap(x.NToGraphid_, [this](const NR& r) { return nlabel(r); }), a2 = implMap(x.EToGraphid_, [this](const ER& r) { return elabel(r); });
    std::string a3 = implMap(x.NToIndex_, [this](const NR& r) { return nlabel(r); }), a4 = implMap(x.EToIndex_, [this](const ER& r) { return elabel(r); });
    if (a1 != OModel::mp(m.nodeOf)) { sfail(k, "node-association-differs-from-reference", "implementation {" + a1 + "} reference {" + OModel::mp(m.nodeOf) + "}", true); return; }
    if (a2 != OModel::mp(m.edgeOf)) { sfail(k, "edge-association-differs-from-reference", "implementation {" + a2 + "} reference {" + OModel::mp(m.edgeOf) + "}", true); return; }
    if (a3 != OModel::mp(m.nIdx)) { sfail(k, "node-index-differs-from-reference", "implementation {" + a3 + "} reference {" + OModel::mp(m.nIdx) + "}", true); return; }
    if (a4 != OModel::mp(m.eIdx)) { sfail(k, "edge-index-differs-from-reference", "implementation {" + a4 + "} reference {" + OModel::mp(m.eIdx) + "}", true); return; }
    if (!first && after == before && m.proj() == beforeRef) return;   // queries are a function of the state: audited on every transition entering it
    s.tag("state-audited");
    Q gq{s, gpart(), "state [" + m.proj() + "]"};
    auditGraphQueries(*o->subjectGraph_, m.g, gq);
    Q q{s, part(), "state [" + m.proj() + "]"};
    auditObsQueries(*o, q);
  }

  // ---- queries ------------------------------------------------------------------------------------------------
  std::vector<int> nl(const std::vector<NR>& v) const { std::vector<int> r; for (auto& x : v) r.push_back(nlabel(x)); return r; }
  std::vector<int> el(const std::vector<ER>& v) const { std::vector<int> r; for (auto& x : v) r.push_back(elabel(x)); return r; }
  std::vector<int> nodeObjs(const std::vector<U>& ids) const { std::vector<int> r; for (U n : ids) { int l = m.objOfNode(n); if (l >= 0) r.push_back(l); } return r; }
  std::vector<int> edgeObjs(const std::vector<U>& ids) const { std::vector<int> r; for (U e : ids) { int l = m.objOfEdge(e); if (l >= 0) r.push_back(l); } return r; }
  template<class It, class Lab> std::vector<int> drainObj(It& it, Lab lab, bool& run) const { std::vector<int> v; int guard = 0; run = false; for (; !it->end(); it->next()) { v.push_back(lab(**it)); if (++guard > 1000) { run = true; break; } } return v; }
  template<class F, class Lab> void qObjIter(Q& q, const std::string& name, const std::string& arg, F make, Lab lab, const std::vector<int>& want) const {
    try {
      auto it = make(); bool run = false; std::vector<int> a = drainObj(it, lab, run);
      if (run) { q.bad(name, "", arg + " did not reach end() within 1000 steps"); return; }
      if (sorted(a) != sorted(want)) { q.bad(name, "", arg + " enumerated objects " + ls(a) + ", reference " + ls(want)); return; }
      it->start(); std::vector<int> b = drainObj(it, lab, run);
      if (run || sorted(b) != sorted(want)) q.bad(name, "", arg + " after start() enumerated " + ls(b) + ", reference " + ls(want));
    }
    catch (bpp::Exception& e) { q.bad(name, "raised-unexpectedly", arg + " raised bpp::Exception '" + line1(e.what()) + "'"); }
    catch (std::exception& e) { q.bad(name, "raised-unexpectedly", arg + " raised " + typeid(e).name() + " '" + line1(e.what()) + "'"); }
  }
  void auditObsQueries(Obs& x, Q& q) const {
    const Obs& cx = x; const GModel& g = m.g;
    auto NL = [this](const NR& r) { return nlabel(r); }; auto EL = [this](const ER& r) { return elabel(r); };
    std::vector<int> allN, allE, leaves; for (auto& kv : m.nodeOf) { allN.push_back(kv.first); if (g.distinctNeighbours(kv.second) <= 1) leaves.push_back(kv.first); } for (auto& kv : m.edgeOf) allE.push_back(kv.first);
    qList<int>(q, "getAllNodes", "()", [&] { return nl(cx.getAllNodes()); }, allN);
    qList<int>(q, "getAllEdges", "()", [&] { return el(cx.getAllEdges()); }, allE);
    qList<int>(q, "getAllLeaves", "()", [&] { return nl(cx.getAllLeaves()); }, leaves);
    qVal<size_t>(q, "getNumberOfNodes", "()", [&] { return cx.getNumberOfNodes(); }, allN.size());
    qVal<size_t>(q, "getNumberOfEdges", "()", [&] { return cx.getNumberOfEdges(); }, allE.size());
    qVal<size_t>(q, "getNumberOfLeaves", "()", [&] { return cx.getNumberOfLeaves(); }, leaves.size());
    qVal<int>(q, "getRoot", "()", [&] { return nlabel(cx.getRoot()); }, m.objOfNode(g.root));
    qObjIter(q, "allNodesIterator", "()", [&] { return x.allNodesIterator(); }, NL, allN);
    qObjIter(q, "allNodesIterator const", "()", [&] { return cx.allNodesIterator(); }, NL, allN);
    qObjIter(q, "allEdgesIterator", "()", [&] { return x.allEdgesIterator(); }, EL, allE);
    qObjIter(q, "allEdgesIterator const", "()", [&] { return cx.allEdgesIterator(); }, EL, allE);
    bool allNIdx = true, allEIdx = true; std::vector<U> nix, eix;
    for (int l : allN) { if (m.nIdx.count(l)) nix.push_back(m.nIdx.at(l)); else allNIdx = false; }
    for (int l : allE) { if (m.eIdx.count(l)) eix.push_back(m.eIdx.at(l)); else allEIdx = false; }
    if (allNIdx) qList<U>(q, "getAllNodesIndexes", "()", [&] { return cx.getAllNodesIndexes(); }, nix);
    if (allEIdx) qList<U>(q, "getAllEdgesIndexes", "()", [&] { return cx.getAllEdgesIndexes(); }, eix);
    int someAssociated = allN.empty() ? -1 : allN[0];
    int firstAbsentN = -1, firstAbsentE = -1;
    for (int i = KN - 1; i >= 0; --i) if (!hasN(i)) firstAbsentN = i;
    for (int j = KE - 1; j >= 0; --j) if (!hasE(j)) firstAbsentE = j;
    for (int i = 0; i < KN; ++i) {
      NR ni = N[i]; std::string a = "(" + nn(i) + ")";
      qVal<bool>(q, "hasNode(obj)", a, [&] { return cx.hasNode(ni); }, hasN(i));
      qVal<bool>(q, "hasNodeIndex", a, [&] { return cx.hasNodeIndex(ni); }, m.nIdx.count(i) != 0);
      if (m.nIdx.count(i)) qVal<U>(q, "getNodeIndex", a, [&] { return cx.getNodeIndex(ni); }, m.nIdx.at(i));
      else qRaise(q, "getNodeIndex", a + " (object has no index)", [&] { cx.getNodeIndex(ni); });
      if (hasN(i)) {
        U id = m.nodeOf.at(i);
        std::vector<U> oe = g.outE(id), ie = g.inE(id), ce = g.incE(id);
        std::vector<int> on = nodeObjs(g.ends(oe, id)), in = nodeObjs(g.ends(ie, id)), cn = nodeObjs(g.ends(ce, id)), oeo = edgeObjs(oe), ieo = edgeObjs(ie), ceo = edgeObjs(ce);
        qVal<U>(q, "getNodeGraphid", a, [&] { return cx.getNodeGraphid(ni); }, id);
        qVal<int>(q, "getNodeFromGraphid", "(" + str(id) + ")", [&] { return nlabel(cx.getNodeFromGraphid(id)); }, i);
        qList<int>(q, "getOutgoingNeighbors(obj)", a, [&] { return nl(cx.getOutgoingNeighbors(ni)); }, on);
        qList<int>(q, "getIncomingNeighbors(obj)", a, [&] { return nl(cx.getIncomingNeighbors(ni)); }, in);
        qList<int>(q, "getNeighbors(obj)", a, [&] { return nl(cx.getNeighbors(ni)); }, cn);
        qList<int>(q, "getOutgoingEdges(obj)", a, [&] { return el(cx.getOutgoingEdges(ni)); }, oeo);
        qList<int>(q, "getIncomingEdges(obj)", a, [&] { return el(cx.getIncomingEdges(ni)); }, ieo);
        qList<int>(q, "getEdges(obj)", a, [&] { return el(cx.getEdges(ni)); }, ceo);
        qVal<size_t>(q, "getDegree(obj)", a, [&] { return cx.getDegree(ni); }, ce.size());
        qVal<bool>(q, "isLeaf(obj)", a, [&] { return cx.isLeaf(ni); }, g.distinctNeighbours(id) <= 1);
        qObjIter(q, "outgoingNeighborNodesIterator(obj)", a, [&] { return x.outgoingNeighborNodesIterator(ni); }, NL, on);
        qObjIter(q, "outgoingNeighborNodesIterator(obj) const", a, [&] { return cx.outgoingNeighborNodesIterator(ni); }, NL, on);
        qObjIter(q, "incomingNeighborNodesIterator(obj)", a, [&] { return x.incomingNeighborNodesIterator(ni); }, NL, in);
        qObjIter(q, "incomingNeighborNodesIterator(obj) const", a, [&] { return cx.incomingNeighborNodesIterator(ni); }, NL, in);
        qObjIter(q, "outgoingEdgesIterator(obj)", a, [&] { return x.outgoingEdgesIterator(ni); }, EL, oeo);
        qObjIter(q, "outgoingEdgesIterator(obj) const", a, [&] { return cx.outgoingEdgesIterator(ni); }, EL, oeo);
        qObjIter(q, "incomingEdgesIterator(obj)", a, [&] { return x.incomingEdgesIterator(ni); }, EL, ieo);
        qObjIter(q, "incomingEdgesIterator(obj) const", a, [&] { return cx.incomingEdgesIterator(ni); }, EL, ieo);
        for (int j = 0; j < KN; ++j) if (j != i && hasN(j)) {
          NR nj = N[j]; std::string ab = "(" + nn(i) + "," + nn(j) + ")";
          std::vector<U> ft = g.fromTo(id, m.nodeOf.at(j));
          if (ft.empty()) qRaise(q, "getEdgeLinking", ab + " (not linked)", [&] { cx.getEdgeLinking(ni, nj); });
          else { std::vector<int> w; for (U e : ft) w.push_back(m.objOfEdge(e)); qOneOf<int>(q, "getEdgeLinking", ab, [&] { return elabel(cx.getEdgeLinking(ni, nj)); }, w); }
        }
        // index-addressed variants when every object involved has an index
        if (m.nIdx.count(i)) {
          U xi = m.nIdx.at(i); std::string ax = "(index " + str(xi) + ")";
          auto idxs = [&](const std::vector<int>& labs, bool& ok) { std::vector<U> r; ok = true; for (int l : labs) { if (m.nIdx.count(l)) r.push_back(m.nIdx.at(l)); else ok = false; } return r; };
          auto eidxs = [&](const std::vector<int>& labs, bool& ok) { std::vector<U> r; ok = true; for (int l : labs) { if (m.eIdx.count(l)) r.push_back(m.eIdx.at(l)); else ok = false; } return r; };
          bool ok; std::vector<U> w;
          w = idxs(on, ok); if (ok) qList<U>(q, "getOutgoingNeighbors(index)", ax, [&] { return cx.getOutgoingNeighbors(xi); }, w);
          w = idxs(in, ok); if (ok) qList<U>(q, "getIncomingNeighbors(index)", ax, [&] { return cx.getIncomingNeighbors(xi); }, w);
          w = idxs(cn, ok); if (ok) qList<U>(q, "getNeighbors(index)", ax, [&] { return cx.getNeighbors(xi); }, w);
          w = eidxs(oeo, ok); if (ok) qList<U>(q, "getOutgoingEdges(index)", ax, [&] { return cx.getOutgoingEdges(xi); }, w);
          w = eidxs(ieo, ok); if (ok) qList<U>(q, "getIncomingEdges(index)", ax, [&] { return cx.getIncomingEdges(xi); }, w);
          qVal<bool>(q, "isLeaf(index)", ax, [&] { return cx.isLeaf(xi); }, g.distinctNeighbours(id) <= 1);
        }
      } else if (i == firstAbsentN) {   // interchangeable objects: the absent-object queries are made with the lowest-numbered absent object
        std::string ab = a + " (object not in the graph)";
        qRaise(q, "getNodeGraphid", ab, [&] { cx.getNodeGraphid(ni); });
        qRaise(q, "getOutgoingNeighbors(obj)", ab, [&] { cx.getOutgoingNeighbors(ni); });
        qRaise(q, "getIncomingNeighbors(obj)", ab, [&] { cx.getIncomingNeighbors(ni); });
        qRaise(q, "getNeighbors(obj)", ab, [&] { cx.getNeighbors(ni); });
        qRaise(q, "getOutgoingEdges(obj)", ab, [&] { cx.getOutgoingEdges(ni); });
        qRaise(q, "getIncomingEdges(obj)", ab, [&] { cx.getIncomingEdges(ni); });
        qRaise(q, "getEdges(obj)", ab, [&] { cx.getEdges(ni); });
        qRaise(q, "getDegree(obj)", ab, [&] { cx.getDegree(ni); });
        qRaise(q, "isLeaf(obj)", ab, [&] { cx.isLeaf(ni); });
        qRaise(q, "outgoingNeighborNodesIterator(obj)", ab, [&] { x.outgoingNeighborNodesIterator(ni); });
        qRaise(q, "incomingNeighborNodesIterator(obj) const", ab, [&] { cx.incomingNeighborNodesIterator(ni); });
        qRaise(q, "outgoingEdgesIterator(obj) const", ab, [&] { cx.outgoingEdgesIterator(ni); });
        qRaise(q, "incomingEdgesIterator(obj)", ab, [&] { x.incomingEdgesIterator(ni); });
        if (someAssociated >= 0) { NR nj = N[someAssociated];
          qRaise(q, "getEdgeLinking", "(" + nn(i) + " absent," + nn(someAssociated) + ")", [&] { cx.getEdgeLinking(ni, nj); });
          qRaise(q, "getEdgeLinking", "(" + nn(someAssociated) + "," + nn(i) + " absent)", [&] { cx.getEdgeLinking(nj, ni); }); }
      }
    }
    for (int j = 0; j < KE; ++j) {
      ER ej = E[j]; std::string a = "(" + en(j) + ")";
      qVal<bool>(q, "hasEdge(obj)", a, [&] { return cx.hasEdge(ej); }, hasE(j));
      qVal<bool>(q, "hasEdgeIndex", a, [&] { return cx.hasEdgeIndex(ej); }, m.eIdx.count(j) != 0);
      if (m.eIdx.count(j)) qVal<U>(q, "getEdgeIndex", a, [&] { return cx.getEdgeIndex(ej); }, m.eIdx.at(j));
      else qRaise(q, "getEdgeIndex", a + " (object has no index)", [&] { cx.getEdgeIndex(ej); });
      if (hasE(j)) {
        U id = m.edgeOf.at(j); auto tb = g.edges.at(id);
        qVal<U>(q, "getEdgeGraphid", a, [&] { return cx.getEdgeGraphid(ej); }, id);
        qVal<int>(q, "getEdgeFromGraphid", "(" + str(id) + ")", [&] { return elabel(cx.getEdgeFromGraphid(id)); }, j);
        qVal<std::string>(q, "getNodes(edge obj)", a, [&] { auto p = cx.getNodes(ej); return str(nlabel(p.first)) + "," + str(nlabel(p.second)); }, str(m.objOfNode(tb.first)) + "," + str(m.objOfNode(tb.second)));
      } else if (j == firstAbsentE) {
        qRaise(q, "getEdgeGraphid", a + " (object not in the graph)", [&] { cx.getEdgeGraphid(ej); });
        qRaise(q, "getNodes(edge obj)", a + " (object not in the graph)", [&] { cx.getNodes(ej); });
      }
    }
    // index -> object, including one index beyond everything ever used. For a vacant index a null object, a bpp::Exception and the
    // std::out_of_range of vector::at (what the code does beyond the table) are all accepted: the interface documents nothing
    for (U xi = 0; xi <= (U)KI + 1; ++xi) {
      std::string a = "(index " + str(xi) + ")"; int wn = m.nodeAtIdx(xi), we = m.edgeAtIdx(xi);
      qVal<bool>(q, "hasNode(index)", a, [&] { return cx.hasNode(xi); }, wn >= 0);
      qVal<bool>(q, "hasEdge(index)", a, [&] { return cx.hasEdge(xi); }, we >= 0);
      if (wn >= 0) qVal<int>(q, "getNode(index)", a, [&] { return nlabel(cx.getNode(xi)); }, wn);
      else try { NR r = cx.getNode(xi); if (r) q.bad("getNode(index)", "", a + " returned an object for a vacant index"); } catch (bpp::Exception&) {} catch (std::out_of_range&) { q.s.tag("vacant-index:std::out_of_range"); }
      if (we >= 0) qVal<int>(q, "getEdge(index)", a, [&] { return elabel(cx.getEdge(xi)); }, we);
      else try { ER r = cx.getEdge(xi); if (r) q.bad("getEdge(index)", "", a + " returned an object for a vacant index"); } catch (bpp::Exception&) {} catch (std::out_of_range&) { q.s.tag("vacant-index:std::out_of_range"); }
    }
    // graph ids without an object map to null
    for (U id = 0; id <= g.nextN; ++id) if (m.objOfNode(id) < 0) qVal<int>(q, "getNodeFromGraphid", "(" + str(id) + " without object)", [&] { return nlabel(cx.getNodeFromGraphid(id)); }, -1);
    for (U id = 0; id <= g.nextE; ++id) if (m.objOfEdge(id) < 0) qVal<int>(q, "getEdgeFromGraphid", "(" + str(id) + " without object)", [&] { return elabel(cx.getEdgeFromGraphid(id)); }, -1);
  }

  // ---- copies -------------------------------------------------------------------------------------------------
  void checkOneCopy(StepCtx& k, Obs& c, const char* how) {
    const Obs& x = *o; std::string h = std::string(how) + ": ";
    if (c.subjectGraph_ != x.subjectGraph_) { /* sharing the subject graph is what the code does; an own graph would be fine too */ }
    if (!c.subjectGraph_->observers_.count(static_cast<GraphObserver*>(&c))) sfail(k, "copy-not-registered", h + "the copy is not registered with its subject graph", false);
    // (indices of objects that are not in the graph are not relations of the graph: the copy may drop them, and does)
    if (c.NToGraphid_.size() != x.NToGraphid_.size() || c.EToGraphid_.size() != x.EToGraphid_.size())
      sfail(k, "copy-relations-differ", h + "map sizes differ: nodes " + str(c.NToGraphid_.size()) + "/" + str(x.NToGraphid_.size()) + " edges " + str(c.EToGraphid_.size()) + "/" + str(x.EToGraphid_.size()), false);
    for (auto& kv : m.nodeOf) {
      NR src = N[kv.first]; NR cp = c.getNodeFromGraphid(kv.second);
      if (!cp) { sfail(k, "copy-relations-differ", h + "no object at node id " + str(kv.second), false); continue; }
      if (nlabel(cp) != -2) sfail(k, "copy-shares-objects", h + "node id " + str(kv.second) + " holds the source's own object", false);
      if (cp->label != src->label) sfail(k, "copy-relations-differ", h + "payload of the object at node id " + str(kv.second) + " differs", false);
      try {
        if (c.getNodeGraphid(cp) != kv.second) sfail(k, "copy-relations-differ", h + "object -> id differs", false);
        if (c.hasNodeIndex(cp) != (m.nIdx.count(kv.first) != 0) || (c.hasNodeIndex(cp) && (c.getNodeIndex(cp) != m.nIdx.at(kv.first) || c.getNode(c.getNodeIndex(cp)) != cp))) sfail(k, "copy-relations-differ", h + "node index differs", false);
        auto pay = [](const std::vector<NR>& v) { std::vector<int> r; for (auto& z : v) r.push_back(z ? z->label : -1); return sorted(r); };
        auto epay = [](const std::vector<ER>& v) { std::vector<int> r; for (auto& z : v) r.push_back(z ? z->label : -1); return sorted(r); };
        // relations through the public queries; when the source's own query raises, that is reported by the query audit, not here
        bool srcOk = true; std::vector<int> so, si, se;
        try { so = pay(x.getOutgoingNeighbors(src)); si = pay(x.getIncomingNeighbors(src)); se = epay(x.getOutgoingEdges(src)); } catch (std::exception&) { srcOk = false; }
        if (srcOk) {
          if (pay(c.getOutgoingNeighbors(cp)) != so || pay(c.getIncomingNeighbors(cp)) != si) sfail(k, "copy-relations-differ", h + "neighbours of the copied object differ", false);
          if (epay(c.getOutgoingEdges(cp)) != se) sfail(k, "copy-relations-differ", h + "edges of the copied object differ", false);
          for (auto& z : c.getOutgoingNeighbors(cp)) if (nlabel(z) != -2) sfail(k, "copy-shares-objects", h + "a neighbour list of the copy returns the source's object", false);
        }
      } catch (std::exception& e) { sfail(k, "copy-relations-differ", h + "query on the copy raised '" + line1(e.what()) + "'", false); }
    }
    for (auto& kv : m.edgeOf) {
      ER src = E[kv.first]; ER cp = c.getEdgeFromGraphid(kv.second);
      if (!cp) { sfail(k, "copy-relations-differ", h + "no object at edge id " + str(kv.second), false); continue; }
      if (elabel(cp) != -2) sfail(k, "copy-shares-objects", h + "edge id " + str(kv.second) + " holds the source's own object", false);
      if (cp->label != src->label) sfail(k, "copy-relations-differ", h + "payload of the object at edge id " + str(kv.second) + " differs", false);
      try {
        if (c.getEdgeGraphid(cp) != kv.second) sfail(k, "copy-relations-differ", h + "edge object -> id differs", false);
        if (c.hasEdgeIndex(cp) != (m.eIdx.count(kv.first) != 0) || (c.hasEdgeIndex(cp) && (c.getEdgeIndex(cp) != m.eIdx.at(kv.first) || c.getEdge(c.getEdgeIndex(cp)) != cp))) sfail(k, "copy-relations-differ", h + "edge index differs", false);
        auto a = c.getNodes(cp); auto b = x.getNodes(src);
        if ((a.first ? a.first->label : -1) != (b.first ? b.first->label : -1) || (a.second ? a.second->label : -1) != (b.second ? b.second->label : -1)) sfail(k, "copy-relations-differ", h + "end points of the copied edge object differ", false);
      } catch (std::exception& e) { sfail(k, "copy-relations-differ", h + "query on the copy raised '" + line1(e.what()) + "'", false); }
    }
  }
  void copyCheck(StepCtx& k, const std::string& before) {
    k.s.tag(expName(MUST_OK));
    try {
      { Obs c(*o); checkOneCopy(k, c, "copy-constructed"); }
      { std::unique_ptr<Obs> c(o->clone()); checkOneCopy(k, *c, "clone()"); }
    }
    catch (bpp::Exception& e) { sfail(k, "raised-unexpectedly", "raised '" + line1(e.what()) + "'", false); }
    catch (std::exception& e) { sfail(k, "raised-unexpectedly", std::string("raised ") + typeid(e).name() + " '" + line1(e.what()) + "'", false); }
    if (dumpImpl() != before) sfail(k, "copy-changed-source", "after creating and destroying copies the source is [" + dumpImpl() + "]", true);
    k.s.tag(k.part + " copy");
  }
  void apply(int i, vf::Case& c) { applyLocal(*this, i, c); }
};

void obsSpaces(vf::Runner& R, bool th, double CT) {
  struct Cfg { bool dir; int fl, kn, ke, nn, ee, ki, depth; };
  std::vector<Cfg> cfgs;
  for (int d = 1; d >= 0; --d) {
    cfgs.push_back({d != 0, 0, 3, 2, 4, 4, 0, th ? 5 : 4});
    if (th) cfgs.push_back({d != 0, 0, 4, 2, 5, 5, 0, 4});
    cfgs.push_back({d != 0, 1, 2, 2, 3, 3, 0, th ? 7 : 6});
    cfgs.push_back({d != 0, 1, 3, 1, 4, 4, 0, th ? 5 : 4});   // three node objects and room for an object-less node put on an edge behind the observer's back
    cfgs.push_back({d != 0, 2, 2, 2, 3, 3, 2, th ? 6 : 5});
  }
  for (auto& c : cfgs) {
    OSys proto(c.dir, c.fl, c.kn, c.ke, c.nn, c.ee, c.ki);
    std::string name = std::string(c.fl == 0 ? "obs-topology:" : c.fl == 1 ? "obs-association:" : "obs-index:") + (c.dir ? "dir" : "undir") + ":N" + str(c.kn) + ":E" + str(c.ke) + ":n" + str(c.nn) + ":e" + str(c.ee) + (c.fl == 2 ? ":i" + str(c.ki) : "") + ":d" + str(c.depth);
    Cfg cc = c;
    R.explore(name, c.depth, proto.nops(), [cc] { return std::unique_ptr<OSys>(new OSys(cc.dir, cc.fl, cc.kn, cc.ke, cc.nn, cc.ee, cc.ki)); }, CT);
    recoverWitnesses(R, name);
  }
}
