// C09 — a discretised distribution is always a valid partition of its continuous parent
// VF-VARIANT: san
// VF-RULE: E2 (spaces disc:<family>): every combination of class count x discretisation scheme x median flag x restriction x parameter point of a fixed lattice; one case = construct, setMedian, restrictToConstraint, then every clause of the statement is judged on the resulting state (class count, p>=0, sum, strictly increasing values inside their own class, ordered bounds inside the reported domain, class mass = parent's own cumulative mass over the class relative to the mass of the reported domain, equal masses, mean of mean-valued classes, value look-up by value and by index at every bound / class value / midpoint (both must name the same class), the four cumulative queries, copy/assign independence). Spaces parent:<family>: the parent's pProb/qProb/Expectation on a 128+129-point grid of every reported domain (monotone, inverse, integrated derivative relation). Spaces compound:*: constant / simple / invariant-mixed / mixture over their own lattices, judged on normalisation and class count only. E1 (hist:*): breadth-first closure of the state graph of ONE live object under setParameterValue / setParametersValues / matchParametersValues / setNumberOfCategories / setMedian / restrictToConstraint (four nested and overlapping sub-intervals) / replace-by-copy / replace-by-assigned, with the same audit in every state and two query operations (look-up audit, copy-independence audit). A case is non-trivial when it has >= 2 classes over a domain of positive mass (E2) or the transition changed the canonical state (E1).
// VF-BOUND: class counts {1,2,3,4,5,8,16,32}; schemes {equal-probability, equal-interval, equal-probability-when-possible}; shapes/rates/scales in {0.1,0.5,1,3,10,100} (thorough: {0.1,0.2,0.5,1,2,3,5,10,30,100}); locations (gaussian mean, gamma offset) in {0,0.5,3,100,-1} / {0,0.5,3,-1}; six restrictions per parameter point defined from the closed-form mean and standard deviation; E1: 2-3 values per parameter, class counts {1,2,4} (thorough {1,2,3,4,5,8,16,32}), four restriction intervals, closure of the state graph (histories of any length over that alphabet) per family and scheme
// VF-LEVEL: bounded-exhaustive execution of the real classes on the stated lattices and closed state graphs; the class masses and means are judged against the object's own parent functions (as the statement says), the parent functions against each other on a grid; nothing is known about parameter values, intervals or class counts outside the lattices
// VF-ASSUME: the parent's cumulative function is accurate to 4e-8 absolute and cumulative/quantile are inverse to 1e-5 in probability units on the lattice (the series in incompleteGamma is truncated at 1e-8; property C08 judges these functions against an external reference);; a class value may leave its class interval by (k+1) steps of the value resolution the object itself declares (precision(), 1e-12 or 1e-20) or of the double grid at that value, whichever is coarser, which is how far the boundary adjustment and duplicate separation of the library move it; a computed bound or quantile is granted the change of the cumulative function over +-2 steps of the double grid;; the domain is taken as the object reports it (no history-independence of the domain is demanded);; the scheme of the families whose constructor does not expose it is set by a trivial client subclass that assigns the protected member and calls discretize()
// VF-TECHNIQUE: exhaustive lattice enumeration and state-graph closure with a clause-by-clause oracle built on the parent functions
// VF-BUDGET_QUICK: 900
// VF-BUDGET_THOROUGH: 7200
#include "C09_model.hpp"
using namespace bpp;
using namespace c09;

static const size_t KS[8] = {1, 2, 3, 4, 5, 8, 16, 32};

static std::string pstr(Fam f, const std::vector<double>& p) {
  std::string s = std::string(FAMNAME[f]) + "(";
  if (f == F_UNIF) return s + "min=" + num(p[0]) + ",max=" + num(p[1]) + ")";
  for (int j = 0; j < NPAR[f]; ++j) s += std::string(j ? "," : "") + PNAME[f][j] + "=" + num(p[j]);
  return s + ")";
}
static const char* schemeName(short s) { return s == 1 ? "equal-prob" : s == 2 ? "equal-interval" : "equal-prob-when-possible"; }

// copy-construction and assignment give an equal object with its own domain object; with mutate=true (E1 query operation only, so that a
// failure inside the re-discretisation of the COPY is not blamed on the state under audit in E2) the copies are then modified and the
// original must not move
static void auditCopies(Fam f, const ADD& d, short scheme, vf::Case& c, const std::string& ctx, bool mutate) {
  std::string before = canonOf(d);
  c.site("copy/assign");
  std::unique_ptr<ADD> cp(dynamic_cast<ADD*>(d.clone()));
  double dp[3] = {2, 2, 0}; if (f == F_UNIF) { dp[0] = -5; dp[1] = 5; } if (f == F_TEXP) dp[1] = 7;
  std::unique_ptr<ADD> as = makeFam(f, 3, dp, scheme);
  assignFam(f, *as, d);
  if (canonOf(*cp) != before) c.fail("copy|copy-constructed-object-differs", ctx + " | original " + before + " | copy " + canonOf(*cp));
  if (canonOf(*as) != before) c.fail("copy|assigned-object-differs", ctx + " | original " + before + " | assigned " + canonOf(*as));
  if (cp->intMinMax_.get() == d.intMinMax_.get() || as->intMinMax_.get() == d.intMinMax_.get()) c.fail("copy|domain-object-shared-with-the-copy", ctx);
  if (!mutate) return;
  size_t k2 = d.getNumberOfCategories() == 2 ? 3 : 2;
  c.site(d.median_ ? "discretize:median" : "discretize:mean");
  try {
    cp->setNumberOfCategories(k2); as->setNumberOfCategories(k2);
    double lo = d.getLowerBound(), hi = d.getUpperBound();
    if (std::isfinite(lo) && std::isfinite(hi) && std::fabs(lo) < 1e22 && std::fabs(hi) < 1e22) { IntervalConstraint ic(lo + (hi - lo) / 4, hi, true, true); cp->restrictToConstraint(ic); as->restrictToConstraint(ic); }
  } catch (Exception&) {}
  c.site("copy/assign");
  if (canonOf(d) != before) c.fail("copy|original-changed-when-copy-was-modified", ctx + " | before " + before + " | after " + canonOf(d));
}

// ------------------------------------------------------------------------------------------------------------------------------
// E2: one family
static void discSpace(vf::Runner& R, Fam f, bool th) {
  auto lat = std::make_shared<std::vector<std::vector<double>>>(paramLattice(f, th));
  int P = (int)lat->size();
  std::string name = std::string("disc:") + FAMNAME[f] + ":P" + str(P) + (th ? "t" : "q") + ":R6:M2:S3:K8";
  R.space(name, (uint64_t)P * NRESTR * 2 * 3 * 8, [=](uint64_t idx, vf::Case& c) {
    std::vector<int> dg = vf::digits(idx, {P, NRESTR, 2, 3, 8});
    const std::vector<double>& p = (*lat)[dg[0]];
    int r = dg[1]; bool med = dg[2]; short scheme = (short)(dg[3] + 1); size_t k = KS[dg[4]];
    Iv iv = restrictionFor(f, p.data(), r);
    std::string ctx = pstr(f, p) + " k=" + str(k) + " scheme=" + schemeName(scheme) + " median=" + str((int)med) + " restrictToConstraint(" + ivs(iv) + ")";
    c.site("discretize:mean");
    std::unique_ptr<ADD> d = makeFam(f, k, p.data(), scheme);
    if (med) { c.site("discretize:median"); d->setMedian(true); }
    if (iv.any) {
      // only sub-intervals of the reported domain with non-empty interior are inside the quantifier
      double lo = std::max(iv.lo, d->getLowerBound()), hi = std::min(iv.hi, d->getUpperBound());
      if (!(lo < hi)) { c.tag("restriction-outside-domain(skipped)"); return; }
      IntervalConstraint ic = ivc(iv);
      // a call that raises is not an accepted restriction, but the object stays in the client's hands: its state is audited all the same
      try { d->restrictToConstraint(ic); }
      catch (Exception& e) { c.tag("restriction-raised(state audited all the same)"); ctx += " [raised " + std::string(e.what()).substr(0, 60) + "]"; }
    }
    AuditOpt o{k, med, scheme, f};
    c.site("audit");
    auditPartition(*d, o, c, ctx);
    c.site("lookup");
    auditLookup(*d, c, ctx);
    c.site("cumulative");
    auditCumulative(*d, c, ctx);
    auditCopies(f, *d, scheme, c, ctx, false);
    double M = d->pProb(d->getUpperBound()) - d->pProb(d->getLowerBound());
    if (k >= 2 && M > 0) c.nontrivial();
    c.tag(std::string("scheme=") + schemeName(scheme) + (med ? ",median" : ",mean") + (iv.any ? ",restricted" : ""));
    if (idx % 4099 == 11) c.sample(ctx + " -> " + snapStr(snap(*d)));
  }, 0.2, 4);
}

// E2: parent functions on every reported domain of the lattice
static void parentSpace(vf::Runner& R, Fam f, bool th) {
  auto lat = std::make_shared<std::vector<std::vector<double>>>(paramLattice(f, th));
  int P = (int)lat->size();
  std::string name = std::string("parent:") + FAMNAME[f] + ":P" + str(P) + (th ? "t" : "q") + ":R6";
  R.space(name, (uint64_t)P * NRESTR, [=](uint64_t idx, vf::Case& c) {
    std::vector<int> dg = vf::digits(idx, {P, NRESTR});
    const std::vector<double>& p = (*lat)[dg[0]];
    Iv iv = restrictionFor(f, p.data(), dg[1]);
    std::string ctx = pstr(f, p) + " domain restricted to " + ivs(iv);
    c.site("discretize:mean");
    std::unique_ptr<ADD> d = makeFam(f, 1, p.data(), 1);
    if (iv.any) {
      double lo = std::max(iv.lo, d->getLowerBound()), hi = std::min(iv.hi, d->getUpperBound());
      if (!(lo < hi)) { c.tag("restriction-outside-domain(skipped)"); return; }
      IntervalConstraint ic = ivc(iv);
      try { d->restrictToConstraint(ic); } catch (Exception&) { c.tag("restriction-raised(state audited all the same)"); }
    }
    c.site("parent-functions");
    auditParent(*d, f, c, ctx + " reported domain [" + num(d->getLowerBound()) + "," + num(d->getUpperBound()) + "]");
    c.nontrivial();
  }, 0.5);
}

// ------------------------------------------------------------------------------------------------------------------------------
// compounds
enum CKind { C_CONST = 0, C_SIMPLE, C_INV_GAMMA, C_INV_SIMPLE, C_MIX_GAMMA_EXPO, C_MIX_BETA_UNIF, C_MIX_GAUSS_SIMPLE, C_MIX3, C_INV_BETA_HIGH, NCK };
static const char* CKNAME[NCK] = {"constant", "simple", "invariant(gamma)", "invariant(simple)", "mixture(gamma,exponential)", "mixture(beta,uniform)", "mixture(gaussian,simple)", "mixture(gamma,exponential,beta)", "invariant(beta; invariant value 2 above the nested upper end)"};
static const char* ckClass(int k) { return k == C_CONST ? "constant" : k == C_SIMPLE ? "simple" : (k == C_INV_GAMMA || k == C_INV_SIMPLE || k == C_INV_BETA_HIGH) ? "invariant" : "mixture"; }

static std::unique_ptr<DiscreteDistributionInterface> simple3() {
  return std::unique_ptr<DiscreteDistributionInterface>(new SimpleDiscreteDistribution(std::vector<double>{0.5, 1, 2}, std::vector<double>{0.25, 0.25, 0.5}));
}
// k: class count of the continuous components; a,b: two shape parameters; w: mixing weight / invariant proportion
static std::unique_ptr<ADD> makeCompound(int kind, size_t k, double a, double b, double w) {
  typedef std::unique_ptr<DiscreteDistributionInterface> UP;
  switch (kind) {
    case C_CONST: return std::unique_ptr<ADD>(new ConstantDistribution(a));
    case C_SIMPLE: return std::unique_ptr<ADD>(dynamic_cast<ADD*>(simple3().release()));
    case C_INV_GAMMA: return std::unique_ptr<ADD>(new InvariantMixedDiscreteDistribution(UP(new GammaDiscreteDistribution(k, a, b)), w, 0.));
    case C_INV_SIMPLE: return std::unique_ptr<ADD>(new InvariantMixedDiscreteDistribution(simple3(), w, 0.));
    case C_INV_BETA_HIGH: return std::unique_ptr<ADD>(new InvariantMixedDiscreteDistribution(UP(new BetaDiscreteDistribution(k, a, b)), w, 2.));
    case C_MIX_GAMMA_EXPO: {
      std::vector<UP> v; v.push_back(UP(new GammaDiscreteDistribution(k, a, b))); v.push_back(UP(new ExponentialDiscreteDistribution(k, b)));
      return std::unique_ptr<ADD>(new MixtureOfDiscreteDistributions(v, std::vector<double>{w, 1 - w})); }
    case C_MIX_BETA_UNIF: {
      std::vector<UP> v; v.push_back(UP(new BetaDiscreteDistribution(k, a, b))); v.push_back(UP(new UniformDiscreteDistribution((unsigned)k, 0., 1.)));
      return std::unique_ptr<ADD>(new MixtureOfDiscreteDistributions(v, std::vector<double>{w, 1 - w})); }
    case C_MIX3: {   // three components: the weights are rebuilt from two conditional proportions on every parameter notification
      std::vector<UP> v; v.push_back(UP(new GammaDiscreteDistribution(k, a, b))); v.push_back(UP(new ExponentialDiscreteDistribution(k, b))); v.push_back(UP(new BetaDiscreteDistribution(k, a, b)));
      return std::unique_ptr<ADD>(new MixtureOfDiscreteDistributions(v, std::vector<double>{w, (1 - w) / 4, 3 * (1 - w) / 4})); }
    default: {
      std::vector<UP> v; v.push_back(UP(new GaussianDiscreteDistribution(k, a, b))); v.push_back(simple3());
      return std::unique_ptr<ADD>(new MixtureOfDiscreteDistributions(v, std::vector<double>{w, 1 - w})); }
  }
}
static void assignCompound(int kind, ADD& dst, const ADD& src) {
  switch (kind) {
    case C_CONST: dynamic_cast<ConstantDistribution&>(dst) = dynamic_cast<const ConstantDistribution&>(src); break;
    case C_SIMPLE: dynamic_cast<SimpleDiscreteDistribution&>(dst) = dynamic_cast<const SimpleDiscreteDistribution&>(src); break;
    case C_INV_GAMMA: case C_INV_SIMPLE: case C_INV_BETA_HIGH: dynamic_cast<InvariantMixedDiscreteDistribution&>(dst) = dynamic_cast<const InvariantMixedDiscreteDistribution&>(src); break;
    default: dynamic_cast<MixtureOfDiscreteDistributions&>(dst) = dynamic_cast<const MixtureOfDiscreteDistributions&>(src); break;
  }
}
static void auditCompound(int kind, const ADD& d, vf::Case& c, const std::string& ctx) {
  // a component that is itself inconsistent is reported as such, and the compound built on it is not judged
  std::vector<const DiscreteDistributionInterface*> comps;
  if (auto* iv = dynamic_cast<const InvariantMixedDiscreteDistribution*>(&d)) comps.push_back(&iv->variableSubDistribution());
  if (auto* mx = dynamic_cast<const MixtureOfDiscreteDistributions*>(&d)) for (size_t i = 0; i < mx->getNumberOfDistributions(); ++i) comps.push_back(&mx->nDistribution(i));
  for (auto* n : comps) {
    bool before = c.failed;
    c.failed = false;
    auditNormalisation(*n, c, ctx + " component " + n->getName(), std::string("component-of-") + ckClass(kind));
    // a nested continuous family is itself a discretised distribution: every clause of the statement applies to it in the state the
    // compound left it in (class count, flags and scheme are taken as the component reports them)
    if (!c.failed) if (auto* a = dynamic_cast<const ADD*>(n)) {
      int fam = -1;
      if (auto* g = dynamic_cast<const GammaDiscreteDistribution*>(a)) fam = g->hasParameter("offset") ? F_GAMMAOFF : F_GAMMA;
      else if (dynamic_cast<const BetaDiscreteDistribution*>(a)) fam = F_BETA;
      else if (dynamic_cast<const GaussianDiscreteDistribution*>(a)) fam = F_GAUSS;
      else if (dynamic_cast<const ExponentialDiscreteDistribution*>(a)) fam = F_EXPO;
      else if (dynamic_cast<const UniformDiscreteDistribution*>(a)) fam = F_UNIF;
      // (the compound lattice restricts to a fixed interval whatever the shapes are: a component whose parent puts less mass on it than its
      //  cumulative function resolves -- 4e-8 absolute, e.g. gamma(100,0.5) on [0,4]: 1e-129 -- has no partition to speak of and is not judged)
      if (fam >= 0 && !(a->pProb(a->getUpperBound()) - a->pProb(a->getLowerBound()) >= 4e-8)) { c.tag("compound:nested-component-domain-mass-below-cdf-accuracy(not audited)"); fam = -1; }
      if (fam >= 0) { AuditOpt o{a->getNumberOfCategories(), a->median_, a->discretizationScheme_, (Fam)fam}; auditPartition(*a, o, c, ctx + " nested component " + a->getName()); c.tag("compound:nested-component-audited"); }
    }
    bool bad = c.failed; c.failed = before || bad;
    if (bad) return;
  }
  auditNormalisation(d, c, ctx, ckClass(kind));
  auditCumulative(d, c, ctx);
  // the domain a compound reports is an interval that holds its class values (ends taken as closed: which end is strict is not judged)
  { double lb = d.getLowerBound(), ub = d.getUpperBound();
    if (!(lb <= ub)) c.fail(std::string("compound|domain-lower-end-above-upper-end|") + ckClass(kind), ctx + " -> domain [" + num(lb) + "," + num(ub) + "]");
    else for (double v : d.getCategories()) if (!(v >= lb - d.precision() && v <= ub + d.precision())) { c.fail(std::string("compound|class-value-outside-the-reported-domain|") + ckClass(kind), ctx + " -> value " + num(v) + " domain [" + num(lb) + "," + num(ub) + "]"); break; } }
}

static void compoundSpaces(vf::Runner& R, bool th) {
  // constant
  {
    std::vector<double> V = {0, 1, 0.5, 0.1, 3, 10, 100, -1};
    R.space("compound:constant:V8", V.size(), [=](uint64_t idx, vf::Case& c) {
      c.site("ConstantDistribution");
      ConstantDistribution d(V[idx]);
      std::string ctx = "Constant(" + num(V[idx]) + ")";
      auditCompound(C_CONST, d, c, ctx);
      d.setParameterValue("value", V[(idx + 1) % V.size()]);
      auditCompound(C_CONST, d, c, ctx + ".setParameterValue(value," + num(V[(idx + 1) % V.size()]) + ")");
      if (d.getCategories().size() != 1 || d.getCategory(0) != V[(idx + 1) % V.size()]) c.fail("compound|constant-value-not-updated|constant", ctx);
      // restrictions: one that does not hold the constant is refused and must leave the object usable (its own value can be looked up,
      // an interval that holds it is accepted afterwards); one that holds it is accepted
      {
        double v = d.getCategory(0);
        auto lookupOwn = [&](const std::string& when) {
          try { double r = d.getValueCategory(v); size_t j = d.getCategoryIndex(v); if (r != v || j > 1) c.fail("compound|constant-look-up-of-its-own-value|constant", ctx + " " + when + ": getValueCategory(" + num(v) + ")=" + num(r) + " getCategoryIndex=" + str(j)); }
          catch (Exception& e) { c.fail("compound|constant-look-up-of-its-own-value-raises|constant", ctx + " " + when + ": " + e.what()); }
        };
        lookupOwn("before any restriction");
        IntervalConstraint off(v + 4, v + 9, true, true), on(v - 1, v + 1, true, true);
        c.site("ConstantDistribution::restrictToConstraint");
        bool refused = false; try { d.restrictToConstraint(off); } catch (Exception&) { refused = true; }
        if (!refused) c.fail("compound|restriction-that-excludes-the-constant-accepted|constant", ctx + " restrictToConstraint(" + off.getDescription() + ")");
        auditCompound(C_CONST, d, c, ctx + " after the refused restriction to " + off.getDescription());
        lookupOwn("after the refused restriction to " + off.getDescription());
        try { d.restrictToConstraint(on); } catch (Exception& e) { c.fail("compound|restriction-that-holds-the-constant-refused|constant", ctx + " restrictToConstraint(" + on.getDescription() + ") after a refused one: " + e.what()); }
        auditCompound(C_CONST, d, c, ctx + " after the restriction to " + on.getDescription());
        lookupOwn("after the restriction to " + on.getDescription());
      }
      c.nontrivial(); c.tag("constant");
    }, 0.5);
  }
  // simple: k values, three probability shapes, five updates
  {
    R.space("compound:simple:K8:shape3:update5", 8 * 3 * 5, [=](uint64_t idx, vf::Case& c) {
      std::vector<int> dg = vf::digits(idx, {5, 3, 8});
      size_t k = KS[dg[2]]; int shape = dg[1], upd = dg[0];
      std::vector<double> v(k), p(k);
      for (size_t i = 0; i < k; ++i) v[i] = 0.25 * (double)(i + 1);
      if (shape == 0) for (size_t i = 0; i < k; ++i) p[i] = 1.0 / (double)k;
      else if (shape == 1) { double rest = 1; for (size_t i = 0; i + 1 < k; ++i) { p[i] = rest / 2; rest -= p[i]; } p[k - 1] = rest; }   // dyadic: sums exactly
      else { for (size_t i = 0; i < k; ++i) p[i] = (i == 0) ? 1.0 - 0.0078125 * (double)(k - 1) : 0.0078125; }
      std::string ctx = "Simple(values=" + vf::vstr(v) + ", probs=" + vf::vstr(p) + ")";
      c.site("SimpleDiscreteDistribution");
      SimpleDiscreteDistribution d(v, p);
      auditCompound(C_SIMPLE, d, c, ctx);
      if (d.getNumberOfCategories() != k) c.fail("compound|class-count-differs-from-requested|simple", ctx);
      std::string u;
      if (upd == 1 && k > 1) { d.setParameterValue("theta1", 0.3); u = ".setParameterValue(theta1,0.3)"; }
      else if (upd == 2) { d.setParameterValue("V1", -0.5); u = ".setParameterValue(V1,-0.5)"; }
      else if (upd == 3 && k > 1) { d.setParameterValue("V" + str(k), v[0]); u = ".setParameterValue(V" + str(k) + "," + num(v[0]) + ") [collides with V1]"; }
      else if (upd == 4 && k > 1) { d.setParameterValue("theta1", 1); u = ".setParameterValue(theta1,1)"; }
      else { c.tag("simple:no-update"); if (k > 1) c.nontrivial(); return; }
      auditCompound(C_SIMPLE, d, c, ctx + u);
      if (d.getNumberOfCategories() != k) c.fail("compound|class-count-differs-from-requested|simple", ctx + u + " -> k=" + str(d.getNumberOfCategories()));
      c.nontrivial(); c.tag("simple:updated");
    }, 0.5);
  }
  // invariant-mixed and mixtures: kind x k x median x weight x shapes x follow-up
  {
    std::vector<double> S = th ? std::vector<double>{0.1, 0.5, 1, 3, 10, 100} : std::vector<double>{0.1, 3};
    std::vector<double> W = {0.5, 0.1, 0, 1};
    int nS = (int)S.size(), nW = (int)W.size();
    R.space(std::string("compound:nested:kind7:K8:M2:W4:S") + str(nS) + "x" + str(nS) + ":F6", (uint64_t)7 * 8 * 2 * nW * nS * nS * 6, [=](uint64_t idx, vf::Case& c) {
      std::vector<int> dg = vf::digits(idx, {nS, nS, nW, 6, 2, 7, 8});
      double a = S[dg[0]], b = S[dg[1]], w = W[dg[2]]; int fu = dg[3]; bool med = dg[4]; int kind = C_INV_GAMMA + dg[5]; size_t k = KS[dg[6]];
      if ((kind == C_INV_SIMPLE) && (dg[0] || dg[1] || dg[6])) { c.tag("redundant(skipped)"); return; }
      std::string ctx = std::string(CKNAME[kind]) + " k=" + str(k) + " shapes=" + num(a) + "," + num(b) + " weight=" + num(w) + " median=" + str((int)med);
      c.site("compound-ctor");
      std::unique_ptr<ADD> d;
      // a weight vector the constructor refuses with the library's exception (first of three weights equal to 1: the conditional proportion
      // of the second component is 0/0) is not an accepted construction; the statement speaks of the state after construction
      try { d = makeCompound(kind, k, kind == C_MIX_GAUSS_SIMPLE ? a - 1 : a, b, w); }
      catch (Exception& e) { c.tag("compound:construction-refused"); return; }
      if (med) { c.site("compound:setMedian"); d->setMedian(true); }
      c.site(fu == 1 ? "compound:setNumberOfCategories" : (fu == 2 || fu >= 4) ? "compound:setParameterValue" : "compound:restrictToConstraint");
      try {
        if (fu == 1) { d->setNumberOfCategories(k == 32 ? 3 : k + 1); ctx += " setNumberOfCategories(" + str(k == 32 ? 3 : k + 1) + ")"; }
        else if (fu == 2) {
          if (kind == C_INV_GAMMA || kind == C_INV_SIMPLE || kind == C_INV_BETA_HIGH) { d->setParameterValue("p", 0.25); ctx += " setParameterValue(p,0.25)"; }
          else { d->setParameterValue("theta1", 0.25); ctx += " setParameterValue(theta1,0.25)"; }
        } else if (fu == 4 || fu == 5) {
          // a parameter notification that does not name a weight: the first (fu 4) / last (fu 5) parameter of a nested distribution
          const ParameterList& pl = d->getParameters(); std::string nm; double nv = 0;
          for (size_t i = 0; i < pl.size(); ++i) { const std::string& n = pl[i].getName(); bool shape = n.find("alpha") != std::string::npos || n.find("beta") != std::string::npos || n.find("lambda") != std::string::npos || n.find("sigma") != std::string::npos;
            if (shape && (nm.empty() || fu == 5)) { nm = n; nv = pl[i].getValue() * 1.5 + 0.25; } }
          if (nm.empty()) { c.tag("compound:no-nested-shape-parameter(skipped)"); return; }
          ParameterList one; one.addParameter(Parameter(nm, nv)); d->matchParametersValues(one); ctx += " matchParametersValues(" + nm + "=" + num(nv) + ")";
        } else if (fu == 3) {
          IntervalConstraint ic(0, kind == C_MIX_BETA_UNIF ? 0.75 : 4, true, true);
          d->restrictToConstraint(ic); ctx += " restrictToConstraint(" + ic.getDescription() + ")";
        }
      } catch (Exception& e) { c.tag("compound:operation-rejected"); return; }
      c.site("audit");
      auditCompound(kind, *d, c, ctx);
      c.nontrivial(); c.tag(std::string("compound:") + ckClass(kind));
      if (idx % 2111 == 5) c.sample(ctx + " -> k=" + str(d->getNumberOfCategories()) + " probs=" + vf::vstr(d->getProbabilities()));
    }, 0.2, 4);
  }
}

// ------------------------------------------------------------------------------------------------------------------------------
// E1: histories on one live object
struct Op { int kind; int a; double v; std::vector<double> vs; };
enum { O_SETP = 0, O_SETALL, O_MATCH, O_SETK, O_SETMED, O_RESTRICT, O_COPY, O_ASSIGN, O_QLOOKUP, O_QINDEP };

struct ContSys : vf::SysBase {
  Fam f; short scheme; bool th;
  std::vector<double> p0;
  std::vector<std::vector<double>> vals;   // per parameter
  std::vector<Iv> ivs_;
  std::vector<Op> ops;
  std::unique_ptr<ADD> A; int prov = 0; size_t kreq; bool med = false;

  ContSys(Fam f_, short s_, bool th_, int variant) : f(f_), scheme(s_), th(th_) {
    switch (f) {
      case F_GAMMA: p0 = {1, 1}; vals = {{0.5, 3}, {3}}; if (th) vals[1].push_back(0.5);
        ivs_ = {{0.5, 2, true}, {0.75, 1.5, true}, {0, 1, true}, {1, INF, true}}; break;
      case F_GAMMAOFF: p0 = {1, 1, 0.5}; vals = {{0.5}, {3}, {3, -1}}; if (th) vals[2].push_back(0);
        ivs_ = {{1, 2.5, true}, {1.25, 2, true}, {0.5, 1.5, true}, {1.5, INF, true}}; break;
      case F_BETA: p0 = {1, 1}; vals = {{0.5, 3}, {0.5}}; if (th) vals[1].push_back(3);
        ivs_ = {{0.1, 0.9, true}, {0.25, 0.75, true}, {0, 0.5, true}, {0.5, 1, true}}; break;
      case F_GAUSS: p0 = {0, 1}; vals = {{0.5, -1}, {3}}; if (th) vals[1].push_back(0.5);
        ivs_ = {{-1, 2, true}, {-0.5, 1, true}, {-INF, 0, true}, {0.5, INF, true}}; break;
      case F_EXPO: p0 = {1}; vals = {{0.5, 3}}; if (th) vals[0].push_back(10);
        ivs_ = {{0.5, 2, true}, {0.75, 1.5, true}, {0, 1, true}, {1, INF, true}}; break;
      case F_TEXP: p0 = {1, 10}; vals = {{3}, {3, 1.5}}; if (th) vals[0].push_back(0.5);
        ivs_ = {{0.5, 2.5, true}, {0.75, 2, true}, {0, 1, true}, {1, 10, true}}; break;
      default: p0 = variant ? std::vector<double>{-1, 1} : std::vector<double>{0, 1}; vals = {};
        ivs_ = variant ? std::vector<Iv>{{-0.5, 0.75, true}, {-0.25, 0.5, true}, {-1, 0, true}, {0.25, 1, true}} : std::vector<Iv>{{0.1, 0.9, true}, {0.25, 0.75, true}, {0, 0.5, true}, {0.5, 1, true}}; break;
    }
    for (size_t j = 0; j < vals.size(); ++j) vals[j].insert(vals[j].begin(), p0[j]);
    int np = NPAR[f];
    for (int j = 0; j < np; ++j) for (double v : vals[j]) ops.push_back({O_SETP, j, v, {}});
    if (np >= 1) {
      std::vector<double> last, second;
      for (int j = 0; j < np; ++j) { last.push_back(vals[j].back()); second.push_back(vals[j][1]); }
      ops.push_back({O_SETALL, 0, 0, last}); ops.push_back({O_SETALL, 0, 0, second});
      ops.push_back({O_MATCH, 1, 0, {vals[0][1]}});        // foreign parameter + first parameter
      ops.push_back({O_MATCH, np, 0, std::vector<double>(p0.begin(), p0.begin() + np)});   // foreign + all parameters back to the initial point
    }
    std::vector<size_t> K = th ? std::vector<size_t>{1, 2, 3, 4, 5, 8, 16, 32} : std::vector<size_t>{1, 2, 4};
    for (size_t k : K) ops.push_back({O_SETK, (int)k, 0, {}});
    ops.push_back({O_SETMED, 0, 0, {}}); ops.push_back({O_SETMED, 1, 0, {}});
    for (int r = 0; r < 4; ++r) ops.push_back({O_RESTRICT, r, 0, {}});
    ops.push_back({O_COPY, 0, 0, {}}); ops.push_back({O_ASSIGN, 0, 0, {}});
    ops.push_back({O_QLOOKUP, 0, 0, {}}); ops.push_back({O_QINDEP, 0, 0, {}});
    kreq = 2;
    A = makeFam(f, kreq, p0.data(), scheme);
  }
  int nops() const { return (int)ops.size(); }
  std::string full(int j) const { return A->getNamespace() + PNAME[f][j]; }
  std::string opname(int i) const {
    const Op& o = ops[i];
    switch (o.kind) {
      case O_SETP: return std::string("setParameterValue(") + PNAME[f][o.a] + "," + num(o.v) + ")";
      case O_SETALL: return "setParametersValues(all=" + vf::vstr(o.vs) + ")";
      case O_MATCH: return "matchParametersValues(Foreign.x + first " + str(o.a) + " parameters=" + vf::vstr(o.vs) + ")";
      case O_SETK: return "setNumberOfCategories(" + str(o.a) + ")";
      case O_SETMED: return "setMedian(" + str(o.a) + ")";
      case O_RESTRICT: return "restrictToConstraint(" + ivs(ivs_[o.a]) + ")";
      case O_COPY: return "A := copy-construct(A)";
      case O_ASSIGN: return "A := (fresh object = A)";
      case O_QLOOKUP: return "query: look-up audit";
      default: return "query: copy-independence audit";
    }
  }
  std::string canon() const { return std::string(FAMNAME[f]) + "|prov=" + str(prov) + "|kreq=" + str(kreq) + "|med=" + str((int)med) + "|" + canonOf(*A); }
  bool accepts(int j, double v) const {
    const Parameter& par = A->parameter(PNAME[f][j]);
    return !par.hasConstraint() || par.getConstraint()->isCorrect(v);
  }
  bool enabled(int i) {
    const Op& o = ops[i];
    switch (o.kind) {
      case O_SETP: return accepts(o.a, o.v);
      case O_SETALL: case O_MATCH: for (size_t j = 0; j < o.vs.size(); ++j) if (!accepts((int)j, o.vs[j])) return false; return true;
      case O_RESTRICT: { double lo = std::max(ivs_[o.a].lo, A->getLowerBound()), hi = std::min(ivs_[o.a].hi, A->getUpperBound()); return lo < hi; }
      default: return true;
    }
  }
  void apply(int i, vf::Case& c) {
    const Op& o = ops[i];
    std::string on = c.muted ? std::string() : opname(i);
    std::string before = c.muted ? std::string() : canon();
    bool medAfter = (o.kind == O_SETMED) ? (bool)o.a : med;
    if (!c.muted) c.site(medAfter ? "discretize:median" : "discretize:mean");
    bool rejected = false;
    try {
      switch (o.kind) {
        case O_SETP: A->setParameterValue(PNAME[f][o.a], o.v); break;
        case O_SETALL: { ParameterList pl; for (size_t j = 0; j < o.vs.size(); ++j) pl.addParameter(Parameter(full((int)j), o.vs[j])); A->setParametersValues(pl); break; }
        case O_MATCH: { ParameterList pl; pl.addParameter(Parameter("Foreign.x", 1.5)); for (size_t j = 0; j < o.vs.size(); ++j) pl.addParameter(Parameter(full((int)j), o.vs[j])); A->matchParametersValues(pl); break; }
        case O_SETK: A->setNumberOfCategories((size_t)o.a); kreq = (size_t)o.a; break;
        case O_SETMED: A->setMedian((bool)o.a); med = (bool)o.a; break;
        case O_RESTRICT: { IntervalConstraint ic = ivc(ivs_[o.a]); A->restrictToConstraint(ic); break; }
        case O_COPY: { std::unique_ptr<ADD> n(dynamic_cast<ADD*>(A->clone())); A = std::move(n); prov = 1; break; }
        case O_ASSIGN: {
          double dp[3] = {2, 2, 0}; if (f == F_UNIF) { dp[0] = -5; dp[1] = 5; } if (f == F_TEXP) dp[1] = 7;
          std::unique_ptr<ADD> n = makeFam(f, 3, dp, scheme); assignFam(f, *n, *A); A = std::move(n); prov = 2; break; }
        default: break;
      }
    } catch (Exception& e) { rejected = true; if (!c.muted) c.tag(std::string("operation-raised(state audited all the same)@") + FAMNAME[f] + (o.kind == O_RESTRICT ? ":restrictToConstraint" : ":other")); }
    if (c.muted) return;
    std::string ctx = std::string(FAMNAME[f]) + " " + schemeName(scheme) + " after [" + on + "] from {" + before + "}";
    AuditOpt ao{kreq, med, scheme, f};
    if (o.kind == O_QLOOKUP) { c.site("lookup"); auditLookup(*A, c, ctx); c.tag("query:lookup"); return; }
    if (o.kind == O_QINDEP) { auditCopies(f, *A, scheme, c, ctx, true); c.tag("query:copy-independence"); return; }
    c.site("audit");
    if ((o.kind == O_COPY || o.kind == O_ASSIGN) && canon().substr(canon().find("|kreq")) != before.substr(before.find("|kreq")))
      c.fail(o.kind == O_COPY ? "copy|copy-constructed-object-differs" : "copy|assigned-object-differs", ctx + " | now " + canon());
    auditPartition(*A, ao, c, ctx);
    c.site("cumulative");
    auditCumulative(*A, c, ctx);
    if (!rejected && canon() != before) c.nontrivial();
    static const char* T[] = {"setParameterValue", "setParametersValues", "matchParametersValues", "setNumberOfCategories", "setMedian", "restrictToConstraint", "copy", "assign", "", ""};
    c.tag(std::string("op:") + T[o.kind]);
  }
};

struct CompSys : vf::SysBase {
  int kind; bool th;
  struct COp { int kind; std::string name; double v; double lo, hi; };
  std::vector<COp> ops;
  std::unique_ptr<ADD> A; int prov = 0;
  CompSys(int kind_, bool th_) : kind(kind_), th(th_) {
    A = makeCompound(kind, 2, kind == C_MIX_GAUSS_SIMPLE ? 0.5 : 1, 1, kind == C_INV_GAMMA || kind == C_INV_SIMPLE || kind == C_INV_BETA_HIGH ? 0.1 : 0.5);
    auto P = [&](const std::string& n, std::vector<double> vs) { for (double v : vs) ops.push_back({O_SETP, n, v, 0, 0}); };
    auto Rr = [&](double lo, double hi) { ops.push_back({O_RESTRICT, "", 0, lo, hi}); };
    std::vector<double> K = th ? std::vector<double>{1, 2, 3, 5, 8, 32} : std::vector<double>{1, 2, 5};
    switch (kind) {
      case C_CONST: P("value", {1, 0.5, 3}); Rr(0, 2); Rr(0.25, 1.5); Rr(0.75, 5); break;
      case C_SIMPLE: P("V1", {0.5, 0.25, 1}); P("V3", {2, 3}); P("theta1", {0.25, 0.5, 1}); P("theta2", {0.375, 0.9}); Rr(0, 4); Rr(0.2, 3.5); break;
      case C_INV_GAMMA: P("p", {0.1, 0.5, 0, 1}); P("Gamma.alpha", {1, 0.5, 3}); P("Gamma.beta", {1, 3}); Rr(0, 2); Rr(0, 1); break;
      case C_INV_SIMPLE: P("p", {0.1, 0.5, 0, 1}); P("Simple.V1", {0.5, 0.25, 1}); P("Simple.theta1", {0.25, 1}); Rr(0, 4); Rr(0, 3); break;
      case C_MIX_GAMMA_EXPO: P("theta1", {0.5, 0.1, 1, 0}); P("1_Gamma.alpha", {1, 0.5, 3}); P("2_Exponential.lambda", {1, 3}); Rr(0, 4); Rr(0.5, 2); break;
      case C_MIX_BETA_UNIF: P("theta1", {0.5, 0.1, 1, 0}); P("1_Beta.alpha", {1, 0.5, 3}); P("1_Beta.beta", {1, 3}); Rr(0.1, 0.9); Rr(0, 0.5); break;
      case C_INV_BETA_HIGH: P("p", {0.1, 0.5, 0, 1}); P("Beta.alpha", {1, 0.5, 3}); P("Beta.beta", {1, 3}); Rr(0, 2); Rr(0.25, 2); break;
      case C_MIX3: P("theta1", {0.5, 0.1, 0}); P("theta2", {0.25, 0.5, 1}); P("1_Gamma.alpha", {1, 3}); P("2_Exponential.lambda", {1, 3}); P("3_Beta.beta", {1, 0.5}); Rr(0, 4); Rr(0.25, 0.75); break;
      default: P("theta1", {0.5, 0.1, 1, 0}); P("1_Gaussian.mu", {0.5, 0, 1}); P("1_Gaussian.sigma", {1, 3}); P("2_Simple.V1", {0.5, 0.25}); Rr(-1, 4); Rr(0.25, 3); break;
    }
    for (double k : K) ops.push_back({O_SETK, "", k, 0, 0});
    ops.push_back({O_SETMED, "", 0, 0, 0}); ops.push_back({O_SETMED, "", 1, 0, 0});
    ops.push_back({O_COPY, "", 0, 0, 0}); ops.push_back({O_ASSIGN, "", 0, 0, 0});
  }
  int nops() const { return (int)ops.size(); }
  std::string opname(int i) const {
    const COp& o = ops[i];
    switch (o.kind) {
      case O_SETP: return "setParameterValue(" + o.name + "," + num(o.v) + ")";
      case O_SETK: return "setNumberOfCategories(" + num(o.v) + ")";
      case O_SETMED: return "setMedian(" + num(o.v) + ")";
      case O_RESTRICT: return "restrictToConstraint([" + num(o.lo) + "," + num(o.hi) + "])";
      case O_COPY: return "A := copy-construct(A)";
      default: return "A := (fresh object = A)";
    }
  }
  std::string canon() const { return std::string(CKNAME[kind]) + "|prov=" + str(prov) + "|" + canonOf(*A); }
  bool enabled(int i) {
    const COp& o = ops[i];
    if (o.kind == O_SETP) { const Parameter& par = A->parameter(o.name); return !par.hasConstraint() || par.getConstraint()->isCorrect(o.v); }
    return true;
  }
  void apply(int i, vf::Case& c) {
    const COp& o = ops[i];
    std::string on = c.muted ? std::string() : opname(i);
    std::string before = c.muted ? std::string() : canon();
    static const char* S[] = {"compound:setParameterValue", "", "", "compound:setNumberOfCategories", "compound:setMedian", "compound:restrictToConstraint", "copy/assign", "copy/assign"};
    if (!c.muted) c.site(S[o.kind]);
    bool rejected = false;
    try {
      switch (o.kind) {
        case O_SETP: A->setParameterValue(o.name, o.v); break;
        case O_SETK: A->setNumberOfCategories((size_t)o.v); break;
        case O_SETMED: A->setMedian(o.v != 0); break;
        case O_RESTRICT: { IntervalConstraint ic(o.lo, o.hi, true, true); A->restrictToConstraint(ic); break; }
        case O_COPY: { std::unique_ptr<ADD> n(dynamic_cast<ADD*>(A->clone())); A = std::move(n); prov = 1; break; }
        default: { std::unique_ptr<ADD> n = makeCompound(kind, 3, 2, 2, 0.25); assignCompound(kind, *n, *A); A = std::move(n); prov = 2; break; }
      }
    } catch (Exception& e) { rejected = true; }
    if (c.muted) return;
    std::string ctx = std::string(CKNAME[kind]) + " after [" + on + "] from {" + before + "}";
    c.site("audit");
    if ((o.kind == O_COPY || o.kind == O_ASSIGN) && canon().substr(canon().find("|", canon().find("|prov") + 1)) != before.substr(before.find("|", before.find("|prov") + 1)))
      c.fail(o.kind == O_COPY ? "copy|copy-constructed-object-differs" : "copy|assigned-object-differs", ctx + " | now " + canon());
    auditCompound(kind, *A, c, ctx);
    if (rejected) c.tag("compound:operation-rejected"); else if (canon() != before) c.nontrivial();
    static const char* T[] = {"setParameterValue", "", "", "setNumberOfCategories", "setMedian", "restrictToConstraint", "copy", "assign"};
    c.tag(std::string("compound-op:") + T[o.kind]);
  }
};

static void hist(vf::Runner& R, Fam f, short scheme, bool th, int variant = 0) {
  ContSys proto(f, scheme, th, variant);
  std::string name = std::string("hist:") + FAMNAME[f] + (variant ? "(-1,1)" : "") + ":" + schemeName(scheme) + ":ops" + str(proto.nops()) + (th ? "t" : "q");
  R.explore(name, 64, proto.nops(), [=]() { return std::unique_ptr<ContSys>(new ContSys(f, scheme, th, variant)); }, 0.15);
}
static void histCompound(vf::Runner& R, int kind, bool th) {
  CompSys proto(kind, th);
  std::string name = std::string("hist:") + CKNAME[kind] + ":ops" + str(proto.nops()) + (th ? "t" : "q");
  R.explore(name, th ? 5 : 4, proto.nops(), [=]() { return std::unique_ptr<CompSys>(new CompSys(kind, th)); }, 0.15);
}

int main(int argc, char** argv) {
  vf::Runner R(argc, argv, "C09");
  vfh::silence();
  bool th = R.thorough();
  for (int f = 0; f < NFAM; ++f) discSpace(R, (Fam)f, th);
  for (int f = 0; f < NFAM; ++f) parentSpace(R, (Fam)f, th);
  compoundSpaces(R, th);
  for (int f = 0; f < NFAM; ++f) {
    hist(R, (Fam)f, 1, th);
    if (th || f == F_BETA) { hist(R, (Fam)f, 2, th); hist(R, (Fam)f, 3, th); }
  }
  hist(R, F_UNIF, 1, th, 1);
  for (int k = 0; k < NCK; ++k) histCompound(R, k, th);
  R.expectSeen("mean-checked");
  R.expectSeen("lookup-checked");
  R.expectSeen("parent-grid-checked");
  R.note("domain taken as the object reports it; class masses and means are judged against the object's own pProb/Expectation relative to the mass of the reported domain");
  R.note("a class value may leave its class interval by (k+1) steps of precision() or of the double grid, whichever is coarser: the boundary adjustment and duplicate separation of the library move values by that much by design");
  R.note("look-up: a value on a bound may be reported in either adjacent class; getCategoryIndex may count from 0 or from 1, but must do so consistently over all test points of a state; the classes being a partition, the two look-ups (by value, by index) must name the same class for every test point, bounds included");
  R.note("signatures of the structural, mass and mean clauses carry the class of the reported domain: regular, tail-domain (mass of one class M/k below 1e-5, the order of the probabilities the library's quantile functions resolve) or zero-mass-domain; every class is judged");
  R.note("domains whose mass is zero in double precision are judged on the structural clauses only (mass and mean clauses are undefined there)");
  R.note("compounds (constant, simple, invariant-mixed, mixture) are judged on class count = class list, p>=0, sum=1, cumulative queries; their bounds are not judged; setNumberOfCategories is not applied to constant/simple (a user-specified class list has no other class count)");
  return R.finish();
}
