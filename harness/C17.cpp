// C17 — writing then reading (formatting then parsing) gives back the same data
// VF-VARIANT: san
// VF-RULE: E2, one space per clause: (numbers) every string of length <= L over {0,1,9,.,-,+,e,E,space} against a reference recogniser for the strict decimal grammar and strtod/exact integer values; (format) toString(x,17)->toDouble for +-m*2^e, m in 6 mantissa patterns, every exponent -1074..1023, and toString(i)->toInt for every 17-bit int and the int32 boundaries; (tokenisers) every string of length <= L over {a,b,",",space,(,),=} x delimiter set x solid x allowEmptyTokens, re-join with the recorded splits at every cursor position; nested tokeniser on every bracket-balanced string against a depth-0 splitter; (key-values) every procedure rendered from a name and an argument map, parsed back, and every changeKeyvals substitution; (wildcards) every pattern over {a,b,*} against every name over {a,b} of length <= 5 for the three matchers vs a DP glob matcher; (variables) every map over keys {a,b,c} with values from words over {x,$(a),$(b),$(c)}; (tables) every table over cells {x,y,1} up to 3x3 and every shape up to 6x6 with distinct cells x name options x separator; (distributions) every family and nested compound x class counts 1..8 x a parameter lattice (gammas also with a shift, fixed or as a parameter), and every mixture of an ordered pair of 13 components (two per family and a shifted gamma, so the same family next to itself with different parameters is included) plain, under an invariant class and inside another mixture, and of every ordered triple of 6 components, written then read. A case is non-trivial when the datum is non-empty / the string belongs to the grammar / the table has >= 2 cells.
// VF-BOUND: all finite doubles -> 6 mantissa patterns x all 2098 binary exponents x sign; all ints -> [-2^16,2^16] and the int32 boundaries; strings of length <= 24 -> all strings of length <= 5|6 (numbers) and <= 5|7 (tokenisers) over 7..9 characters; argument maps over 4|6 keys and 4 values (nested one level); patterns of length <= 6|8; tables up to 3x3 over 3 cell values and every shape to 6x6; distribution parameters on a lattice of 2-4 values per parameter
// VF-LEVEL: bounded-exhaustive comparison of the real code with reference models written for the harness (recogniser, splitter, glob matcher, substitution, table and distribution equality); no sampling
// VF-ASSUME: strtod of the C library is correctly rounded and gives the value of a decimal literal;; the reference recogniser implements the most permissive strict reading -?(D+(.D*)?|.D+)(e[+-]?D+)? for numbers and -?D+(e+?D+)? for integers with the configured decimal/exponent characters;; variable resolution that uses more than 0.05 s of CPU time does not terminate (terminating cases take microseconds)
// VF-TECHNIQUE: exhaustive small-scope enumeration with reference models
// VF-BUDGET_QUICK: 300
// VF-BUDGET_THOROUGH: 2400
#include "C16_common.hpp"
#include <Bpp/Text/TextTools.h>
#include <Bpp/Text/StringTokenizer.h>
#include <Bpp/Text/NestedStringTokenizer.h>
#include <Bpp/Text/KeyvalTools.h>
#include <Bpp/Utils/AttributesTools.h>
#include <Bpp/App/ApplicationTools.h>
#include <Bpp/Io/BppODiscreteDistributionFormat.h>
#include <Bpp/Numeric/DataTable.h>
#include <Bpp/Numeric/ParameterList.h>
#include <Bpp/Numeric/Prob/GammaDiscreteDistribution.h>
#include <Bpp/Numeric/Prob/BetaDiscreteDistribution.h>
#include <Bpp/Numeric/Prob/GaussianDiscreteDistribution.h>
#include <Bpp/Numeric/Prob/ExponentialDiscreteDistribution.h>
#include <Bpp/Numeric/Prob/TruncatedExponentialDiscreteDistribution.h>
#include <Bpp/Numeric/Prob/UniformDiscreteDistribution.h>
#include <Bpp/Numeric/Prob/ConstantDistribution.h>
#include <Bpp/Numeric/Prob/SimpleDiscreteDistribution.h>
#include <Bpp/Numeric/Prob/InvariantMixedDiscreteDistribution.h>
#include <Bpp/Numeric/Prob/MixtureOfDiscreteDistributions.h>
#include <sstream>
#include <climits>
#include <cfloat>
using namespace bpp;
using namespace tx;
using std::string; using std::vector; using std::map;

extern "C" void __asan_on_error() { struct itimerval z; memset(&z, 0, sizeof z); setitimer(ITIMER_PROF, &z, nullptr); }

// =====================================================================================================================
// numbers: reference recogniser
// =====================================================================================================================
static bool isD(char ch) { return ch >= '0' && ch <= '9'; }
// number: -?(D+(.D*)?|.D+)(e[+-]?D+)?   ; on success 'canon' is the same literal with '.' and 'e'
static bool refNumber(const string& s, char dec, char sci, string& canon) {
  size_t i = 0, n = s.size(); canon.clear();
  if (i < n && s[i] == '-') { canon += '-'; ++i; }
  size_t d1 = 0; while (i < n && isD(s[i])) { canon += s[i]; ++i; ++d1; }
  size_t d2 = 0; bool hasDec = false;
  if (i < n && s[i] == dec) { hasDec = true; canon += '.'; ++i; while (i < n && isD(s[i])) { canon += s[i]; ++i; ++d2; } }
  if (d1 == 0 && d2 == 0) return false;
  (void)hasDec;
  if (i < n && s[i] == sci) {
    canon += 'e'; ++i;
    if (i < n && (s[i] == '+' || s[i] == '-')) { canon += s[i]; ++i; }
    size_t d3 = 0; while (i < n && isD(s[i])) { canon += s[i]; ++i; ++d3; }
    if (d3 == 0) return false;
  }
  return i == n;
}
// integer: -?D+(e+?D+)? ; value = mantissa * 10^exponent, 'inRange' tells whether it fits an int
static bool refInteger(const string& s, char sci, long long& val, bool& inRange) {
  size_t i = 0, n = s.size(); bool neg = false;
  if (i < n && s[i] == '-') { neg = true; ++i; }
  size_t d1 = 0; __int128 m = 0; bool big = false;
  while (i < n && isD(s[i])) { m = m * 10 + (s[i] - '0'); if (m > ((__int128)1 << 80)) big = true; ++i; ++d1; }
  if (d1 == 0) return false;
  if (i < n && s[i] == sci) {
    ++i; if (i < n && s[i] == '+') ++i;
    size_t d3 = 0; long e = 0; while (i < n && isD(s[i])) { e = e * 10 + (s[i] - '0'); if (e > 1000) e = 1000; ++i; ++d3; }
    if (d3 == 0) return false;
    for (long k = 0; k < e && !big; ++k) { m *= 10; if (m > ((__int128)1 << 80)) big = true; }
  }
  if (i != n) return false;
  if (neg) m = -m;
  inRange = !big && m >= (__int128)INT_MIN && m <= (__int128)INT_MAX;
  val = inRange ? (long long)m : 0;
  return true;
}

static void numbersSpace(vf::Runner& R, const string& tag, const vector<string>& alpha, int L, char dec, char sci) {
  uint64_t A = alpha.size(), N = countUpTo(A, L);
  string name = "numbers:" + tag + ":letters=" + vf::str(A) + ":len<=" + vf::str(L);
  bool defaults = (dec == '.' && sci == 'e');
  R.space(name, N, [=](uint64_t idx, vf::Case& c) {
    string s = join(seqOf(idx, A), alpha);
    string in = "dec='" + string(1, dec) + "' sci='" + string(1, sci) + "' s=" + show(s);
    string canon; bool num = refNumber(s, dec, sci, canon);
    long long iv = 0; bool inR = false; bool integ = refInteger(s, sci, iv, inR);
    if (num) c.nontrivial();
    c.tag(string("numbers: ") + (num ? (integ ? "integer literal" : "number literal") : "not in the grammar"));
    // recognisers
    c.site("TextTools::isDecimalNumber");
    bool gotN = defaults && (idx % 2) ? TextTools::isDecimalNumber(s) : TextTools::isDecimalNumber(s, dec, sci);
    if (gotN && !num) c.fail("numbers|isDecimalNumber|accepts-a-string-outside-the-grammar", in + ": isDecimalNumber = true, the grammar -?(D+(.D*)?|.D+)(e[+-]?D+)? rejects it");
    if (!gotN && num) c.fail("numbers|isDecimalNumber|rejects-a-number", in + ": isDecimalNumber = false for a literal of the grammar");
    c.site("TextTools::isDecimalInteger");
    bool gotI = TextTools::isDecimalInteger(s, sci);
    if (gotI && !integ) c.fail("numbers|isDecimalInteger|accepts-a-string-outside-the-grammar", in + ": isDecimalInteger = true, the grammar -?D+(e+?D+)? rejects it");
    if (!gotI && integ) c.fail("numbers|isDecimalInteger|rejects-an-integer", in + ": isDecimalInteger = false for a literal of the grammar");
    // conversions: raise exactly outside the grammar, value of the literal inside
    c.site("TextTools::toDouble");
    bool raisedD = false; double dv = 0;
    try { dv = TextTools::toDouble(s, dec, sci); } catch (bpp::Exception&) { raisedD = true; }
    // outside the grammar it must raise; inside the grammar and inside the double range it must return the literal's value
    // (what an out-of-range literal "is" is not defined by the statement: either answer is accepted there)
    if (!gotN && !raisedD) c.fail("numbers|toDouble|returns-although-isDecimalNumber-is-false", in);
    double want = 0; bool judged = false;
    if (num) { errno = 0; char* end = nullptr; want = strtod(canon.c_str(), &end); judged = (errno != ERANGE) && (want == 0 || (std::fabs(want) >= DBL_MIN && std::fabs(want) <= DBL_MAX)); }
    if (num && gotN && judged && raisedD) c.fail("numbers|toDouble|raises-on-a-number", in);
    if (num && !raisedD) {
      if (judged && !(dv == want)) c.fail(defaults ? "numbers|toDouble|value" : "numbers|toDouble|value-with-configured-separators", in + ": toDouble = " + vf::num(dv) + ", the literal denotes " + vf::num(want));
      if (judged) c.tag("numbers: toDouble value judged");
    }
    c.site("TextTools::toInt");
    bool raisedI = false; int ig = 0;
    try { ig = TextTools::toInt(s, sci); } catch (bpp::Exception&) { raisedI = true; }
    if (!gotI && !raisedI) c.fail("numbers|toInt|returns-although-isDecimalInteger-is-false", in);
    if (integ && gotI && inR && raisedI) c.fail("numbers|toInt|raises-on-an-integer", in);
    if (integ && !raisedI && inR) {
      if ((long long)ig != iv) c.fail("numbers|toInt|value", in + ": toInt = " + vf::str(ig) + ", the literal denotes " + vf::str(iv));
      c.tag("numbers: toInt value judged");
    }
    if (idx % 50021 == 17) c.sample(in + " -> number=" + vf::str(gotN) + " integer=" + vf::str(gotI));
  }, 5.0);
}

// =====================================================================================================================
// format -> parse
// =====================================================================================================================
static void formatSpaces(vf::Runner& R) {
  // doubles: sign x mantissa pattern x binary exponent
  const int NE = 1023 + 1074 + 1;
  R.space("format:double:6-mantissas:exp-1074..1023:sign", (uint64_t)2 * 6 * NE, [=](uint64_t idx, vf::Case& c) {
    vector<int> d = vf::digits(idx, {NE, 6, 2});
    int e = d[0] - 1074; int mk = d[1]; bool neg = d[2];
    const double ms[6] = {1.0, 1.0 + DBL_EPSILON, 1.5, 2.0 - DBL_EPSILON, 4.0 / 3.0, 1.1};
    double x = std::ldexp(ms[mk], e); if (neg) x = -x;
    if (!std::isfinite(x)) { c.tag("format: not representable (skipped)"); return; }
    c.nontrivial();
    c.site("TextTools::toString(double,17)");
    string s = TextTools::toString(x, 17);
    c.site("TextTools::toDouble");
    double y = 0; bool raised = false;
    try { y = TextTools::toDouble(s); } catch (bpp::Exception&) { raised = true; }
    c.tag(std::fpclassify(x) == FP_SUBNORMAL ? "format: subnormal double" : (x == 0 ? "format: zero" : "format: normal double"));
    if (raised) c.fail("format|toString(x,17)->toDouble|raised", "x=" + vf::num(x) + " printed as " + show(s) + " is refused by toDouble");
    else if (!(y == x)) c.fail("format|toString(x,17)->toDouble|value", "x=" + vf::num(x) + " printed as " + show(s) + " reads back as " + vf::num(y));
    if (idx % 3001 == 5) c.sample("toString(" + vf::num(x) + ",17)=" + s + " -> " + vf::num(y));
  }, 5.0);
  // ints
  vector<long long> extra = {INT_MAX, INT_MAX - 1, INT_MIN, (long long)INT_MIN + 1, 1000000, -1000000, 2147480000LL, -2147480000LL};
  uint64_t NI = 2 * 65536 + 1;
  R.space("format:int:-65536..65536+int32-boundaries", NI + extra.size(), [=](uint64_t idx, vf::Case& c) {
    long long v = idx < NI ? (long long)idx - 65536 : extra[(size_t)(idx - NI)];
    int x = (int)v; c.nontrivial();
    c.site("TextTools::toString(int)");
    string s = TextTools::toString(x);
    c.site("TextTools::toInt");
    int y = 0; bool raised = false;
    try { y = TextTools::toInt(s); } catch (bpp::Exception&) { raised = true; }
    if (raised) c.fail("format|toString(int)->toInt|raised", "i=" + vf::str(x) + " printed as " + show(s) + " is refused by toInt");
    else if (y != x) c.fail("format|toString(int)->toInt|value", "i=" + vf::str(x) + " printed as " + show(s) + " reads back as " + vf::str(y));
    c.site("TextTools::toDouble");
    try { double z = TextTools::toDouble(s); if (z != (double)x) c.fail("format|toString(int)->toDouble|value", "i=" + vf::str(x) + " reads back as " + vf::num(z)); } catch (bpp::Exception&) { c.fail("format|toString(int)->toDouble|raised", "i=" + vf::str(x)); }
    c.tag("format: int");
  }, 5.0);
}

// =====================================================================================================================
// tokenisers
// =====================================================================================================================
// strip from 'in' a leading and a trailing run of delimiter material and compare with 'r'
static bool equalUpToOuterDelims(const string& in, const string& r, const string& delims, bool solid) {
  // all (p,q): in = P + r + Q with P,Q made of delimiter material
  auto isDelimRun = [&](const string& t) {
    if (!solid) { for (char ch : t) if (delims.find(ch) == string::npos) return false; return true; }
    if (delims.empty()) return t.empty();
    if (t.size() % delims.size()) return false;
    for (size_t i = 0; i < t.size(); i += delims.size()) if (t.compare(i, delims.size(), delims) != 0) return false;
    return true;
  };
  if (r.size() > in.size()) return false;
  for (size_t p = 0; p + r.size() <= in.size(); ++p) {
    if (in.compare(p, r.size(), r) != 0) continue;
    if (isDelimRun(in.substr(0, p)) && isDelimRun(in.substr(p + r.size()))) return true;
  }
  return false;
}

// integers of the strict grammar whose value does or does not fit an int: the value the grammar assigns, or the library's exception
static void intLimitSpace(vf::Runner& R) {
  static const vector<string> IN = {"2147483647", "2147483648", "-2147483648", "-2147483649", "99999999999", "-99999999999", "2147483647e0", "2147483648e0", "-2147483648e0", "-2147483649e0",
                                    "214748364e1", "214748365e1", "-214748364e1", "-214748365e1", "9223372036854775807", "9223372036854775808", "99999999999999999999", "1e9", "1e10", "3e9", "2e9", "0e99", "00000000002147483647"};
  R.space("numbers:toInt:values-at-and-beyond-the-limits-of-int", IN.size(), [=](uint64_t idx, vf::Case& c) {
    const string& t = IN[idx];
    // exact value in 128 bits: mantissa digits times 10^exponent (all entries have at most 20 digits and exponents <= 99)
    size_t e = t.find('e'); string m = t.substr(0, e); int ex = e == string::npos ? 0 : atoi(t.c_str() + e + 1);
    bool neg = m[0] == '-'; __int128 v = 0; bool huge = false;
    for (size_t i = neg ? 1 : 0; i < m.size(); ++i) { v = v * 10 + (m[i] - '0'); if (v > (__int128)1 << 100) huge = true; }
    for (int k = 0; k < ex && v != 0 && !huge; ++k) { v *= 10; if (v > (__int128)1 << 100) huge = true; }
    if (neg) v = -v;
    bool fits = !huge && v >= (__int128)std::numeric_limits<int>::min() && v <= (__int128)std::numeric_limits<int>::max();
    c.site("TextTools::toInt"); c.nontrivial();
    int got = 0; bool raised = false; try { got = TextTools::toInt(t); } catch (bpp::Exception&) { raised = true; }
    c.tag(fits ? "toInt: value fits an int" : "toInt: value beyond the limits of int");
    if (fits && (raised || (__int128)got != v)) c.fail("numbers|toInt|value", "toInt(" + show(t) + ") " + (raised ? string("raised") : "= " + vf::str(got)) + ", the grammar assigns " + vf::str((long long)v));
    if (!fits && !raised) c.fail("numbers|toInt|value-beyond-int-returned-silently", "toInt(" + show(t) + ") = " + vf::str(got) + " although the value does not fit an int");
  });
}
static void tokenizerSpace(vf::Runner& R, int L) {
  vector<string> alpha = {"a", "b", ",", " ", "(", ")", "="};
  vector<string> dl = {",", ", ", ",,"};
  uint64_t A = alpha.size(), N = countUpTo(A, L), O = dl.size() * 4;
  R.space("tokenizer:letters=7:len<=" + vf::str(L) + ":delims={\",\",\", \",\",,\"}:solid:allowEmpty", N * O, [=](uint64_t idx, vf::Case& c) {
    int o = (int)(idx % O); string s = join(seqOf(idx / O, A), alpha);
    const string& d = dl[(size_t)(o / 4)]; bool solid = (o / 2) % 2, ae = o % 2;
    string in = "StringTokenizer(" + show(s) + ", delimiters=" + show(d) + ", solid=" + vf::str(solid) + ", allowEmptyTokens=" + vf::str(ae) + ")";
    c.site("StringTokenizer::StringTokenizer");
    StringTokenizer st(s, d, solid, ae);
    std::deque<string> tok = st.getTokens();
    const std::deque<string>& spl = st.splits_;    // read-only look at the recorded separators
    size_t n = tok.size();
    if (n == 0) { c.tag("tokenizer: no token (re-join not defined)"); return; }   // (unparseRemainingTokens on an empty token list is C16's finding)
    c.nontrivial();
    c.tag(solid ? "tokenizer: solid" : "tokenizer: character set");
    // structure: enough separators recorded; separators are delimiter material; tokens are free of it
    if (spl.size() + 1 < n) { c.fail("tokenizer|splits|fewer-separators-than-gaps", in + ": " + vf::str(n) + " tokens, " + vf::str(spl.size()) + " recorded separators"); return; }
    for (size_t i = 0; i + 1 < n; ++i) {
      bool ok = !spl[i].empty();
      if (!solid) { for (char ch : spl[i]) if (d.find(ch) == string::npos) ok = false; }
      else { if (spl[i].size() % d.size()) ok = false; else for (size_t k = 0; k < spl[i].size(); k += d.size()) if (spl[i].compare(k, d.size(), d) != 0) ok = false; }
      if (!ok) c.fail("tokenizer|splits|separator-is-not-delimiter-material", in + ": separator " + vf::str(i) + " is " + show(spl[i]));
    }
    for (size_t i = 0; i < n; ++i) {
      bool bad = solid ? (tok[i].find(d) != string::npos) : (tok[i].find_first_of(d) != string::npos);
      if (bad) c.fail("tokenizer|tokens|token-contains-delimiter", in + ": token " + vf::str(i) + " is " + show(tok[i]));
      if (!solid && !ae && tok[i].empty()) c.fail("tokenizer|tokens|empty-token-although-not-allowed", in + ": token " + vf::str(i) + " is empty");
    }
    // every non-delimiter character of the input in exactly one token, in order
    {
      string cat; for (auto& t : tok) cat += t;
      string want;
      if (!solid) { for (char ch : s) if (d.find(ch) == string::npos) want += ch; }
      else { size_t i = 0; while (i < s.size()) { if (s.compare(i, d.size(), d) == 0) i += d.size(); else want += s[i++]; } }
      if (cat != want) c.fail("tokenizer|tokens|characters-lost-or-duplicated", in + ": tokens concatenate to " + show(cat) + ", input without delimiters is " + show(want));
    }
    // re-join at every cursor position
    for (size_t k = 0; k < n; ++k) {
      string want; for (size_t i = k; i < n; ++i) { want += tok[i]; if (i + 1 < n) want += spl[i]; }
      c.site("StringTokenizer::unparseRemainingTokens");
      string got = st.unparseRemainingTokens();
      if (got != want) c.fail("tokenizer|unparseRemainingTokens|not-the-rejoined-suffix", in + " after " + vf::str(k) + " nextToken(): got " + show(got) + " expected " + show(want));
      if (k == 0 && !equalUpToOuterDelims(s, got, d, solid)) c.fail("tokenizer|unparseRemainingTokens|rejoin-differs-from-input", in + ": re-join " + show(got) + " is not the input up to a leading/trailing run of delimiters");
      c.site("StringTokenizer::nextToken");
      const string& t = st.nextToken();
      if (t != tok[k]) c.fail("tokenizer|nextToken|order", in + ": token " + vf::str(k));
    }
    if (st.hasMoreToken()) c.fail("tokenizer|hasMoreToken|after-last", in);
    if (idx % 90011 == 3) c.sample(in + " -> " + vf::str(n) + " tokens");
  }, 5.0);
}

// nested tokenizer, solid mode (the delimiter is one string): every token is bracket-balanced, and the tokens put together are the input with
// the delimiter occurrences met at bracket depth 0 (left to right, non-overlapping) taken out -- a bracket group keeps every character
static void nestedSolidSpace(vf::Runner& R, int L) {
  vector<string> alpha = {"a", ",", "(", ")", " "};
  uint64_t A = alpha.size(), N = countUpTo(A, L);
  R.space("nested-tokenizer:solid:letters=5:len<=" + vf::str(L) + ":delims={\", \",\",,\"}:balanced-inputs", N * 2, [=](uint64_t idx, vf::Case& c) {
    int o = (int)(idx % 2); string s = join(seqOf(idx / 2, A), alpha);
    string d = o ? ",," : ", ";
    bool bal = true; { int dp = 0; for (char ch : s) { if (ch == '(') ++dp; if (ch == ')') { if (--dp < 0) bal = false; } } if (dp != 0) bal = false; }
    if (!bal) { c.tag("nested-solid: unbalanced input (outside the clause)"); return; }
    string in = "NestedStringTokenizer(" + show(s) + ", \"(\", \")\", delimiters=" + show(d) + ", solid)";
    string want; { int depth = 0; for (size_t i = 0; i < s.size();) { if (depth == 0 && s.compare(i, d.size(), d) == 0) { i += d.size(); continue; } if (s[i] == '(') ++depth; if (s[i] == ')') --depth; want += s[i]; ++i; } }
    if (want != s) c.nontrivial();
    c.site("NestedStringTokenizer::NestedStringTokenizer");
    vector<string> got; bool raised = false;
    try { NestedStringTokenizer st(s, "(", ")", d, true); while (st.hasMoreToken()) got.push_back(st.nextToken()); } catch (bpp::Exception&) { raised = true; }
    c.tag("nested-solid: balanced input");
    if (raised) { c.fail("nested-solid|balanced-input|raised", in + ": raised on a bracket-balanced string"); return; }
    string cat; for (auto& t : got) { cat += t; int dp = 0; bool b = true; for (char ch : t) { if (ch == '(') ++dp; if (ch == ')') { if (--dp < 0) b = false; } } if (dp != 0) b = false;
      if (!b) c.fail("nested-solid|token|split-inside-brackets", in + ": token " + show(t) + " has unbalanced brackets"); }
    if (cat != want) c.fail("nested-solid|tokens|characters-lost-or-added", in + ": tokens " + vf::vstr(got) + " put together give " + show(cat) + ", expected " + show(want));
  }, 5.0);
}
// nested tokenizer: reference = split at delimiter characters met at bracket depth 0, dropping empty pieces
static bool balanced(const string& s) { int d = 0; for (char ch : s) { if (ch == '(') ++d; if (ch == ')') { if (--d < 0) return false; } } return d == 0; }
static void nestedSpace(vf::Runner& R, int L) {
  vector<string> alpha = {"a", ",", "(", ")", " ", "="};
  uint64_t A = alpha.size(), N = countUpTo(A, L);
  R.space("nested-tokenizer:letters=6:len<=" + vf::str(L) + ":delims={\",\",\", \"}:balanced-inputs", N * 2, [=](uint64_t idx, vf::Case& c) {
    int o = (int)(idx % 2); string s = join(seqOf(idx / 2, A), alpha);
    string d = o ? ", " : ",";
    if (!balanced(s)) { c.tag("nested: unbalanced input (outside the clause)"); return; }
    string in = "NestedStringTokenizer(" + show(s) + ", \"(\", \")\", delimiters=" + show(d) + ")";
    vector<string> want; { string cur; int depth = 0; bool any = false;
      for (char ch : s) { if (ch == '(') ++depth; if (ch == ')') --depth;
        if (depth == 0 && ch != ')' && d.find(ch) != string::npos) { if (any) want.push_back(cur); cur.clear(); any = false; }
        else if (depth == 0 && ch == ')' && d.find(ch) != string::npos) { cur += ch; any = true; }
        else { cur += ch; any = true; } }
      if (any) want.push_back(cur); }
    if (want.size() > 1) c.nontrivial();
    c.site("NestedStringTokenizer::NestedStringTokenizer");
    vector<string> got; bool raised = false;
    try { NestedStringTokenizer st(s, "(", ")", d); while (st.hasMoreToken()) got.push_back(st.nextToken()); } catch (bpp::Exception&) { raised = true; }
    c.tag("nested: balanced input");
    if (raised) { c.fail("nested|balanced-input|raised", in + ": raised on a bracket-balanced string"); return; }
    for (auto& t : got) if (!balanced(t)) c.fail("nested|token|split-inside-brackets", in + ": token " + show(t) + " has unbalanced brackets");
    if (got != want) c.fail("nested|tokens|differ-from-depth-0-split", in + ": got " + vf::vstr(got) + " expected " + vf::vstr(want));
    if (idx % 30011 == 3) c.sample(in + " -> " + vf::vstr(got));
  }, 5.0);
}

// =====================================================================================================================
// key-value procedures
// =====================================================================================================================
static void keyvalSpace(vf::Runner& R, int nkeys) {
  const vector<string> keys = {"a", "b", "c", "d", "e", "k6"};
  const vector<string> vals = {"1", "x", "g(y=2)", "(1,2)"};
  const vector<string> names = {"f", "g2"};
  // entry choice per key: absent or one of the 4 values; style: 0 "k=v,k=v" ascending, 1 descending, 2 ", " separated with blanks around '='?? (only blanks after the comma)
  uint64_t M = 1; for (int i = 0; i < nkeys; ++i) M *= 5;
  const int NSTYLE = 4, NCH = 5;   // rendering styles (3: blanks after the comma and around '='); change sets
  R.space("keyval:keys<=" + vf::str(nkeys) + ":values=4:names=2:styles=4:changes=5", M * 2 * NSTYLE * NCH, [=](uint64_t idx, vf::Case& c) {
    vector<int> dd = vf::digits(idx, {NCH, NSTYLE, 2, (int)M});
    int ch = dd[0], style = dd[1]; const string& name = names[(size_t)dd[2]]; uint64_t m = (uint64_t)dd[3];
    map<string, string> args; vector<string> order;
    for (int i = 0; i < nkeys; ++i) { int v = (int)(m % 5); m /= 5; if (v) { args[keys[(size_t)i]] = vals[(size_t)(v - 1)]; order.push_back(keys[(size_t)i]); } }
    if (style == 1) std::reverse(order.begin(), order.end());
    string body; for (size_t i = 0; i < order.size(); ++i) { if (i) body += (style >= 2 ? ", " : ","); body += order[i] + (style == 3 ? " = " : "=") + args[order[i]]; }
    string desc = name + "(" + body + ")";
    if (style == 2 && args.empty()) desc = name;   // a procedure without arguments may be written without brackets
    if (!args.empty()) c.nontrivial();
    c.tag("keyval: " + vf::str(args.size()) + " argument(s)");
    // parse back
    c.site("KeyvalTools::parseProcedure");
    string gname; map<string, string> gargs; bool raised = false; string what;
    try { KeyvalTools::parseProcedure(desc, gname, gargs); } catch (bpp::Exception& e) { raised = true; what = e.what(); }
    if (raised) { c.fail("keyval|parseProcedure|raised-on-rendered-procedure", "parseProcedure(" + show(desc) + ") raised: " + what.substr(0, 100)); return; }
    if (gname != name) c.fail("keyval|parseProcedure|name", "parseProcedure(" + show(desc) + ") name " + show(gname));
    if (gargs != args) { string g; for (auto& kv : gargs) g += kv.first + "->" + kv.second + ";"; c.fail("keyval|parseProcedure|arguments", "parseProcedure(" + show(desc) + ") gave {" + g + "}"); }
    // substitution: new values for a chosen set of keys (one of them never present)
    map<string, string> nk;
    switch (ch) { case 0: break; case 1: nk["a"] = "9"; break; case 2: nk["b"] = "h(q=1,r=2)"; nk["zz"] = "7"; break; case 3: nk["a"] = "(3,4)"; nk["c"] = "9"; break; default: nk["zz"] = "7"; }
    c.site("KeyvalTools::changeKeyvals");
    string nd; raised = false;
    try { nd = KeyvalTools::changeKeyvals(desc, nk); } catch (bpp::Exception& e) { raised = true; what = e.what(); }
    if (raised) { c.fail("keyval|changeKeyvals|raised-on-rendered-procedure", "changeKeyvals(" + show(desc) + ") raised: " + what.substr(0, 100)); return; }
    map<string, string> want = args; for (auto& kv : nk) if (want.count(kv.first)) want[kv.first] = kv.second;
    c.site("KeyvalTools::parseProcedure");
    string n2; map<string, string> a2; raised = false;
    try { KeyvalTools::parseProcedure(nd, n2, a2); } catch (bpp::Exception& e) { raised = true; what = e.what(); }
    if (raised) c.fail("keyval|changeKeyvals|result-does-not-parse", "changeKeyvals(" + show(desc) + ") = " + show(nd) + " raised: " + what.substr(0, 100));
    else {
      if (n2 != name) c.fail("keyval|changeKeyvals|name", "changeKeyvals(" + show(desc) + ") = " + show(nd));
      if (a2 != want) { string g; for (auto& kv : a2) g += kv.first + "->" + kv.second + ";"; c.fail("keyval|changeKeyvals|changes-not-exactly-the-named-keys", "changeKeyvals(" + show(desc) + ", {" + [&] { string t; for (auto& kv : nk) t += kv.first + "->" + kv.second + ";"; return t; } () + "}) = " + show(nd) + " parses to {" + g + "}"); }
    }
    // the argument list on its own
    c.site("KeyvalTools::multipleKeyvals");
    map<string, string> a3; raised = false;
    try { KeyvalTools::multipleKeyvals(body, a3); } catch (bpp::Exception& e) { raised = true; what = e.what(); }
    if (raised) c.fail("keyval|multipleKeyvals|raised-on-rendered-arguments", "multipleKeyvals(" + show(body) + ") raised: " + what.substr(0, 100));
    else if (a3 != args) c.fail("keyval|multipleKeyvals|arguments", "multipleKeyvals(" + show(body) + ")");
    if (idx % 9001 == 7) c.sample(desc + " -> name " + gname + ", " + vf::str(gargs.size()) + " args; changed: " + nd);
  }, 5.0);
}

// keys and values that contain each other as text, and empty values: a substitution has to find the value behind the '=', not the first
// occurrence of its text
static void keyvalOverlapSpace(vf::Runner& R) {
  const int nkeys = 4;
  const vector<string> keys = {"a", "ab", "b", "theta1"};
  const vector<string> vals = {"a", "b", "1", "", "ab"};
  const vector<string> names = {"f", "g2"};
  // entry choice per key: absent or one of the 4 values; style: 0 "k=v,k=v" ascending, 1 descending, 2 ", " separated with blanks around '='?? (only blanks after the comma)
  uint64_t M = 1; for (int i = 0; i < nkeys; ++i) M *= 6;
  const int NSTYLE = 4, NCH = 8;   // rendering styles (3: blanks after the comma and around '='); change sets
  R.space("keyval:overlapping-keys4:values=5(one empty):names=2:styles=4:changes=8", M * 2 * NSTYLE * NCH, [=](uint64_t idx, vf::Case& c) {
    vector<int> dd = vf::digits(idx, {NCH, NSTYLE, 2, (int)M});
    int ch = dd[0], style = dd[1]; const string& name = names[(size_t)dd[2]]; uint64_t m = (uint64_t)dd[3];
    map<string, string> args; vector<string> order;
    for (int i = 0; i < nkeys; ++i) { int v = (int)(m % 6); m /= 6; if (v) { args[keys[(size_t)i]] = vals[(size_t)(v - 1)]; order.push_back(keys[(size_t)i]); } }
    if (style == 1) std::reverse(order.begin(), order.end());
    string body; for (size_t i = 0; i < order.size(); ++i) { if (i) body += (style >= 2 ? ", " : ","); body += order[i] + (style == 3 ? " = " : "=") + args[order[i]]; }
    string desc = name + "(" + body + ")";
    if (style == 2 && args.empty()) desc = name;   // a procedure without arguments may be written without brackets
    if (!args.empty()) c.nontrivial();
    c.tag("keyval-overlap: " + vf::str(args.size()) + " argument(s)");
    // parse back
    c.site("KeyvalTools::parseProcedure");
    string gname; map<string, string> gargs; bool raised = false; string what;
    try { KeyvalTools::parseProcedure(desc, gname, gargs); } catch (bpp::Exception& e) { raised = true; what = e.what(); }
    if (raised) { c.fail("keyval|parseProcedure|raised-on-rendered-procedure", "parseProcedure(" + show(desc) + ") raised: " + what.substr(0, 100)); return; }
    if (gname != name) c.fail("keyval|parseProcedure|name", "parseProcedure(" + show(desc) + ") name " + show(gname));
    if (gargs != args) { string g; for (auto& kv : gargs) g += kv.first + "->" + kv.second + ";"; c.fail("keyval|parseProcedure|arguments", "parseProcedure(" + show(desc) + ") gave {" + g + "}"); }
    // substitution: new values for a chosen set of keys (one of them never present)
    map<string, string> nk;
    nk[keys[(size_t)(ch / 2)]] = (ch % 2) ? "a" : "Z9";
    c.site("KeyvalTools::changeKeyvals");
    string nd; raised = false;
    try { nd = KeyvalTools::changeKeyvals(desc, nk); } catch (bpp::Exception& e) { raised = true; what = e.what(); }
    if (raised) { c.fail("keyval|changeKeyvals|raised-on-rendered-procedure", "changeKeyvals(" + show(desc) + ") raised: " + what.substr(0, 100)); return; }
    map<string, string> want = args; for (auto& kv : nk) if (want.count(kv.first)) want[kv.first] = kv.second;
    c.site("KeyvalTools::parseProcedure");
    string n2; map<string, string> a2; raised = false;
    try { KeyvalTools::parseProcedure(nd, n2, a2); } catch (bpp::Exception& e) { raised = true; what = e.what(); }
    if (raised) c.fail("keyval|changeKeyvals|result-does-not-parse", "changeKeyvals(" + show(desc) + ") = " + show(nd) + " raised: " + what.substr(0, 100));
    else {
      if (n2 != name) c.fail("keyval|changeKeyvals|name", "changeKeyvals(" + show(desc) + ") = " + show(nd));
      if (a2 != want) { string g; for (auto& kv : a2) g += kv.first + "->" + kv.second + ";"; c.fail("keyval|changeKeyvals|changes-not-exactly-the-named-keys", "changeKeyvals(" + show(desc) + ", {" + [&] { string t; for (auto& kv : nk) t += kv.first + "->" + kv.second + ";"; return t; } () + "}) = " + show(nd) + " parses to {" + g + "}"); }
    }
    // the argument list on its own
    c.site("KeyvalTools::multipleKeyvals");
    map<string, string> a3; raised = false;
    try { KeyvalTools::multipleKeyvals(body, a3); } catch (bpp::Exception& e) { raised = true; what = e.what(); }
    if (raised) c.fail("keyval|multipleKeyvals|raised-on-rendered-arguments", "multipleKeyvals(" + show(body) + ") raised: " + what.substr(0, 100));
    else if (a3 != args) c.fail("keyval|multipleKeyvals|arguments", "multipleKeyvals(" + show(body) + ")");
    if (idx % 9001 == 7) c.sample(desc + " -> name " + gname + ", " + vf::str(gargs.size()) + " args; changed: " + nd);
  }, 5.0);
}

// =====================================================================================================================
// wildcards
// =====================================================================================================================
static bool globMatch(const string& p, const string& s) {
  size_t n = p.size(), m = s.size();
  vector<vector<char>> dp(n + 1, vector<char>(m + 1, 0));
  dp[0][0] = 1;
  for (size_t i = 1; i <= n; ++i) {
    if (p[i - 1] == '*') { dp[i][0] = dp[i - 1][0]; for (size_t j = 1; j <= m; ++j) dp[i][j] = dp[i - 1][j] || dp[i][j - 1]; }
    else for (size_t j = 1; j <= m; ++j) dp[i][j] = dp[i - 1][j - 1] && p[i - 1] == s[j - 1];
  }
  return dp[n][m];
}
static void wildcardSpace(vf::Runner& R, int L) {
  vector<string> alpha = {"a", "b", "*"};
  vector<string> names; { vector<string> ab = {"a", "b"}; for (uint64_t i = 0; i < countUpTo(2, 5); ++i) names.push_back(join(seqOf(i, 2), ab)); }
  uint64_t N = countUpTo(3, L);
  R.space("wildcard:patterns{a,b,*}len<=" + vf::str(L) + ":names{a,b}len<=5:matchers=3", N * 3, [=](uint64_t idx, vf::Case& c) {
    int api = (int)(idx % 3); string p = join(seqOf(idx / 3, 3), alpha);
    const char* apin[] = {"ApplicationTools::matchingParameters(pattern,map)", "ApplicationTools::matchingParameters(pattern,vector)", "ParameterList::getMatchingParameterNames"};
    vector<string> got;
    c.site(apin[api]);
    if (api == 0) { map<string, string> m; for (auto& n : names) m[n] = "1"; got = ApplicationTools::matchingParameters(p, m); }
    else if (api == 1) { vector<string> v = names; got = ApplicationTools::matchingParameters(p, v); }
    else { ParameterList pl; for (auto& n : names) if (!n.empty()) pl.addParameter(Parameter(n, 0.)); got = pl.getMatchingParameterNames(p); }
    std::set<string> gs(got.begin(), got.end()), ws;
    for (auto& n : names) if ((api != 2 || !n.empty()) && globMatch(p, n)) ws.insert(n);
    if (p.find('*') != string::npos) c.nontrivial();
    c.tag(ws.empty() ? "wildcard: no name matches" : "wildcard: some names match");
    if (gs.size() != got.size()) c.fail(string("wildcard|") + apin[api] + "|name-returned-twice", "pattern " + show(p));
    if (gs != ws) {
      string extra, missing; for (auto& n : gs) if (!ws.count(n)) extra += show(n) + " "; for (auto& n : ws) if (!gs.count(n)) missing += show(n) + " ";
      // the two directions are different clauses of "agrees with glob semantics"
      if (!extra.empty()) c.fail(string("wildcard|") + apin[api] + "|matches-a-name-glob-rejects", "pattern " + show(p) + " wrongly matches " + extra);
      if (!missing.empty()) c.fail(string("wildcard|") + apin[api] + "|misses-a-name-glob-accepts", "pattern " + show(p) + " does not match " + missing);
    }
    if (idx % 1009 == 3) c.sample(string(apin[api]) + " pattern " + show(p) + " -> " + vf::str(got.size()) + " of " + vf::str(names.size()) + " names");
  }, 5.0);
}

// =====================================================================================================================
// variables
// =====================================================================================================================
static void variableSpace(vf::Runner& R, bool th) {
  vector<string> w = {"x", "$(a)", "$(b)", "$(c)"};
  vector<string> values; for (uint64_t i = 0; i < countUpTo(4, 2); ++i) values.push_back(join(seqOf(i, 4), w));   // 21 values
  const int V = (int)values.size() + 1;   // + absent
  // quick: the third key only takes absent | "x" | "$(a)" (a third of all maps does not terminate on the unchanged tree; each costs a worker)
  const int V3 = th ? V : 3;
  R.space(string("variables:keys{a,b,c}:values=words<=2 over{x,$(a),$(b),$(c)}+absent") + (th ? "" : ":c in{absent,x,$(a)}"), (uint64_t)V * V * V3, [=](uint64_t idx, vf::Case& c) {
    vector<int> d = vf::digits(idx, {V, V, V3});
    const char* ks[] = {"a", "b", "c"};
    map<string, string> am; for (int i = 0; i < 3; ++i) if (d[i]) am[ks[i]] = values[(size_t)(d[i] - 1)];
    string in = "{"; for (auto& kv : am) in += kv.first + "=" + kv.second + "; "; in += "}";
    // reference: acyclic and all references defined -> full substitution
    std::function<int(const string&, std::set<string>&)> cyc = [&](const string& k, std::set<string>& path) -> int {   // 0 ok, 1 cycle, 2 undefined
      auto it = am.find(k); if (it == am.end()) return 2; if (path.count(k)) return 1; path.insert(k);
      int r = 0; const string& v = it->second; size_t p = 0;
      while ((p = v.find("$(", p)) != string::npos) { size_t q = v.find(")", p); string ref = v.substr(p + 2, q - p - 2); int rr = cyc(ref, path); if (rr) r = rr == 1 ? 1 : (r ? r : 2); p = q; }
      path.erase(k); return r; };
    bool clean = true; bool anyRef = false;
    for (auto& kv : am) { std::set<string> path; if (cyc(kv.first, path)) clean = false; if (kv.second.find("$(") != string::npos) anyRef = true; }
    std::function<string(const string&)> expand = [&](const string& v) { string r; size_t p = 0; while (p < v.size()) { if (v.compare(p, 2, "$(") == 0) { size_t q = v.find(")", p); r += expand(am.at(v.substr(p + 2, q - p - 2))); p = q + 1; } else r += v[p++]; } return r; };
    if (anyRef) c.nontrivial();
    c.tag(clean ? "variables: acyclic, all references defined" : "variables: cyclic or undefined reference");
    map<string, string> want; if (clean) for (auto& kv : am) want[kv.first] = expand(kv.second);
    map<string, string> got = am;
    c.site("AttributesTools::resolveVariables");
    armCpu(0.05);
    bool raised = false;
    try { AttributesTools::resolveVariables(got); } catch (bpp::Exception&) { raised = true; }
    armCpu(0);
    if (raised) { c.fail("variables|resolveVariables|raised-on-well-formed-references", in); return; }
    for (auto& kv : got) for (auto& k : am) if (kv.second.find("$(" + k.first + ")") != string::npos)
      c.fail("variables|resolveVariables|resolvable-reference-remains", in + ": after resolution " + kv.first + "=" + show(kv.second));
    if (clean && got != want) { string g; for (auto& kv : got) g += kv.first + "=" + kv.second + "; "; c.fail("variables|resolveVariables|value-differs-from-substitution", in + " resolved to {" + g + "}"); }
    map<string, string> again = got;
    c.site("AttributesTools::resolveVariables(second pass)");
    armCpu(0.05);
    try { AttributesTools::resolveVariables(again); } catch (bpp::Exception&) {}
    armCpu(0);
    if (again != got) c.fail("variables|resolveVariables|not-a-fixed-point", in + ": a second pass changes the map");
    if (idx % 997 == 3) { string g; for (auto& kv : got) g += kv.first + "=" + kv.second + "; "; c.sample(in + " -> {" + g + "}"); }
  }, 5.0, 64);
}

// =====================================================================================================================
// tables
// =====================================================================================================================
struct TableSpec { size_t nr, nc; vector<string> cells; int names; /*0 none,1 columns,2 columns+rows*/ string sep; bool align; };
static void tableCase(const TableSpec& t, vf::Case& c, const string& label) {
  DataTable dt(t.nr, t.nc);
  for (size_t i = 0; i < t.nr; ++i) for (size_t j = 0; j < t.nc; ++j) dt(i, j) = t.cells[i * t.nc + j];
  vector<string> cn, rn;
  if (t.names >= 1) { for (size_t j = 0; j < t.nc; ++j) cn.push_back("C" + vf::str(j + 1)); dt.setColumnNames(cn); }
  if (t.names == 2) { for (size_t i = 0; i < t.nr; ++i) rn.push_back("R" + vf::str(i + 1)); dt.setRowNames(rn); }
  c.site("DataTable::write");
  std::ostringstream out; DataTable::write(dt, out, t.sep, t.align);
  string text = out.str();
  string in = label + " names=" + (t.names == 0 ? "none" : t.names == 1 ? "columns" : "columns+rows") + " sep=" + show(t.sep) + " alignHeaders=" + vf::str(t.align) + " text=" + show(text);
  size_t lines = (size_t)std::count(text.begin(), text.end(), '\n');
  if (lines < 2) { c.tag("table: fewer than two text lines (outside the clause)"); return; }
  if (t.nr * t.nc >= 2) c.nontrivial();
  c.tag(t.names == 0 ? "table: no names" : t.names == 1 ? "table: column names" : "table: column and row names");
  c.site("DataTable::read");
  std::istringstream is(text);
  std::unique_ptr<DataTable> rd; string what;
  try { rd = DataTable::read(is, t.sep, t.names >= 1, -1); } catch (bpp::Exception& e) { what = e.what(); }
  if (!rd) { c.fail("table|read|raised-on-written-table", in + ": " + what.substr(0, 120)); return; }
  if (rd->getNumberOfRows() != t.nr || rd->getNumberOfColumns() != t.nc) { c.fail("table|read|shape", in + ": read back " + vf::str(rd->getNumberOfRows()) + "x" + vf::str(rd->getNumberOfColumns())); return; }
  if (rd->hasColumnNames() != (t.names >= 1)) c.fail("table|read|column-names-presence", in);
  else if (t.names >= 1 && rd->getColumnNames() != cn) c.fail("table|read|column-names", in + ": " + vf::vstr(rd->getColumnNames()));
  if (rd->hasRowNames() != (t.names == 2)) c.fail("table|read|row-names-presence", in);
  else if (t.names == 2 && rd->getRowNames() != rn) c.fail("table|read|row-names", in + ": " + vf::vstr(rd->getRowNames()));
  for (size_t i = 0; i < t.nr; ++i) for (size_t j = 0; j < t.nc; ++j) if ((*rd)(i, j) != t.cells[i * t.nc + j]) { c.fail("table|read|cells", in + ": cell (" + vf::str(i) + "," + vf::str(j) + ") = " + show((*rd)(i, j))); return; }
}
static void tableSpaces(vf::Runner& R, bool th) {
  const vector<string> seps = {",", "\t", ";"};
  const vector<string> cv = {"x", "y", "1"};
  // (a) every table over {x,y,1} with nr,nc <= 3 (quick: nr*nc <= 6)
  struct Shape { size_t nr, nc; uint64_t count, offset; };
  vector<Shape> sh; uint64_t tot = 0;
  for (size_t nr = 1; nr <= 3; ++nr) for (size_t nc = 1; nc <= 3; ++nc) { if (!th && nr * nc > 6) continue; uint64_t k = 1; for (size_t i = 0; i < nr * nc; ++i) k *= 3; sh.push_back({nr, nc, k, tot}); tot += k; }
  const uint64_t OPT = 3 * 3 * 2;
  R.space(string("table:cells{x,y,1}:shapes<=3x3") + (th ? "" : ":cells<=6") + ":names=3:sep=3:align=2", tot * OPT, [=](uint64_t idx, vf::Case& c) {
    uint64_t o = idx % OPT, k = idx / OPT; size_t si = 0; while (si + 1 < sh.size() && k >= sh[si + 1].offset) ++si;
    uint64_t m = k - sh[si].offset; TableSpec t; t.nr = sh[si].nr; t.nc = sh[si].nc;
    for (size_t i = 0; i < t.nr * t.nc; ++i) { t.cells.push_back(cv[(size_t)(m % 3)]); m /= 3; }
    t.names = (int)(o % 3); t.sep = seps[(size_t)((o / 3) % 3)]; t.align = (o / 9) % 2;
    string lab = vf::str(t.nr) + "x" + vf::str(t.nc) + " cells " + vf::vstr(t.cells);
    tableCase(t, c, lab);
    if (idx % 20011 == 3) c.sample(lab + (c.failed ? " -> violation" : " -> identical after write+read"));
  }, 5.0);
  // (b) every shape up to 6x6 with distinct cells r<i>c<j>
  R.space("table:distinct-cells:shapes<=6x6:names=3:sep=3:align=2", 36 * OPT, [=](uint64_t idx, vf::Case& c) {
    uint64_t o = idx % OPT, k = idx / OPT; TableSpec t; t.nr = (size_t)(k / 6) + 1; t.nc = (size_t)(k % 6) + 1;
    for (size_t i = 0; i < t.nr; ++i) for (size_t j = 0; j < t.nc; ++j) t.cells.push_back("r" + vf::str(i + 1) + "c" + vf::str(j + 1));
    t.names = (int)(o % 3); t.sep = seps[(size_t)((o / 3) % 3)]; t.align = (o / 9) % 2;
    tableCase(t, c, vf::str(t.nr) + "x" + vf::str(t.nc) + " distinct cells");
  }, 5.0);
}

// =====================================================================================================================
// distributions
// =====================================================================================================================
typedef std::unique_ptr<DiscreteDistributionInterface> DP;
struct DistSpec { string label; std::function<DP()> make; };
static vector<DistSpec> distSpecs() {
  vector<DistSpec> v;
  for (size_t n = 1; n <= 8; ++n) {
    for (double a : {0.5, 1., 2.5, 0.1234567891}) for (double b : {0.5, 1., 2.}) v.push_back({"Gamma(n=" + vf::str(n) + ",alpha=" + vf::str(a) + ",beta=" + vf::str(b) + ")", [=] { return DP(new GammaDiscreteDistribution(n, a, b)); }});
    // shifted gammas: the shift as a constructor constant and as a parameter
    for (double off : {1.5, -1.}) for (int po = 0; po < 2; ++po) v.push_back({"Gamma(n=" + vf::str(n) + ",alpha=2.5,beta=1," + (po ? "parameter " : "fixed ") + "offset=" + vf::str(off) + ")", [=] { return DP(new GammaDiscreteDistribution(n, 2.5, 1., 0.05, 0.05, po == 1, off)); }});
    for (double a : {0.5, 2., 3.}) for (double b : {0.5, 2., 3.}) v.push_back({"Beta(n=" + vf::str(n) + ",alpha=" + vf::str(a) + ",beta=" + vf::str(b) + ")", [=] { return DP(new BetaDiscreteDistribution(n, a, b)); }});
    for (double m : {-1., 0., 2.5}) for (double s : {0.5, 1., 2.}) v.push_back({"Gaussian(n=" + vf::str(n) + ",mu=" + vf::str(m) + ",sigma=" + vf::str(s) + ")", [=] { return DP(new GaussianDiscreteDistribution(n, m, s)); }});
    for (double l : {0.5, 1., 4.}) v.push_back({"Exponential(n=" + vf::str(n) + ",lambda=" + vf::str(l) + ")", [=] { return DP(new ExponentialDiscreteDistribution(n, l)); }});
    for (double l : {0.5, 2.}) for (double tp : {1., 3.}) v.push_back({"TruncExponential(n=" + vf::str(n) + ",lambda=" + vf::str(l) + ",tp=" + vf::str(tp) + ")", [=] { return DP(new TruncatedExponentialDiscreteDistribution(n, l, tp)); }});
    for (int u = 0; u < 2; ++u) { double lo = u ? -2. : 0., hi = u ? 3.5 : 1.; v.push_back({"Uniform(n=" + vf::str(n) + ",begin=" + vf::str(lo) + ",end=" + vf::str(hi) + ")", [=] { return DP(new UniformDiscreteDistribution((unsigned)n, lo, hi)); }}); }
    // Simple with n classes: values 0.5, 1.5, ...; probabilities proportional to 1..n rounded to a multiple of 1/64 (exact in 6 decimals)
    { vector<double> vals, pr; double left = 1.; for (size_t i = 0; i < n; ++i) { vals.push_back(0.5 + (double)i); double p = (i + 1 == n) ? left : std::floor(64. * (double)(i + 1) / (double)(n * (n + 1) / 2)) / 64.; if (i + 1 < n && p <= 0) p = 1. / 64.; pr.push_back(p); left -= p; }
      v.push_back({"Simple(" + vf::str(n) + " classes)", [=] { return DP(new SimpleDiscreteDistribution(vals, pr)); }}); }
    // compounds
    for (double p : {0.125, 0.25}) {
      v.push_back({"Invariant(Gamma(n=" + vf::str(n) + ",alpha=0.5,beta=2),p=" + vf::str(p) + ")", [=] { return DP(new InvariantMixedDiscreteDistribution(DP(new GammaDiscreteDistribution(n, 0.5, 2.)), p, 0.000001)); }});
      v.push_back({"Invariant(Exponential(n=" + vf::str(n) + ",lambda=2),p=" + vf::str(p) + ")", [=] { return DP(new InvariantMixedDiscreteDistribution(DP(new ExponentialDiscreteDistribution(n, 2.)), p, 0.000001)); }});
    }
    v.push_back({"Mixture(0.25*Gamma(n=" + vf::str(n) + ",2.5,1)+0.75*Exponential(n=2,4))", [=] { vector<DP> ds; ds.emplace_back(new GammaDiscreteDistribution(n, 2.5, 1.)); ds.emplace_back(new ExponentialDiscreteDistribution(2, 4.)); return DP(new MixtureOfDiscreteDistributions(ds, {0.25, 0.75})); }});
    v.push_back({"Mixture(0.5*Constant(2)+0.5*Beta(n=" + vf::str(n) + ",2,3))", [=] { vector<DP> ds; ds.emplace_back(new ConstantDistribution(2.)); ds.emplace_back(new BetaDiscreteDistribution(n, 2., 3.)); return DP(new MixtureOfDiscreteDistributions(ds, {0.5, 0.5})); }});
  }
  for (double x : {0., 1., 2.5, -3.}) v.push_back({"Constant(" + vf::str(x) + ")", [=] { return DP(new ConstantDistribution(x)); }});
  // mixtures of every ordered pair / triple of components from a list with two members per family (same family next to each other with
  // different parameters included), plain, under an invariant class and inside another mixture
  {
    struct Leaf { string label; std::function<DP()> make; };
    vector<Leaf> lf = {
      {"Gamma(n=2,0.5,0.5)", [] { return DP(new GammaDiscreteDistribution(2, 0.5, 0.5)); }}, {"Gamma(n=2,4,2)", [] { return DP(new GammaDiscreteDistribution(2, 4., 2.)); }},
      {"Constant(1)", [] { return DP(new ConstantDistribution(1.)); }}, {"Constant(3)", [] { return DP(new ConstantDistribution(3.)); }},
      {"Beta(n=2,2,3)", [] { return DP(new BetaDiscreteDistribution(2, 2., 3.)); }}, {"Beta(n=3,0.5,2)", [] { return DP(new BetaDiscreteDistribution(3, 0.5, 2.)); }},
      {"Exponential(n=2,1)", [] { return DP(new ExponentialDiscreteDistribution(2, 1.)); }}, {"Exponential(n=2,4)", [] { return DP(new ExponentialDiscreteDistribution(2, 4.)); }},
      {"Gaussian(n=2,0,1)", [] { return DP(new GaussianDiscreteDistribution(2, 0., 1.)); }}, {"Gaussian(n=2,2.5,0.5)", [] { return DP(new GaussianDiscreteDistribution(2, 2.5, 0.5)); }},
      {"Gamma(n=2,2.5,1,fixed offset=1.5)", [] { return DP(new GammaDiscreteDistribution(2, 2.5, 1., 0.05, 0.05, false, 1.5)); }},
      {"Simple({0.5,1.5},{0.25,0.75})", [] { return DP(new SimpleDiscreteDistribution(vector<double>{0.5, 1.5}, vector<double>{0.25, 0.75})); }}, {"Simple({2,7},{0.5,0.5})", [] { return DP(new SimpleDiscreteDistribution(vector<double>{2., 7.}, vector<double>{0.5, 0.5})); }},
    };
    size_t K = lf.size();
    for (size_t a = 0; a < K; ++a) for (size_t b = 0; b < K; ++b) {
      Leaf A = lf[a], B = lf[b];
      auto mk = [A, B] { vector<DP> ds; ds.push_back(A.make()); ds.push_back(B.make()); return DP(new MixtureOfDiscreteDistributions(ds, {0.25, 0.75})); };
      v.push_back({"Mixture(0.25*" + A.label + "+0.75*" + B.label + ")", mk});
      v.push_back({"Invariant(Mixture(0.25*" + A.label + "+0.75*" + B.label + "),p=0.125)", [mk] { return DP(new InvariantMixedDiscreteDistribution(mk(), 0.125, 0.000001)); }});
      v.push_back({"Mixture(0.5*Mixture(0.25*" + A.label + "+0.75*" + B.label + ")+0.5*" + B.label + ")", [mk, B] { vector<DP> ds; ds.push_back(mk()); ds.push_back(B.make()); return DP(new MixtureOfDiscreteDistributions(ds, {0.5, 0.5})); }});
    }
    for (size_t a = 0; a < 6; ++a) for (size_t b = 0; b < 6; ++b) for (size_t d = 0; d < 6; ++d) {
      Leaf A = lf[a], B = lf[b], D = lf[d];
      v.push_back({"Mixture(0.25*" + A.label + "+0.25*" + B.label + "+0.5*" + D.label + ")", [A, B, D] { vector<DP> ds; ds.push_back(A.make()); ds.push_back(B.make()); ds.push_back(D.make()); return DP(new MixtureOfDiscreteDistributions(ds, {0.25, 0.25, 0.5})); }});
    }
  }
  return v;
}
static void distSpace(vf::Runner& R) {
  vector<DistSpec> specs = distSpecs();
  R.space("distribution:families=10(+nested):classes1..8:parameter-lattice", specs.size(), [=](uint64_t idx, vf::Case& c) {
    const DistSpec& sp = specs[(size_t)idx];
    string site = "construct " + sp.label.substr(0, sp.label.find('('));
    c.site(site.c_str());
    DP d = sp.make();
    c.nontrivial();
    c.site("BppODiscreteDistributionFormat::writeDiscreteDistribution");
    auto* os = new std::ostringstream(); std::ostringstream* raw = os;
    StlOutputStream out{std::unique_ptr<std::ostream>(os)};
    BppODiscreteDistributionFormat fmt(false);
    map<string, string> aliases; vector<string> written;
    fmt.writeDiscreteDistribution(*d, out, aliases, written);
    string text = raw->str();
    string in = sp.label + " written as " + show(text);
    c.site("BppODiscreteDistributionFormat::readDiscreteDistribution");
    DP r; string what;
    try { BppODiscreteDistributionFormat rf(false); r = rf.readDiscreteDistribution(text, true); } catch (bpp::Exception& e) { what = e.what(); }
    string fam = sp.label.substr(0, sp.label.find('('));
    c.tag("distribution: " + fam);
    if (!r) { c.fail("distribution|" + fam + "|read-raises-on-written-description", in + ": " + what.substr(0, 140)); return; }
    if (r->getName() != d->getName()) { c.fail("distribution|" + fam + "|family", in + ": read back as " + r->getName()); return; }
    if (r->getNumberOfCategories() != d->getNumberOfCategories()) { c.fail("distribution|" + fam + "|number-of-classes", in + ": " + vf::str(r->getNumberOfCategories()) + " vs " + vf::str(d->getNumberOfCategories())); return; }
    // the writer prints parameters with 12 decimals and Simple/Mixture values and probabilities with 6; lattice values printed with 6
    // decimals are exact there, parameters are off by at most 5e-13, and class values/probabilities are smooth in the parameters
    // (sensitivity < 1e3 on this lattice): 1e-9 bounds the legitimate difference
    for (size_t i = 0; i < d->getNumberOfCategories(); ++i) {
      double a = d->getCategory(i), b = r->getCategory(i), pa = d->getProbability(i), pb = r->getProbability(i);
      bool sixDecimals = (fam == "Simple" || fam == "Mixture");   // values / probabilities themselves are printed, with 6 decimals
      double tol = sixDecimals ? 1e-6 : 1e-9;
      double tolv = tol * std::max(1., std::fabs(a)), tolp = tol;
      if (!(std::fabs(a - b) <= tolv)) { c.fail("distribution|" + fam + "|class-values", in + ": class " + vf::str(i) + " value " + vf::num(a) + " reads back as " + vf::num(b)); return; }
      if (!(std::fabs(pa - pb) <= tolp)) { c.fail("distribution|" + fam + "|class-probabilities", in + ": class " + vf::str(i) + " probability " + vf::num(pa) + " reads back as " + vf::num(pb)); return; }
    }
    if (idx % 97 == 3) c.sample(in + " -> same family, classes and probabilities");
  }, 10.0, 4);
}

// =====================================================================================================================
int main(int argc, char** argv) {
  try { throw bpp::Exception("warm-up"); } catch (bpp::Exception& e) { use(string(e.what())); }   // first-exception costs are paid before any case is timed
  vf::Runner R(argc, argv, "C17");
  bool th = R.thorough();
  silence();
  numbersSpace(R, "default(dec='.',sci='e')", {"0", "1", "9", ".", "-", "+", "e", "E", " "}, th ? 6 : 5, '.', 'e');
  numbersSpace(R, "configured(dec=',',sci='E')", {"1", "5", ",", ".", "-", "E", "e"}, th ? 5 : 4, ',', 'E');
  formatSpaces(R);
  intLimitSpace(R);
  tokenizerSpace(R, th ? 7 : 5);
  nestedSpace(R, th ? 8 : 6);
  nestedSolidSpace(R, th ? 9 : 7);
  keyvalOverlapSpace(R);
  keyvalSpace(R, th ? 6 : 4);
  wildcardSpace(R, th ? 8 : 6);
  variableSpace(R, th);
  tableSpaces(R, th);
  distSpace(R);
  if (!R.replay && R.timeLeft()) {   // (after the global deadline the spaces are reported as incomplete instead)
    R.expectSeen("numbers: number literal"); R.expectSeen("numbers: integer literal"); R.expectSeen("numbers: not in the grammar");
    R.expectSeen("numbers: toDouble value judged"); R.expectSeen("numbers: toInt value judged");
    R.expectSeen("format: subnormal double"); R.expectSeen("format: normal double");
    R.expectSeen("tokenizer: solid"); R.expectSeen("tokenizer: character set"); R.expectSeen("nested: balanced input");
    R.expectSeen("wildcard: some names match"); R.expectSeen("variables: acyclic, all references defined"); R.expectSeen("variables: cyclic or undefined reference");
    R.expectSeen("table: column and row names"); R.expectSeen("table: no names");
  }
  R.note("number grammar: the statement does not spell it out; the most permissive strict reading is used, -?(D+(.D*)?|.D+)(e[+-]?D+)? and -?D+(e+?D+)? with the decimal and exponent characters the call configures; values are judged only when the literal is 0 or inside [DBL_MIN,DBL_MAX] / the int range");
  R.note("tokenisers: re-join = tokens and recorded separators from the cursor on; it must equal the input up to one leading and one trailing run of delimiter characters (which run is dropped depends on the mode; the header documents no more). Inputs without any token are recorded, not judged (unparseRemainingTokens on an empty token list is reported by C16)");
  R.note("nested tokeniser: judged on bracket-balanced inputs only, against a splitter that cuts at delimiter characters met at bracket depth 0 and drops empty pieces");
  R.note("variables: termination is judged by a CPU-time watchdog (0.05 s; a non-terminating case appears as crash|AttributesTools::resolveVariables|exit97); value equality with full substitution only for acyclic maps whose references are all defined");
  R.note("tables: written with DataTable::write(ostream) and read with header = (column names present), rowNames=-1; tables whose text has fewer than two lines are outside the clause");
  R.note("mixture components are chosen so that no two class values of different components coincide to rounding (a symmetric Beta's middle class next to a Simple value 0.5 merges or not depending on the last bit; such ties are not judged)");
  R.note("distributions: values printed with 6 decimals (Simple/Mixture values and probabilities) are exact on the lattice; parameters are printed with 12 decimals (one lattice value, alpha=0.1234567891, needs 10); tolerance 1e-9 on class values (relative, floor absolute) and probabilities for the parameter-driven families and 1e-6 (the printed precision) for Simple and Mixture; the description language has no field for the value of the invariant class, the reader uses 1e-6, so Invariant objects are built with that value");
  return R.finish();
}
