// C16 — text and option parsing never crashes, corrupts memory or hangs on any input
// VF-VARIANT: san
// VF-RULE: E2 under ASan+UBSan+libstdc++ assertions: for each entry point (one 'ep:' space each) every letter sequence of length 0..L over that entry point's alphabet of grammar-significant letters (characters, or words for description languages) times every listed option combination is fed to the real code; plus one 'rep:' space per entry point with every word w of 1..3 letters repeated to 64 and to 4096 bytes times every option combination. Tables accepted by read() are edited by each of 42 edits, ten of them two- or three-step histories in which a rejected call (wrong cell count, duplicate or too many names) or an assignment is followed by look-ups under the name it carried. A case is non-trivial when its input is non-empty. Outcome of every case must be 'returned' or 'raised bpp::Exception'; foreign exceptions are caught by type, sanitizer reports/signals by the supervisor, non-termination by a per-case CPU-time watchdog.
// VF-BOUND: byte strings up to 4 KiB are replaced by: all strings of length <= 5 (quick) / <= 7 (thorough) over 2..13 letters per entry point (the length is lowered per entry point so that a space stays under 100k (quick) / 2.5M (thorough) cases — the length actually used is in each space name), plus the repetition families w^k (|w|<=3 letters) of 64 and 4096 bytes. Inputs needing more distinct significant letters than that and lying outside the repetition families are not reached.
// VF-LEVEL: bounded-exhaustive differential crash check: every listed (entry point, option combination, string) case is executed on the real code under sanitizers; no sampling, no mutation-based search
// VF-ASSUME: ASan/UBSan/_GLIBCXX_ASSERTIONS detect the memory and arithmetic errors the property names (iterator arithmetic before begin() of a std::string is only seen when the corrupted result is read back);; a case that uses more than 0.1 s (short inputs; typical cases take 1-100 microseconds) / 2 s (4 KiB inputs; typical 0.1-400 ms) of CPU time does not terminate;; the character classification of the C locale
// VF-TECHNIQUE: exhaustive small-scope input enumeration on the real code under sanitizers with forked, supervised workers
// VF-BUDGET_QUICK: 420
// VF-BUDGET_THOROUGH: 2400
#include "C16_common.hpp"
#include <Bpp/Text/TextTools.h>
#include <Bpp/Text/StringTokenizer.h>
#include <Bpp/Text/NestedStringTokenizer.h>
#include <Bpp/Text/KeyvalTools.h>
#include <Bpp/Utils/AttributesTools.h>
#include <Bpp/App/ApplicationTools.h>
#include <Bpp/App/NumCalcApplicationTools.h>
#include <Bpp/Io/FileTools.h>
#include <Bpp/Io/BppODiscreteDistributionFormat.h>
#include <Bpp/Numeric/DataTable.h>
#include <Bpp/Numeric/Constraints.h>
#include <Bpp/Numeric/ParameterList.h>
#include <Bpp/Numeric/AbstractParametrizable.h>
#include <Bpp/Numeric/Function/Functions.h>
#include <Bpp/Numeric/Function/Operators/ComputationTree.h>
#include <Bpp/Numeric/Prob/DiscreteDistribution.h>
#include <sstream>
#include <sys/resource.h>
using namespace bpp;
using namespace tx;
using std::string; using std::vector; using std::map;

// ------------------------------------------------------------------------------------------------------------------
struct EP {
  string name;                         // entry point (group) name; part of the space names
  vector<string> alpha;                // letters
  vector<string> opts;                 // option combinations (descriptions); index = option number
  std::function<void(const string&, int, vf::Case&)> run;  // drives the real code; sets c.site before each library call
  bool canRaise;                       // the entry point documents an exception on bad syntax (vacuity guard)
};

// ASan is about to print a report (symbolising takes longer than the per-case CPU budget): stop the watchdog so that the report, not the
// watchdog, ends the worker
extern "C" void __asan_on_error() { struct itimerval z; memset(&z, 0, sizeof z); setitimer(ITIMER_PROF, &z, nullptr); }

static const char* g_site = "";
static void S(vf::Case& c, const char* site) { g_site = site; c.site(site); }

// Fill the stack region the library is about to use with a fixed byte pattern: a read of an uninitialised local then sees the same
// value in every run (0x80808080 as int, a huge size_t), which makes such defects reproducible instead of depending on leftovers.
__attribute__((noinline)) static void preconditionStack() {
  volatile unsigned char buf[24576];
  for (size_t i = 0; i < sizeof buf; ++i) buf[i] = 0x80;
}

static void execCase(const EP& ep, const string& in, int opt, vf::Case& c, double cpu) {
  preconditionStack();
  { static double scale = getenv("C16_CPU_SCALE") ? atof(getenv("C16_CPU_SCALE")) : 1.0; cpu *= scale; }   // development aid (diagnosing slow cases)
  if (!in.empty()) c.nontrivial();
  c.note("case: entry point " + ep.name + " [" + ep.opts[(size_t)opt] + "] input " + show(in) + " (" + vf::str(in.size()) + " bytes)");
  g_site = ep.name.c_str(); c.site(g_site);
  armCpu(cpu);
  try {
    ep.run(in, opt, c);
    armCpu(0);
    c.tag(ep.name + " returned");
  } catch (bpp::Exception& e) {
    armCpu(0);
    use(string(e.what()));
    c.tag(ep.name + " raised-bpp::Exception");
  } catch (std::exception& e) {
    armCpu(0);
    string ty = demangle(typeid(e).name());
    c.fail(string("foreign-exception|") + g_site + "|" + ty, "entry point " + ep.name + " [" + ep.opts[(size_t)opt] + "] input " + show(in) + ": " + ty + " escaped from " + g_site + " (what: " + string(e.what()).substr(0, 120) + ")");
  } catch (...) {
    armCpu(0);
    c.fail(string("foreign-exception|") + g_site + "|non-std", "entry point " + ep.name + " [" + ep.opts[(size_t)opt] + "] input " + show(in) + ": an exception not derived from std::exception escaped from " + g_site);
  }
}

// ------------------------------------------------------------------------------------------------------------------
// a trivial function object for ComputationTree's name table
class ConstFun : public virtual FunctionInterface, public AbstractParametrizable {
 public:
  ConstFun() : AbstractParametrizable("") { addParameter_(new Parameter("x", 1.)); }
  ConstFun* clone() const override { return new ConstFun(*this); }
  void setParameters(const ParameterList& pl) override { matchParametersValues(pl); }
  double getValue() const override { return getParameterValue("x"); }
};

static vector<string> splitOn(const string& s, char sep) {
  vector<string> v(1);
  for (char ch : s) { if (ch == sep) v.push_back(""); else v.back() += ch; }
  return v;
}

// drive a tokenizer object through its whole public interface
static void driveTokenizer(StringTokenizer& st, vf::Case& c, const char* pfx, bool baseUnparse) {
  static string names[8];
  auto site = [&](int k, const char* m) { names[k] = string(pfx) + m; S(c, names[k].c_str()); };
  site(0, "::getTokens"); use(st.getTokens());
  site(1, "::numberOfRemainingTokens"); size_t n = st.numberOfRemainingTokens(); use(n);
  if (baseUnparse) { site(2, "::unparseRemainingTokens"); use(st.unparseRemainingTokens()); }
  size_t guard = 0;
  while (true) {
    site(3, "::hasMoreToken"); if (!st.hasMoreToken()) break;
    site(4, "::nextToken"); use(st.nextToken());
    // (unparse after each of the first 8 and the last 3 tokens: keeps the drive linear on 4 KiB inputs)
    if (baseUnparse && (guard < 8 || st.numberOfRemainingTokens() < 3)) { site(2, "::unparseRemainingTokens"); use(st.unparseRemainingTokens()); }
    if (++guard > n + 2) { c.fail(string("tokenizer|") + pfx + "|cursor-does-not-advance", "nextToken() returned more tokens than numberOfRemainingTokens() announced"); break; }
  }
  site(5, "::removeEmptyTokens"); st.removeEmptyTokens();
  if (baseUnparse) { site(2, "::unparseRemainingTokens"); use(st.unparseRemainingTokens()); }
  site(4, "::nextToken");
  try { use(st.nextToken()); } catch (bpp::Exception&) {}
}

// ------------------------------------------------------------------------------------------------------------------
static vector<EP> buildEPs() {
  vector<EP> E;
  auto add = [&](const string& name, vector<string> alpha, vector<string> opts, std::function<void(const string&, int, vf::Case&)> run, bool canRaise) {
    EP e; e.name = name; e.alpha = alpha; e.opts = opts; e.run = run; e.canRaise = canRaise; E.push_back(e);
  };
  const string HI = "\x80";

  // ---- TextTools: character utilities and white-space / new-line cleaners --------------------------------------
  add("TextTools.cleaners", {"a", " ", "\t", "\n", "\r", "Z", HI, "\xff"}, {"-"}, [](const string& s, int, vf::Case& c) {
    S(c, "TextTools::isEmpty"); use(TextTools::isEmpty(s));
    S(c, "TextTools::toUpper"); use(TextTools::toUpper(s));
    S(c, "TextTools::toLower"); use(TextTools::toLower(s));
    S(c, "TextTools::removeWhiteSpaces"); use(TextTools::removeWhiteSpaces(s));
    S(c, "TextTools::removeFirstWhiteSpaces"); use(TextTools::removeFirstWhiteSpaces(s));
    S(c, "TextTools::removeLastWhiteSpaces"); use(TextTools::removeLastWhiteSpaces(s));
    S(c, "TextTools::removeSurroundingWhiteSpaces"); use(TextTools::removeSurroundingWhiteSpaces(s));
    S(c, "TextTools::removeNewLines"); use(TextTools::removeNewLines(s));
    S(c, "TextTools::removeLastNewLines"); use(TextTools::removeLastNewLines(s));
    S(c, "TextTools::removeChar"); use(TextTools::removeChar(s, 'a')); use(TextTools::removeChar(s, ' ')); use(TextTools::removeChar(s, '\0'));
    for (char ch : s) {
      S(c, "TextTools::isWhiteSpaceCharacter"); use(TextTools::isWhiteSpaceCharacter(ch));
      S(c, "TextTools::isNewLineCharacter"); use(TextTools::isNewLineCharacter(ch));
      S(c, "TextTools::isDecimalNumber(char)"); use(TextTools::isDecimalNumber(ch));
    }
  }, false);

  // ---- TextTools: number recognition and conversion ------------------------------------------------------------
  add("TextTools.numbers", {"1", "9", ".", "-", "+", "e", " "}, {"dec='.' sci='e'", "dec=',' sci='E'", "dec='e' sci='e'", "dec='-' sci='+'"}, [](const string& s, int o, vf::Case& c) {
    const char decs[] = {'.', ',', 'e', '-'}, scis[] = {'e', 'E', 'e', '+'};
    char dec = decs[o], sci = scis[o];
    S(c, "TextTools::isDecimalNumber"); bool dn = TextTools::isDecimalNumber(s, dec, sci); use(dn);
    S(c, "TextTools::isDecimalInteger"); bool di = TextTools::isDecimalInteger(s, sci); use(di);
    S(c, "TextTools::fromString<int>"); use(TextTools::fromString<int>(s));
    S(c, "TextTools::fromString<double>"); use(TextTools::fromString<double>(s));
    S(c, "TextTools::to<unsigned>"); use(TextTools::to<unsigned>(s));
    S(c, "TextTools::to<size_t>"); use(TextTools::to<size_t>(s));
    S(c, "TextTools::to<string>"); use(TextTools::to<string>(s));
    S(c, "TextTools::toInt");
    try { use(TextTools::toInt(s, sci)); } catch (bpp::Exception&) { if (di) throw; }
    S(c, "TextTools::toDouble");
    use(TextTools::toDouble(s, dec, sci));
  }, true);

  // ---- TextTools: conversions of blank strings must return a definite value ---------------------------------------
  // (the stack region used by the conversion is filled with two different byte patterns; a result that follows the pattern is an
  //  uninitialised local handed back to the caller — downstream it becomes a loop bound or an allocation size)
  add("TextTools.fromString-blank", {" ", "\t", "x", "-", "1"}, {"fromString<int>", "fromString<double>", "to<unsigned>", "to<size_t>", "to<double>"}, [](const string& s, int o, vf::Case& c) {
    struct K {
      __attribute__((noinline)) static void fill(unsigned char b) { volatile unsigned char buf[8192]; for (size_t i = 0; i < sizeof buf; ++i) buf[i] = b; }
      __attribute__((noinline)) static double conv(const string& s, int o) {
        switch (o) { case 0: return (double)TextTools::fromString<int>(s); case 1: { double d = TextTools::fromString<double>(s); uint64_t u; memcpy(&u, &d, 8); return (double)(u >> 12); }
          case 2: return (double)TextTools::to<unsigned>(s); case 3: return (double)(TextTools::to<size_t>(s) >> 12); default: { double d = TextTools::to<double>(s); uint64_t u; memcpy(&u, &d, 8); return (double)(u >> 12); } }
      }
    };
    static const char* sites[] = {"TextTools::fromString<int>", "TextTools::fromString<double>", "TextTools::to<unsigned>", "TextTools::to<size_t>", "TextTools::to<double>"};
    S(c, sites[o]);
    K::fill(0x11); double a = K::conv(s, o);
    K::fill(0x80); double b = K::conv(s, o);
    if (a != b) c.fail(string("indeterminate-result|TextTools::fromString/to"), string(sites[o]) + "(" + show(s) + ") returns an uninitialised local: the result follows the bytes previously on the stack (two calls gave " + vf::num(a) + " and " + vf::num(b) + " (bit patterns shifted))");
  }, false);

  // ---- TextTools: fixed-width helpers --------------------------------------------------------------------------
  add("TextTools.resize", {"a", "b", " "}, {"n=0", "n=1", "n=2", "n=5", "n=8", "n=100"}, [](const string& s, int o, vf::Case& c) {
    const size_t ns[] = {0, 1, 2, 5, 8, 100};
    S(c, "TextTools::resizeRight"); string r = TextTools::resizeRight(s, ns[o], '.'); use(r);
    if (r.size() != ns[o]) c.fail("postcondition|TextTools::resizeRight|size", "resizeRight(" + show(s) + "," + vf::str(ns[o]) + ") has size " + vf::str(r.size()));
    S(c, "TextTools::resizeLeft"); string l = TextTools::resizeLeft(s, ns[o], '.'); use(l);
    if (l.size() != ns[o]) c.fail("postcondition|TextTools::resizeLeft|size", "resizeLeft(" + show(s) + "," + vf::str(ns[o]) + ") has size " + vf::str(l.size()));
  }, false);

  add("TextTools.split", {"a", "b"}, {"n=0", "n=1", "n=2", "n=3", "n=7", "n=SIZE_MAX"}, [](const string& s, int o, vf::Case& c) {
    const size_t ns[] = {0, 1, 2, 3, 7, (size_t)-1};
    S(c, "TextTools::split"); use(TextTools::split(s, ns[o]));
  }, false);

  // ---- TextTools: block removal --------------------------------------------------------------------------------
  add("TextTools.removeSubstrings", {"a", "(", ")", "[", "]"}, {"( )", "[ ]", "( ("}, [](const string& s, int o, vf::Case& c) {
    const char b[] = {'(', '[', '('}, e[] = {')', ']', '('};
    S(c, "TextTools::removeSubstrings(s,b,e)"); use(TextTools::removeSubstrings(s, b[o], e[o]));
  }, true);

  add("TextTools.removeSubstrings-exceptions", {"a", "(", ")", "{", "}"}, {"no exceptions", "beg={\"a(\"} end={\")a\"}", "beg={\"((\"} end={\"))\"}", "beg={\"a\",\"(\"} end={\")\",\"a\"}"}, [](const string& s, int o, vf::Case& c) {
    vector<string> eb, ee;
    if (o == 1) { eb = {"a("}; ee = {")a"}; }
    if (o == 2) { eb = {"(("}; ee = {"))"}; }
    if (o == 3) { eb = {"a", "("}; ee = {")", "a"}; }
    S(c, "TextTools::removeSubstrings(s,b,e,exceptions)"); use(TextTools::removeSubstrings(s, '(', ')', eb, ee));
  }, false);

  // ---- TextTools: pattern helpers (the pattern is an option: every string of length <= 2 over {a,b} plus "aba") --
  {
    vector<string> pats = {"", "a", "b", "aa", "ab", "ba", "bb", "aba"};
    vector<string> od; for (auto& p : pats) od.push_back("pattern=" + show(p));
    add("TextTools.patterns", {"a", "b", " "}, od, [pats](const string& s, int o, vf::Case& c) {
      const string& p = pats[(size_t)o];
      S(c, "TextTools::count"); use(TextTools::count(s, p));
      S(c, "TextTools::startsWith"); use(TextTools::startsWith(s, p));
      S(c, "TextTools::endsWith"); use(TextTools::endsWith(s, p));
      S(c, "TextTools::hasSubstring"); use(TextTools::hasSubstring(s, p));
      const char* reps[] = {"", "a", "ab", "bab"};
      for (const char* r : reps) { S(c, "TextTools::replaceAll"); string t = s; TextTools::replaceAll(t, p, r); use(t); }
    }, false);
  }

  // ---- StringTokenizer -----------------------------------------------------------------------------------------
  {
    vector<string> dl = {",", ", ", ",,"};
    vector<string> od;
    for (auto& d : dl) for (int so = 0; so < 2; ++so) for (int ae = 0; ae < 2; ++ae) od.push_back("delimiters=" + show(d) + " solid=" + vf::str(so) + " allowEmptyTokens=" + vf::str(ae));
    add("StringTokenizer", {"a", "b", ",", " "}, od, [dl](const string& s, int o, vf::Case& c) {
      const string& d = dl[(size_t)(o / 4)]; bool solid = (o / 2) % 2, ae = o % 2;
      S(c, "StringTokenizer::StringTokenizer");
      StringTokenizer st(s, d, solid, ae);
      driveTokenizer(st, c, "StringTokenizer", true);
    }, false);
    // the empty delimiter set, kept in a space of its own (smaller length bound, see main)
    add("StringTokenizer.empty-delimiters", {"a", ",", " "}, {"delimiters=\"\" solid=0 allowEmptyTokens=0", "delimiters=\"\" solid=0 allowEmptyTokens=1", "delimiters=\"\" solid=1 allowEmptyTokens=0", "delimiters=\"\" solid=1 allowEmptyTokens=1"},
        [](const string& s, int o, vf::Case& c) {
      S(c, "StringTokenizer::StringTokenizer");
      StringTokenizer st(s, "", o / 2, o % 2);
      driveTokenizer(st, c, "StringTokenizer", true);
    }, false);
    add("StringTokenizer.default-delimiters", {"a", " ", "\t", "\n"}, {"default arguments"}, [](const string& s, int, vf::Case& c) {
      S(c, "StringTokenizer::StringTokenizer");
      StringTokenizer st(s);
      driveTokenizer(st, c, "StringTokenizer", true);
    }, false);
  }

  // ---- NestedStringTokenizer -----------------------------------------------------------------------------------
  {
    vector<string> dl = {",", ", "};
    vector<std::pair<string, string>> br = {{"(", ")"}, {"(", "("}, {"((", "))"}};
    vector<string> od;
    for (auto& d : dl) for (auto& b : br) for (int so = 0; so < 2; ++so) od.push_back("delimiters=" + show(d) + " open=" + show(b.first) + " end=" + show(b.second) + " solid=" + vf::str(so));
    add("NestedStringTokenizer", {"a", ",", "(", ")", " "}, od, [dl, br](const string& s, int o, vf::Case& c) {
      const string& d = dl[(size_t)(o / 6)]; auto& b = br[(size_t)((o / 2) % 3)]; bool solid = o % 2;
      S(c, "NestedStringTokenizer::NestedStringTokenizer");
      NestedStringTokenizer st(s, b.first, b.second, d, solid);
      S(c, "NestedStringTokenizer::unparseRemainingTokens"); use(st.unparseRemainingTokens());
      // the tokenizer is handed around as a StringTokenizer (KeyvalTools does so): drive it through the base interface
      driveTokenizer(st, c, "NestedStringTokenizer(as StringTokenizer&)", false);
    }, true);
    // the same object asked to unparse through a StringTokenizer reference (the base method is not virtual); own space with a smaller bound
    add("NestedStringTokenizer.unparse-through-base", {"a", ",", "(", ")"}, {"delimiters=\",\" solid=0", "delimiters=\",\" solid=1"}, [](const string& s, int o, vf::Case& c) {
      S(c, "NestedStringTokenizer::NestedStringTokenizer");
      NestedStringTokenizer st(s, "(", ")", ",", o == 1);
      StringTokenizer& base = st;
      S(c, "NestedStringTokenizer(as StringTokenizer&)::unparseRemainingTokens"); use(base.unparseRemainingTokens());
    }, true);
    add("NestedStringTokenizer.empty-delimiters", {"a", ",", "(", ")"}, {"delimiters=\"\" solid=0", "delimiters=\"\" solid=1", "default delimiters solid=0"}, [](const string& s, int o, vf::Case& c) {
      S(c, "NestedStringTokenizer::NestedStringTokenizer");
      if (o == 2) { NestedStringTokenizer st(s, "(", ")"); driveTokenizer(st, c, "NestedStringTokenizer(as StringTokenizer&)", false); }
      else { NestedStringTokenizer st(s, "(", ")", "", o == 1); driveTokenizer(st, c, "NestedStringTokenizer(as StringTokenizer&)", false); }
    }, true);
  }

  // ---- KeyvalTools ---------------------------------------------------------------------------------------------
  add("KeyvalTools.singleKeyval", {"a", "1", "=", ":", " ", "("}, {"split=\"=\"", "split=\":\"", "split=\"==\"", "split=\"=:\""}, [](const string& s, int o, vf::Case& c) {
    const char* sp[] = {"=", ":", "==", "=:"};
    string k, v;
    S(c, "KeyvalTools::singleKeyval"); KeyvalTools::singleKeyval(s, k, v, sp[o]); use(k); use(v);
  }, true);
  add("KeyvalTools.multipleKeyvals", {"a", "1", ",", "=", "(", ")", " "}, {"split=\",\" nested=1", "split=\",\" nested=0", "split=\" \" nested=1", "split=\" \" nested=0"}, [](const string& s, int o, vf::Case& c) {
    map<string, string> kv;
    S(c, "KeyvalTools::multipleKeyvals"); KeyvalTools::multipleKeyvals(s, kv, (o / 2) ? " " : ",", o % 2 == 0); use(kv);
  }, true);
  add("KeyvalTools.changeKeyvals", {"a", "1", ",", "=", "(", ")", " "}, {"new={} nested=1", "new={a:2} nested=1", "new={a:x(b=1),1:} nested=1", "new={a:2} nested=0", "new={a:2} split=\" \" nested=1"}, [](const string& s, int o, vf::Case& c) {
    map<string, string> nk;
    if (o == 1 || o >= 3) nk["a"] = "2";
    if (o == 2) { nk["a"] = "x(b=1)"; nk["1"] = ""; }
    S(c, "KeyvalTools::changeKeyvals"); use(KeyvalTools::changeKeyvals(s, nk, o == 4 ? " " : ",", o != 3));
  }, true);
  add("KeyvalTools.parseProcedure", {"a", "1", ",", "=", "(", ")", " "}, {"-"}, [](const string& s, int, vf::Case& c) {
    string name; map<string, string> args;
    S(c, "KeyvalTools::parseProcedure"); KeyvalTools::parseProcedure(s, name, args); use(name); use(args);
  }, true);

  // ---- AttributesTools -----------------------------------------------------------------------------------------
  // the letter "|" separates the elements of the argument vector (lines of an option file)
  {
    auto body = [](const string& s, int o, vf::Case& c) {
      vector<string> lines = splitOn(s, '|');
      if (o == 2) for (auto& l : lines) for (auto& ch : l) if (ch == ' ') ch = '\n';
      const char* dl[] = {"=", "==", ":"};
      S(c, "AttributesTools::getAttributesMap"); use(AttributesTools::getAttributesMap(lines, dl[o]));
      map<string, string> am; am["a"] = "0";
      S(c, "AttributesTools::getAttributesMap(argv,am,delimiter)"); AttributesTools::getAttributesMap(lines, am, dl[o]); use(am);
    };
    vector<string> od = {"delimiter=\"=\"", "delimiter=\"==\"", "delimiter=\":\" (+ \\n inside elements)"};
    // comments, delimiters, blanks, several elements
    add("AttributesTools.getAttributesMap", {"a", "=", "#", "/", "*", " ", "|"}, od, body, false);
    // continuation character (own space with a smaller bound: a trailing continuation fails on the unchanged tree for every such input)
    add("AttributesTools.getAttributesMap.continuation", {"a", "=", "\\", "|", "#"}, od, body, false);
  }
  // variable resolution: the input is a list of entries "key=value" separated by ";"; words keep references well-formed or not
  {
    auto body = [](const string& s, int o, vf::Case& c) {
      map<string, string> am;
      for (auto& e : splitOn(s, ';')) { size_t p = e.find('='); if (p == string::npos) am[e] = ""; else am[e.substr(0, p)] = e.substr(p + 1); }
      S(c, "AttributesTools::resolveVariables");
      if (o == 0) AttributesTools::resolveVariables(am); else AttributesTools::resolveVariables(am, '$', '(', '(');
      use(am);
      map<string, string> add; add["a"] = "z"; add["n"] = "$(a)";
      S(c, "AttributesTools::actualizeAttributesMap"); AttributesTools::actualizeAttributesMap(am, add, o == 0); use(am);
    };
    add("AttributesTools.resolveVariables", {"a", "b", "$", "(", ")", "=", ";"}, {"default markers $()", "varEnd='('"}, body, true);
    add("AttributesTools.resolveVariables.words", {"a=", "b=", ";", "$(a)", "$(b)", "x", "$(", ")"}, {"default markers $()", "varEnd='('"}, body, true);
  }

  // ---- ApplicationTools: wildcard matching ---------------------------------------------------------------------
  {
    vector<string> names = {"", "a", "b", "ab", "ba", "aa", "aab", "aba", "abab", "*", "a*b"};
    add("ApplicationTools.matchingParameters", {"a", "b", "*"}, {"map overload", "vector overload", "ParameterList::getMatchingParameterNames"}, [names](const string& s, int o, vf::Case& c) {
      if (o == 0) {
        map<string, string> m; for (auto& n : names) m[n] = "1";
        S(c, "ApplicationTools::matchingParameters(pattern,map)"); use(ApplicationTools::matchingParameters(s, m));
      } else if (o == 1) {
        vector<string> v = names;
        S(c, "ApplicationTools::matchingParameters(pattern,vector)"); use(ApplicationTools::matchingParameters(s, v));
      } else {
        ParameterList pl; for (auto& n : names) if (!n.empty()) pl.addParameter(Parameter(n, 0.));
        S(c, "ParameterList::getMatchingParameterNames"); use(pl.getMatchingParameterNames(s));
      }
    }, false);
  }

  // ---- ApplicationTools: option readers ------------------------------------------------------------------------
  // option = where the value sits: 0: params["p"], no suffix; 1: params["p_x"], suffix "_x" mandatory; 2: params["p"], suffix "_x" optional;
  //          3: parameter absent, the string is the default value (only readers with a string default)
  {
    vector<string> where = {"value in params[p]", "value in params[p_x], suffix=_x mandatory", "value in params[p], suffix=_x optional", "parameter absent, input is the default value"};
    struct PM { map<string, string> m; string suffix; bool opt; string def; };
    auto mk = [](const string& s, int o) { PM p; p.suffix = (o == 0 || o == 3) ? "" : "_x"; p.opt = (o != 1); p.def = (o == 3) ? s : "";
      if (o == 0 || o == 2) p.m["p"] = s; if (o == 1) { p.m["p_x"] = s; p.m["p"] = "(("; } return p; };
    add("ApplicationTools.scalar-readers", {"1", "0", ".", "-", "e", "t", " "}, where, [mk](const string& s, int o, vf::Case& c) {
      PM p = mk(s, o);
      S(c, "ApplicationTools::parameterExists"); use(ApplicationTools::parameterExists("p", p.m));
      S(c, "ApplicationTools::getStringParameter"); use(ApplicationTools::getStringParameter("p", p.m, p.def, p.suffix, p.opt, 1));
      S(c, "ApplicationTools::getAFilePath");
      try { use(ApplicationTools::getAFilePath("p", p.m, (o % 2) == 0, false, p.suffix, p.opt, p.def, 1)); } catch (bpp::Exception&) {}
      S(c, "ApplicationTools::getParameter<int>"); use(ApplicationTools::getParameter<int>("p", p.m, 3, p.suffix, p.opt, 1));
      S(c, "ApplicationTools::getParameter<unsigned>"); use(ApplicationTools::getParameter<unsigned>("p", p.m, 3u, p.suffix, p.opt, 1));
      S(c, "ApplicationTools::getParameter<double>"); use(ApplicationTools::getParameter<double>("p", p.m, 3., p.suffix, p.opt, 1));
      S(c, "ApplicationTools::getParameter<string>"); use(ApplicationTools::getParameter<string>("p", p.m, string("d"), p.suffix, p.opt, 1));
      S(c, "ApplicationTools::getBooleanParameter");
      try { use(ApplicationTools::getBooleanParameter("p", p.m, true, p.suffix, p.opt, 1)); } catch (bpp::Exception&) {}
      S(c, "ApplicationTools::getIntParameter");
      try { use(ApplicationTools::getIntParameter("p", p.m, 3, p.suffix, p.opt, 1)); } catch (bpp::Exception&) {}
      S(c, "ApplicationTools::getDoubleParameter");
      use(ApplicationTools::getDoubleParameter("p", p.m, 3., p.suffix, p.opt, 1));
    }, true);
    add("ApplicationTools.vector-readers", {"1", "9", ",", "(", ")", "-", " "}, where, [mk](const string& s, int o, vf::Case& c) {
      PM p = mk(s, o);
      S(c, "ApplicationTools::getVectorParameter<int>(sep)"); use(ApplicationTools::getVectorParameter<int>("p", p.m, ',', p.def, p.suffix, p.opt, 1));
      S(c, "ApplicationTools::getVectorParameter<double>(sep)"); use(ApplicationTools::getVectorParameter<double>("p", p.m, ',', p.def, p.suffix, p.opt, 1));
      S(c, "ApplicationTools::getVectorParameter<string>(sep)"); use(ApplicationTools::getVectorParameter<string>("p", p.m, ',', p.def, p.suffix, p.opt, 1));
      S(c, "ApplicationTools::getVectorParameter<int>(sep=' ')");
      try { use(ApplicationTools::getVectorParameter<int>("p", p.m, ' ', p.def, p.suffix, p.opt, 1)); } catch (bpp::Exception&) {}
      S(c, "ApplicationTools::getVectorOfVectorsParameter<int>"); use(ApplicationTools::getVectorOfVectorsParameter<int>("p", p.m, ',', p.def, p.suffix, p.opt, 1));
      S(c, "ApplicationTools::getMatrixParameter<double>"); { RowMatrix<double> m = ApplicationTools::getMatrixParameter<double>("p", p.m, ',', p.def, p.suffix, p.opt, true); use(m.getNumberOfRows()); use(m.getNumberOfColumns()); }
    }, true);
  }

  // range-expanding vector readers (own space: a token that starts with the range operator fails on the unchanged tree)
add("ApplicationTools.range-vector-readers", {"1", "9", ",", "1:3", "9:1", "(", ")"}, {"value in params[p]", "parameter absent, input is the default value"}, [](const string& s, int o, vf::Case& c) {
    // the range operator only occurs inside the letters "1:3" and "9:1", so both sides of it are never empty: an empty side makes the reader
    // convert "" with TextTools::fromString, whose result is indeterminate (judged by the entry point TextTools.fromString-blank instead)
    map<string, string> m; if (o == 0) m["p"] = s;
    string def = o ? s : "";
    S(c, "ApplicationTools::getVectorParameter<int>(sep,range)"); use(ApplicationTools::getVectorParameter<int>("p", m, ',', ':', def, "", true, true));
    S(c, "ApplicationTools::getVectorParameter<double>(sep,range)"); use(ApplicationTools::getVectorParameter<double>("p", m, ',', ':', def, "", true, true));
    S(c, "ApplicationTools::getVectorParameter<unsigned>(sep,range)"); use(ApplicationTools::getVectorParameter<unsigned>("p", m, ',', ':', def, "", true, true));
  }, false);

  // ---- FileTools -----------------------------------------------------------------------------------------------
  add("FileTools.paths", {"a", ".", "/", "\\"}, {"dirSep='/'", "dirSep='\\\\'", "dirSep='.'"}, [](const string& s, int o, vf::Case& c) {
    const char seps[] = {'/', '\\', '.'};
    S(c, "FileTools::getFileName"); { string r = FileTools::getFileName(s, seps[o]);
      if (r.size() > s.size()) c.fail("corrupted-result|FileTools::getFileName", "getFileName(" + show(s) + ") returned a string of size " + vf::str(r.size())); else use(r); }
    S(c, "FileTools::getExtension"); { string r = FileTools::getExtension(s);
      if (r.size() > s.size()) c.fail("corrupted-result|FileTools::getExtension", "getExtension(" + show(s) + ") returned a string of size " + vf::str(r.size())); else use(r); }
    S(c, "FileTools::getParent"); { string r = FileTools::getParent(s, seps[o]);
      if (r.size() > s.size()) c.fail("corrupted-result|FileTools::getParent", "getParent(" + show(s) + ", '" + string(1, seps[o]) + "') returned a string object whose size() is " + vf::str(r.size()) + " (input has " + vf::str(s.size()) + " bytes): erase() was called with an iterator before begin()"); else use(r); }
  }, false);
  add("FileTools.streams", {"a", "\n", " ", "\r", "\t"}, {"-"}, [](const string& s, int, vf::Case& c) {
    { std::istringstream in(s); S(c, "FileTools::getNextLine"); for (int k = 0; k < 12; ++k) use(FileTools::getNextLine(in)); }
    { std::istringstream in(s); S(c, "FileTools::putStreamIntoVectorOfStrings"); use(FileTools::putStreamIntoVectorOfStrings(in)); }
  }, false);

  // ---- DataTable -----------------------------------------------------------------------------------------------
  {
    vector<string> seps = {",", "\t", ""};
    vector<int> rn = {-1, 0, 1, 7};
    vector<string> od;
    for (auto& sp : seps) for (int h = 0; h < 2; ++h) for (int r : rn) od.push_back("sep=" + show(sp) + " header=" + vf::str(h) + " rowNames=" + vf::str(r));
    add("DataTable.read", {"x", "y", ",", "\n", "\t"}, od, [seps, rn](const string& s, int o, vf::Case& c) {
      const string& sp = seps[(size_t)(o / 8)]; bool header = (o / 4) % 2; int r = rn[(size_t)(o % 4)];
      std::istringstream in(s);
      S(c, "DataTable::read");
      std::unique_ptr<DataTable> dt = DataTable::read(in, sp, header, r);
      size_t nr = dt->getNumberOfRows(), nc = dt->getNumberOfColumns();
      S(c, "DataTable::operator()(i,j)");
      for (size_t i = 0; i < nr; ++i) for (size_t j = 0; j < nc; ++j) use((*dt)(i, j));
      S(c, "DataTable::write");
      { std::ostringstream out; DataTable::write(*dt, out, ",", true); use(out.str()); }
      { std::ostringstream out; DataTable::write(*dt, out, "\t", false); use(out.str()); }
      S(c, "DataTable::DataTable(const DataTable&)"); { DataTable t(*dt); use(t.getNumberOfRows()); }
    }, true);

    // name / row / column edits and look-ups on every table that read() accepts: option = (edit, header, rowNames); the edit runs on the
    // table as read; bpp::Exception is a fine answer. One edit per case so that one failing edit does not hide the others.
    typedef std::function<void(DataTable&)> Ed;
    vector<std::pair<string, Ed>> eds = {
      {"DataTable::getRowNames", [](DataTable& t) { use(t.getRowNames()); }},
      {"DataTable::getColumnNames", [](DataTable& t) { use(t.getColumnNames()); }},
      {"DataTable::getRowName", [](DataTable& t) { use(t.getRowName(0)); use(t.getRowName(1)); }},
      {"DataTable::getColumnName", [](DataTable& t) { use(t.getColumnName(0)); use(t.getColumnName(1)); }},
      {"DataTable::setRowName", [](DataTable& t) { t.setRowName(0, "q"); use(t.getRowName(0)); }},
      {"DataTable::setRowNames", [](DataTable& t) { vector<string> n(t.getNumberOfRows()); for (size_t i = 0; i < n.size(); ++i) n[i] = "r" + vf::str(i); t.setRowNames(n); use(t.getRowNames()); t.setRowName(0, "q"); use(t.getRowNames()); }},
      {"DataTable::setRowNames(two names)", [](DataTable& t) { t.setRowNames({"x", "q"}); use(t.getRowNames()); }},
      {"DataTable::setColumnNames", [](DataTable& t) { vector<string> n(t.getNumberOfColumns()); for (size_t i = 0; i < n.size(); ++i) n[i] = "c" + vf::str(i); t.setColumnNames(n); use(t.getColumnNames()); }},
      {"DataTable::setColumnNames(two names)", [](DataTable& t) { t.setColumnNames({"x", "q"}); use(t.getColumnNames()); }},
      {"DataTable::getRow(i)", [](DataTable& t) { use(t.getRow(0)); use(t.getRow(1)); }},
      {"DataTable::getRow(name)", [](DataTable& t) { use(t.getRow("x")); }},
      {"DataTable::getColumn(i)", [](DataTable& t) { use(t.getColumn(0)); use(t.getColumn(1)); }},
      {"DataTable::getColumn(name)", [](DataTable& t) { use(t.getColumn("x")); }},
      {"DataTable::hasRow", [](DataTable& t) { use(t.hasRow("x")); }},
      {"DataTable::hasColumn", [](DataTable& t) { use(t.hasColumn("x")); }},
      {"DataTable::operator()(name,name)", [](DataTable& t) { use(t("x", "y")); }},
      {"DataTable::operator()(name,j)", [](DataTable& t) { use(t("x", 0)); }},
      {"DataTable::operator()(i,name)", [](DataTable& t) { use(t(0, "x")); }},
      {"DataTable::operator()(i,j) out of range", [](DataTable& t) { use(t(t.getNumberOfRows(), 0)); }},
      {"DataTable::deleteRow(i)", [](DataTable& t) { t.deleteRow(0); use(t.getNumberOfRows()); if (t.hasRowNames()) use(t.getRowNames()); }},
      {"DataTable::deleteRow(name)", [](DataTable& t) { t.deleteRow("x"); use(t.getNumberOfRows()); }},
      {"DataTable::deleteColumn(i)", [](DataTable& t) { t.deleteColumn(0); use(t.getNumberOfColumns()); if (t.hasColumnNames()) use(t.getColumnNames()); }},
      {"DataTable::deleteColumn(name)", [](DataTable& t) { t.deleteColumn("x"); use(t.getNumberOfColumns()); }},
      {"DataTable::addRow(row)", [](DataTable& t) { t.addRow(vector<string>(t.getNumberOfColumns(), "v")); use(t.getRow(t.getNumberOfRows() - 1)); }},
      {"DataTable::addRow(name,row)", [](DataTable& t) { t.addRow("q", vector<string>(t.getNumberOfColumns(), "v")); use(t.getRow(t.getNumberOfRows() - 1)); use(t.getRowNames()); }},
      {"DataTable::addRow(short row)", [](DataTable& t) { t.addRow(vector<string>()); }},
      {"DataTable::setRow", [](DataTable& t) { t.setRow(0, vector<string>(t.getNumberOfColumns(), "v")); use(t.getRow(0)); }},
      {"DataTable::addColumn(col)", [](DataTable& t) { t.addColumn(vector<string>(t.getNumberOfRows(), "w")); use(t.getColumn(t.getNumberOfColumns() - 1)); }},
      {"DataTable::addColumn(name,col)", [](DataTable& t) { t.addColumn("q", vector<string>(t.getNumberOfRows(), "w")); use(t.getColumn(t.getNumberOfColumns() - 1)); use(t.getColumnNames()); }},
      {"DataTable::addColumn(long col)", [](DataTable& t) { t.addColumn(vector<string>(t.getNumberOfRows() + 1, "z")); }},
      // a rejected edit followed by look-ups under the name it carried: the table is the caller's and is kept after the exception
      {"DataTable::addRow(name,long row) rejected, then by-name access", [](DataTable& t) {
         try { t.addRow("q", vector<string>(t.getNumberOfColumns() + 1, "v")); } catch (bpp::Exception&) {}
         use(t.hasRow("q")); try { use(t.getRow("q")); } catch (bpp::Exception&) {} try { use(t("q", 0)); } catch (bpp::Exception&) {}
         try { t.deleteRow("q"); } catch (bpp::Exception&) {} use(t.getNumberOfRows()); if (t.hasRowNames()) use(t.getRowNames()); }},
      {"DataTable::addRow(existing name,row) rejected, then by-name access", [](DataTable& t) {
         try { t.addRow("x", vector<string>(t.getNumberOfColumns(), "v")); } catch (bpp::Exception&) {}
         try { use(t.getRow("x")); } catch (bpp::Exception&) {} try { t.deleteRow("x"); } catch (bpp::Exception&) {} use(t.getNumberOfRows()); if (t.hasRowNames()) use(t.getRowNames()); }},
      {"DataTable::addColumn(name,long col) rejected, then by-name access", [](DataTable& t) {
         try { t.addColumn("q", vector<string>(t.getNumberOfRows() + 1, "w")); } catch (bpp::Exception&) {}
         use(t.hasColumn("q")); try { use(t.getColumn("q")); } catch (bpp::Exception&) {} try { use(t(0, "q")); } catch (bpp::Exception&) {}
         try { t.deleteColumn("q"); } catch (bpp::Exception&) {} use(t.getNumberOfColumns()); if (t.hasColumnNames()) use(t.getColumnNames()); }},
      {"DataTable::addColumn(existing name,col) rejected, then by-name access", [](DataTable& t) {
         try { t.addColumn("x", vector<string>(t.getNumberOfRows(), "w")); } catch (bpp::Exception&) {}
         try { use(t.getColumn("x")); } catch (bpp::Exception&) {} try { t.deleteColumn("x"); } catch (bpp::Exception&) {} use(t.getNumberOfColumns()); if (t.hasColumnNames()) use(t.getColumnNames()); }},
      {"DataTable::setRowNames(one name too many) rejected, then names and rows", [](DataTable& t) {
         try { t.setRowNames(vector<string>(t.getNumberOfRows() + 1, "q")); } catch (bpp::Exception&) {}
         if (t.hasRowNames()) { use(t.getRowNames()); try { use(t.getRow("q")); } catch (bpp::Exception&) {} } try { use(t.getRow(t.getNumberOfRows() - 1)); } catch (bpp::Exception&) {} }},
      {"DataTable::setColumnNames(one name too many) rejected, then names and columns", [](DataTable& t) {
         vector<string> n(t.getNumberOfColumns() + 1); for (size_t i = 0; i < n.size(); ++i) n[i] = "c" + vf::str(i);
         try { t.setColumnNames(n); } catch (bpp::Exception&) {}
         if (t.hasColumnNames()) { use(t.getColumnNames()); try { use(t.getColumn("c" + vf::str(n.size() - 1))); } catch (bpp::Exception&) {} } }},
      {"DataTable::deleteRow(name) twice, addRow(name,row) again", [](DataTable& t) {
         try { t.deleteRow("x"); } catch (bpp::Exception&) {} try { t.deleteRow("x"); } catch (bpp::Exception&) {}
         try { t.addRow("x", vector<string>(t.getNumberOfColumns(), "v")); } catch (bpp::Exception&) {} try { use(t.getRow("x")); } catch (bpp::Exception&) {} if (t.hasRowNames()) use(t.getRowNames()); }},
      {"DataTable::operator= from a table without names, then names by index", [](DataTable& t) {
         DataTable o(3, 2); t = o; use(t.getNumberOfRows()); use(t.getNumberOfColumns());
         if (t.hasRowNames()) { use(t.getRowNames()); try { use(t.getRowName(t.getNumberOfRows() - 1)); } catch (bpp::Exception&) {} }
         if (t.hasColumnNames()) { use(t.getColumnNames()); try { use(t.getColumnName(t.getNumberOfColumns() - 1)); } catch (bpp::Exception&) {} }
         try { use(t.getRow(2)); } catch (bpp::Exception&) {} }},
      {"DataTable::deleteRow(i) beyond the rows of a table that has row names but no column", [](DataTable& t) {
         DataTable z(0); try { z.addRow("r1", vector<string>()); } catch (bpp::Exception&) {}
         try { z.deleteRow(5); } catch (bpp::Exception&) {} use(z.getNumberOfRows()); if (z.hasRowNames()) use(z.getRowNames());
         try { z.deleteRow(0); } catch (bpp::Exception&) {} use(z.getNumberOfRows()); (void)t; }},
      {"DataTable::operator= from a table with other names, then by-name access", [](DataTable& t) {
         DataTable o(2, 1); try { o.setColumnNames({"x"}); o.setRowNames({"q", "y"}); } catch (bpp::Exception&) {}
         t = o; use(t.getNumberOfRows()); use(t.getNumberOfColumns());
         if (t.hasRowNames()) use(t.getRowNames()); if (t.hasColumnNames()) use(t.getColumnNames());
         try { use(t.getRow("y")); } catch (bpp::Exception&) {} try { use(t.getColumn("x")); } catch (bpp::Exception&) {} try { use(t.getRow("x")); } catch (bpp::Exception&) {} try { use(t.getColumn("y")); } catch (bpp::Exception&) {} }},
    };
    vector<string> od2;
    const char* variants[] = {"header=1 rowNames=-1", "header=1 rowNames=0", "header=0 rowNames=-1"};
    for (auto& e : eds) for (int v = 0; v < 3; ++v) od2.push_back(e.first + " after read(sep=\",\" " + variants[v] + ")");
    add("DataTable.edits", {"x", "y", ",", "\n"}, od2, [eds](const string& s, int o, vf::Case& c) {
      int v = o % 3; const auto& e = eds[(size_t)(o / 3)];
      std::istringstream in(s);
      S(c, "DataTable::read");
      std::unique_ptr<DataTable> dt = DataTable::read(in, ",", v != 2, v == 1 ? 0 : -1);
      S(c, e.first.c_str());
      try { e.second(*dt); } catch (bpp::Exception&) {}
      S(c, "DataTable::write(after edit)");
      { std::ostringstream out; DataTable::write(*dt, out, ",", true); use(out.str()); }
    }, true);
  }

  // ---- distribution descriptions -------------------------------------------------------------------------------
  {
    // description = family "(" item ("," item)* ")" with items from a family-specific list (letters = items)
    struct Fam { string name; vector<string> items; };
    vector<string> ncl = {"n=1", "n=2", "n=x", "m=1"};
    vector<Fam> fams = {
      {"Gamma", {"alpha=0", "alpha=2", "alpha=x", "beta=2", "beta=-1", "offset=1", "offset=x", "ParamOffset=1"}},
      {"Beta", {"alpha=0", "alpha=2", "alpha=x", "beta=2", "beta=-1", "beta="}},
      {"Gaussian", {"mu=1", "mu=x", "sigma=0", "sigma=2", "sigma=-1"}},
      {"Exponential", {"lambda=0", "lambda=2", "lambda=-1", "lambda=x", "median=1"}},
      {"TruncExponential", {"lambda=0", "lambda=2", "lambda=x", "tp=0", "tp=3", "tp=-1", "median=1"}},
      {"Uniform", {"begin=0", "begin=2", "begin=x", "end=1", "end=0", "end=x"}},
    };
    for (auto& f : fams) {
      vector<string> items = ncl; items.insert(items.end(), f.items.begin(), f.items.end());
      string fam = f.name;
      add("readDiscreteDistribution." + fam, items, {"parseArguments=1", "parseArguments=0", "nested in Invariant(dist=..,p=0.3)", "nested in Mixture(probas=(0.4,0.6),dist1=..,dist2=Constant(value=1))"},
          [fam, items](const string& s, int o, vf::Case& c) {
        // s is the concatenation of items; rebuild the item list by greedy matching is not needed: we get the joined text with "," between items
        string desc = fam + "(" + s + ")";
        if (o == 2) desc = "Invariant(dist=" + desc + ",p=0.3)";
        if (o == 3) desc = "Mixture(probas=(0.4,0.6),dist1=" + desc + ",dist2=Constant(value=1))";
        BppODiscreteDistributionFormat rd(false);
        S(c, "BppODiscreteDistributionFormat::readDiscreteDistribution");
        auto d = rd.readDiscreteDistribution(desc, o != 1);
        S(c, "DiscreteDistribution accessors after read");
        size_t n = d->getNumberOfCategories(); use(n);
        for (size_t i = 0; i < n && i < 4; ++i) { use(d->getCategory(i)); use(d->getProbability(i)); }
      }, true);
    }
    // degenerate class counts for every family (own small space: these fail on the unchanged tree for every description of some families)
    {
      vector<string> famn = {"Gamma", "Beta", "Gaussian", "Exponential", "TruncExponential", "Uniform"};
      vector<string> od;
      const char* ns[] = {"n=0", "n=-1", "n=0 parseArguments=0"};
      for (auto& f : famn) for (auto n : ns) od.push_back(f + " " + n);
      add("readDiscreteDistribution.class-count", {"alpha=2", "lambda=2", "begin=0,end=1"}, od, [famn](const string& s, int o, vf::Case& c) {
        const char* nv[] = {"n=0", "n=-1", "n=0"};
        string desc = famn[(size_t)(o / 3)] + "(" + nv[o % 3] + (s.empty() ? "" : ",") + s + ")";
        BppODiscreteDistributionFormat rd(false);
        S(c, "BppODiscreteDistributionFormat::readDiscreteDistribution");
        auto d = rd.readDiscreteDistribution(desc, (o % 3) != 2);
        S(c, "DiscreteDistribution accessors after read");
        size_t n = d->getNumberOfCategories(); use(n);
        for (size_t i = 0; i < n && i < 4; ++i) { use(d->getCategory(i)); use(d->getProbability(i)); }
      }, false);
    }
    // Simple: values / probas / ranges from lists of well- and ill-formed pieces (letters = whole arguments)
    add("readDiscreteDistribution.Simple", {"values=", "values=(", "values=()", "values=(1)", "values=(1,2)", "values=(x)", "values=1", "probas=", "probas=()", "probas=(1)", "probas=(0.5,0.5)", "probas=(0.5,0.6)", "probas=(x)",
         "ranges=", "ranges=()", "ranges=(V1[0;2])", "ranges=(V1[0;2],V2[1;3])", "ranges=(V1)", "ranges=(V9[0;1])", "ranges=(V1[2;0])", "ranges=(Vx[0;1])", "ranges=([;])", "ranges=(V1[x;y])"},
        {"parseArguments=1", "parseArguments=0"}, [](const string& s, int o, vf::Case& c) {
      string desc = "Simple(" + s + ")";
      BppODiscreteDistributionFormat rd(false);
      S(c, "BppODiscreteDistributionFormat::readDiscreteDistribution");
      auto d = rd.readDiscreteDistribution(desc, o == 0);
      S(c, "DiscreteDistribution accessors after read");
      size_t n = d->getNumberOfCategories(); use(n);
      for (size_t i = 0; i < n && i < 4; ++i) { use(d->getCategory(i)); use(d->getProbability(i)); }
    }, true);
    add("readDiscreteDistribution.compound", {"Constant(", "Mixture(", "Invariant(", "Gamma(n=2)", "value=1", "value=x", "value=-1", "probas=(1)", "probas=(0.5,0.5)", "probas=()", "probas=", "probas=x", "dist=", "dist1=", "dist2=", "p=2", ")"},
        {"parseArguments=1", "parseArguments=0"}, [](const string& s, int o, vf::Case& c) {
      BppODiscreteDistributionFormat rd(false);
      S(c, "BppODiscreteDistributionFormat::readDiscreteDistribution");
      auto d = rd.readDiscreteDistribution(s, o == 0);
      S(c, "DiscreteDistribution accessors after read");
      size_t n = d->getNumberOfCategories(); use(n);
      for (size_t i = 0; i < n && i < 4; ++i) { use(d->getCategory(i)); use(d->getProbability(i)); }
    }, true);
  }

  // ---- IntervalConstraint(desc) --------------------------------------------------------------------------------
  add("IntervalConstraint(desc)", {"[", "]", ";", "-", "i", "n", "f", "1"}, {"-"}, [](const string& s, int, vf::Case& c) {
    string d = s;
    S(c, "IntervalConstraint::IntervalConstraint(desc)");
    IntervalConstraint ic(d);
    S(c, "IntervalConstraint::getDescription"); use(ic.getDescription());
    S(c, "IntervalConstraint::isCorrect"); use(ic.isCorrect(1.)); use(ic.getLimit(1.)); use(ic.getAcceptedLimit(1.));
  }, true);
  add("IntervalConstraint(desc).words", {"[", "]", ";", "-inf", "inf", "+inf", "1", "-1", "1e400"}, {"-"}, [](const string& s, int, vf::Case& c) {
    string d = s;
    S(c, "IntervalConstraint::IntervalConstraint(desc)");
    IntervalConstraint ic(d);
    S(c, "IntervalConstraint::getDescription"); use(ic.getDescription());
    S(c, "IntervalConstraint::isCorrect"); use(ic.isCorrect(1.)); use(ic.getLimit(1.)); use(ic.getAcceptedLimit(1.));
  }, true);

  // ---- NumCalcApplicationTools ---------------------------------------------------------------------------------
  add("NumCalcApplicationTools.seqFromString", {"1", "9", ",", "-", ":", " "}, {"delim=\",\" seqdelim=\"-\"", "delim=\",\" seqdelim=\":\"", "delim=\" \" seqdelim=\"-\"", "delim=\",,\" seqdelim=\"--\""}, [](const string& s, int o, vf::Case& c) {
    const char* d[] = {",", ",", " ", ",,"}; const char* sd[] = {"-", ":", "-", "--"};
    S(c, "NumCalcApplicationTools::seqFromString"); use(NumCalcApplicationTools::seqFromString(s, d[o], sd[o]));
  }, true);
  add("NumCalcApplicationTools.getVector", {"s", "e", "q", "(", "1", ",", "=", ")"}, {"-"}, [](const string& s, int, vf::Case& c) {
    S(c, "NumCalcApplicationTools::getVector"); use(NumCalcApplicationTools::getVector(s));
  }, true);
  add("NumCalcApplicationTools.getVector.words", {"seq(", "seq(from=0,to=1,", "seq(from=2,to=1,", "from=0", "to=x", "step=1", "step=0.5", "step=0", "step=-1", "size=2", "size=0", "size=-1", "scale=log", "scale=z", ",", ")"}, {"-"}, [](const string& s, int, vf::Case& c) {
    S(c, "NumCalcApplicationTools::getVector"); use(NumCalcApplicationTools::getVector(s));
  }, true);

  // whole descriptions whose step is below the resolution of the bounds (x += step does not advance). Kept apart from the word alphabet: a
  // concatenation such as "seq(from=0,to=1,)seq(from=1e16,..." parses as a request for 1e16 elements, i.e. an allocation that is huge but
  // proportional to the numbers the input states -- not the 'unbounded allocation' the statement excludes, and not driven.
  add("NumCalcApplicationTools.getVector.step-below-resolution", {"seq(from=1e16,to=10000000000000004,step=1)", "seq(from=1e16,to=10000000000000004,step=0.5)", "seq(from=-1e16,to=-9999999999999996,step=1)",
      "seq(from=1e16,to=10000000000000004,size=3)", "seq(from=1e16,to=10000000000000004,step=2)", "seq(from=1,to=1.0000000000000004,step=1e-17)",
      "seq(from=0,to=1,size=-2147483648)", "seq(from=0,to=1,size=-2147483647)", "seq(from=0,to=1,size=2147483648)", "seq(from=0,to=1,size=0)"}, {"-"}, [](const string& s, int, vf::Case& c) {
    S(c, "NumCalcApplicationTools::getVector"); use(NumCalcApplicationTools::getVector(s));
  }, true);
  // integer ranges at the limits of int (whole descriptions again: "1:2147483647" would be a request for 2^31 elements)
  add("NumCalcApplicationTools.seqFromString.int-limits", {"2147483646:2147483647", "2147483647:2147483646", "-2147483648:-2147483647", "-2147483647:-2147483648", "2147483647", "-2147483648", "2147483648:2147483649", "2147483647:2147483647"},
      {"delim=\",\" seqdelim=\":\""}, [](const string& s, int, vf::Case& c) {
    S(c, "NumCalcApplicationTools::seqFromString"); use(NumCalcApplicationTools::seqFromString(s, ",", ":"));
  }, true);

  // ---- ComputationTree -----------------------------------------------------------------------------------------
  {
    auto body = [](const string& s, int o, vf::Case& c) {
      map<string, std::shared_ptr<FunctionInterface>> fn;
      if (o == 1) fn["f"] = std::make_shared<ConstFun>();
      S(c, "ComputationTree::ComputationTree");
      ComputationTree t(s, fn);
      S(c, "ComputationTree::output"); use(t.output());
      S(c, "ComputationTree::isAllSum"); use(t.isAllSum());
    };
    add("ComputationTree", {"1", "f", "+", "-", "*", "/", "(", ")"}, {"no function names", "functionNames={f}"}, body, true);
    add("ComputationTree.words", {"exp(", "log(", "1", "f", "+", "*", "-", "(", ")", " ", "e"}, {"no function names", "functionNames={f}"}, body, true);
  }
  return E;
}

// ------------------------------------------------------------------------------------------------------------------
int main(int argc, char** argv) {
  // ASan inflates stack frames (red zones); give the process 16 x the default 8 MB so that a stack overflow seen here implies one in an
  // uninstrumented build with the default stack (frames are at most ~16 x larger under ASan at -O1)
  { struct rlimit rl; if (getrlimit(RLIMIT_STACK, &rl) == 0) { rlim_t want = 128UL << 20; if (rl.rlim_max != RLIM_INFINITY && want > rl.rlim_max) want = rl.rlim_max; rl.rlim_cur = want; setrlimit(RLIMIT_STACK, &rl); } }
  // one-time costs of the first exception (unwinder tables, backtrace symbols) are paid here, before any case is timed; workers inherit them
  try { throw bpp::Exception("warm-up"); } catch (bpp::Exception& e) { use(string(e.what())); }
  vf::Runner R(argc, argv, "C16");
  bool th = R.thorough();
  silence();
  vector<EP> eps = buildEPs();
  // per-entry-point length overrides (quick, thorough); default 5 | 7 then lowered to the case cap
  map<string, std::pair<int, int>> maxLen = {
    {"StringTokenizer.empty-delimiters", {2, 3}},          // solid mode: every case fails on the unchanged tree -> bounded supervision cost
    {"NestedStringTokenizer.empty-delimiters", {2, 3}},
    {"NestedStringTokenizer.unparse-through-base", {3, 4}},
    {"AttributesTools.resolveVariables.words", {6, 7}},
    {"AttributesTools.getAttributesMap.continuation", {4, 5}},
    {"ApplicationTools.range-vector-readers", {4, 5}},
    {"DataTable.edits", {4, 5}},
    {"NumCalcApplicationTools.getVector.words", {4, 5}},
    {"NumCalcApplicationTools.getVector.step-below-resolution", {1, 1}},
    {"NumCalcApplicationTools.seqFromString.int-limits", {1, 1}},
    {"readDiscreteDistribution.Simple", {3, 3}},           // values + probas + ranges: three arguments
    {"readDiscreteDistribution.Uniform", {3, 4}},          // a well-formed Uniform needs three arguments
    {"readDiscreteDistribution.compound", {4, 5}},
  };
  const uint64_t cap = th ? 2500000ULL : 100000ULL;
  string capsNote = "length bound per entry point (letters): ";
  uint64_t nEP = 0;
  const char* only = getenv("C16_ONLY");   // development aid: restrict to entry points whose name contains this text
  for (size_t e = 0; e < eps.size(); ++e) {
    const EP ep = eps[e];
    if (only && *only && ep.name.find(only) == string::npos) continue;
    uint64_t A = ep.alpha.size(), O = ep.opts.size();
    int want = th ? 7 : 5;
    auto it = maxLen.find(ep.name); if (it != maxLen.end()) want = th ? it->second.second : it->second.first;
    bool distItems = ep.name.find("readDiscreteDistribution.") == 0 && ep.name != "readDiscreteDistribution.compound";
    bool classCount = ep.name.find(".class-count") != string::npos;
    if (distItems && it == maxLen.end()) want = classCount ? (th ? 2 : 1) : 3;   // a family description with class count and both shape parameters has three items
    int L = fitLen(A, want, O, cap);
    uint64_t nS = countUpTo(A, L);
    capsNote += ep.name + "=" + vf::str(L) + (L < want ? "(capped from " + vf::str(want) + ")" : "") + "; ";
    ++nEP;
    string sep = distItems ? "," : "";
    // ---- all short strings ----
    string name = "ep:" + ep.name + ":letters=" + vf::str(A) + ":len<=" + vf::str(L) + ":opts=" + vf::str(O);
    R.space(name, nS * O, [ep, A, O, sep](uint64_t idx, vf::Case& c) {
      int opt = (int)(idx % O); vector<int> d = seqOf(idx / O, A);
      string in; for (size_t i = 0; i < d.size(); ++i) { if (i) in += sep; in += ep.alpha[(size_t)d[i]]; }
      execCase(ep, in, opt, c, 0.1);
      if (idx % 7919 == 11) c.sample(ep.name + " [" + ep.opts[(size_t)opt] + "] " + show(in) + (c.failed ? " -> violation" : " -> ok"));
    }, 6.0, 256);
    // ---- repetition families: every word of 1..3 letters repeated to >= 64 and >= 4096 bytes ----
    if (ep.name.find(".step-below-resolution") != string::npos || ep.name.find(".int-limits") != string::npos) continue;   // whole descriptions: a repetition is a request for ~1e16 elements (see the entry point)
    int wl = (A > 12) ? 2 : 3;
    if (ep.name.find(".empty-delimiters") != string::npos) wl = 1;   // solid mode: every case fails on the unchanged tree
    if (ep.name.find("ComputationTree") == 0 || ep.name == "DataTable.edits") wl = 2;   // 4 KiB formulas / tables are the slowest cases
    if (ep.name == "FileTools.paths" || distItems) wl = 1;           // getParent: every separator-free heap string fails on the unchanged tree
    uint64_t nW = countUpTo(A, wl) - 1;
    string rname = "rep:" + ep.name + ":letters=" + vf::str(A) + ":w<=" + vf::str(wl) + ":bytes=64,4096:opts=" + vf::str(O);
    R.space(rname, nW * 2 * O, [ep, A, O, sep](uint64_t idx, vf::Case& c) {
      int opt = (int)(idx % O); uint64_t r = idx / O; size_t target = (r % 2) ? 4096 : 64; vector<int> d = seqOf(r / 2 + 1, A);
      string w; for (size_t i = 0; i < d.size(); ++i) { if (i) w += sep; w += ep.alpha[(size_t)d[i]]; }
      string in; while (in.size() < target) { if (!in.empty()) in += sep; in += w; }
      execCase(ep, in, opt, c, 2.0);
      if (idx % 1009 == 5) c.sample(ep.name + " [" + ep.opts[(size_t)opt] + "] (" + show(w) + ")^k, " + vf::str(in.size()) + " bytes" + (c.failed ? " -> violation" : " -> ok"));
    }, 60.0, 16);
    if (!R.replay && R.timeLeft()) {   // (after the global deadline the spaces are reported as incomplete instead)
      if (!classCount) R.expectSeen(ep.name + " returned");   // (degenerate class counts: raising on every input is the right answer)
      if (ep.canRaise) R.expectSeen(ep.name + " raised-bpp::Exception");
    }
  }
  R.note(capsNote);
  R.note(vf::str(nEP) + " entry-point groups covering ~90 public functions; each group's alphabet and option list is in the harness (buildEPs)");
  R.note("outcome classes: '<entry point> returned' and '<entry point> raised-bpp::Exception' are the two permitted outcomes; everything else is a violation with signature kind|site|class; crash|<site>|exit97 is the CPU-time watchdog (the case did not terminate within 0.1 s / 2 s of CPU time)");
  R.note("AttributesTools::removeComments is private; it is exercised through getAttributesMap (letters # / * and, in option 3, new-lines inside elements)");
  R.note("entry points that read files or the terminal (getAttributesMapFromFile, parseOptions with param=, fileExists on user paths) are not driven; getAFilePath is called with mustExist=false");
  return R.finish();
}
