// C05 — LU solve, inverse and determinant meet their equations or report singularity
// VF-VARIANT: san
// VF-VARIANT_THOROUGH: opt
// VF-RULE: E2: every n-by-n integer matrix over a stated alphabet (mixed-radix index, simplest first: index 0 is the zero matrix), every pair of such matrices for det(AB), the full cube of storage classes (A,B,X in Row/Col/LinearMatrix) x 1..4 right-hand-side columns x every wrong height 0..n+1 on the small lattices, and for n=4..10 completely enumerated structured families (permuted triangular incl. the growth matrix, rank-one, rank-(n-1), dyadic Q1.diag(sigma).Q2 with condition number 1..2^20). A case is non-trivial when the factorisation needed at least one row exchange or met a pivot below the threshold.
// VF-BOUND: lattices n=1 and n=2 [-9,9], n=3 {-1,0,1,2} (thorough [-2,2]), n=4 {0,1} (thorough {-1,0,1}) instead of all of [-9,9]^(n*n); n=5..10 (and n=4 beyond the lattice) only through the enumerated families; "random matrices with prescribed singular values" replaced by the enumerated dyadic family (orthogonal factors = products of Householder reflectors with dyadic entries and cyclic shifts, sigma = powers of two) so that matrix, right-hand side and determinant are exact
// VF-LEVEL: bounded-exhaustive differential check of the real LUDecomposition / MatrixTools::inv / MatrixTools::det against exact integer arithmetic (Bareiss in __int128) and a-priori rounding-error bounds (Higham, Accuracy and Stability of Numerical Algorithms, Thm 9.3/9.4) evaluated in long double; no tuned tolerance
// VF-ASSUME: IEEE-754 binary64 arithmetic with round-to-nearest in the library (x86-64 SSE2) and an 80-bit long double in the harness;; the backward-error theorems of Higham ch. 8-9 (valid for any pivoting sequence and any loop ordering);; g++ __int128 arithmetic;; the engine's fork/alarm supervisor
// VF-TECHNIQUE: exhaustive enumeration + exact reference + derived error bounds
// VF-BUDGET_QUICK: 150
// VF-BUDGET_THOROUGH: 1800
#include "vf.hpp"
#include <cstring>
#include <Bpp/Numeric/Matrix/LUDecomposition.h>
#include <Bpp/Numeric/Matrix/MatrixTools.h>
#include <Bpp/Numeric/NumConstants.h>
#include <cmath>
#include <functional>
#include <algorithm>
using namespace bpp;
using vf::str;

typedef long double LD;
typedef __int128 I128;
typedef long long LL;

// ---------- rounding units ----------
static const LD UD = ldexpl(1.0L, -53);   // unit round-off of double
static const LD UL = ldexpl(1.0L, -64);   // unit round-off of the harness' long double
static LD gam(int k) { return k * UD / (1 - k * UD); }    // gamma_k (Higham Lemma 3.1)
static LD gamL(int k) { return k * UL / (1 - k * UL); }   // same for the long double evaluation of residuals

// ---------- storage classes ----------
static const char* CLS[3] = {"RowMatrix", "ColMatrix", "LinearMatrix"};
static std::unique_ptr<Matrix<double>> mk(int cls, size_t r, size_t c) {
  switch (cls) {
  case 0: return std::unique_ptr<Matrix<double>>(new RowMatrix<double>(r, c));
  case 1: return std::unique_ptr<Matrix<double>>(new ColMatrix<double>(r, c));
  default: return std::unique_ptr<Matrix<double>>(new LinearMatrix<double>(r, c));
  }
}

// ---------- test matrix: exact double entries + exact determinant ----------
struct Mat {
  int n = 0;
  std::vector<double> a;   // row-major, every entry exact by construction
  LD det = 0;              // exact determinant (integer Bareiss or known from the construction), exactly representable
  std::string desc;
  double at(int i, int j) const { return a[(size_t)i * n + j]; }
};

static std::string mstr(int n, const std::vector<double>& a) {
  std::string s = "[";
  for (int i = 0; i < n; ++i) { s += (i ? ",[" : "["); for (int j = 0; j < n; ++j) { if (j) s += ","; s += vf::num(a[(size_t)i * n + j]); } s += "]"; }
  return s + "]";
}

// fraction-free elimination: exact determinant of an integer matrix (every intermediate is a minor, |minor| < 2^63 here;
// products < 2^126). Overflow is checked, never assumed away.
static I128 bareiss(int n, std::vector<I128> m) {
  I128 prev = 1; int sign = 1;
  for (int k = 0; k < n - 1; ++k) {
    if (m[k * n + k] == 0) {
      int p = -1; for (int i = k + 1; i < n; ++i) if (m[i * n + k] != 0) { p = i; break; }
      if (p < 0) return 0;
      for (int j = 0; j < n; ++j) std::swap(m[k * n + j], m[p * n + j]);
      sign = -sign;
    }
    for (int i = k + 1; i < n; ++i) for (int j = k + 1; j < n; ++j) {
      I128 x, y, d;
      if (__builtin_mul_overflow(m[i * n + j], m[k * n + k], &x) || __builtin_mul_overflow(m[i * n + k], m[k * n + j], &y) || __builtin_sub_overflow(x, y, &d)) {
        fprintf(stderr, "HARNESS: Bareiss overflow\n"); abort();
      }
      m[i * n + j] = d / prev;   // exact division
    }
    prev = m[k * n + k];
  }
  return sign * m[n * n - 1];
}
static Mat intMat(int n, const std::vector<LL>& v, const std::string& d) {
  Mat M; M.n = n; M.a.resize(v.size()); std::vector<I128> w(v.size());
  for (size_t i = 0; i < v.size(); ++i) { M.a[i] = (double)v[i]; w[i] = v[i]; }
  I128 D = bareiss(n, w);
  M.det = (LD)D; if ((I128)M.det != D) { fprintf(stderr, "HARNESS: determinant not representable\n"); abort(); }
  M.desc = d; return M;
}

// permanent of a non-negative matrix by subset dynamic programming (no cancellation)
static LD permanent(int n, const std::vector<LD>& M) {
  std::vector<LD> dp((size_t)1 << n, 0.0L); dp[0] = 1;
  for (unsigned mask = 1; mask < (1u << n); ++mask) {
    int r = __builtin_popcount(mask) - 1; LD s = 0;
    for (int j = 0; j < n; ++j) if (mask & (1u << j)) s += dp[mask ^ (1u << j)] * M[(size_t)r * n + j];
    dp[mask] = s;
  }
  return dp[((size_t)1 << n) - 1];
}

// ---------- the factorisation as seen through the public observers, with the Thm 9.3 checks ----------
struct Fact {
  int n = 0;
  std::vector<double> L, U;      // as returned by getL/getU
  std::vector<size_t> piv;
  std::vector<LD> PA, G;         // row-permuted input; G >= |L||U| (evaluated in long double, inflated by its own rounding)
  double minPiv = 0;             // min_i |U_ii|
  bool exchanged = false;
  bool ok = true;                // structure usable for the dependent checks
};

// checks: pivot vector is a permutation whose sign is the stored pivot sign; L unit lower, U upper; |P.A - L.U| <= gamma_n |L||U|
typedef std::function<std::string()> Lazy;   // input descriptions are only built when a violation is reported
static Fact factor(vf::Case& c, const std::string& part, const Lazy& in, const Mat& M, LUDecomposition<double>& lu) {
  Fact F; int n = F.n = M.n;
  c.site("LUDecomposition::getL"); const RowMatrix<double>& L = lu.getL();
  c.site("LUDecomposition::getU"); const RowMatrix<double>& U = lu.getU();
  c.site("LUDecomposition::getPivot"); F.piv = lu.getPivot();
  int storedSign = lu.pivsign;   // read-only access to the private sign used by det()
  if ((int)L.getNumberOfRows() != n || (int)L.getNumberOfColumns() != n || (int)U.getNumberOfRows() != n || (int)U.getNumberOfColumns() != n || (int)F.piv.size() != n) {
    c.fail(part + "|factor-dimensions", in()); F.ok = false; return F;
  }
  std::vector<int> seen(n, 0); bool isPerm = true;
  for (int i = 0; i < n; ++i) { if (F.piv[i] >= (size_t)n || seen[F.piv[i]]++) isPerm = false; if (F.piv[i] != (size_t)i) F.exchanged = true; }
  if (!isPerm) { c.fail(part + "|pivot-not-a-permutation", in() + " piv=" + vf::vstr(F.piv)); F.ok = false; return F; }
  { // sign of the permutation = (-1)^(n - #cycles)
    std::vector<int> vis(n, 0); int cycles = 0;
    for (int i = 0; i < n; ++i) if (!vis[i]) { ++cycles; for (int j = i; !vis[j]; j = (int)F.piv[j]) vis[j] = 1; }
    int sgn = ((n - cycles) % 2) ? -1 : 1;
    if (sgn != storedSign) c.fail(part + "|pivot-sign", in() + " piv=" + vf::vstr(F.piv) + " sign of permutation=" + str(sgn) + " stored pivsign=" + str(storedSign));
  }
  F.L.resize((size_t)n * n); F.U.resize((size_t)n * n);
  bool shape = true, finite = true;
  for (int i = 0; i < n; ++i) for (int j = 0; j < n; ++j) {
    double l = L((size_t)i, (size_t)j), u = U((size_t)i, (size_t)j);
    F.L[(size_t)i * n + j] = l; F.U[(size_t)i * n + j] = u;
    if (!std::isfinite(l) || !std::isfinite(u)) finite = false;
    if (i == j && l != 1.0) shape = false;
    if (i < j && l != 0.0) shape = false;
    if (i > j && u != 0.0) shape = false;
  }
  if (!shape) c.fail(part + "|L-unit-lower-U-upper", in() + " L=" + mstr(n, F.L) + " U=" + mstr(n, F.U));
  if (!finite) { c.fail(part + "|factor-not-finite", in() + " L=" + mstr(n, F.L) + " U=" + mstr(n, F.U)); F.ok = false; return F; }
  F.minPiv = std::fabs(F.U[0]); for (int i = 1; i < n; ++i) F.minPiv = std::min(F.minPiv, std::fabs(F.U[(size_t)i * n + i]));
  F.PA.resize((size_t)n * n); F.G.resize((size_t)n * n);
  bool within = true; std::string worst;
  for (int i = 0; i < n; ++i) for (int j = 0; j < n; ++j) {
    LD pa = M.at((int)F.piv[i], j), s = 0, g = 0;
    for (int k = 0; k < n; ++k) { LD t = (LD)F.L[(size_t)i * n + k] * (LD)F.U[(size_t)k * n + j]; s += t; g += fabsl(t); }
    g *= (1 + gamL(n + 1));                       // g is now an upper bound of (|L||U|)_ij
    F.PA[(size_t)i * n + j] = pa; F.G[(size_t)i * n + j] = g;
    // Higham Thm 9.3: L^U^ = P.A + dA with |dA| <= gamma_n |L^||U^| component-wise; second term: rounding of this long double residual
    LD bound = gam(n) * g + gamL(n + 1) * (fabsl(pa) + g);
    if (!(fabsl(pa - s) <= bound)) { within = false; if (worst.empty()) worst = "entry (" + str(i) + "," + str(j) + "): |P.A-L.U|=" + vf::num((double)fabsl(pa - s)) + " bound=" + vf::num((double)bound); }
  }
  if (!within) c.fail(part + "|PA=LU-bound", in() + " piv=" + vf::vstr(F.piv) + " L=" + mstr(n, F.L) + " U=" + mstr(n, F.U) + " " + worst);
  return F;
}

// |fl(sign * prod u_ii) - det(A)| bound. prod u_ii = det(P.A + dA) exactly, |dA| <= gamma_n G. With M = max(|P.A|, G) entry-wise,
// |det(A+dA) - det(A)| <= sum over permutations of (prod(|a|+|da|) - prod|a|) <= ((1+gamma_n)^n - 1) perm(M); the n multiplications of
// det() add a factor (1 + theta_n). The bound itself is evaluated in long double and inflated by 2^-50 for that evaluation.
static LD detBound(const Fact& F, LD exact) {
  int n = F.n; std::vector<LD> Mx((size_t)n * n);
  for (size_t i = 0; i < Mx.size(); ++i) Mx[i] = std::max(fabsl(F.PA[i]), F.G[i]);
  LD b1 = (powl(1 + gam(n), n) - 1) * permanent(n, Mx);
  LD b = b1 + gam(n) * (fabsl(exact) + b1);
  return b * (1 + ldexpl(1.0L, -50));
}

static void fill(Matrix<double>& A, const Mat& M, bool transpose = false) {
  for (int i = 0; i < M.n; ++i) for (int j = 0; j < M.n; ++j) A((size_t)i, (size_t)j) = transpose ? M.at(j, i) : M.at(i, j);
}

// fixed integer right-hand-side generator X0 (n x k); B = A.X0 is exact for every matrix used here
static LL x0(int i, int j) { return (LL)((i * 2 + j * 3) % 5) - 2 + (i == j ? 3 : 0); }

struct Opt { bool cube = false; bool heights = false; bool product = false; };

// the complete judgement of one matrix in one storage-class assignment with k right-hand-side columns
static void judge(vf::Case& c, const std::string& part, const Mat& M, int cA, int cB, int cX, int k, bool heights, bool transposeToo = true) {
  int n = M.n;
  Lazy in = [&]() { return std::string(CLS[cA]) + " A=" + (M.desc.empty() ? mstr(n, M.a) : M.desc + " " + mstr(n, M.a)); };
  auto A = mk(cA, n, n); fill(*A, M);
  c.site("LUDecomposition::LUDecomposition");
  LUDecomposition<double> lu(*A);
  Fact F = factor(c, part, in, M, lu);
  if (!F.ok) return;
  bool small = F.minPiv < NumConstants::SMALL();
  if (F.exchanged || small) c.nontrivial();
  c.tag(std::string(F.exchanged ? "row-exchange" : "no-exchange") + (small ? ",pivot<SMALL" : ",pivot>=SMALL") + (M.det == 0 ? ",exactly-singular" : ""));

  // --- determinant: member and wrapper, transpose ---
  LD bd = detBound(F, M.det);
  c.site("LUDecomposition::det"); double d1 = lu.det();
  c.site("MatrixTools::det"); double d2 = MatrixTools::det(*A);
  if (!(fabsl((LD)d1 - M.det) <= bd)) c.fail(part + "|det-differs-from-exact", in() + " LUDecomposition::det=" + vf::num(d1) + " exact=" + vf::num((double)M.det) + " bound=" + vf::num((double)bd));
  if (!(d1 == d2)) c.fail(part + "|MatrixTools::det-differs-from-LU::det", in() + " " + vf::num(d2) + " vs " + vf::num(d1));
  if (transposeToo) {
    auto At = mk(cA, n, n); fill(*At, M, true);
    Mat Mt = M; for (int i = 0; i < n; ++i) for (int j = 0; j < n; ++j) Mt.a[(size_t)i * n + j] = M.at(j, i);
    c.site("LUDecomposition::LUDecomposition");
    LUDecomposition<double> lut(*At);
    Fact Ft = factor(c, part + ":transpose", [&]() { return in() + " (transposed)"; }, Mt, lut);
    if (Ft.ok) {
      c.site("MatrixTools::det"); double dt = MatrixTools::det(*At);
      LD bt = detBound(Ft, M.det);
      if (!(fabsl((LD)dt - M.det) <= bt)) c.fail(part + "|det-transpose", in() + " det(A^T)=" + vf::num(dt) + " exact det(A)=" + vf::num((double)M.det) + " bound=" + vf::num((double)bt));
    }
  }

  // --- solve: B = A.X0 (exact) ---
  auto B = mk(cB, n, k);
  for (int i = 0; i < n; ++i) for (int j = 0; j < k; ++j) { LD s = 0; for (int l = 0; l < n; ++l) s += (LD)M.at(i, l) * (LD)x0(l, j); (*B)((size_t)i, (size_t)j) = (double)s; }
  auto resid = [&](const std::string& what, const Matrix<double>& Bm, const Matrix<double>& X, int kk) {
    if ((int)X.getNumberOfRows() != n || (int)X.getNumberOfColumns() != kk) { c.fail(part + "|" + what + "-result-dimensions", in() + " X is " + str(X.getNumberOfRows()) + "x" + str(X.getNumberOfColumns())); return; }
    for (int i = 0; i < n; ++i) for (int j = 0; j < kk; ++j) {
      // Higham Thm 9.4: (P.A + dA) x^ = P.b with |dA| <= gamma_3n |L^||U^|, hence |P.b - P.A.x^| <= gamma_3n (|L^||U^||x^|)
      LD pb = Bm(F.piv[i], (size_t)j), s = 0, ax = 0, gx = 0;
      for (int l = 0; l < n; ++l) { LD xv = X((size_t)l, (size_t)j); s += F.PA[(size_t)i * n + l] * xv; ax += fabsl(F.PA[(size_t)i * n + l] * xv); gx += F.G[(size_t)i * n + l] * fabsl(xv); }
      LD bound = gam(3 * n) * gx * (1 + gamL(n + 1)) + gamL(n + 2) * (fabsl(pb) + ax);
      if (!(fabsl(pb - s) <= bound)) {
        c.fail(part + "|" + what + "-residual-bound", in() + " " + CLS[cB] + "/" + CLS[cX] + " k=" + str(kk) + " row " + str(i) + " col " + str(j) + ": |B-A.X|=" + vf::num((double)fabsl(pb - s)) + " bound=" + vf::num((double)bound) + " x=" + vf::num(X((size_t)i, (size_t)j)));
        return;
      }
    }
    // norm-wise backward error in terms of A itself ("proportional to machine epsilon, the size and the conditioning"): Wilkinson's bound for
    // Gaussian elimination with partial pivoting, (A + dA) x^ = b with |dA|_inf <= n^2 gamma_3n rho_n |A|_inf and growth factor rho_n <= 2^(n-1)
    // (Higham, Thm 9.5 and Lemma 9.6). The component-wise bound above is relative to the computed |L||U| and holds for ANY pivot choice; this
    // one does not: a pivot search that misses the largest entry lets the multipliers, hence |L||U|, grow without bound relative to |A|.
    {
      LD nA = 0; for (int i = 0; i < n; ++i) { LD r = 0; for (int l = 0; l < n; ++l) r += fabsl(F.PA[(size_t)i * n + l]); nA = std::max(nA, r); }
      for (int j = 0; j < kk; ++j) {
        LD nX = 0, res = 0; for (int l = 0; l < n; ++l) nX = std::max(nX, fabsl((LD)X((size_t)l, (size_t)j)));
        for (int i = 0; i < n; ++i) { LD pb = Bm(F.piv[i], (size_t)j), s2 = 0; for (int l = 0; l < n; ++l) s2 += F.PA[(size_t)i * n + l] * (LD)X((size_t)l, (size_t)j); res = std::max(res, fabsl(pb - s2)); }
        LD bound = (LD)n * n * gam(3 * n) * ldexpl(1.0L, n - 1) * nA * nX * (1 + gamL(n + 2)) + gamL(n + 2) * nA * nX;
        if (!(res <= bound)) {
          c.fail(part + "|" + what + "-normwise-backward-error", in() + " " + CLS[cB] + "/" + CLS[cX] + " k=" + str(kk) + " col " + str(j) + ": |B-A.X|_inf=" + vf::num((double)res) + " bound n^2.gamma_3n.2^(n-1).|A|.|x|=" + vf::num((double)bound) + " (largest |L| entry " + vf::num((double)[&] { double m = 0; for (double l : F.L) m = std::max(m, std::fabs(l)); return m; }()) + ")");
          return;
        }
      }
    }
  };
  {
    auto X = mk(cX, 1, 1); (*X)(0, 0) = 7;
    auto Bcopy = mk(0, n, k); for (int i = 0; i < n; ++i) for (int j = 0; j < k; ++j) (*Bcopy)((size_t)i, (size_t)j) = (*B)((size_t)i, (size_t)j);
    bool threw = false; double ind = 0;
    c.site("LUDecomposition::solve");
    try { ind = lu.solve(*B, *X); }
    catch (ZeroDivisionException&) { threw = true; }
    catch (Exception& e) { c.fail(part + "|solve-unexpected-exception", in() + " what=" + e.what()); return; }
    if (threw && !small) c.fail(part + "|solve-zero-division-without-small-pivot", in() + " min|U_ii|=" + vf::num(F.minPiv));
    if (!threw && small) c.fail(part + "|solve-small-pivot-not-reported", in() + " min|U_ii|=" + vf::num(F.minPiv) + " returned " + vf::num(ind));
    if (threw) c.tag("solve:ZeroDivisionException");
    else {
      c.tag("solve:returned");
      if (!(ind == F.minPiv)) c.fail(part + "|solve-indicator", in() + " returned " + vf::num(ind) + " min|U_ii|=" + vf::num(F.minPiv));
      resid("solve", *Bcopy, *X, k);
    }
    for (int i = 0; i < n; ++i) for (int j = 0; j < k; ++j) if ((*Bcopy)((size_t)i, (size_t)j) != (*B)((size_t)i, (size_t)j)) { c.fail(part + "|solve-modified-rhs", in()); i = n; break; }
    // the same system solved into re-used result objects that already have a shape: the right height with more columns, the right shape
    // with other values, one row more; the result must have the shape and the values of the fresh solve
    if (!threw) {
      static const int PRE[3][2] = {{0, 2}, {0, 0}, {1, 0}};
      for (int q = 0; q < 3; ++q) {
        auto X2 = mk(cX, n + PRE[q][0], k + PRE[q][1]);
        for (size_t i = 0; i < X2->getNumberOfRows(); ++i) for (size_t j = 0; j < X2->getNumberOfColumns(); ++j) (*X2)(i, j) = 7 + (double)i - (double)j;
        if ((int)X2->getNumberOfRows() != n + PRE[q][0] || (int)X2->getNumberOfColumns() != k + PRE[q][1]) continue;   // (shape not representable in this class)
        c.site("LUDecomposition::solve(re-used result)");
        try { lu.solve(*B, *X2); } catch (Exception& e) { c.fail(part + "|solve-reused-result-raised", in() + " what=" + e.what()); continue; }
        bool same = X2->getNumberOfRows() == X->getNumberOfRows() && X2->getNumberOfColumns() == X->getNumberOfColumns();
        if (same) for (size_t i = 0; i < X->getNumberOfRows() && same; ++i) for (size_t j = 0; j < X->getNumberOfColumns(); ++j) if (std::memcmp(&(*X)(i, j), &(*X2)(i, j), sizeof(double)) != 0) { same = false; break; }
        if (!same) c.fail(part + "|solve-result-depends-on-previous-content-of-result-object", in() + " " + CLS[cX] + " X pre-sized " + str(n + PRE[q][0]) + "x" + str(k + PRE[q][1]) + " came back " + str(X2->getNumberOfRows()) + "x" + str(X2->getNumberOfColumns()) + " (fresh result " + str(n) + "x" + str(k) + ")");
        else c.tag("solve:reused-result-agrees");
      }
    }
  }
  // --- inverse ---
  {
    auto O = mk(cX, 0, 0);
    RowMatrix<double> I(n, n); for (int i = 0; i < n; ++i) for (int j = 0; j < n; ++j) I((size_t)i, (size_t)j) = (i == j);
    bool threw = false; double ind = 0;
    c.site("MatrixTools::inv");
    try { ind = MatrixTools::inv(*A, *O); }
    catch (ZeroDivisionException&) { threw = true; }
    catch (Exception& e) { c.fail(part + "|inv-unexpected-exception", in() + " what=" + e.what()); return; }
    if (threw && !small) c.fail(part + "|inv-zero-division-without-small-pivot", in() + " min|U_ii|=" + vf::num(F.minPiv));
    if (!threw && small) c.fail(part + "|inv-small-pivot-not-reported", in() + " min|U_ii|=" + vf::num(F.minPiv) + " returned " + vf::num(ind));
    if (threw) c.tag("inv:ZeroDivisionException");
    else {
      c.tag("inv:returned");
      if (!(ind == F.minPiv)) c.fail(part + "|inv-indicator", in() + " returned " + vf::num(ind) + " min|U_ii|=" + vf::num(F.minPiv));
      resid("inv", I, *O, n);
    }
  }
  // --- right-hand sides of every wrong height are refused (whatever the matrix) ---
  if (heights) {
    for (int h = 0; h <= n + 1; ++h) {
      if (h == n) continue;
      auto Bw = mk(cB, h, k); for (int i = 0; i < h; ++i) for (int j = 0; j < k; ++j) (*Bw)((size_t)i, (size_t)j) = 1 + i + j;
      if ((int)Bw->getNumberOfRows() != h) continue;   // (not representable in this class)
      auto X = mk(cX, 0, 0);
      c.site("LUDecomposition::solve(wrong height)");
      try { lu.solve(*Bw, *X); c.fail(part + "|wrong-height-accepted", in() + " " + CLS[cB] + " B with " + str(h) + " rows, " + str(k) + " columns"); }
      catch (Exception&) { c.tag("refused-wrong-height"); }
    }
  }
}

// ---------- lattices ----------
static std::vector<LL> alpha(const std::string& spec) {   // simplest first
  if (spec == "01") return {0, 1};
  if (spec == "-1..1") return {0, 1, -1};
  if (spec == "-1..2") return {0, 1, -1, 2};
  if (spec == "graded") return {0, 1, 2, 1048576};   // {0, 2^-20, 2^-19, 1} scaled by 2^20 (the factorisation is scale-invariant): columns in which a large entry is followed by small ones of different size
  int r = atoi(spec.c_str() + 1);   // "s<r>" = [-r, r]
  std::vector<LL> v{0}; for (int i = 1; i <= r; ++i) { v.push_back(i); v.push_back(-i); } return v;
}
static std::string alphaName(const std::string& spec) { return spec[0] == 's' ? "[-" + spec.substr(1) + "," + spec.substr(1) + "]" : "{" + spec + "}"; }

static void lattice(vf::Runner& R, int n, const std::string& spec) {
  std::vector<LL> al = alpha(spec); int K = (int)al.size();
  uint64_t N = 1; for (int i = 0; i < n * n; ++i) N *= (uint64_t)K;
  std::string name = "lu:int:n" + str(n) + ":" + alphaName(spec);
  R.space(name, N, [=](uint64_t idx, vf::Case& c) {
    std::vector<LL> v((size_t)n * n); uint64_t t = idx; for (auto& x : v) { x = al[t % K]; t /= K; }
    Mat M = intMat(n, v, "");
    // storage classes and column count rotate with the index (the full cube is the space lu:cube)
    uint64_t h = idx / 7 + idx;
    // a full lattice is closed under transposition and exact det(A^T) = exact det(A): det(A^T) is judged when the transposed member is visited
    judge(c, "lu", M, (int)(h % 3), (int)((h / 3) % 3), (int)((h / 9) % 3), 1 + (int)((h / 27) % 4), false, false);
    if (idx % 50021 == 17) c.sample("A=" + mstr(n, M.a) + " exact det=" + vf::num((double)M.det));
  }, 5.0);
}

static void cube(vf::Runner& R, int n, const std::string& spec) {
  std::vector<LL> al = alpha(spec); int K = (int)al.size();
  uint64_t NM = 1; for (int i = 0; i < n * n; ++i) NM *= (uint64_t)K;
  std::string name = "lu:cube:n" + str(n) + ":" + alphaName(spec) + ":classes3x3x3:cols1-4:heights0-" + str(n + 1);
  R.space(name, NM * 108, [=](uint64_t idx, vf::Case& c) {
    uint64_t m = idx / 108; int r = (int)(idx % 108);
    std::vector<LL> v((size_t)n * n); for (auto& x : v) { x = al[m % K]; m /= K; }
    Mat M = intMat(n, v, "");
    judge(c, "lu", M, r % 3, (r / 3) % 3, (r / 9) % 3, 1 + r / 27, true);
  }, 5.0);
}

// det(A.B) = det(A).det(B): all ordered pairs; the product is formed in exact integers, the library determinant of the product is
// compared with the product of the exact determinants under the rounding bound of its own factorisation
static void pairs(vf::Runner& R, int n, const std::string& spec, uint64_t nB) {
  std::vector<LL> al = alpha(spec); int K = (int)al.size();
  uint64_t NM = 1; for (int i = 0; i < n * n; ++i) NM *= (uint64_t)K;
  if (nB == 0 || nB > NM) nB = NM;
  std::string name = "det-product:n" + str(n) + ":" + alphaName(spec) + ":A-all-x-B-first-" + str(nB);
  R.space(name, NM * nB, [=](uint64_t idx, vf::Case& c) {
    uint64_t ia = idx / nB, ib = idx % nB;
    std::vector<LL> a((size_t)n * n), b((size_t)n * n), p((size_t)n * n, 0);
    for (auto& x : a) { x = al[ia % K]; ia /= K; }
    for (auto& x : b) { x = al[ib % K]; ib /= K; }
    for (int i = 0; i < n; ++i) for (int j = 0; j < n; ++j) for (int k = 0; k < n; ++k) p[(size_t)i * n + j] += a[(size_t)i * n + k] * b[(size_t)k * n + j];
    std::vector<I128> wa(a.begin(), a.end()), wb(b.begin(), b.end());
    I128 da = bareiss(n, wa), db = bareiss(n, wb);
    Mat P = intMat(n, p, "");
    Lazy in = [&]() { return "A=" + mstr(n, std::vector<double>(a.begin(), a.end())) + " B=" + mstr(n, std::vector<double>(b.begin(), b.end())); };
    if ((I128)P.det != da * db) { c.fail("HARNESS|bareiss-not-multiplicative", in()); return; }
    int cls = (int)(idx % 3);
    auto Pm = mk(cls, n, n); fill(*Pm, P);
    c.site("LUDecomposition::LUDecomposition");
    LUDecomposition<double> lu(*Pm);
    Fact F = factor(c, "det-product", in, P, lu);
    if (!F.ok) return;
    if (F.exchanged) c.nontrivial();
    c.site("MatrixTools::det");
    double d = MatrixTools::det(*Pm);
    LD want = (LD)da * (LD)db, bd = detBound(F, want);
    if (!(fabsl((LD)d - want) <= bd)) c.fail("det-product|det(AB)-differs-from-det(A)det(B)", in() + " det(AB)=" + vf::num(d) + " exact det(A)det(B)=" + vf::num((double)want) + " bound=" + vf::num((double)bd));
    c.tag(want == 0 ? "product-singular" : "product-regular");
  }, 5.0);
}

// ---------- structured families for n = 4..10 ----------
static std::vector<std::vector<int>> permSet(int n) {
  std::vector<std::vector<int>> out; std::vector<int> id(n); for (int i = 0; i < n; ++i) id[i] = i;
  if (n <= 6) { std::vector<int> p = id; do out.push_back(p); while (std::next_permutation(p.begin(), p.end())); return out; }
  out.push_back(id);
  for (int s = 1; s < n; ++s) { std::vector<int> p(n); for (int i = 0; i < n; ++i) p[i] = (i + s) % n; out.push_back(p); }   // cyclic shifts
  { std::vector<int> p(n); for (int i = 0; i < n; ++i) p[i] = n - 1 - i; out.push_back(p); }                                    // reversal
  for (int s = 0; s + 1 < n; ++s) { std::vector<int> p = id; std::swap(p[s], p[s + 1]); out.push_back(p); }                    // adjacent transpositions
  { std::vector<int> p(n); for (int i = 0; i < n; ++i) p[i] = (i * 3) % n; if (n % 3) out.push_back(p); }                       // multiplicative shuffle
  return out;
}
static LL fillv(int pat, int i, int j) {
  switch (pat) {
  case 0: return 1;
  case 1: return ((i + j) % 2) ? -1 : 1;
  case 2: return (LL)((i * 3 + j * 5) % 19) - 9;
  default: return -1;   // with unit diagonal and a last column of ones: Wilkinson's growth matrix (pattern 3, lower only)
  }
}
// triangular matrix: lower (unit diagonal, fill below) or upper (diagonal from a fixed cycle of non-zero integers, fill above)
static std::vector<LL> tri(int n, bool lower, int pat) {
  static const LL dg[] = {1, -2, 3, 1, -1, 2, 9, -3, 1, 4};
  std::vector<LL> t((size_t)n * n, 0);
  for (int i = 0; i < n; ++i) for (int j = 0; j < n; ++j) {
    if (i == j) t[(size_t)i * n + j] = lower ? 1 : dg[i];
    else if ((lower && i > j) || (!lower && i < j)) t[(size_t)i * n + j] = fillv(pat, i, j);
  }
  if (lower && pat == 3) for (int i = 0; i < n; ++i) t[(size_t)i * n + n - 1] = 1;
  return t;
}

static std::vector<std::vector<LL>> vecSet(int n) {   // fixed list of vectors over {-1,0,1} for n >= 6
  std::vector<std::vector<LL>> out;
  auto add = [&](std::function<LL(int)> f) { std::vector<LL> v(n); for (int i = 0; i < n; ++i) v[i] = f(i); out.push_back(v); };
  add([](int) { return 1; });
  add([](int i) { return i % 2 ? -1 : 1; });
  add([](int i) { return i == 0 ? 1 : 0; });
  add([n](int i) { return i == n - 1 ? -1 : 0; });
  add([n](int i) { return i < n / 2 ? 1 : 0; });
  add([n](int i) { return i < n / 2 ? 0 : -1; });
  add([](int i) { return (LL)(i % 3) - 1; });
  add([](int i) { return i == 1 ? 1 : (i == 2 ? -1 : 0); });
  add([n](int i) { return i == 0 ? 0 : 1; });
  add([n](int i) { return (i == 0 || i == n - 1) ? 1 : -1; });
  return out;
}

// dyadic orthogonal factors: Householder reflectors I - 2 v v^T / (v^T v) with v^T v a power of two, and cyclic shifts
static std::vector<LD> householder(int n, const std::vector<int>& v, int shift) {
  LD vv = 0; for (int x : v) vv += x * x;
  std::vector<LD> w(n, 0); for (size_t i = 0; i < v.size(); ++i) w[(i + shift) % n] = v[i];
  std::vector<LD> Q((size_t)n * n);
  for (int i = 0; i < n; ++i) for (int j = 0; j < n; ++j) Q[(size_t)i * n + j] = (i == j) - 2 * w[i] * w[j] / vv;
  return Q;
}
static std::vector<LD> mulLD(int n, const std::vector<LD>& a, const std::vector<LD>& b) {
  std::vector<LD> c((size_t)n * n, 0);
  for (int i = 0; i < n; ++i) for (int k = 0; k < n; ++k) for (int j = 0; j < n; ++j) c[(size_t)i * n + j] += a[(size_t)i * n + k] * b[(size_t)k * n + j];
  return c;
}
struct Ortho { std::vector<LD> q; int det; std::string name; };
static std::vector<Ortho> orthoSet(int n) {
  std::vector<std::vector<int>> vs = {{1, 1, 1, 1}};
  if (n >= 5) vs.push_back({1, 1, 1, 1, 2});
  if (n >= 7) vs.push_back({1, 2, 1, 2, 1, 2, 1});   // 4 + 12 = 16
  if (n >= 8) vs.push_back({1, 1, 1, 1, 2, 2, 2, 4}); // 4 + 12 + 16 = 32
  std::vector<Ortho> out;
  { Ortho I; I.q.assign((size_t)n * n, 0); for (int i = 0; i < n; ++i) I.q[(size_t)i * n + i] = 1; I.det = 1; I.name = "I"; out.push_back(I); }
  for (size_t a = 0; a < vs.size(); ++a) for (int s = 0; s < 2; ++s) {
    Ortho H; H.q = householder(n, vs[a], s * (n / 2)); H.det = -1; H.name = "H" + str(a) + "s" + str(s); out.push_back(H);
  }
  // products of two different reflectors (rotations)
  size_t base = out.size();
  for (size_t a = 1; a < base; ++a) for (size_t b = a + 1; b < base && out.size() < 12; ++b) {
    Ortho P; P.q = mulLD(n, out[a].q, out[b].q); P.det = 1; P.name = out[a].name + "*" + out[b].name; out.push_back(P);
  }
  for (auto& o : out) {   // orthogonality holds exactly (dyadic entries): verified, not assumed
    std::vector<LD> t((size_t)n * n); for (int i = 0; i < n; ++i) for (int j = 0; j < n; ++j) t[(size_t)i * n + j] = o.q[(size_t)j * n + i];
    std::vector<LD> g = mulLD(n, o.q, t);
    for (int i = 0; i < n; ++i) for (int j = 0; j < n; ++j) if (g[(size_t)i * n + j] != (LD)(i == j)) { fprintf(stderr, "HARNESS: orthogonal factor %s not exact\n", o.name.c_str()); abort(); }
  }
  return out;
}

static std::vector<Mat> buildStructured(int n, bool thorough) {
  std::vector<Mat> out;
  // (a) permuted triangular: rows or columns of a triangular integer matrix permuted
  auto perms = permSet(n);
  for (int lower = 1; lower >= 0; --lower) for (int pat = 0; pat < (lower ? 4 : 3); ++pat) {
    std::vector<LL> t = tri(n, lower, pat);
    for (int side = 0; side < 2; ++side) for (size_t pi = 0; pi < perms.size(); ++pi) {
      if (n == 6 && !thorough && side == 1 && pat != 2) continue;   // quick trim: column permutations of n=6 only for the generic fill
      const std::vector<int>& p = perms[pi];
      std::vector<LL> v((size_t)n * n);
      for (int i = 0; i < n; ++i) for (int j = 0; j < n; ++j) v[(size_t)i * n + j] = side == 0 ? t[(size_t)p[i] * n + j] : t[(size_t)i * n + p[j]];
      out.push_back(intMat(n, v, std::string("permuted-triangular(") + (lower ? "lower" : "upper") + ",fill" + str(pat) + (side ? ",cols" : ",rows") + ",perm#" + str(pi) + ")"));
    }
  }
  // (b) rank one u.v^T
  if (n == 5) {
    for (int a = 1; a < 243; ++a) for (int b = 1; b < 243; ++b) {
      std::vector<int> du = vf::digits(a, {3, 3, 3, 3, 3}), dv = vf::digits(b, {3, 3, 3, 3, 3});
      std::vector<LL> v(25); for (int i = 0; i < 5; ++i) for (int j = 0; j < 5; ++j) v[i * 5 + j] = (LL)(du[i] == 2 ? -1 : du[i]) * (LL)(dv[j] == 2 ? -1 : dv[j]);
      out.push_back(intMat(n, v, "rank-one(u#" + str(a) + ",v#" + str(b) + ")"));
    }
  } else {
    auto vs = vecSet(n);
    for (size_t a = 0; a < vs.size(); ++a) for (size_t b = 0; b < vs.size(); ++b) {
      std::vector<LL> v((size_t)n * n); for (int i = 0; i < n; ++i) for (int j = 0; j < n; ++j) v[(size_t)i * n + j] = vs[a][i] * vs[b][j];
      out.push_back(intMat(n, v, "rank-one(u#" + str(a) + ",v#" + str(b) + ")"));
    }
  }
  // (c) rank n-1: a regular permuted-triangular matrix with row r replaced by a {-1,0,1} combination of the other rows
  {
    auto vs = vecSet(n); auto ps = permSet(n);
    for (int lower = 1; lower >= 0; --lower) for (int pat = 0; pat < 3; ++pat) for (size_t pi = 0; pi < ps.size(); pi += (n <= 6 ? ps.size() / 6 : 4)) {
      std::vector<LL> t = tri(n, lower, pat);
      for (int r = 0; r < n; ++r) for (size_t ci = 0; ci < vs.size(); ci += 3) {
        std::vector<LL> v((size_t)n * n);
        for (int i = 0; i < n; ++i) for (int j = 0; j < n; ++j) v[(size_t)i * n + j] = t[(size_t)ps[pi][i] * n + j];
        for (int j = 0; j < n; ++j) { LL s = 0; for (int i = 0; i < n; ++i) if (i != r) s += vs[ci][i] * v[(size_t)i * n + j]; v[(size_t)r * n + j] = s; }
        out.push_back(intMat(n, v, std::string("rank-n-1(") + (lower ? "lower" : "upper") + ",fill" + str(pat) + ",perm#" + str(pi) + ",row" + str(r) + ",comb#" + str(ci) + ")"));
      }
    }
  }
  // (d) conditioned: Q1.diag(sigma).Q2, sigma powers of two, condition number 2^K, K in {0,3,7,10,13,17,20} (1 .. 1.05e6)
  {
    auto qs = orthoSet(n);
    static const int Ks[] = {0, 3, 7, 10, 13, 17, 20};
    for (size_t a = 0; a < qs.size(); ++a) for (size_t b = 0; b < qs.size(); ++b) for (int ki = 0; ki < 7; ++ki) for (int dist = 0; dist < 3; ++dist) {
      int K = Ks[ki]; if (K == 0 && dist) continue;
      std::vector<int> e(n); LL esum = 0;
      for (int i = 0; i < n; ++i) { e[i] = dist == 0 ? (i * K + (n - 1) / 2) / (n - 1) : dist == 1 ? (i == n - 1 ? K : 0) : (i == 0 ? 0 : K); esum += e[i]; }
      std::vector<LD> D((size_t)n * n, 0); for (int i = 0; i < n; ++i) D[(size_t)i * n + i] = ldexpl(1.0L, -e[(i * ((n % 3) ? 3 : 5) + 2) % n]);   // singular values in a fixed scrambled order
      std::vector<LD> A = mulLD(n, mulLD(n, qs[a].q, D), qs[b].q);
      Mat M; M.n = n; M.a.resize((size_t)n * n);
      for (size_t i = 0; i < A.size(); ++i) { M.a[i] = (double)A[i]; if ((LD)M.a[i] != A[i] || fabsl(A[i]) > 64 || ldexpl(A[i], 44) != floorl(ldexpl(A[i], 44))) { fprintf(stderr, "HARNESS: conditioned matrix not exact\n"); abort(); } }
      M.det = (LD)(qs[a].det * qs[b].det) * ldexpl(1.0L, -(int)esum);
      M.desc = "conditioned(Q1=" + qs[a].name + ",Q2=" + qs[b].name + ",cond=2^" + str(K) + ",dist" + str(dist) + ")";
      out.push_back(M);
    }
  }
  return out;
}

static void structured(vf::Runner& R, int n, bool thorough) {
  // the list is a pure function of (n, tier) and the tier is part of the space name
  std::shared_ptr<std::vector<Mat>> L(new std::vector<Mat>(buildStructured(n, thorough)));
  std::string name = std::string("lu:structured:n") + str(n) + (thorough ? ":full" : ":quick") + ":" + str(L->size()) + "matrices";
  R.space(name, L->size(), [=](uint64_t idx, vf::Case& c) {
    const Mat& M = (*L)[idx];
    uint64_t h = idx / 5 + idx;
    judge(c, "lu", M, (int)(h % 3), (int)((h / 3) % 3), (int)((h / 9) % 3), 1 + (int)((h / 27) % 4), (idx % 16) == 0);
    c.tag("family:" + M.desc.substr(0, M.desc.find('(')));
    if (idx % 4099 == 5) c.sample(M.desc + " exact det=" + vf::num((double)M.det));
  }, 10.0);
}

int main(int argc, char** argv) {
  vf::Runner R(argc, argv, "C05");
  bool th = R.thorough();
  // exhaustive lattices (exact oracle)
  lattice(R, 1, "s9");
  lattice(R, 2, "s9");
  cube(R, 1, "s3");
  cube(R, 2, "s2");
  cube(R, 3, "01");
  lattice(R, 3, th ? "s2" : "-1..2");
  lattice(R, 4, th ? "-1..1" : "01");
  lattice(R, 3, "graded");
  // det(AB) = det(A) det(B)
  pairs(R, 2, th ? "s3" : "s2", 0);
  pairs(R, 3, "01", 0);
  if (th) pairs(R, 3, "-1..1", 256);
  // n = 5..10
  for (int n = 4; n <= 10; ++n) structured(R, n, th);
  R.expectSeen("solve:ZeroDivisionException");
  R.expectSeen("inv:ZeroDivisionException");
  R.expectSeen("solve:returned");
  R.expectSeen("inv:returned");
  R.expectSeen("refused-wrong-height");
  R.expectSeen("family:conditioned");
  R.expectSeen("family:rank-one");
  R.expectSeen("family:rank-n-1");
  R.expectSeen("family:permuted-triangular");
  R.note("singularity is judged exactly as documented: ZeroDivisionException <=> min_i|U_ii| < NumConstants::SMALL() (1e-6) on the factors the object reports; a returned X must satisfy the component-wise backward-error bound |P.B - P.A.X| <= gamma_3n |L||U||X| (Higham Thm 9.4), which contains the size (3n), the unit round-off and, through |L||U||X|, growth and conditioning");
  R.note("LUDecomposition::solve(std::vector,std::vector) is dead template code that does not compile when instantiated (uses Array1D members dim1()/clean()); it cannot be called and is not part of the check");
  R.note("RowMatrix cannot represent a 0-row right-hand side with k columns (reports 0x0): heights are judged on the reported dimensions");
  R.note("det(A)=det(A^T): in the full lattices (closed under transposition) every member is compared with its own exact determinant, which equals that of its transpose; in the cube, pair and structured spaces the transposed matrix is factorised explicitly");
  R.note("thorough tier runs the optimised (unsanitised) variant because of the 43M-matrix 4x4 lattice; every family and the smaller lattices run sanitised in the quick tier");
  return R.finish();
}
