// C06 — Eigen-decomposition satisfies A.V = V.D for every real square matrix
// VF-VARIANT: san
// VF-VARIANT_THOROUGH: opt
// VF-RULE: E2: every n-by-n integer matrix over a stated alphabet (mixed-radix index, simplest first: index 0 is the zero matrix), every symmetric integer matrix over {-1,0,1} (upper triangle enumerated), and completely enumerated exact constructions up to n=12: companion matrices of every multiset (size<=6) of roots from {-2,-1,1,2,1+-i,+-2i,-1+-2i} and their transposes, direct sums of rotation blocks / Jordan blocks / scalars conjugated by every permutation (n<=5) or a fixed permutation set and by unimodular integer shears, power-of-two gradings D.A.D^-1 spanning 2^-20..2^20, full Jordan blocks, zero and identity; each constructor call runs under a per-case alarm (a constructor that never returns is a violation with the matrix as witness). exp/pow are enumerated over all symmetric members (n<=4) and the constructed real-distinct-spectrum members in all 3x3 storage-class pairs. A case is non-trivial when the matrix is not diagonal.
// VF-BOUND: lattices n=2 [-3,3], n=3 {-1,0,1} (thorough [-2,2]), n=4 {0,1} plus the sub-lattice of {-1,0,1}^16 with the first two rows fixed to (1,-1,0,1),(-1,-1,0,0) (3^8; thorough: first three entries fixed to (1,-1,0), 3^13); symmetric n<=4 (thorough n<=5) over {-1,0,1}; n=5..12 only through the enumerated constructions; "random dense" replaced by the exhaustive lattices; gradings use powers of two (2^-20..2^20 ~ 1e-6..1e6) so that trace, determinant and spectrum stay exact
// VF-LEVEL: bounded-exhaustive check of the real EigenValue / MatrixTools::exp / MatrixTools::pow(A,double) against exact integer references (trace, Bareiss determinant in __int128, exact integer powers, long-double power series); residual judged by the norm-wise backward-error shape 64.n.eps.|A|.|V| of Householder/QR eigen-solvers, all consequences (trace, determinant, exp, pow) derived from that single constant
// VF-ASSUME: IEEE-754 binary64 in the library, 80-bit long double in the harness;; "small multiple of machine epsilon" of the statement is read as p(n)=64n with eps=2^-52 (LAPACK's acceptance threshold for the same ratio is 20..30, without the factor n), i.e. tred2/tql2 and orthes/hqr2 are required to be norm-wise backward stable with |E|_max <= 64.n.eps.|A|_inf;; perturbation bounds |det(A+E)-det(A)| <= perm(|A|+|E|)-perm(|A|), |e^(A+E)-e^A| <= |E|e^(|A|+|E|);; g++ __int128;; the engine's fork/alarm supervisor (a hang is confirmed by re-running the case alone with 10x the budget)
// VF-TECHNIQUE: exhaustive enumeration + exact reference + backward-error bounds + per-case alarm
// VF-BUDGET_QUICK: 200
// VF-BUDGET_THOROUGH: 1600
#include "vf.hpp"
#include <Bpp/Numeric/Matrix/EigenValue.h>
#include <Bpp/Numeric/Matrix/MatrixTools.h>
#include <cmath>
#include <functional>
#include <algorithm>
using namespace bpp;
using vf::str;

typedef long double LD;
typedef __int128 I128;
typedef long long LL;

static const LD EPS = ldexpl(1.0L, -52);  // machine epsilon of double
static const LD UL = ldexpl(1.0L, -64);   // unit round-off of the harness' long double
static LD gamL(int k) { return k * UL / (1 - k * UL); }
static const LD CRES = 64;                // the "small multiple": p(n) = CRES * n

static const char* CLS[3] = {"RowMatrix", "ColMatrix", "LinearMatrix"};
static std::unique_ptr<Matrix<double>> mk(int cls, size_t r, size_t c) {
  switch (cls) {
  case 0: return std::unique_ptr<Matrix<double>>(new RowMatrix<double>(r, c));
  case 1: return std::unique_ptr<Matrix<double>>(new ColMatrix<double>(r, c));
  default: return std::unique_ptr<Matrix<double>>(new LinearMatrix<double>(r, c));
  }
}

struct Mat {
  int n = 0;
  std::vector<double> a;     // row-major, exact
  LD trace = 0;              // exact
  bool detKnown = false; LD det = 0;   // exact determinant
  int cplx = -1;             // spectrum known from the construction: 1 = has a complex pair, 0 = real, -1 = not known
  bool realDistinct = false; // by construction diagonalisable with real, distinct spectrum (eligible for exp/pow when not symmetric)
  std::string desc;
  double at(int i, int j) const { return a[(size_t)i * n + j]; }
  bool symmetric() const { for (int i = 0; i < n; ++i) for (int j = 0; j < i; ++j) if (at(i, j) != at(j, i)) return false; return true; }
  bool diagonal() const { for (int i = 0; i < n; ++i) for (int j = 0; j < n; ++j) if (i != j && at(i, j) != 0) return false; return true; }
  LD normInf() const { LD m = 0; for (int i = 0; i < n; ++i) { LD s = 0; for (int j = 0; j < n; ++j) s += fabsl((LD)at(i, j)); m = std::max(m, s); } return m; }
};
static std::string mstr(int n, const std::vector<double>& a) {
  std::string s = "[";
  for (int i = 0; i < n; ++i) { s += (i ? ",[" : "["); for (int j = 0; j < n; ++j) { if (j) s += ","; s += vf::num(a[(size_t)i * n + j]); } s += "]"; }
  return s + "]";
}

// fraction-free elimination; false on (checked) overflow
static bool bareiss(int n, std::vector<I128> m, I128& det) {
  I128 prev = 1; int sign = 1;
  for (int k = 0; k < n - 1; ++k) {
    if (m[k * n + k] == 0) {
      int p = -1; for (int i = k + 1; i < n; ++i) if (m[i * n + k] != 0) { p = i; break; }
      if (p < 0) { det = 0; return true; }
      for (int j = 0; j < n; ++j) std::swap(m[k * n + j], m[p * n + j]);
      sign = -sign;
    }
    for (int i = k + 1; i < n; ++i) for (int j = k + 1; j < n; ++j) {
      I128 x, y, d;
      if (__builtin_mul_overflow(m[i * n + j], m[k * n + k], &x) || __builtin_mul_overflow(m[i * n + k], m[k * n + j], &y) || __builtin_sub_overflow(x, y, &d)) return false;
      m[i * n + j] = d / prev;
    }
    prev = m[k * n + k];
  }
  det = sign * m[n * n - 1]; return true;
}
static Mat intMat(int n, const std::vector<LL>& v, const std::string& d) {
  Mat M; M.n = n; M.a.resize(v.size()); std::vector<I128> w(v.size());
  for (size_t i = 0; i < v.size(); ++i) { M.a[i] = (double)v[i]; w[i] = v[i]; if ((LL)M.a[i] != v[i]) { fprintf(stderr, "HARNESS: entry not representable\n"); abort(); } }
  LL tr = 0; for (int i = 0; i < n; ++i) tr += v[(size_t)i * n + i]; M.trace = (LD)tr;
  I128 D; if (bareiss(n, w, D)) { M.det = (LD)D; M.detKnown = ((I128)M.det == D); }
  M.desc = d; return M;
}
static LD permanent(int n, const std::vector<LD>& M) {   // non-negative entries, subset DP, no cancellation
  std::vector<LD> dp((size_t)1 << n, 0.0L); dp[0] = 1;
  for (unsigned mask = 1; mask < (1u << n); ++mask) {
    int r = __builtin_popcount(mask) - 1; LD s = 0;
    for (int j = 0; j < n; ++j) if (mask & (1u << j)) s += dp[mask ^ (1u << j)] * M[(size_t)r * n + j];
    dp[mask] = s;
  }
  return dp[((size_t)1 << n) - 1];
}
static void fill(Matrix<double>& A, const Mat& M) { for (int i = 0; i < M.n; ++i) for (int j = 0; j < M.n; ++j) A((size_t)i, (size_t)j) = M.at(i, j); }

// inf-norm condition number of V by Gauss-Jordan with partial pivoting in long double (harness side, only used to scale exp/pow tolerances)
static LD condInf(int n, const std::vector<LD>& V) {
  std::vector<LD> a = V, b((size_t)n * n, 0); for (int i = 0; i < n; ++i) b[(size_t)i * n + i] = 1;
  for (int k = 0; k < n; ++k) {
    int p = k; for (int i = k + 1; i < n; ++i) if (fabsl(a[(size_t)i * n + k]) > fabsl(a[(size_t)p * n + k])) p = i;
    if (a[(size_t)p * n + k] == 0) return INFINITY;
    if (p != k) for (int j = 0; j < n; ++j) { std::swap(a[(size_t)p * n + j], a[(size_t)k * n + j]); std::swap(b[(size_t)p * n + j], b[(size_t)k * n + j]); }
    LD d = a[(size_t)k * n + k];
    for (int j = 0; j < n; ++j) { a[(size_t)k * n + j] /= d; b[(size_t)k * n + j] /= d; }
    for (int i = 0; i < n; ++i) if (i != k) { LD f = a[(size_t)i * n + k]; if (f != 0) for (int j = 0; j < n; ++j) { a[(size_t)i * n + j] -= f * a[(size_t)k * n + j]; b[(size_t)i * n + j] -= f * b[(size_t)k * n + j]; } }
  }
  auto ninf = [&](const std::vector<LD>& m) { LD r = 0; for (int i = 0; i < n; ++i) { LD s = 0; for (int j = 0; j < n; ++j) s += fabsl(m[(size_t)i * n + j]); r = std::max(r, s); } return r; };
  return ninf(V) * ninf(b);
}

// ---------- the judgement of one decomposition ----------
struct Dec { bool ok = false; std::vector<LD> V; std::vector<double> d, e; LD normV = 0; };

static Dec judge(vf::Case& c, const std::string& part, const Mat& M, int cls) {
  Dec R; int n = M.n;
  auto in = [&]() { return std::string(CLS[cls]) + " A=" + (M.desc.empty() ? "" : M.desc + " ") + mstr(n, M.a); };
  auto A = mk(cls, n, n); fill(*A, M);
  bool sym = M.symmetric();
  if (!M.diagonal()) c.nontrivial();
  c.site("EigenValue::EigenValue");
  EigenValue<double> ev(*A);                     // a constructor that does not return is caught by the per-case alarm: hang|EigenValue::EigenValue
  c.site("EigenValue::getV"); const RowMatrix<double>& V = ev.getV();
  c.site("EigenValue::getD"); const RowMatrix<double>& D = ev.getD();
  c.site("EigenValue::getRealEigenValues"); R.d = ev.getRealEigenValues(); R.e = ev.getImagEigenValues();
  if ((int)V.getNumberOfRows() != n || (int)V.getNumberOfColumns() != n || (int)D.getNumberOfRows() != n || (int)D.getNumberOfColumns() != n || (int)R.d.size() != n || (int)R.e.size() != n) {
    c.fail(part + "|result-dimensions", in()); return R;
  }
  std::vector<LD> Vm((size_t)n * n), Dm((size_t)n * n); bool finite = true;
  for (int i = 0; i < n; ++i) {
    if (!std::isfinite(R.d[i]) || !std::isfinite(R.e[i])) finite = false;
    for (int j = 0; j < n; ++j) { double v = V((size_t)i, (size_t)j), dd = D((size_t)i, (size_t)j); if (!std::isfinite(v) || !std::isfinite(dd)) finite = false; Vm[(size_t)i * n + j] = v; Dm[(size_t)i * n + j] = dd; }
  }
  if (!finite) { c.fail(part + "|result-not-finite", in() + " d=" + vf::vstr(R.d) + " e=" + vf::vstr(R.e)); return R; }

  // --- eigenvalue lists consistent with D: conjugate pairs as 2x2 blocks [a b; -b a] (exact comparisons: D is assembled from d and e) ---
  {
    std::vector<LD> want((size_t)n * n, 0); bool pairs = true;
    for (int i = 0; i < n; ++i) {
      want[(size_t)i * n + i] = R.d[i];
      if (R.e[i] > 0) {
        if (i + 1 >= n || R.e[i + 1] != -R.e[i] || R.d[i + 1] != R.d[i]) { pairs = false; continue; }
        want[(size_t)i * n + i + 1] = R.e[i]; want[(size_t)(i + 1) * n + i] = -R.e[i];
      } else if (R.e[i] < 0) {
        if (i == 0 || R.e[i - 1] != -R.e[i]) pairs = false;
      }
    }
    if (!pairs) c.fail(part + "|imaginary-parts-not-in-conjugate-pairs", in() + " d=" + vf::vstr(R.d) + " e=" + vf::vstr(R.e));
    else if (want != Dm) c.fail(part + "|D-inconsistent-with-eigenvalue-lists", in() + " d=" + vf::vstr(R.d) + " e=" + vf::vstr(R.e) + " D=" + mstr(n, std::vector<double>(Dm.begin(), Dm.end())));
  }
  // --- A.V = V.D ---
  LD nA = M.normInf(), nV = 0;
  for (int i = 0; i < n; ++i) { LD s = 0; for (int j = 0; j < n; ++j) s += fabsl(Vm[(size_t)i * n + j]); nV = std::max(nV, s); }
  {
    LD worst = 0, slackAt = 0; int wi = 0, wj = 0;
    for (int i = 0; i < n; ++i) for (int j = 0; j < n; ++j) {
      LD s = 0, ab = 0;
      for (int k = 0; k < n; ++k) { LD t1 = (LD)M.at(i, k) * Vm[(size_t)k * n + j], t2 = Vm[(size_t)i * n + k] * Dm[(size_t)k * n + j]; s += t1 - t2; ab += fabsl(t1) + fabsl(t2); }
      if (!(fabsl(s) <= worst)) { worst = fabsl(s); wi = i; wj = j; slackAt = gamL(2 * n + 2) * ab; }
    }
    // residual bound: max|A.V - V.D| <= 64.n.eps.|A|_inf.|V|_inf  (+ rounding of this long double evaluation)
    LD bound = CRES * n * EPS * nA * nV + slackAt;
    if (!(worst <= bound)) c.fail(part + "|AV=VD-residual", in() + " entry (" + str(wi) + "," + str(wj) + "): |A.V-V.D|=" + vf::num((double)worst) + " bound=" + vf::num((double)bound) + " d=" + vf::vstr(R.d) + " e=" + vf::vstr(R.e));
  }
  // every column of V is an eigenvector (or half of a conjugate pair), hence not the zero vector (V = 0 would satisfy A.V = V.D vacuously)
  for (int j = 0; j < n; ++j) { bool zero = true; for (int i = 0; i < n; ++i) if (Vm[(size_t)i * n + j] != 0) zero = false; if (zero) { c.fail(part + "|zero-eigenvector-column", in() + " column " + str(j) + " d=" + vf::vstr(R.d) + " e=" + vf::vstr(R.e)); break; } }
  // --- trace and determinant reproduced by the spectrum: the spectrum is that of A+E, |E|_max <= eta = 64.n.eps.|A|_inf ---
  LD eta = CRES * n * EPS * nA;
  {
    LD s = 0, sa = 0; for (int i = 0; i < n; ++i) { s += R.d[i]; sa += fabsl((LD)R.d[i]); }
    LD bound = n * eta + gamL(n) * sa;   // |tr(E)| <= n.eta
    if (!(fabsl(s - M.trace) <= bound)) c.fail(part + "|trace", in() + " sum of real parts=" + vf::num((double)s) + " trace=" + vf::num((double)M.trace) + " bound=" + vf::num((double)bound) + " d=" + vf::vstr(R.d));
    LD si = 0; for (int i = 0; i < n; ++i) si += R.e[i];
    if (si != 0) c.fail(part + "|imaginary-parts-do-not-cancel", in() + " e=" + vf::vstr(R.e));
  }
  if (M.detKnown) {
    LD re = 1, im = 0, mag = 1;
    for (int i = 0; i < n; ++i) { LD a = R.d[i], b = R.e[i], r2 = re * a - im * b, i2 = re * b + im * a; re = r2; im = i2; mag *= hypotl(a, b); }
    std::vector<LD> P0((size_t)n * n), P1((size_t)n * n);
    for (size_t i = 0; i < P0.size(); ++i) { P0[i] = fabsl((LD)M.a[i]); P1[i] = P0[i] + eta; }
    LD p1 = permanent(n, P1), p0 = permanent(n, P0);
    // |det(A+E) - det(A)| <= perm(|A|+eta.J) - perm(|A|); evaluation slack: long double DP (relative n.2^-63 of p1) and the complex product
    LD bound = (p1 - p0) + gamL(4 * n) * (p1 + mag);
    if (!(fabsl(re - M.det) <= bound && fabsl(im) <= bound)) c.fail(part + "|determinant", in() + " product of eigenvalues=" + vf::num((double)re) + "+" + vf::num((double)im) + "i exact det=" + vf::num((double)M.det) + " bound=" + vf::num((double)bound) + " d=" + vf::vstr(R.d) + " e=" + vf::vstr(R.e));
  } else c.tag("determinant-reference-unavailable");
  // --- symmetric input ---
  c.site("EigenValue::isSymmetric");
  if (ev.isSymmetric() != sym) c.fail(part + "|isSymmetric", in() + " reported " + str(ev.isSymmetric()));
  bool complexPair = false; for (int i = 0; i < n; ++i) if (R.e[i] != 0) complexPair = true;
  if (sym) {
    if (complexPair) c.fail(part + "|symmetric-complex-eigenvalue", in() + " e=" + vf::vstr(R.e));
    for (int i = 0; i + 1 < n; ++i) if (!(R.d[i] <= R.d[i + 1])) { c.fail(part + "|symmetric-not-ascending", in() + " d=" + vf::vstr(R.d)); break; }
    LD worst = 0;
    for (int i = 0; i < n; ++i) for (int j = 0; j < n; ++j) { LD s = 0; for (int k = 0; k < n; ++k) s += Vm[(size_t)k * n + i] * Vm[(size_t)k * n + j]; worst = std::max(worst, fabsl(s - (i == j))); }
    LD bound = CRES * n * EPS + gamL(n + 1) * 2;   // orthonormality of the accumulated Householder/rotation product
    if (!(worst <= bound)) c.fail(part + "|symmetric-V-not-orthonormal", in() + " max|V^T.V-I|=" + vf::num((double)worst) + " bound=" + vf::num((double)bound));
  }
  // outcome classes: "input:*" come from the reference side (vacuity guards), "result:*" from the returned lists
  c.tag(sym ? "input:symmetric" : "input:nonsymmetric");
  if (M.cplx == 1) c.tag("input:complex-spectrum-by-construction");
  c.tag(complexPair ? "result:complex-pairs" : "result:real-spectrum");
  R.ok = true; R.V = Vm; R.normV = nV;
  return R;
}

// ---------- exp / pow on diagonalisable members with real spectrum ----------
// With R = A.V - V.D:  V.f(D).V^-1 = f(A+E) exactly, E = -R.V^-1, |E|_inf <= n.(64.n.eps.|A||V|).|V^-1| = 64.n^2.eps.kappa.|A|.
// Library result = fl(V.f(D).W), W = fl(inv(V)) by LU: |W - V^-1| <= gamma_3n.rho.n.kappa.|V^-1| (rho growth factor <= 2^(n-1) <= 32 for n<=6), product rounding gamma_(n+2).
// Hence |result - f(A)| <= S_f.|E| + fmax.kappa^2.(3.n^2.rho + 2n).eps <= 2.64.n^2.eps.kappa^2.(S_f.|A| + fmax)  for n <= 6, where S_f is the
// Lipschitz factor of f on the ball: exp: e^(|A|+|E|), pow p: p.(|A|+|E|)^(p-1);  fmax = max|f(lambda)| <= e^|A| resp. |A|^p.
static void judgeFun(vf::Case& c, const Mat& M, int cA, int cO, bool spd) {
  int n = M.n;
  auto in = [&]() { return std::string(CLS[cA]) + "->" + CLS[cO] + " A=" + (M.desc.empty() ? "" : M.desc + " ") + mstr(n, M.a); };
  Dec dec = judge(c, "eigen", M, cA);
  if (!dec.ok) return;
  LD kappa = condInf(n, dec.V), nA = M.normInf();
  if (!(kappa < 1e6L)) { c.tag("exp/pow:skipped-ill-conditioned-V"); return; }
  LD base = 2 * CRES * n * n * EPS * kappa * kappa * 1.01L;
  auto A = mk(cA, n, n); fill(*A, M);
  auto maxdiff = [&](const Matrix<double>& O, const std::vector<LD>& ref, std::string& where) {
    LD w = 0; for (int i = 0; i < n; ++i) for (int j = 0; j < n; ++j) { LD d = fabsl((LD)O((size_t)i, (size_t)j) - ref[(size_t)i * n + j]); if (!(d <= w)) { w = d; where = "entry (" + str(i) + "," + str(j) + ") got " + vf::num(O((size_t)i, (size_t)j)) + " expected " + vf::num((double)ref[(size_t)i * n + j]); } } return w;
  };
  auto dimsOk = [&](const Matrix<double>& O, const std::string& what) { if ((int)O.getNumberOfRows() != n || (int)O.getNumberOfColumns() != n) { c.fail(what + "|result-dimensions", in()); return false; } return true; };
  std::vector<LD> Am((size_t)n * n); for (size_t i = 0; i < Am.size(); ++i) Am[i] = M.a[i];
  auto mul = [&](const std::vector<LD>& x, const std::vector<LD>& y) { std::vector<LD> z((size_t)n * n, 0); for (int i = 0; i < n; ++i) for (int k = 0; k < n; ++k) for (int j = 0; j < n; ++j) z[(size_t)i * n + j] += x[(size_t)i * n + k] * y[(size_t)k * n + j]; return z; };
  // result objects are handed over with a previous content (a result object is typically re-used): 0 = 1x1 holding 7, 1 = the right
  // shape filled with other values, 2 = one row and one column more, filled; the result must not depend on it
  auto mkPre = [&](int variant) { int r = variant == 0 ? 1 : variant == 1 ? n : n + 1; auto O = mk(cO, r, r);
    for (size_t i = 0; i < O->getNumberOfRows(); ++i) for (size_t j = 0; j < O->getNumberOfColumns(); ++j) (*O)(i, j) = 7 + (double)i - 2 * (double)j; return O; };
  // exp against the power series (long double, at most 120 terms; |A|_inf <= 8 so the series rounding is below 120.n.2^-64.e^|A|)
  if (nA <= 8) {
    std::vector<LD> term((size_t)n * n, 0), sum((size_t)n * n, 0); for (int i = 0; i < n; ++i) term[(size_t)i * n + i] = sum[(size_t)i * n + i] = 1;
    std::vector<LD> nxt((size_t)n * n);
    for (int k = 1; k <= 120; ++k) {   // stops when the term is below 2^-80 (|A|<=8: at most ~65 terms; the remainder is below the last term)
      LD big = 0;
      for (int i = 0; i < n; ++i) for (int j = 0; j < n; ++j) { LD t = 0; for (int l = 0; l < n; ++l) t += term[(size_t)i * n + l] * Am[(size_t)l * n + j]; t /= k; nxt[(size_t)i * n + j] = t; big = std::max(big, fabsl(t)); }
      term.swap(nxt); for (size_t i = 0; i < sum.size(); ++i) sum[i] += term[i];
      if (big < ldexpl(1.0L, -80) && k > 2 * nA) break;
    }
    auto O = mkPre(1);
    c.site("MatrixTools::exp");
    try { MatrixTools::exp(*A, *O); } catch (Exception& e) { c.fail("exp|unexpected-exception", in() + " what=" + e.what()); return; }
    if (dimsOk(*O, "exp")) {
      std::string where; LD w = maxdiff(*O, sum, where);
      LD tol = base * (expl(nA * 1.001L) * nA + expl(nA)) + 120 * n * UL * expl(nA);
      if (!(w <= tol)) c.fail("exp|differs-from-power-series", in() + " " + where + " tolerance=" + vf::num((double)tol) + " cond(V)=" + vf::num((double)kappa));
      c.tag("exp:checked");
    }
  }
  // pow(A,2), pow(A,3) against exact integer products
  std::vector<LD> P = Am;
  for (int p = 2; p <= 3; ++p) {
    P = mul(P, Am);   // exact: small integers
    auto O = mkPre(p == 2 ? 2 : 0);
    c.site("MatrixTools::pow(double)");
    try { MatrixTools::pow(*A, (double)p, *O); } catch (Exception& e) { c.fail("pow|unexpected-exception", in() + " what=" + e.what()); return; }
    if (!dimsOk(*O, "pow")) continue;
    std::string where; LD w = maxdiff(*O, P, where);
    LD nAe = nA * 1.001L + 1e-300L;
    LD tol = base * (p * powl(nAe, p - 1) * nA + powl(nAe, p));
    if (!(w <= tol)) c.fail("pow|differs-from-repeated-product", in() + " p=" + str(p) + " " + where + " tolerance=" + vf::num((double)tol) + " cond(V)=" + vf::num((double)kappa));
    c.tag("pow:checked");
  }
  // square root of a symmetric positive definite matrix: S = pow(A, 0.5), S.S = A.  S = sqrt(A+E) + F with |F| <= base.sqrt(|A|) (fmax part),
  // S.S - A = E + sqrt(A+E).F + F.sqrt(A+E) + F.F, |sqrt(A+E)| <= kappa.sqrt(|A|+|E|)
  if (spd) {
    auto O = mkPre(1);
    c.site("MatrixTools::pow(double)");
    try { MatrixTools::pow(*A, 0.5, *O); } catch (Exception& e) { c.fail("pow|unexpected-exception", in() + " what=" + e.what()); return; }
    if (dimsOk(*O, "pow")) {
      std::vector<LD> S((size_t)n * n); for (int i = 0; i < n; ++i) for (int j = 0; j < n; ++j) S[(size_t)i * n + j] = (*O)((size_t)i, (size_t)j);
      std::vector<LD> SS = mul(S, S); LD w = 0; for (size_t i = 0; i < SS.size(); ++i) { LD d = fabsl(SS[i] - Am[i]); if (!(d <= w)) w = d; }
      LD nAe = nA * 1.001L, F = base * sqrtl(nAe);
      LD tol = CRES * n * n * EPS * kappa * nA + 2 * kappa * sqrtl(nAe) * F * n + F * F * n + gamL(n + 1) * nA * 4;
      if (!(w <= tol)) c.fail("pow|square-root-squared-differs", in() + " max|S.S-A|=" + vf::num((double)w) + " tolerance=" + vf::num((double)tol));
      c.tag("sqrt:checked");
    }
  }
}

// ---------- lattices ----------
static std::vector<LL> alpha(const std::string& spec) {
  if (spec == "01") return {0, 1};
  if (spec == "-1..1") return {0, 1, -1};
  if (spec == "-1..2") return {0, 1, -1, 2};
  int r = atoi(spec.c_str() + 1);
  std::vector<LL> v{0}; for (int i = 1; i <= r; ++i) { v.push_back(i); v.push_back(-i); } return v;
}
static std::string alphaName(const std::string& spec) { return spec[0] == 's' ? "[-" + spec.substr(1) + "," + spec.substr(1) + "]" : "{" + spec + "}"; }

// per-case CPU budgets (the engine's alarm counts CPU time): a case costs microseconds (n<=4) to about a millisecond (n=12, sanitised,
// including the oracle); 0.03/0.05 s (0.3/0.5 s when re-run alone; several scheduler ticks, the granularity of CPU-time alarms) only ever expire on a call that does not return
static const double T_LATTICE = 0.03, T_STRUCT = 0.05;

// prefix non-empty: the sub-lattice of matrices whose first entries (row-major) are the given values: a stated sub-lattice of the full
// lattice, completely enumerated (not a sample)
static void lattice(vf::Runner& R, int n, const std::string& spec, bool allClasses, std::vector<LL> prefix = std::vector<LL>()) {
  std::vector<LL> al = alpha(spec); int K = (int)al.size();
  uint64_t N = 1; for (int i = (int)prefix.size(); i < n * n; ++i) N *= (uint64_t)K;
  int rep = allClasses ? 3 : 1;
  std::string pre; for (LL x : prefix) pre += (pre.empty() ? "" : ",") + str(x);
  std::string name = "eig:int:n" + str(n) + ":" + alphaName(spec) + (prefix.empty() ? "" : ":first-entries=(" + pre + ")") + (allClasses ? ":classes3" : "");
  R.space(name, N * rep, [=](uint64_t idx, vf::Case& c) {
    uint64_t m = idx / rep; int cls = allClasses ? (int)(idx % 3) : (int)((idx / 5 + idx) % 3);
    std::vector<LL> v((size_t)n * n, 0);
    for (size_t q = 0; q < v.size(); ++q) { if (q < prefix.size()) v[q] = prefix[q]; else { v[q] = al[m % K]; m /= K; } }
    Mat M = intMat(n, v, "");
    if (n == 2) M.cplx = ((v[0] - v[3]) * (v[0] - v[3]) + 4 * v[1] * v[2] < 0) ? 1 : 0;   // sign of the discriminant, exact
    Dec d = judge(c, "eigen", M, cls);
    if (d.ok && idx % 30011 == 11) c.sample("A=" + mstr(n, M.a) + " d=" + vf::vstr(d.d) + " e=" + vf::vstr(d.e));
  }, T_LATTICE, 256);
}

static Mat symFromIndex(int n, uint64_t m, const std::vector<LL>& al) {
  int K = (int)al.size(); std::vector<LL> v((size_t)n * n);
  // diagonal first, then the off-diagonal entries: index 0 = zero matrix, small indices = diagonal matrices
  for (int i = 0; i < n; ++i) { v[(size_t)i * n + i] = al[m % K]; m /= K; }
  for (int i = 0; i < n; ++i) for (int j = i + 1; j < n; ++j) { v[(size_t)i * n + j] = v[(size_t)j * n + i] = al[m % K]; m /= K; }
  return intMat(n, v, "");
}
static bool isSPD(const Mat& M) {   // Sylvester: all leading principal minors positive (exact)
  for (int k = 1; k <= M.n; ++k) { std::vector<I128> w((size_t)k * k); for (int i = 0; i < k; ++i) for (int j = 0; j < k; ++j) w[(size_t)i * k + j] = (I128)M.at(i, j); I128 d; if (!bareiss(k, w, d) || d <= 0) return false; }
  return true;
}
static void symLattice(vf::Runner& R, int n, const std::string& spec) {
  std::vector<LL> al = alpha(spec); int K = (int)al.size();
  uint64_t N = 1; for (int i = 0; i < n * (n + 1) / 2; ++i) N *= (uint64_t)K;
  R.space("eig:sym:n" + str(n) + ":" + alphaName(spec), N, [=](uint64_t idx, vf::Case& c) {
    Mat M = symFromIndex(n, idx, al);
    Dec d = judge(c, "eigen", M, (int)((idx / 7 + idx) % 3));
    if (d.ok && idx % 20011 == 13) c.sample("symmetric A=" + mstr(n, M.a) + " d=" + vf::vstr(d.d));
  }, T_LATTICE, 256);
}
// exp / pow over every symmetric member, in all 3x3 (input class, output class) pairs when cube, else rotating
static void symFun(vf::Runner& R, int n, const std::string& spec, bool cube) {
  std::vector<LL> al = alpha(spec); int K = (int)al.size();
  uint64_t N = 1; for (int i = 0; i < n * (n + 1) / 2; ++i) N *= (uint64_t)K;
  int rep = cube ? 9 : 1;
  R.space("fun:sym:n" + str(n) + ":" + alphaName(spec) + (cube ? ":classes3x3" : ""), N * rep, [=](uint64_t idx, vf::Case& c) {
    uint64_t m = idx / rep; int r = cube ? (int)(idx % 9) : (int)((idx / 11 + idx) % 9);
    Mat M = symFromIndex(n, m, al);
    bool spd = isSPD(M);
    if (spd) c.tag("fun:symmetric-positive-definite");
    judgeFun(c, M, r % 3, r / 3, spd);
  }, T_STRUCT, 128);
}

// ---------- exact constructions ----------
static std::vector<std::vector<int>> permSet(int n) {
  std::vector<std::vector<int>> out; std::vector<int> id(n); for (int i = 0; i < n; ++i) id[i] = i;
  if (n <= 5) { std::vector<int> p = id; do out.push_back(p); while (std::next_permutation(p.begin(), p.end())); return out; }
  out.push_back(id);
  { std::vector<int> p(n); for (int i = 0; i < n; ++i) p[i] = n - 1 - i; out.push_back(p); }
  { std::vector<int> p(n); for (int i = 0; i < n; ++i) p[i] = (i + 1) % n; out.push_back(p); }
  { std::vector<int> p(n); for (int i = 0; i < n; ++i) p[i] = (i + n / 2) % n; out.push_back(p); }
  { std::vector<int> p(n); int k = 0; for (int i = 0; i < n; i += 2) p[k++] = i; for (int i = 1; i < n; i += 2) p[k++] = i; out.push_back(p); }   // perfect shuffle
  return out;
}
struct Block { int size; std::vector<LL> b; std::string name; };
static std::vector<Block> blockList() {
  std::vector<Block> L;
  for (LL r : {1, -1, 2, 0, -2}) L.push_back({1, {r}, "(" + str(r) + ")"});
  const LL rot[5][2] = {{0, 1}, {1, 1}, {1, 2}, {-1, 2}, {0, 2}};
  for (auto& ab : rot) L.push_back({2, {ab[0], ab[1], -ab[1], ab[0]}, "rot(" + str(ab[0]) + "," + str(ab[1]) + ")"});
  for (LL r : {1, -1, 2, 0}) L.push_back({2, {r, 1, 0, r}, "J2(" + str(r) + ")"});
  for (LL r : {1, -1, 2, 0}) L.push_back({3, {r, 1, 0, 0, r, 1, 0, 0, r}, "J3(" + str(r) + ")"});
  for (LL r : {1, -2}) L.push_back({3, {r, 1, 1, 0, r, 1, 0, 0, r}, "T3(" + str(r) + ")"});   // repeated eigenvalue, full upper triangle
  return L;
}
static int blocksComplex(const std::vector<Block>& bl) { for (auto& b : bl) if (b.name.compare(0, 3, "rot") == 0) return 1; return 0; }
static std::vector<LL> directSum(int n, const std::vector<Block>& bl) {
  std::vector<LL> v((size_t)n * n, 0); int o = 0;
  for (auto& b : bl) { for (int i = 0; i < b.size; ++i) for (int j = 0; j < b.size; ++j) v[(size_t)(o + i) * n + o + j] = b.b[(size_t)i * b.size + j]; o += b.size; }
  return v;
}
static std::vector<LL> conjPerm(int n, const std::vector<LL>& a, const std::vector<int>& p) {
  std::vector<LL> v((size_t)n * n); for (int i = 0; i < n; ++i) for (int j = 0; j < n; ++j) v[(size_t)i * n + j] = a[(size_t)p[i] * n + p[j]]; return v;
}
// S.A.S^-1 with S = I + s.e_i.e_j^T (i != j): row_i += s.row_j, then col_j -= s.col_i
static std::vector<LL> conjShear(int n, std::vector<LL> a, int i, int j, LL s) {
  for (int k = 0; k < n; ++k) a[(size_t)i * n + k] += s * a[(size_t)j * n + k];
  for (int k = 0; k < n; ++k) a[(size_t)k * n + j] -= s * a[(size_t)k * n + i];
  return a;
}
struct Shear { int i, j; LL s; };
static std::vector<std::vector<Shear>> shearSet(int n) {
  std::vector<std::vector<Shear>> out;
  out.push_back({{0, n - 1, 1}});
  out.push_back({{n - 1, 0, -1}});
  out.push_back({{0, 1, 2}, {n - 1, n - 2, 1}});
  if (n >= 3) out.push_back({{1, 0, 1}, {2, 1, -1}, {0, 2, 1}});
  return out;
}

// all multisets of blocks with total size n (non-decreasing block index)
static void multisets(const std::vector<Block>& L, int n, size_t from, std::vector<Block>& cur, std::vector<std::vector<Block>>& out) {
  if (n == 0) { out.push_back(cur); return; }
  for (size_t k = from; k < L.size(); ++k) if (L[k].size <= n) { cur.push_back(L[k]); multisets(L, n - L[k].size, k, cur, out); cur.pop_back(); }
}

static std::vector<Mat> buildStructured(bool thorough) {
  std::vector<Mat> out;
  // (z) zero, identity, full Jordan blocks J_n(lambda)
  for (int n = 1; n <= 12; ++n) {
    out.push_back(intMat(n, std::vector<LL>((size_t)n * n, 0), "zero(n=" + str(n) + ")"));
    { std::vector<LL> v((size_t)n * n, 0); for (int i = 0; i < n; ++i) v[(size_t)i * n + i] = 1; out.push_back(intMat(n, v, "identity(n=" + str(n) + ")")); }
    if (n >= 2) for (LL lam : {0, 1, -2}) { std::vector<LL> v((size_t)n * n, 0); for (int i = 0; i < n; ++i) { v[(size_t)i * n + i] = lam; if (i + 1 < n) v[(size_t)i * n + i + 1] = 1; } out.push_back(intMat(n, v, "jordan(n=" + str(n) + ",lambda=" + str(lam) + ")")); }
  }
  // (c) companion matrices of prod(x - r), every multiset of size <= 6 of root units; real root r -> (x - r); pair a+-bi -> x^2 - 2a x + (a^2+b^2)
  {
    struct Unit { int deg; LL c1, c0; std::string name; LL prod, sum; };
    std::vector<Unit> U;
    for (LL r : {1, -1, 2, -2}) U.push_back({1, 0, -r, str(r), r, r});
    const LL pr[3][2] = {{1, 1}, {0, 2}, {-1, 2}};
    for (auto& ab : pr) U.push_back({2, -2 * ab[0], ab[0] * ab[0] + ab[1] * ab[1], str(ab[0]) + "+-" + str(ab[1]) + "i", ab[0] * ab[0] + ab[1] * ab[1], 2 * ab[0]});
    std::vector<int> cur;
    std::function<void(size_t)> rec = [&](size_t from) {
      if (!cur.empty()) {
        std::vector<LL> poly{1}; LL prod = 1, sum = 0; std::string nm; bool distinctReal = true;   // poly: low -> high coefficients
        for (size_t q = 0; q < cur.size(); ++q) {
          const Unit& u = U[cur[q]]; prod *= u.prod; sum += u.sum; nm += (nm.empty() ? "" : ",") + u.name;
          if (u.deg == 2 || (q && cur[q] == cur[q - 1])) distinctReal = false;
          std::vector<LL> f = u.deg == 1 ? std::vector<LL>{u.c0, 1} : std::vector<LL>{u.c0, u.c1, 1};
          std::vector<LL> r(poly.size() + f.size() - 1, 0); for (size_t i = 0; i < poly.size(); ++i) for (size_t j = 0; j < f.size(); ++j) r[i + j] += poly[i] * f[j];
          poly = r;
        }
        int n = (int)poly.size() - 1;
        for (int tr = 0; tr < 2; ++tr) {
          std::vector<LL> v((size_t)n * n, 0);
          for (int i = 0; i + 1 < n; ++i) v[(size_t)(i + 1) * n + i] = 1;
          for (int i = 0; i < n; ++i) v[(size_t)i * n + n - 1] = -poly[i];
          if (tr) { std::vector<LL> t((size_t)n * n); for (int i = 0; i < n; ++i) for (int j = 0; j < n; ++j) t[(size_t)i * n + j] = v[(size_t)j * n + i]; v = t; }
          if (n == 1 && tr) continue;
          Mat M = intMat(n, v, std::string(tr ? "companion-transposed" : "companion") + "(roots " + nm + ")");
          if (M.detKnown && M.det != (LD)prod) { fprintf(stderr, "HARNESS: companion determinant mismatch\n"); abort(); }
          if (M.trace != (LD)sum) { fprintf(stderr, "HARNESS: companion trace mismatch\n"); abort(); }
          M.det = (LD)prod; M.detKnown = true; M.realDistinct = distinctReal; M.cplx = 0; for (int q : cur) if (U[q].deg == 2) M.cplx = 1;
          out.push_back(M);
        }
      }
      if (cur.size() == 6) return;
      for (size_t k = from; k < U.size(); ++k) { cur.push_back((int)k); rec(k); cur.pop_back(); }
    };
    rec(0);
  }
  // (b) direct sums of blocks: every multiset of total size n <= 5 conjugated by every permutation, and by the shear set
  auto BL = blockList();
  for (int n = 2; n <= 5; ++n) {
    std::vector<std::vector<Block>> ms; std::vector<Block> cur; multisets(BL, n, 0, cur, ms);
    auto ps = permSet(n); auto sh = shearSet(n);
    for (size_t mi = 0; mi < ms.size(); ++mi) {
      if (!thorough && n == 5 && (mi % 4) != 1) continue;   // quick trim: every 4th multiset for n=5
      std::string nm; for (auto& b : ms[mi]) nm += b.name;
      std::vector<LL> base = directSum(n, ms[mi]);
      int cx = blocksComplex(ms[mi]);
      for (size_t pi = 0; pi < ps.size(); ++pi) { out.push_back(intMat(n, conjPerm(n, base, ps[pi]), "blocks" + nm + ",perm#" + str(pi))); out.back().cplx = cx; }
      for (size_t si = 0; si < sh.size(); ++si) { std::vector<LL> v = base; for (auto& s : sh[si]) v = conjShear(n, v, s.i, s.j, s.s); out.push_back(intMat(n, v, "blocks" + nm + ",shear#" + str(si))); out.back().cplx = cx; }
    }
  }
  // (b') n = 6..12: block sequences from fixed recipes, conjugated by the fixed permutation set and the shear set
  for (int n = 6; n <= 12; ++n) {
    auto ps = permSet(n); auto sh = shearSet(n);
    for (int r = 0; r < 40; ++r) {
      std::vector<Block> seq; int left = n; size_t k = (size_t)r;
      while (left > 0) { const Block& b = BL[k % BL.size()]; if (b.size <= left) { seq.push_back(b); left -= b.size; } k += (size_t)(r % 7) + 1; if (k > 400) { seq.push_back(BL[0]); --left; } }
      std::string nm; for (auto& b : seq) nm += b.name;
      std::vector<LL> base = directSum(n, seq);
      int cx = blocksComplex(seq);
      for (size_t pi = 0; pi < ps.size(); ++pi) { out.push_back(intMat(n, conjPerm(n, base, ps[pi]), "blocks" + nm + ",perm#" + str(pi))); out.back().cplx = cx; }
      for (size_t si = 0; si < sh.size(); ++si) { std::vector<LL> v = base; for (auto& s : sh[si]) v = conjShear(n, v, s.i, s.j, s.s); out.push_back(intMat(n, v, "blocks" + nm + ",shear#" + str(si))); out.back().cplx = cx; }
    }
  }
  // (r) real distinct spectrum by construction: diag(lambda) conjugated by shear sequences (integer, diagonalisable): exp/pow candidates
  for (int n = 2; n <= 5; ++n) {
    const LL lamSets[4][5] = {{1, -1, 2, 0, -2}, {2, 1, 0, -1, -2}, {1, 2, 3, -1, 0}, {-1, 1, -2, 2, 3}};
    auto sh = shearSet(n);
    for (int ls = 0; ls < 4; ++ls) for (size_t si = 0; si < sh.size(); ++si) for (int extra = 0; extra < 2; ++extra) {
      std::vector<LL> v((size_t)n * n, 0); for (int i = 0; i < n; ++i) v[(size_t)i * n + i] = lamSets[ls][i];
      for (auto& s : sh[si]) v = conjShear(n, v, s.i, s.j, s.s);
      if (extra) v = conjShear(n, v, n - 1, 0, 1);
      Mat M = intMat(n, v, "real-distinct(lambda-set#" + str(ls) + ",shear#" + str(si) + (extra ? "+" : "") + ")"); M.realDistinct = true; out.push_back(M);
    }
  }
  // (g) graded D.A.D^-1, D = diag(2^k_i), exponents spanning -10..10 (ratios 2^-20..2^20): exact in double; trace/determinant/spectrum unchanged
  {
    std::vector<Mat> bases; size_t nc = 0;
    auto endsWith = [](const std::string& x, const std::string& suf) { return x.size() >= suf.size() && x.compare(x.size() - suf.size(), suf.size(), suf) == 0; };
    for (auto& M : out) {
      if (M.n < 2 || M.n > 8) continue;
      if (M.desc.compare(0, 9, "companion") == 0) { if (M.n <= 6 && (nc++ % 3) == 0) bases.push_back(M); }
      else if (M.desc.compare(0, 6, "blocks") == 0) { if (endsWith(M.desc, ",perm#1") || endsWith(M.desc, ",shear#2")) bases.push_back(M); }
      else if (M.desc.compare(0, 13, "real-distinct") == 0 || M.desc.compare(0, 6, "jordan") == 0) bases.push_back(M);
    }
    size_t cnt = 0;
    for (auto& B : bases) {
      if (!thorough && (cnt++ % 3)) continue;
      int n = B.n;
      for (int pat = 0; pat < 4; ++pat) {
        std::vector<int> k(n);
        for (int i = 0; i < n; ++i) k[i] = pat == 0 ? (-10 + (20 * i + (n - 1) / 2) / (n - 1)) : pat == 1 ? (10 - (20 * i + (n - 1) / 2) / (n - 1)) : pat == 2 ? (i % 2 ? 10 : -10) : (i == n / 2 ? 10 : -10);
        Mat M = B; M.desc = "graded(pattern" + str(pat) + ";" + B.desc + ")";
        for (int i = 0; i < n; ++i) for (int j = 0; j < n; ++j) { LD x = ldexpl((LD)B.at(i, j), k[i] - k[j]); M.a[(size_t)i * n + j] = (double)x; if ((LD)M.a[(size_t)i * n + j] != x) { fprintf(stderr, "HARNESS: graded entry not exact\n"); abort(); } }
        out.push_back(M);
      }
    }
  }
  return out;
}

static void structured(vf::Runner& R, bool thorough) {
  std::shared_ptr<std::vector<Mat>> L(new std::vector<Mat>(buildStructured(thorough)));
  // simplest first: stable sort by size
  std::stable_sort(L->begin(), L->end(), [](const Mat& a, const Mat& b) { return a.n < b.n; });
  int rep = thorough ? 3 : 1;   // quick: the storage class rotates with the index; thorough: every class
  std::string name = std::string("eig:structured:n<=12:") + (thorough ? "full" : "quick") + ":" + str(L->size()) + "matrices:" + (thorough ? "classes3" : "class-rotating");
  R.space(name, L->size() * rep, [=](uint64_t idx, vf::Case& c) {
    const Mat& M = (*L)[idx / rep];
    Dec d = judge(c, "eigen", M, (int)(idx % 3));
    c.tag("family:" + M.desc.substr(0, M.desc.find_first_of("(#")) + (M.n > 6 ? ":n7-12" : ":n<=6"));
    if (d.ok && idx % 9973 == 3) c.sample(M.desc + " n=" + str(M.n) + " d=" + vf::vstr(d.d) + " e=" + vf::vstr(d.e));
  }, T_STRUCT, 64);
  // exp/pow on the constructed members with real distinct spectrum (n <= 6), all class pairs
  std::shared_ptr<std::vector<Mat>> F(new std::vector<Mat>());
  for (auto& M : *L) if (M.realDistinct && !M.symmetric() && M.n >= 2 && M.n <= 6 && M.desc.compare(0, 6, "graded") != 0) F->push_back(M);
  R.space(std::string("fun:real-distinct:n<=6:") + str(F->size()) + "matrices:classes3x3", F->size() * 9, [=](uint64_t idx, vf::Case& c) {
    const Mat& M = (*F)[idx / 9]; int r = (int)(idx % 9);
    judgeFun(c, M, r % 3, r / 3, false);
    c.tag("fun:nonsymmetric-real-distinct");
  }, T_STRUCT, 64);
}

int main(int argc, char** argv) {
  vf::Runner R(argc, argv, "C06");
  bool th = R.thorough();
  lattice(R, 1, "s3", true);
  lattice(R, 2, "s3", true);
  symLattice(R, 2, "s3");
  symLattice(R, 3, "-1..1");
  lattice(R, 3, th ? "s2" : "-1..1", false);
  symLattice(R, 4, "-1..1");
  structured(R, th);
  symFun(R, 2, "s2", true);
  symFun(R, 3, "-1..1", true);
  symFun(R, 4, "-1..1", false);
  lattice(R, 4, "01", false);
  // sub-lattices of the 4x4 lattice over {-1,0,1} (the full 43M lattice is out of reach on the unchanged tree, see note): located with a
  // probe of the full lattice; they contain members on which the double-shift QR iteration stagnates even after the zero-shift repair
  lattice(R, 4, "-1..1", false, {1, -1, 0, 1, -1, -1, 0, 0});
  if (th) {
    symLattice(R, 5, "-1..1");
    lattice(R, 4, "-1..1", false, {1, -1, 0});
  }
  R.expectSeen("input:symmetric");
  R.expectSeen("input:nonsymmetric");
  R.expectSeen("input:complex-spectrum-by-construction");
  R.expectSeen("exp:checked");
  R.expectSeen("pow:checked");
  R.expectSeen("sqrt:checked");
  R.expectSeen("fun:nonsymmetric-real-distinct");
  R.note("every case runs under the engine's CPU-time alarm of 0.03 s (n<=4 lattices) / 0.05 s (constructions, exp/pow); a case that trips it is re-run alone with 10x that budget before a hang is reported; normal cost is microseconds to about a millisecond");
  R.note("residual, trace, determinant, orthonormality, exp and pow tolerances all derive from one constant: norm-wise backward error p(n)=64n times eps=2^-52; determinant via the permanent perturbation bound; exp/pow scaled by the condition number of the returned V (computed in long double)");
  R.note("exp/pow are judged only where the statement places them: symmetric members (orthonormal V) and constructed matrices with real distinct spectrum; defective or complex-spectrum matrices are not judged for exp/pow");
  R.note("the full 4x4 lattice over {-1,0,1} (43M) is not run: on the unchanged tree 11131 of its members never return (probe), each costing a 0.33 s confirmation; instead two completely enumerated sub-lattices (fixed leading entries) are run, chosen with a probe of the full lattice so that they contain members of both non-return mechanisms (QR sweep abandoned on a zero shift; stagnation at a fixed point of the shifted sweep because the exceptional shifts are applied only once)");
  R.note("gradings use powers of two so that the graded matrix is exactly similar to its integer base");
  return R.finish();
}
