// C08 — cumulative and quantile functions are proper, mutually inverse and accurate
// VF-VARIANT: san
// VF-PRE: oracle/C08_ref.py
// VF-RULE: E2 on fixed lattices (defined in oracle/C08_ref.py as closed-form functions of the tier and carried bit-exactly by the reference table; nothing random). One case = one lattice line = one parameter point (shape and rate / df / shape pair) with the argument swept over 260-1000 ascending points: 0, 1e-300 .. bulk .. far tail, plus -3..+3 ulp around every branch switch of the implementation (series/continued-fraction switch x=1 and x=alpha; beta: b*x=1, x=0.95, x=a/(a+b), 1-1/a, 0.05, (a-1)/(a+b-2), the power/log-form switches, a+b around 171.62; pNorm: 0.67448975, sqrt(32), -37.5193, 8.2924, 1e-20 and every multiple of 1/16; quantiles: p=0.5, the AS91 start-value switch, the documented limits 2e-6 and 1-2e-6, df=0.32, shape=1). Long lines (normal, quantiles) are cut into segments that share their end point, so every neighbour pair is compared. Every point of every line is evaluated on the real code. A case is non-trivial when it contains values strictly inside (0,1) (cdf) or judged quantiles. Plus an explicit list of invalid-argument and probability-end calls.
// VF-BOUND: lattices instead of the continuum, quick (thorough): z in [-40,40] step 1/64 (1/256); p logit-uniform in [1e-6,1-1e-6]: 4001 (16001) points for qNorm/qChisq, 1001 (4001) for qGamma, 401 (1001) for qBeta; gamma shape 96 (384) log-spaced points in [0.05,200] plus 14 specials, rates {1e-3,0.1,1,10,1e3} (rate != 1 on every 8th shape); chi-square df 64 (192) log-spaced in [0.1,400] plus 8 specials; beta shapes 48x48 (72x72) log grid in [0.1,200] plus special and a+b~171.62 pairs, quantile shapes 24x24 (48x48) in [0.3,200]; x grids of 260-1000 points per line; the "random points" of the property are replaced by the lattices
// VF-LEVEL: bounded-exhaustive evaluation of the real functions on fixed lattices including ulp-neighbourhoods of every branch switch; judged against an independent reference (scipy.special validated against 40-digit mpmath on a sub-lattice in the same run) and against tolerance-free order/identity oracles; nothing is known about arguments between lattice points
// VF-ASSUME: scipy.special (ndtr, gammainc, betainc and their inverses) is accurate to 1e-15/1e-13/1e-13 absolute on the whole lattice as it is on the validated sub-lattice (every 16th normal and gamma-type point, every 41st (quick) or 101st (thorough) beta point, every 500th-1000th quantile bracket, against mpmath at 40 digits; the script aborts the check with a harness error if they disagree);; IEEE-754 double arithmetic, glibc libm;; the exact cdfs are monotone, so bracket membership decides |F(q)-p|<=1e-8 exactly
// VF-TECHNIQUE: exhaustive lattice evaluation with reference table and exact order/identity oracles
// VF-BUDGET_QUICK: 120
#include "vf.hpp"
#include <sys/wait.h>
#include <unistd.h>
#include <cstring>
#include <functional>
#include <Bpp/Numeric/Random/RandomTools.h>
#include <Bpp/Numeric/NumConstants.h>
#include <Bpp/App/ApplicationTools.h>
#include <Bpp/Io/OutputStream.h>
#include <Bpp/Exceptions.h>
#include <limits>
using namespace bpp;
using vf::num;
using vf::str;

static const double EPS = std::numeric_limits<double>::epsilon();  // 2^-52
static const double INF = std::numeric_limits<double>::infinity();

// ---- documented accuracies (property statement; never tuned) + certified error of the reference table ----
static const double TOL_NORM = 1e-12 + 1e-15;   // normal cdf 1e-12; scipy.ndtr certified to 1e-15 against mpmath
static const double TOL_BETA = 1e-12 + 1e-13;   // beta cdf 1e-12; scipy.betainc certified to 1e-13
static const double TOL_GAM = 1e-8 + 2e-13;     // gamma-type cdfs 1e-8; scipy.gammainc certified to 1e-13; + rounding of beta*x (<1e-14 in P)
static const double TOL_Q = 1e-8;               // quantile inversion, all four families (AS70/AS91/AS109 accuracy)

// ------------------------------------------------------------------------------------------------------------------
// reference table
struct Sec {
  uint64_t rows = 0, cols = 0; const double* d = nullptr;
  const double* row(uint64_t i) const { return d + i * cols; }
};
static std::map<std::string, Sec> TBL;
static bool loadTable(std::string& err) {
  const char* path = getenv("VF_REF");
  if (!path) { err = "VF_REF not set (the reference-table stage did not run)"; return false; }
  int fd = open(path, O_RDONLY);
  if (fd < 0) { err = std::string("cannot open ") + path; return false; }
  struct stat sb; fstat(fd, &sb);
  const char* m = (const char*)mmap(nullptr, (size_t)sb.st_size, PROT_READ, MAP_PRIVATE, fd, 0);
  close(fd);
  if (m == MAP_FAILED || sb.st_size < 8 || memcmp(m, "C08REF2\n", 8) != 0) { err = "bad reference table"; return false; }
  size_t off = 8;
  while (off + 32 <= (size_t)sb.st_size) {
    std::string name(m + off, strnlen(m + off, 16));
    uint64_t r, c; memcpy(&r, m + off + 16, 8); memcpy(&c, m + off + 24, 8);
    off += 32;
    if (off + r * c * 8 > (size_t)sb.st_size) { err = "truncated reference table"; return false; }
    Sec s; s.rows = r; s.cols = c; s.d = (const double*)(m + off);
    TBL[name] = s; off += r * c * 8;
  }
  for (const char* n : {"pnorm_P", "qnorm_P", "gam_L", "gam_P", "chi_L", "chi_P", "bet_L", "bet_P", "lnb_P", "qchi_L", "qchi_P", "qgam_L", "qgam_P", "qbet_L", "qbet_P"})
    if (!TBL.count(n)) { err = std::string("section missing: ") + n; return false; }
  return true;
}

// ------------------------------------------------------------------------------------------------------------------
// helpers
static inline uint64_t ordu(double x) {   // order-preserving map double -> uint64
  uint64_t u; memcpy(&u, &x, 8);
  return (u >> 63) ? ~u : (u | 0x8000000000000000ULL);
}
// neighbours closer than 64 ulps are the ulp-clusters placed around branch switches; everything else is grid-spaced
static inline bool closePair(double a, double b) { return ordu(b) - ordu(a) <= 64; }
static inline double pred(double x) { return std::nextafter(x, -INF); }
static inline double succ(double x) { return std::nextafter(x, INF); }

struct Findings {   // one c.fail per signature and line: first (smallest argument) witness, count, worst magnitude
  struct F { std::string first; uint64_t n = 0; double worst = 0; };
  std::map<std::string, F> m;
  void add(const std::string& sig, double mag, const std::string& detail) {
    F& f = m[sig]; if (!f.n) f.first = detail; ++f.n; if (mag > f.worst) f.worst = mag;
  }
  void flush(vf::Case& c, const std::string& line) {
    for (auto& kv : m) c.fail(kv.first, line + ": " + kv.second.first + "  [" + str(kv.second.n) + " point(s) on this line, worst " + num(kv.second.worst) + "]");
  }
};

struct Call { bool threw = false; double v = 0; std::string what; };
template<class F> static Call call(F f) {
  Call r;
  try { r.v = f(); } catch (bpp::Exception& e) { r.threw = true; r.what = e.what(); }
  return r;
}

// ---- generic judge of one cdf line -------------------------------------------------------------------------------
// pts: rows (x, ref); eval(x) -> value; rb(x) -> derived rounding bound used for pairs closer than 64 ulps
static std::string decade(double e) {   // outcome class of a magnitude: "<=1e-09" ...
  if (!(e > 0)) return "0";
  int k = (int)std::ceil(std::log10(e)); if (k < -17) k = -17; if (k > 0) k = 0;
  char b[16]; snprintf(b, sizeof b, "<=1e%+03d", k); return b;
}
// fam names the signature (site), label the outcome-class histogram (entry point)
template<class E, class RB>
static std::vector<double> judgeCdfLine(vf::Case& c, Findings& fd, const std::string& fam, const std::string& label, const Sec& P, uint64_t start, uint64_t n, E eval, RB rb,
                                        double tol, double lowerEnd, double upperEnd) {
  std::vector<double> val(n, std::numeric_limits<double>::quiet_NaN());
  uint64_t closePairs = 0; bool inside = false; double maxErr = 0;
  for (uint64_t i = 0; i < n; ++i) {
    double x = P.row(start + i)[0], ref = P.row(start + i)[1];
    Call r = call([&] { return eval(x); });
    if (r.threw) { fd.add("exception|" + fam, 0, "x=" + num(x) + " raised: " + r.what); continue; }
    double v = r.v; val[i] = v;
    if (!(v >= 0.0 && v <= 1.0)) { fd.add("range|" + fam, std::fabs(v), "x=" + num(x) + " value=" + num(v) + " outside [0,1]"); continue; }
    if (v > 0 && v < 1) inside = true;
    if (x == lowerEnd && v != 0.0) fd.add("ends|" + fam + "|lower", v, "x=" + num(x) + " (lower end of the support/lattice) value=" + num(v) + " expected exactly 0");
    if (x == upperEnd && v != 1.0) fd.add("ends|" + fam + "|upper", 1 - v, "x=" + num(x) + " (upper end of the support/lattice) value=" + num(v) + " expected exactly 1");
    double err = std::fabs(v - ref); if (err > maxErr) maxErr = err;
    if (!(err <= tol)) fd.add("accuracy|" + fam, err, "x=" + num(x) + " value=" + num(v) + " reference=" + num(ref) + " |diff|=" + num(err) + " > " + num(tol));
    if (i > 0 && !std::isnan(val[i - 1])) {
      double x0 = P.row(start + i - 1)[0], drop = val[i - 1] - v;
      bool cp = closePair(x0, x); if (cp) ++closePairs;
      if (drop > 0) {
        if (!cp) fd.add("mono|" + fam + "|grid", drop, "F(" + num(x0) + ")=" + num(val[i - 1]) + " > F(" + num(x) + ")=" + num(v) + " drop=" + num(drop));
        else {
          // pairs a few ulps apart: a drop is a violation only beyond what rounding of the evaluation can produce (bound derived at rb)
          double bound = rb(x);
          if (drop > bound) fd.add("mono|" + fam + "|close-pair", drop, "F(" + num(x0) + ")=" + num(val[i - 1]) + " > F(" + num(x) + ")=" + num(v) + " (" + str(ordu(x) - ordu(x0)) + " ulp apart, at a branch switch) drop=" + num(drop) + " > rounding bound " + num(bound));
          else c.out->hist["close-pair-drop-within-rounding:" + label]++;
        }
      }
    }
  }
  c.out->hist["points:" + label] += n;
  c.out->hist["close-pairs-judged:" + label] += closePairs;
  c.out->hist["line-max-error-vs-reference:" + label + ":" + decade(maxErr)]++;
  if (inside) c.nontrivial();
  return val;
}

// ---- generic judge of one quantile line --------------------------------------------------------------------------
// pts: rows (p, xlo, xhi) with F(xlo) <= p-1e-8, F(xhi) >= p+1e-8 for the exact cdf F.
struct QSpec {
  std::string fn; double lo, hi;          // support
  double docLo, docHi;                    // documented working range of p (open interval); outside it the sentinel is accepted
  bool closeRule;                         // close pairs judged with a derived rounding bound (closed-form quantile only)
};
template<class Q, class C, class S>
static void judgeQuantileLine(vf::Case& c, Findings& fd, const QSpec& qs, const Sec& P, uint64_t start, uint64_t n, Q q, C cdf, S isSentinel) {
  double prevP = 0, prevV = 0; bool havePrev = false; uint64_t judged = 0;
  for (uint64_t i = 0; i < n; ++i) {
    double p = P.row(start + i)[0], xlo = P.row(start + i)[1], xhi = P.row(start + i)[2];
    Call r = call([&] { return q(p); });
    if (r.threw) { fd.add("exception|" + qs.fn, 0, "p=" + num(p) + " raised: " + r.what); continue; }
    double v = r.v;
    bool documented = (p > qs.docLo && p < qs.docHi);
    if (isSentinel(v)) {
      if (documented) fd.add("qrange|" + qs.fn + "|error-signal-inside-documented-range", 0, "p=" + num(p) + " returned the error signal " + num(v));
      else c.out->hist["documented-sentinel-outside-documented-p-range:" + qs.fn]++;
      continue;
    }
    if (!documented) { c.out->hist["value-outside-documented-p-range-not-judged:" + qs.fn]++; continue; }
    if (!(v >= qs.lo && v <= qs.hi)) { fd.add("qrange|" + qs.fn, 0, "p=" + num(p) + " quantile=" + num(v) + " outside the support"); continue; }
    ++judged;
    if (havePrev && prevV > v) {
      double drop = prevV - v;
      if (!closePair(prevP, p)) fd.add("qmono|" + qs.fn + "|grid", drop, "q(" + num(prevP) + ")=" + num(prevV) + " > q(" + num(p) + ")=" + num(v));
      else if (qs.closeRule) {
        // closed-form rational approximation: rounding of the evaluation is bounded by a few ulps of (1+|z|)
        double bound = 16 * EPS * (1 + std::fabs(v));
        if (drop > bound) fd.add("qmono|" + qs.fn + "|close-pair", drop, "q(" + num(prevP) + ")=" + num(prevV) + " > q(" + num(p) + ")=" + num(v) + " (" + str(ordu(p) - ordu(prevP)) + " ulp apart, at a branch switch) drop=" + num(drop) + " > rounding bound " + num(bound));
      } else {   // iterative solver: not judged; recorded with its size in probability (own cdf)
        Call f1 = call([&] { return cdf(prevV); }), f2 = call([&] { return cdf(v); });
        c.out->hist["close-pair-quantile-drop-not-judged(iterative solver):" + qs.fn + ":cdf-difference" + ((f1.threw || f2.threw) ? "?" : std::string(decade(std::fabs(f1.v - f2.v))))]++;
      }
    }
    havePrev = true; prevP = p; prevV = v;
    // inversion against the exact cdf: |F(q)-p| <= 1e-8  <=>  xlo <= q <= xhi
    if (!(v >= xlo && v <= xhi))
      fd.add("inverse|" + qs.fn + "|exact-cdf", 0, "p=" + num(p) + " quantile=" + num(v) + " outside [" + num(xlo) + "," + num(xhi) + "] = exact quantiles of p-+1e-8: |F(q)-p| > 1e-8");
    // inversion against the library's own cdf; where doubles cannot resolve 1e-8 in probability the double adjacent to q may take over
    Call f = call([&] { return cdf(v); });
    if (f.threw) { fd.add("exception|" + qs.fn + "|own-cdf", 0, "cdf(q(p)) raised for p=" + num(p) + " q=" + num(v) + ": " + f.what); continue; }
    double d = f.v - p;
    if (std::fabs(d) > TOL_Q) {
      bool bad = true;
      double w = d > 0 ? pred(v) : succ(v);
      if (w >= qs.lo && w <= qs.hi && std::isfinite(w)) {
        Call g = call([&] { return cdf(w); });
        if (!g.threw && ((d > 0 && g.v - p <= TOL_Q) || (d < 0 && p - g.v <= TOL_Q))) bad = false;   // q is a double adjacent to the exact inverse
      }
      if (bad) fd.add("inverse|" + qs.fn + "|own-cdf", std::fabs(d), "p=" + num(p) + " q=" + num(v) + " cdf(q)=" + num(f.v) + " |cdf(q)-p|=" + num(std::fabs(d)) + " > 1e-8");
      else c.out->hist["inverse-limited-by-double-resolution:" + qs.fn]++;
    }
  }
  c.out->hist["points:" + qs.fn] += n;
  c.out->hist["quantiles-judged:" + qs.fn] += judged;
  if (judged) c.nontrivial();
}

// a quantile line (one parameter point, p ascending) is cut into segments of <= SEGQ+1 points (neighbouring segments share one point,
// so every neighbour pair is compared) to keep the work of one case small
struct Seg { uint64_t line, start, n; };
static std::vector<Seg> segments(const Sec& L, int startCol, uint64_t SEGQ) {
  std::vector<Seg> v;
  for (uint64_t l = 0; l < L.rows; ++l) {
    uint64_t s0 = (uint64_t)L.row(l)[startCol], n = (uint64_t)L.row(l)[startCol + 1];
    for (uint64_t o = 0; o + 1 < n || (n == 1 && o == 0); o += SEGQ) v.push_back(Seg{l, s0 + o, std::min<uint64_t>(SEGQ + 1, n - o)});
  }
  return v;
}

// rounding bound of incompleteGamma at argument t, shape a: the prefactor exp(a ln t - t - lnGamma(a)) carries the absolute error of its
// exponent (<= 8 eps (|a ln t| + t + |lnGamma a|)) as relative error of a result <= 1; summation of < 1000 positive terms adds < 2048 eps
static double rbGamma(double t, double a) {
  if (!(t > 0)) return 0;
  return EPS * (8 * (std::fabs(a * std::log(t)) + t + std::fabs(std::lgamma(a))) + 2048);
}
// rounding bound of incompleteBeta: prefactor x^a (1-x)^b / (a B(a,b)) evaluated through lgamma (<= 4 ulp each) / pow / exp, series or
// continued fraction of <= 1000 terms; result <= 1
static double rbBeta(double x, double a, double b) {
  if (!(x > 0 && x < 1)) return 0;
  double S = std::fabs(std::lgamma(a)) + std::fabs(std::lgamma(b)) + std::fabs(std::lgamma(a + b));
  return EPS * (8 * (S + std::fabs(a * std::log(x)) + std::fabs(b * std::log1p(-x))) + 4096);
}

// ---- invalid region / support ends -------------------------------------------------------------------------------
enum { EXC = 1, VAL = 2, NEG = 4, NANV = 8, VAL2 = 16 };
struct Inv { std::string fn, cls, text; std::function<double()> f; int accept; double v1, v2; };
static std::vector<Inv> invalidList() {
  std::vector<Inv> L;
  auto add = [&](const std::string& fn, const std::string& cls, const std::string& text, std::function<double()> f, int acc, double v1 = 0, double v2 = 0) {
    Inv i; i.fn = fn; i.cls = cls; i.text = text; i.f = f; i.accept = acc; i.v1 = v1; i.v2 = v2; L.push_back(i);
  };
  const double one_p = succ(1.0);
  std::vector<double> badp = {-0.1, 1.1, -1e-300, one_p, -1.0, 2.0};
  for (double p : badp) {
    add("qNorm", "p-outside-01", "qNorm(" + num(p) + ")", [=] { return RandomTools::qNorm(p); }, VAL, -9999);
    for (auto ms : std::vector<std::pair<double, double>>{{0, 1}, {5, 2}, {0, 0.001}})
      add("qNorm3", "p-outside-01", "qNorm(" + num(p) + "," + num(ms.first) + "," + num(ms.second) + ")", [=] { return RandomTools::qNorm(p, ms.first, ms.second); }, VAL, -9999);
    for (double v : {0.5, 3.0, 100.0}) add("qChisq", "p-outside-01", "qChisq(" + num(p) + "," + num(v) + ")", [=] { return RandomTools::qChisq(p, v); }, VAL, -1);
    // qGamma documents no signal of its own: an exception or any negative number / NaN (impossible as a gamma quantile) is accepted
    for (double b : {1.0, 0.25, 8.0}) add("qGamma", "p-outside-01", "qGamma(" + num(p) + ",2," + num(b) + ")", [=] { return RandomTools::qGamma(p, 2.0, b); }, EXC | NEG | NANV);
    for (auto ab : std::vector<std::pair<double, double>>{{0.5, 0.5}, {2, 3}, {1, 1}})
      add("qBeta", "p-outside-01", "qBeta(" + num(p) + "," + num(ab.first) + "," + num(ab.second) + ")", [=] { return RandomTools::qBeta(p, ab.first, ab.second); }, EXC);
  }
  std::vector<double> negs = {-1.0, -0.5, -1e-300, -200.0};
  for (double s : negs) {
    for (double x : {0.5, 3.0}) {
      add("incompleteGamma", "negative-shape", "incompleteGamma(" + num(x) + "," + num(s) + ",0)", [=] { return RandomTools::incompleteGamma(x, s, 0.0); }, VAL, -1);
      add("pGamma", "negative-shape", "pGamma(" + num(x) + "," + num(s) + ",1)", [=] { return RandomTools::pGamma(x, s, 1.0); }, EXC);
      add("pGamma", "negative-rate", "pGamma(" + num(x) + ",2," + num(s) + ")", [=] { return RandomTools::pGamma(x, 2.0, s); }, EXC);
      add("pChisq", "negative-df", "pChisq(" + num(x) + "," + num(s) + ")", [=] { return RandomTools::pChisq(x, s); }, EXC | NEG | NANV);
    }
    // the same at the ends of the support, where the functions have shortcut exits
    add("incompleteGamma", "negative-shape", "incompleteGamma(0," + num(s) + ",0)", [=] { return RandomTools::incompleteGamma(0.0, s, 0.0); }, VAL, -1);
    add("pGamma", "negative-shape", "pGamma(0," + num(s) + ",1)", [=] { return RandomTools::pGamma(0.0, s, 1.0); }, EXC);
    add("pGamma", "negative-rate", "pGamma(0,2," + num(s) + ")", [=] { return RandomTools::pGamma(0.0, 2.0, s); }, EXC);
    add("pChisq", "negative-df", "pChisq(0," + num(s) + ")", [=] { return RandomTools::pChisq(0.0, s); }, EXC | NEG | NANV);
    for (double x : {0.0, 1.0}) {
      add("pBeta", "negative-shape", "pBeta(" + num(x) + "," + num(s) + ",2)", [=] { return RandomTools::pBeta(x, s, 2.0); }, EXC);
      add("pBeta", "negative-shape", "pBeta(" + num(x) + ",2," + num(s) + ")", [=] { return RandomTools::pBeta(x, 2.0, s); }, EXC);
      add("incompleteBeta", "negative-shape", "incompleteBeta(" + num(x) + "," + num(s) + "," + num(s) + ")", [=] { return RandomTools::incompleteBeta(x, s, s); }, EXC);
    }
    add("pBeta", "negative-shape", "pBeta(0.5," + num(s) + ",2)", [=] { return RandomTools::pBeta(0.5, s, 2.0); }, EXC);
    add("pBeta", "negative-shape", "pBeta(0.5,2," + num(s) + ")", [=] { return RandomTools::pBeta(0.5, 2.0, s); }, EXC);
    add("incompleteBeta", "negative-shape", "incompleteBeta(0.5," + num(s) + "," + num(s) + ")", [=] { return RandomTools::incompleteBeta(0.5, s, s); }, EXC);
    for (double p : {0.5, 0.01}) {
      add("qChisq", "negative-df", "qChisq(" + num(p) + "," + num(s) + ")", [=] { return RandomTools::qChisq(p, s); }, VAL, -1);
      add("qGamma", "negative-shape", "qGamma(" + num(p) + "," + num(s) + ",1)", [=] { return RandomTools::qGamma(p, s, 1.0); }, EXC | NEG | NANV);
      add("qGamma", "negative-rate", "qGamma(" + num(p) + ",2," + num(s) + ")", [=] { return RandomTools::qGamma(p, 2.0, s); }, EXC | NEG | NANV);
      add("qBeta", "negative-shape", "qBeta(" + num(p) + "," + num(s) + ",2)", [=] { return RandomTools::qBeta(p, s, 2.0); }, EXC);
      add("qBeta", "negative-shape", "qBeta(" + num(p) + ",2," + num(s) + ")", [=] { return RandomTools::qBeta(p, 2.0, s); }, EXC);
    }
    // argument below the support of a cdf: the mathematical value 0 or an error signal
    add("incompleteGamma", "x-below-support", "incompleteGamma(" + num(s) + ",2,0)", [=] { return RandomTools::incompleteGamma(s, 2.0, 0.0); }, VAL, -1);
    add("pGamma", "x-below-support", "pGamma(" + num(s) + ",2,1)", [=] { return RandomTools::pGamma(s, 2.0, 1.0); }, EXC | VAL | VAL2, -1, 0);
    add("pChisq", "x-below-support", "pChisq(" + num(s) + ",3)", [=] { return RandomTools::pChisq(s, 3.0); }, EXC | VAL | VAL2, -1, 0);
    add("pBeta", "x-below-support", "pBeta(" + num(s) + ",2,3)", [=] { return RandomTools::pBeta(s, 2.0, 3.0); }, EXC | VAL, 0);
  }
  for (double x : {one_p, 1.5, 1e300}) add("pBeta", "x-above-support", "pBeta(" + num(x) + ",2,3)", [=] { return RandomTools::pBeta(x, 2.0, 3.0); }, EXC | VAL, 1);
  // ends of the probability range
  for (auto ab : std::vector<std::pair<double, double>>{{0.3, 0.3}, {1, 1}, {2, 3}, {200, 0.3}, {200, 200}}) {
    add("qBeta", "p=0", "qBeta(0," + num(ab.first) + "," + num(ab.second) + ")", [=] { return RandomTools::qBeta(0.0, ab.first, ab.second); }, VAL, 0);
    add("qBeta", "p=1", "qBeta(1," + num(ab.first) + "," + num(ab.second) + ")", [=] { return RandomTools::qBeta(1.0, ab.first, ab.second); }, VAL, 1);
  }
  add("qNorm", "p=0", "qNorm(0)", [=] { return RandomTools::qNorm(0.0); }, VAL | VAL2, -9999, -INF);
  add("qNorm", "p=1", "qNorm(1)", [=] { return RandomTools::qNorm(1.0); }, VAL | VAL2, -9999, INF);
  for (double v : {0.5, 3.0, 100.0}) {
    add("qChisq", "p=0", "qChisq(0," + num(v) + ")", [=] { return RandomTools::qChisq(0.0, v); }, VAL | VAL2, -1, 0);
    add("qChisq", "p=1", "qChisq(1," + num(v) + ")", [=] { return RandomTools::qChisq(1.0, v); }, VAL | VAL2, -1, INF);
  }
  return L;
}

int main(int argc, char** argv) {
  vf::Runner R(argc, argv, "C08");
  static auto nul = std::make_shared<NullOutputStream>();
  ApplicationTools::message = nul; ApplicationTools::warning = nul; ApplicationTools::error = nul;
  std::string err;
  if (!loadTable(err)) { R.harnessFail("reference table: " + err); return R.finish(); }
  const double CT = 1.0, CTQ = 2.0;   // a line takes milliseconds; a timed-out case is re-run alone with 10x the budget by the engine before it counts as a hang

  // ================= invalid region and ends of the probability range =================
  {
    static std::vector<Inv> IL = invalidList();
    R.space("invalid-region+probability-ends:calls" + str(IL.size()), IL.size(), [=](uint64_t idx, vf::Case& c) {
      const Inv& I = IL[idx];
      c.site(("RandomTools::" + I.fn).c_str());
      Call r = call(I.f);
      bool ok; std::string got;
      if (r.threw) { ok = (I.accept & EXC) != 0; got = "exception(" + r.what + ")"; c.tag("invalid:exception"); }
      else {
        got = num(r.v);
        ok = ((I.accept & VAL) && r.v == I.v1) || ((I.accept & VAL2) && r.v == I.v2) || ((I.accept & NEG) && r.v < 0) || ((I.accept & NANV) && std::isnan(r.v));
        c.tag(ok ? ((I.cls == "p=0" || I.cls == "p=1") ? "ends:documented-value" : "invalid:documented-sentinel-or-signal") : "invalid:plausible-number");
      }
      c.nontrivial();
      if (!ok) {
        std::string exp;
        if (I.accept & EXC) exp += "exception ";
        if (I.accept & VAL) exp += num(I.v1) + " ";
        if (I.accept & VAL2) exp += num(I.v2) + " ";
        if (I.accept & NEG) exp += "negative ";
        if (I.accept & NANV) exp += "NaN ";
        bool end = (I.cls == "p=0" || I.cls == "p=1");
        c.fail(std::string(end ? "ends|" : "invalid|") + I.fn + "|" + I.cls, I.text + " returned " + got + "; documented/accepted: " + exp);
      }
      if (idx < 2) c.sample(I.text + " -> " + got);
    }, CT);
  }

  // ================= normal cdf =================
  {
    const Sec& P = TBL["pnorm_P"];
    const uint64_t SEG = 256; uint64_t nseg = (P.rows - 1 + SEG - 1) / SEG;
    R.space("pNorm:z[-40,40]:points" + str(P.rows) + ":segments" + str(nseg), nseg, [=](uint64_t idx, vf::Case& c) {
      uint64_t start = idx * SEG, n = std::min<uint64_t>(SEG + 1, P.rows - start);   // segments overlap by one point
      Findings fd; c.site("RandomTools::pNorm");
      // rounding bound: Cody's rational forms are evaluated to a few ulps; 0.5+temp and 1-cum add one rounding of a number <= 1
      std::vector<double> v = judgeCdfLine(c, fd, "pNorm", "pNorm", P, start, n, [](double z) { return RandomTools::pNorm(z); }, [](double) { return 16 * EPS; }, TOL_NORM, -40.0, 40.0);
      for (uint64_t i = 0; i < n; ++i) {
        double z = P.row(start + i)[0]; if (std::isnan(v[i])) continue;
        // reflection Phi(-z) = 1 - Phi(z): both sides documented to 1e-12
        double w = RandomTools::pNorm(-z), d = std::fabs(v[i] + w - 1.0);
        if (!(d <= 2e-12)) fd.add("identity|pNorm|reflection", d, "z=" + num(z) + " pNorm(z)=" + num(v[i]) + " pNorm(-z)=" + num(w) + " sum-1=" + num(v[i] + w - 1.0));
      }
      c.tag("line:pNorm");
      fd.flush(c, "pNorm segment " + str(idx));
      if (idx == 3) c.sample("pNorm(" + num(P.row(start)[0]) + ")=" + num(v[0]) + " reference " + num(P.row(start)[1]));
    }, CT);
    // location/scale forms
    static const double MS[4][2] = {{0, 1}, {5, 2}, {-3, 0.001}, {1000, 1000}};
    const Sec& Qn = TBL["qnorm_P"];
    R.space("normal-affine:4 (mu,sigma) x every 16th lattice point", 4, [=](uint64_t idx, vf::Case& c) {
      double mu = MS[idx][0], sg = MS[idx][1]; Findings fd; c.site("RandomTools::pNorm(x,mu,sigma)");
      for (uint64_t i = 0; i < P.rows; i += 16) {
        double x = mu + sg * P.row(i)[0];
        double a = RandomTools::pNorm(x, mu, sg), b = RandomTools::pNorm((x - mu) / sg);
        if (!(a == b)) fd.add("identity|pNorm|location-scale", std::fabs(a - b), "pNorm(" + num(x) + "," + num(mu) + "," + num(sg) + ")=" + num(a) + " but pNorm((x-mu)/sigma)=" + num(b));
      }
      c.site("RandomTools::qNorm(p,mu,sigma)");
      for (uint64_t i = 0; i < Qn.rows; i += 16) {
        double p = Qn.row(i)[0];
        double q = RandomTools::qNorm(p, mu, sg), z = RandomTools::qNorm(p);
        if (!(q == z * sg + mu)) fd.add("identity|qNorm|location-scale", 0, "qNorm(" + num(p) + "," + num(mu) + "," + num(sg) + ")=" + num(q) + " but qNorm(p)*sigma+mu=" + num(z * sg + mu));
        // round trip; (q-mu)/sigma loses <= 2 eps (|z|+|mu/sigma|) in z, i.e. <= 0.4 * that in probability
        double back = RandomTools::pNorm(q, mu, sg), tol = TOL_Q + 0.4 * 4 * EPS * (std::fabs(z) + std::fabs(mu / sg) + 1);
        if (!(std::fabs(back - p) <= tol)) fd.add("inverse|qNorm3|own-cdf", std::fabs(back - p), "p=" + num(p) + " mu=" + num(mu) + " sigma=" + num(sg) + " q=" + num(q) + " pNorm(q,mu,sigma)=" + num(back));
      }
      c.nontrivial(); c.tag("line:normal-affine");
      fd.flush(c, "mu=" + num(mu) + " sigma=" + num(sg));
    }, CT);
  }

  // ================= gamma-type cdfs =================
  {
    const Sec& L = TBL["gam_L"]; const Sec& P = TBL["gam_P"];
    R.space("gamma-cdf:lines" + str(L.rows) + ":points" + str(P.rows), L.rows, [=](uint64_t idx, vf::Case& c) {
      double alpha = L.row(idx)[0], beta = L.row(idx)[1]; uint64_t start = (uint64_t)L.row(idx)[2], n = (uint64_t)L.row(idx)[3];
      Findings fd; c.site("RandomTools::pGamma");
      double upper = P.row(start + n - 1)[0];   // far-tail end of the lattice: exact upper tail < 1e-300
      std::vector<double> v = judgeCdfLine(c, fd, "gamma-cdf", "pGamma", P, start, n, [=](double x) { return RandomTools::pGamma(x, alpha, beta); },
                                           [=](double x) { return rbGamma(beta * x, alpha); }, TOL_GAM, 0.0, upper);
      uint64_t ns = 0, ncf = 0;
      double g = std::lgamma(alpha), g1 = std::lgamma(alpha + 1);
      for (uint64_t i = 0; i < n; ++i) {
        double x = P.row(start + i)[0], t = beta * x; if (std::isnan(v[i])) continue;
        if (t > 1 && t >= alpha) ++ncf; else ++ns;
        if (beta == 1.0) {
          c.site("RandomTools::incompleteGamma");
          double w = RandomTools::incompleteGamma(x, alpha, g);
          if (!(w == v[i])) fd.add("identity|pGamma|incompleteGamma-wrapper", std::fabs(w - v[i]), "x=" + num(x) + " pGamma(x,alpha,1)=" + num(v[i]) + " incompleteGamma(x,alpha,lnGamma(alpha))=" + num(w));
          if (alpha + 1 <= 200 && x > 0) {
            // shape recurrence P(a+1,x) = P(a,x) - x^a e^-x / Gamma(a+1); both sides documented to 1e-8; the term is computed to < 1e-12
            double w1 = RandomTools::incompleteGamma(x, alpha + 1, g1), term = std::isinf(x) ? 0.0 : std::exp(alpha * std::log(x) - x - g1);   // (the term vanishes at +inf; inf - inf is not a number)
            double d = std::fabs(w1 - (w - term));
            if (!(d <= 2e-8 + 1e-12)) fd.add("identity|gamma-cdf|shape-recurrence", d, "x=" + num(x) + " P(a+1,x)=" + num(w1) + " P(a,x)=" + num(w) + " x^a e^-x/Gamma(a+1)=" + num(term));
          }
        }
        if (alpha == 1.0) {
          double ex = -std::expm1(-t), d = std::fabs(v[i] - ex);   // exponential special case
          if (!(d <= 1e-8 + 1e-14)) fd.add("identity|gamma-cdf|exponential", d, "x=" + num(x) + " pGamma(x,1,beta)=" + num(v[i]) + " 1-exp(-beta x)=" + num(ex));
        }
      }
      c.out->hist["branch:gamma:series"] += ns; c.out->hist["branch:gamma:continued-fraction"] += ncf;
      c.tag("line:gamma-cdf");
      fd.flush(c, "pGamma(x,alpha=" + num(alpha) + ",beta=" + num(beta) + ")");
      if (idx == 40) c.sample("pGamma(" + num(P.row(start + n / 2)[0]) + "," + num(alpha) + "," + num(beta) + ")=" + num(v[n / 2]) + " reference " + num(P.row(start + n / 2)[1]));
    }, CT);
  }
  {
    const Sec& L = TBL["chi_L"]; const Sec& P = TBL["chi_P"];
    R.space("chisq-cdf:lines" + str(L.rows) + ":points" + str(P.rows), L.rows, [=](uint64_t idx, vf::Case& c) {
      double df = L.row(idx)[0]; uint64_t start = (uint64_t)L.row(idx)[1], n = (uint64_t)L.row(idx)[2];
      Findings fd; c.site("RandomTools::pChisq");
      double upper = P.row(start + n - 1)[0];
      std::vector<double> v = judgeCdfLine(c, fd, "gamma-cdf", "pChisq", P, start, n, [=](double x) { return RandomTools::pChisq(x, df); },
                                           [=](double x) { return rbGamma(0.5 * x, df / 2); }, TOL_GAM, 0.0, upper);
      for (uint64_t i = 0; i < n; ++i) {
        double x = P.row(start + i)[0]; if (std::isnan(v[i])) continue;
        double w = RandomTools::pGamma(x, df / 2, 0.5);      // chi-square(df) = gamma(df/2, 1/2)
        if (!(w == v[i])) fd.add("identity|chisq-cdf|gamma-half", std::fabs(w - v[i]), "x=" + num(x) + " pChisq=" + num(v[i]) + " pGamma(x,df/2,0.5)=" + num(w));
      }
      c.tag("line:chisq-cdf");
      fd.flush(c, "pChisq(x,df=" + num(df) + ")");
    }, CT);
  }

  // ================= beta cdf =================
  {
    const Sec& L = TBL["bet_L"]; const Sec& P = TBL["bet_P"]; const Sec& LB = TBL["lnb_P"];
    if (LB.rows != L.rows) { R.harnessFail("lnb_P does not match bet_L"); return R.finish(); }
    R.space("beta-cdf:lines" + str(L.rows) + ":points" + str(P.rows), L.rows, [=](uint64_t idx, vf::Case& c) {
      double a = L.row(idx)[0], b = L.row(idx)[1]; uint64_t start = (uint64_t)L.row(idx)[2], n = (uint64_t)L.row(idx)[3];
      Findings fd; c.site("RandomTools::pBeta");
      std::vector<double> v = judgeCdfLine(c, fd, "pBeta", "pBeta", P, start, n, [=](double x) { return RandomTools::pBeta(x, a, b); },
                                           [=](double x) { return rbBeta(x, a, b); }, TOL_BETA, 0.0, 1.0);
      uint64_t nps = 0, nsw = 0, ncf = 0;
      for (uint64_t i = 0; i < n; ++i) {
        double x = P.row(start + i)[0]; if (std::isnan(v[i]) || x <= 0 || x >= 1) continue;
        if (b * x <= 1.0 && x <= 0.95) ++nps; else if (x > a / (a + b)) ++nsw; else ++ncf;
        double y = 1.0 - x;
        if (1.0 - y == x) {   // complement exactly representable (Sterbenz): reflection I_x(a,b) = 1 - I_{1-x}(b,a), both sides documented to 1e-12
          c.site("RandomTools::incompleteBeta");
          Call w = call([&] { return RandomTools::incompleteBeta(y, b, a); });
          if (w.threw) fd.add("exception|pBeta", 0, "incompleteBeta(" + num(y) + ",b,a) raised: " + w.what);
          else { double d = std::fabs(v[i] + w.v - 1.0); if (!(d <= 2e-12 + 4 * EPS)) fd.add("identity|pBeta|reflection", d, "x=" + num(x) + " I_x(a,b)=" + num(v[i]) + " I_{1-x}(b,a)=" + num(w.v) + " sum-1=" + num(v[i] + w.v - 1.0)); }
        }
        if (b == 1.0 || a == 1.0) {   // power special cases (uniform when a=b=1)
          double ex = (b == 1.0) ? std::pow(x, a) : -std::expm1(b * std::log1p(-x)), d = std::fabs(v[i] - ex);
          if (!(d <= 1e-12 + 8 * EPS)) fd.add("identity|pBeta|power-special-case", d, "x=" + num(x) + " pBeta=" + num(v[i]) + " closed form=" + num(ex));
        }
      }
      // lnBeta: symmetric, and equal to the reference up to the rounding of three lgamma values (<= 4 ulp each) and two additions
      c.site("RandomTools::lnBeta");
      double lb = RandomTools::lnBeta(a, b), lb2 = RandomTools::lnBeta(b, a), lref = LB.row(idx)[2];
      if (LB.row(idx)[0] != a || LB.row(idx)[1] != b) fd.add("HARNESS-table-mismatch", 0, "lnb_P row does not carry this line's shapes");
      if (!(lb == lb2)) fd.add("identity|lnBeta|symmetry", std::fabs(lb - lb2), "lnBeta(a,b)=" + num(lb) + " lnBeta(b,a)=" + num(lb2));
      double S = std::fabs(std::lgamma(a)) + std::fabs(std::lgamma(b)) + std::fabs(std::lgamma(a + b));
      if (!(std::fabs(lb - lref) <= 8 * EPS * (S + 1))) fd.add("accuracy|lnBeta", std::fabs(lb - lref), "lnBeta=" + num(lb) + " reference=" + num(lref) + " rounding bound " + num(8 * EPS * (S + 1)));
      c.out->hist["branch:beta:power-series"] += nps; c.out->hist["branch:beta:tail-swapped"] += nsw; c.out->hist["branch:beta:continued-fraction-unswapped"] += ncf;
      c.tag("line:pBeta");
      fd.flush(c, "pBeta(x,a=" + num(a) + ",b=" + num(b) + ")");
      if (idx == 1000) c.sample("pBeta(" + num(P.row(start + n / 2)[0]) + "," + num(a) + "," + num(b) + ")=" + num(v[n / 2]) + " reference " + num(P.row(start + n / 2)[1]));
    }, CT);
  }

  // ================= quantiles =================
  {
    const Sec& P = TBL["qnorm_P"];
    const uint64_t SEG = 256; uint64_t nseg = (P.rows - 1 + SEG - 1) / SEG;
    R.space("qNorm:p[1e-6,1-1e-6]:points" + str(P.rows) + ":segments" + str(nseg), nseg, [=](uint64_t idx, vf::Case& c) {
      uint64_t start = idx * SEG, n = std::min<uint64_t>(SEG + 1, P.rows - start);
      Findings fd; c.site("RandomTools::qNorm");
      QSpec qs{"qNorm", -INF, INF, 1e-12, 1 - 1e-12, true};
      judgeQuantileLine(c, fd, qs, P, start, n, [](double p) { return RandomTools::qNorm(p); }, [](double x) { return RandomTools::pNorm(x); }, [](double v) { return v == -9999; });
      c.tag("line:qNorm");
      fd.flush(c, "qNorm segment " + str(idx));
    }, CTQ);
  }
  {
    const Sec& L = TBL["qchi_L"]; const Sec& P = TBL["qchi_P"];
    static std::vector<Seg> SG = segments(L, 1, 1024);
    R.space("qChisq:lines" + str(L.rows) + ":points" + str(P.rows) + ":segments" + str(SG.size()), SG.size(), [=](uint64_t idx, vf::Case& c) {
      double df = L.row(SG[idx].line)[0]; uint64_t start = SG[idx].start, n = SG[idx].n;
      Findings fd; c.site("RandomTools::qChisq");
      QSpec qs{"qChisq", 0.0, INF, 0.000002, 0.999998, false};
      judgeQuantileLine(c, fd, qs, P, start, n, [=](double p) { return RandomTools::qChisq(p, df); }, [=](double x) { return RandomTools::pChisq(x, df); }, [](double v) { return v == -1; });
      c.tag("line:qChisq");
      fd.flush(c, "qChisq(p,df=" + num(df) + ")");
    }, CTQ);
  }
  {
    const Sec& L = TBL["qgam_L"]; const Sec& P = TBL["qgam_P"];
    static std::vector<Seg> SG = segments(L, 2, 1024);
    R.space("qGamma:lines" + str(L.rows) + ":points" + str(P.rows) + ":segments" + str(SG.size()), SG.size(), [=](uint64_t idx, vf::Case& c) {
      double alpha = L.row(SG[idx].line)[0], beta = L.row(SG[idx].line)[1]; uint64_t start = SG[idx].start, n = SG[idx].n;
      Findings fd; c.site("RandomTools::qGamma");
      QSpec qs{"qGamma", 0.0, INF, 0.000002, 0.999998, false};
      judgeQuantileLine(c, fd, qs, P, start, n, [=](double p) { return RandomTools::qGamma(p, alpha, beta); }, [=](double x) { return RandomTools::pGamma(x, alpha, beta); }, [](double v) { return v < 0; });
      for (uint64_t i = 0; i < n; ++i) {
        double p = P.row(start + i)[0];
        double q = RandomTools::qGamma(p, alpha, beta), w = RandomTools::qChisq(p, 2.0 * alpha) / (2.0 * beta);   // gamma(alpha,beta) = chi-square(2 alpha) / (2 beta)
        if (!(q == w)) fd.add("identity|qGamma|chisq-scaling", std::fabs(q - w), "p=" + num(p) + " qGamma=" + num(q) + " qChisq(p,2alpha)/(2beta)=" + num(w));
        if (alpha == 1.0 && q >= 0 && p > 0.000002 && p < 0.999998) {   // exponential special case, exact cdf 1-exp(-beta q)
          double F = -std::expm1(-beta * q);
          if (!(std::fabs(F - p) <= TOL_Q + 1e-14)) fd.add("identity|qGamma|exponential", std::fabs(F - p), "p=" + num(p) + " q=" + num(q) + " 1-exp(-beta q)=" + num(F));
        }
      }
      c.tag("line:qGamma");
      fd.flush(c, "qGamma(p,alpha=" + num(alpha) + ",beta=" + num(beta) + ")");
    }, CTQ);
  }
  {
    const Sec& L = TBL["qbet_L"]; const Sec& P = TBL["qbet_P"];
    static std::vector<Seg> SG = segments(L, 2, 256);
    R.space("qBeta:lines" + str(L.rows) + ":points" + str(P.rows) + ":segments" + str(SG.size()), SG.size(), [=](uint64_t idx, vf::Case& c) {
      double a = L.row(SG[idx].line)[0], b = L.row(SG[idx].line)[1]; uint64_t start = SG[idx].start, n = SG[idx].n;
      Findings fd; c.site("RandomTools::qBeta");
      QSpec qs{"qBeta", 0.0, 1.0, 0.0, 1.0, false};
      judgeQuantileLine(c, fd, qs, P, start, n, [=](double p) { return RandomTools::qBeta(p, a, b); }, [=](double x) { return RandomTools::pBeta(x, a, b); }, [](double) { return false; });
      if (a == 1.0 && b == 1.0)
        for (uint64_t i = 0; i < n; ++i) {   // uniform special case: F(q) = q
          double p = P.row(start + i)[0]; Call q = call([&] { return RandomTools::qBeta(p, 1.0, 1.0); });
          if (!q.threw && !(std::fabs(q.v - p) <= TOL_Q)) fd.add("identity|qBeta|uniform", std::fabs(q.v - p), "p=" + num(p) + " qBeta(p,1,1)=" + num(q.v));
        }
      c.tag("line:qBeta");
      fd.flush(c, "qBeta(p,a=" + num(a) + ",b=" + num(b) + ")");
      if (idx == 100) c.sample("qBeta(" + num(P.row(start + n / 3)[0]) + "," + num(a) + "," + num(b) + ")=" + num(RandomTools::qBeta(P.row(start + n / 3)[0], a, b)) + " bracket [" + num(P.row(start + n / 3)[1]) + "," + num(P.row(start + n / 3)[2]) + "]");
    }, 3.0);
  }

  // ================= the functions are functions: the answer to a call does not depend on the calls made before it =================
  // every ordered triple (x, y1, y2) of argument tuples of one function over a small lattice that contains interior points, both ends of the
  // probability range and an invalid argument, for two parameter settings: r1 = f(x); f(y1); f(y2); r2 = f(x) must give r1 == r2 bit for bit
  // (a raise counts as an answer). A cache or static buffer that survives between calls shows here and nowhere else.
  {
    struct Fn { const char* name; int npar; std::function<double(double, double, double)> f; std::vector<double> xs; std::vector<std::pair<double, double>> pars; };
    static std::vector<Fn> FN = {
      {"pNorm", 0, [](double x, double, double) { return RandomTools::pNorm(x); }, {-6, -0.5, 0, 2, 40}, {{0, 0}}},
      {"qNorm", 0, [](double x, double, double) { return RandomTools::qNorm(x); }, {0, 0.3, 0.5, 0.999, 1, -0.1}, {{0, 0}}},
      {"qNorm3", 2, [](double x, double a, double b) { return RandomTools::qNorm(x, a, b); }, {0, 0.3, 0.999, 1, -0.1}, {{0, 1}, {5, 0.001}}},
      {"pGamma", 2, [](double x, double a, double b) { return RandomTools::pGamma(x, a, b); }, {0, 0.3, 2, 50, -1}, {{2, 3}, {0.5, 10}}},
      {"qGamma", 2, [](double x, double a, double b) { return RandomTools::qGamma(x, a, b); }, {0, 0.3, 0.7, 1, -0.1}, {{2, 3}, {0.5, 10}}},
      {"pChisq", 1, [](double x, double a, double) { return RandomTools::pChisq(x, a); }, {0, 0.3, 2, 50, -1}, {{1, 0}, {7, 0}}},
      {"qChisq", 1, [](double x, double a, double) { return RandomTools::qChisq(x, a); }, {0, 0.3, 0.7, 1, -0.1}, {{1, 0}, {7, 0}}},
      {"pBeta", 2, [](double x, double a, double b) { return RandomTools::pBeta(x, a, b); }, {0, 0.3, 0.9, 1, -0.1}, {{2, 3}, {10, 1}, {60, 10}}},
      {"qBeta", 2, [](double x, double a, double b) { return RandomTools::qBeta(x, a, b); }, {0, 0.3, 0.9, 1, -0.1}, {{2, 3}, {10, 1}, {60, 10}}},
    };
    for (size_t fi = 0; fi < FN.size(); ++fi) {
      size_t nt = FN[fi].xs.size() * FN[fi].pars.size();
      R.space(std::string("call-order-independence:") + FN[fi].name + ":tuples" + str(nt) + "^3", (uint64_t)nt * nt * nt, [=](uint64_t idx, vf::Case& c) {
        const Fn& F = FN[fi]; size_t nx = F.xs.size();
        auto call = [&](size_t t, bool& raised) -> double { raised = false; double x = F.xs[t % nx]; auto pr = F.pars[t / nx]; try { return F.f(x, pr.first, pr.second); } catch (Exception&) { raised = true; return 0; } };
        auto show = [&](size_t t) { auto pr = F.pars[t / nx]; return std::string(F.name) + "(" + vf::num(F.xs[t % nx]) + (F.npar >= 1 ? "," + vf::num(pr.first) : "") + (F.npar >= 2 ? "," + vf::num(pr.second) : "") + ")"; };
        size_t tx = idx % nt, t1 = (idx / nt) % nt, t2 = idx / nt / nt;
        c.site((std::string("RandomTools::") + F.name).c_str());
        // the four calls run in a child of their own, forked from a process that has never called the library: whatever hidden state the
        // functions keep is then the same at the start of every case (and of its replay), so a violation is a property of the triple alone
        struct Ans { int e1, e2; double r1, r2; } A; memset(&A, 0, sizeof A);
        int fd[2]; if (pipe(fd) != 0) { c.fail("harness|pipe", "pipe failed"); return; }
        fflush(stdout); fflush(stderr);
        pid_t pid = fork();
        if (pid == 0) { close(fd[0]); bool e1, e2, ea, eb; Ans B; B.r1 = call(tx, e1); call(t1, ea); call(t2, eb); B.r2 = call(tx, e2); B.e1 = e1; B.e2 = e2; ssize_t w = write(fd[1], &B, sizeof B); (void)w; _exit(0); }
        close(fd[1]); ssize_t got = read(fd[0], &A, sizeof A); close(fd[0]); int st = 0; waitpid(pid, &st, 0);
        if (got != (ssize_t)sizeof A) { c.fail(std::string("purity|call-sequence-died|") + F.name, show(tx) + ", " + show(t1) + ", " + show(t2) + ", " + show(tx) + ": child ended with status " + str(st)); return; }
        bool e1 = A.e1, e2 = A.e2; double r1 = A.r1, r2 = A.r2;
        c.nontrivial(); c.tag(std::string("call-order:") + F.name);
        if (e1 != e2 || (!e1 && std::memcmp(&r1, &r2, sizeof(double)) != 0))
          c.fail(std::string("purity|answer-depends-on-earlier-calls|") + F.name, show(tx) + " = " + (e1 ? std::string("raised") : vf::num(r1)) + " at first, = " + (e2 ? std::string("raised") : vf::num(r2)) + " after " + show(t1) + " and " + show(t2));
      }, CT);
    }
  }

  bool allComplete = true;
  for (auto& st : R.stats) if (!st.complete) allComplete = false;
  if (allComplete) {
    R.expectSeen("invalid:exception");
    R.expectSeen("invalid:documented-sentinel-or-signal");
    R.expectSeen("ends:documented-value");
    for (const char* k : {"line:pNorm", "line:gamma-cdf", "line:chisq-cdf", "line:pBeta", "line:qNorm", "line:qChisq", "line:qGamma", "line:qBeta",
                          "branch:gamma:series", "branch:gamma:continued-fraction", "branch:beta:power-series", "branch:beta:tail-swapped", "branch:beta:continued-fraction-unswapped",
                          "close-pairs-judged:pGamma", "close-pairs-judged:pChisq", "close-pairs-judged:pBeta", "close-pairs-judged:pNorm", "documented-sentinel-outside-documented-p-range:qChisq"})
      R.expectSeen(k);
  } else R.note("deadline reached before all spaces were executed (hanging cases): vacuity guards not applied");
  R.note("lattice and reference values come from oracle/C08_ref.py (scipy.special validated against 40-digit mpmath in the same run); the table carries the arguments bit-exactly");
  R.note("monotonicity is compared exactly (no tolerance) between grid neighbours; neighbours closer than 64 ulps (the ulp-clusters placed at branch switches) are judged against a derived rounding bound of the evaluation, because no floating-point evaluation is monotone between adjacent doubles");
  R.note("accuracy tolerances: documented accuracy + certified error of the reference (1e-12+1e-15 normal, 1e-12+1e-13 beta, 1e-8+2e-13 gamma-type); quantile inversion 1e-8 judged (a) against the exact cdf through certified quantile brackets and (b) against the library's own cdf; where doubles cannot resolve 1e-8 in probability (beta quantile within ulps of 1) the doubles adjacent to the exact inverse are accepted");
  R.note("documented working range of the quantiles respected: qChisq/qGamma 0.000002<p<0.999998 (the sentinel outside is accepted and counted), qNorm 1e-12<p<1-1e-12; quantile monotonicity between ulp-neighbours is judged for the closed-form qNorm only (iterative solvers have no derivable rounding bound)");
  R.note("invalid region = negative shape/rate/df, probability outside [0,1], argument outside the support; zero shapes and NaN arguments are not in the property's quantifier and are not judged; qGamma documents no signal of its own: exception, negative value or NaN accepted");
  return R.finish();
}
