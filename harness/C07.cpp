// C07 — vector reductions match their definitions and are overflow-safe in log space
// VF-VARIANT: san
// VF-RULE: E2 bounded-exhaustive enumeration, simplest input first, every index of every space executed on the real templates: (1) all int vectors over {-2..2} and all double vectors over {-1.5,0,0.25,1,2} of length 0..L through every one-vector function; (2) all ordered pairs of such vectors with lengths 0..3 (equal and unequal) x 7 function groups (operators, in-place operators, sumProd, scalar/cos/cov/cor/kronecker/mutual information, containsAll, diff, other set-like helpers); (3) all (values, weights) pairs of lengths 0..3 and all equal-length triples (v1, v2, weights) of length 0..3; (4) every length combination 0..3 x 0..3 (x 0..3) for each function with a size requirement; (5) structured families (constant, ramps, alternating, spike at every position, tie at every pair of positions) for every length 6..64; (6) log-space alphabet {0,-1,1,-800,800,-745.2,709.8,-1e300,1e300,-inf,+inf} for lengths 0..4 x shifts {0,+-1,+-700,+-1e300}, with weights over {1,0,0.5,0.25} for lengths 0..3, all pairs for NumTools::logsum, long log-space families 6..64; (7) seq over a lattice of (from,to,by), computeFdr over all p-vectors of length 0..L over 5 values, lists of 0..3 vectors for the list overloads, extract over all valid position vectors. A case is counted non-trivial when every input vector has at least two elements (shape spaces: all non-empty; list space: at least two vectors; seq: from != to; logsum: lnx != lny; family spaces: always).
// VF-BOUND: lengths 0..5 (quick) / 0..7 (thorough) exhaustively over 5-value alphabets instead of all int/real vectors of length 0..64; lengths 6..64 only through structured families; pairs/triples/weights up to length 3 (thorough: pairs and (values, weights) up to 4, log-space vectors up to 5); quick tier: tie families only for lengths 6..16, 31..33, 63, 64 (thorough: every length 6..64); log-space values only from the 11-value alphabet and its 7 shifts; no NaN inputs; no random reals.
// VF-LEVEL: bounded-exhaustive differential check of the real VectorTools/NumTools/StatTools code against exact-integer and long-double reference definitions under ASan+UBSan+libstdc++ assertions; every listed space is executed completely, nothing is sampled.
// VF-ASSUME: g++ long double (x87 80-bit, 64-bit mantissa, exponent range 1e4932) and glibc expl/logl/sqrtl are accurate to 1 ulp;; sums and products over the integer/dyadic alphabets are exact in long double;; tolerances are first-order rounding bounds (gamma_n * sum of absolute terms) with a constant factor of head-room, written next to their use;; where the header documents no behaviour (mean/var of too few elements, zero norms, zero weight sums, infinite maximum in the weighted log functions, compound assignment with a longer right operand) the result is not judged, only the absence of a crash
// VF-TECHNIQUE: bounded-exhaustive input enumeration with reference-model comparison
// VF-BUDGET_QUICK: 240
// VF-BUDGET_THOROUGH: 1500
#include "C07_unary.hpp"
#include "C07_binary.hpp"
#include "C07_log.hpp"
using namespace c07;
using vf::str;

// ---------------- structured families for lengths 6..64 ----------------
// per length: 5 constants, ramp up, ramp down, alternating, spike up at p, spike down at p, tied maxima at (p<q), tied minima at (p<q)
static const int LMIN = 6, LMAX = 64;
// tie families (quadratic in the length) are enumerated for every length in the thorough tier and for a stated subset in the quick tier
static bool g_allTies = false;
static bool tieLen(int len) { return g_allTies || len <= 16 || (len >= 31 && len <= 33) || len >= 63; }
static std::string tieName() { return g_allTies ? "ties:len6..64" : "ties:len6..16,31..33,63,64"; }
static uint64_t famCount(int len) { return 8 + 2 * (uint64_t)len + (tieLen(len) ? (uint64_t)len * (len - 1) : 0); }
static uint64_t famTotal() { uint64_t s = 0; for (int l = LMIN; l <= LMAX; ++l) s += famCount(l); return s; }
template<class T> static std::vector<T> family(uint64_t idx, std::string* name = nullptr) {
  int len = LMIN; while (idx >= famCount(len)) { idx -= famCount(len); ++len; }
  std::vector<int> k((size_t)len); std::string nm;
  if (idx < 5) { static const int cv[5] = {0, 1, -1, 2, -2}; for (auto& x : k) x = cv[idx]; nm = "constant"; }
  else if (idx == 5) { for (int i = 0; i < len; ++i) k[(size_t)i] = i - len / 2; nm = "ramp-up"; }
  else if (idx == 6) { for (int i = 0; i < len; ++i) k[(size_t)i] = len / 2 - i; nm = "ramp-down"; }
  else if (idx == 7) { for (int i = 0; i < len; ++i) k[(size_t)i] = (i % 2) ? -2 : 1; nm = "alternating"; }
  else if (idx < 8 + (uint64_t)len) { for (auto& x : k) x = 1; k[idx - 8] = 3; nm = "spike-up"; }
  else if (idx < 8 + 2 * (uint64_t)len) { for (auto& x : k) x = 1; k[idx - 8 - (uint64_t)len] = -3; nm = "spike-down"; }
  else {
    uint64_t r = idx - 8 - 2 * (uint64_t)len, np = (uint64_t)len * (len - 1) / 2; bool mx = r < np; if (!mx) r -= np;
    int p = 0; while (r >= (uint64_t)(len - 1 - p)) { r -= (uint64_t)(len - 1 - p); ++p; } int q = p + 1 + (int)r;
    for (int i = 0; i < len; ++i) k[(size_t)i] = ((i % 2) ? len - 1 - i / 2 : i / 2) - len / 2;      // distinct values in zig-zag order
    k[(size_t)p] = k[(size_t)q] = mx ? len : -len; nm = mx ? "tied-maxima" : "tied-minima";
  }
  if (name) *name = nm + ":len" + str(len);
  std::vector<T> v((size_t)len); for (int i = 0; i < len; ++i) v[(size_t)i] = Alpha<T>::fam(k[(size_t)i]);
  return v;
}
// long log-space families: 11 constants; background b x spike s x position {first, middle, last}; 3 alternations; 1 wide ramp
static const int NLOGFAM = 11 + 4 * 5 * 3 + 3 + 1;
static std::vector<double> logFamily(uint64_t idx) {
  int len = LMIN + (int)(idx / NLOGFAM); int f = (int)(idx % NLOGFAM);
  std::vector<double> v((size_t)len);
  if (f < 11) { for (auto& x : v) x = logval(f); return v; }
  f -= 11;
  if (f < 60) { static const double bg[4] = {0, -800, -1e300, -INF}, sp[5] = {0, -745.2, 709.8, 800, 1e300};
    for (auto& x : v) x = bg[f / 15]; int p = f % 3; v[p == 0 ? 0 : p == 1 ? (size_t)len / 2 : (size_t)len - 1] = sp[(f / 3) % 5]; return v; }
  f -= 60;
  if (f < 3) { static const double a[3][2] = {{800, -800}, {709.8, -745.2}, {0, -INF}}; for (int i = 0; i < len; ++i) v[(size_t)i] = a[f][i % 2]; return v; }
  for (int i = 0; i < len; ++i) v[(size_t)i] = 800 - 25.0 * i;
  return v;
}

// ---------------- spaces ----------------
template<class T> static void spaceUnary(vf::Runner& R, int L) {
  R.space(std::string("unary:") + Alpha<T>::n() + ":len<=" + str(L), nvec(5, L), [=](uint64_t idx, vf::Case& c) {
    std::vector<T> v = mk<T>(decode(idx, 5, L));
    if (v.size() >= 2) c.nontrivial();
    unaryChecks<T>(v, c, true);
    if (idx % 977 == 5) c.sample(std::string(Alpha<T>::n()) + " " + vf::vstr(v) + ": sum=" + str(VT::sum(v)) + " order/median/var/... compared");
  }, 5.0);
}
static void spaceUnaryDoubleExtra(vf::Runner& R, int L) {
  // the same double vectors through shannon (frequencies) and the log-domain reductions at moderate magnitudes
  R.space("unary:double:shannon+logdomain:len<=" + str(L), 2 * nvec(5, L), [=](uint64_t idx, vf::Case& c) {
    std::vector<double> v = mk<double>(decode(idx / 2, 5, L));
    if (v.size() >= 2) c.nontrivial();
    if (idx % 2 == 0) { shannonChecks(v, c); logChecks(0, v, 0, c); } else logChecks(1, v, 0, c);
  }, 5.0);
}
template<class T> static void spacePairs(vf::Runner& R, int L) {
  uint64_t nv = nvec(5, L);
  R.space(std::string("pairs:") + Alpha<T>::n() + ":len<=" + str(L) + ":x7groups", nv * nv * NGROUPS, [=](uint64_t idx, vf::Case& c) {
    int g = (int)(idx % NGROUPS); uint64_t k = idx / NGROUPS;
    std::vector<T> a = mk<T>(decode(k % nv, 5, L)), b = mk<T>(decode(k / nv, 5, L));
    if (a.size() >= 2 && b.size() >= 2) c.nontrivial();
    pairChecks<T>(g, a, b, c);
    if (idx % 30011 == 17) c.sample(std::string(Alpha<T>::n()) + " " + gname(g) + " on " + vf::vstr(a) + " , " + vf::vstr(b));
  }, 5.0);
}
static void spaceWeighted(vf::Runner& R, int L) {
  uint64_t nv = nvec(5, L), nw = nvec(NW, L);
  R.space("weighted:double:len<=" + str(L), nv * nw, [=](uint64_t idx, vf::Case& c) {
    std::vector<double> v = mk<double>(decode(idx % nv, 5, L)), w = mkw(decode(idx / nv, NW, L));
    if (v.size() >= 2 && w.size() >= 2) c.nontrivial();
    weightedChecks(v, w, c);
  }, 5.0);
}
static void spaceTriples(vf::Runner& R, int L) {
  // equal lengths only (unequal lengths: shape space); index = length-major so that short triples come first
  std::vector<uint64_t> off(1, 0); for (int n = 0; n <= L; ++n) off.push_back(off.back() + vf::product(std::vector<int>((size_t)n, 5 * 5 * NW)));
  R.space("triples:double:equal-len<=" + str(L), off.back(), [=](uint64_t idx, vf::Case& c) {
    int n = 0; while (idx >= off[(size_t)n + 1]) ++n; idx -= off[(size_t)n];
    std::vector<double> a((size_t)n), b((size_t)n), w((size_t)n);
    for (int i = 0; i < n; ++i) { a[(size_t)i] = Alpha<double>::val((int)(idx % 5)); idx /= 5; b[(size_t)i] = Alpha<double>::val((int)(idx % 5)); idx /= 5; w[(size_t)i] = wval((int)(idx % NW)); idx /= NW; }
    if (n >= 2) c.nontrivial();
    tripleChecks(a, b, w, c);
  }, 5.0);
}
template<class T> static std::vector<T> iota1(int n) { std::vector<T> v((size_t)n); for (int i = 0; i < n; ++i) v[(size_t)i] = (T)(i + 1); return v; }
// weighted mean of integer vectors (values and weights share the element type): every value vector over {-2..2}^n and weight vector over
// {1,2,3}^n, n <= 3, against the exact rational sum(v w)/sum(w), with and without normalisation of the weights
static void spaceIntWeightedMean(vf::Runner& R) {
  uint64_t tot = 0; std::vector<uint64_t> off; for (int n = 1; n <= 3; ++n) { off.push_back(tot); uint64_t k = 1; for (int i = 0; i < n; ++i) k *= 15; tot += k * 2; }
  R.space("weighted-mean:int:values{-2..2}^n:weights{1,2,3}^n:n<=3:normalise2", tot, [=](uint64_t idx, vf::Case& c) {
    int n = 3; while (idx < off[(size_t)n - 1]) --n; uint64_t k = idx - off[(size_t)n - 1]; bool norm = k % 2; k /= 2;
    std::vector<int> v((size_t)n), w((size_t)n); long long sw = 0, svw = 0;
    for (int i = 0; i < n; ++i) { v[(size_t)i] = (int)(k % 5) - 2; k /= 5; w[(size_t)i] = (int)(k % 3) + 1; k /= 3; sw += w[(size_t)i]; svw += (long long)v[(size_t)i] * w[(size_t)i]; }
    std::string in = std::string("mean<int,double>(") + vf::vstr(std::vector<double>(v.begin(), v.end())) + ", weights " + vf::vstr(std::vector<double>(w.begin(), w.end())) + ", normalizeWeights=" + (norm ? "true" : "false") + ")";
    c.site("mean(v,w) [int]"); c.nontrivial();
    double got = VT::mean<int, double>(v, w, norm), want = norm ? (double)svw / (double)sw : (double)svw;
    if (!(std::fabs(got - want) <= 8 * DBL_EPSILON * std::max(1.0, std::fabs(want)))) c.fail("mean(v,w)|value|integer-elements", in + " = " + vf::num(got) + ", definition " + vf::num(want));
  }, 5.0);
}
// correlation is invariant under a common positive scaling: every pair of vectors over {-2,-1,0,1,3}^n, n = 2..3, scaled by 1e90 and by
// 1e-90 (covariance and both standard deviations stay far inside the double range; only a product of the two variances would not)
static void spaceCorScale(vf::Runner& R) {
  static const double AV[5] = {-2, -1, 0, 1, 3};
  uint64_t tot = 0; std::vector<uint64_t> off; for (int n = 2; n <= 3; ++n) { off.push_back(tot); uint64_t k = 1; for (int i = 0; i < 2 * n; ++i) k *= 5; tot += k * 2; }
  R.space("cor:common-scaling{1e90,1e-90}:values{-2,-1,0,1,3}^n:n2..3", tot, [=](uint64_t idx, vf::Case& c) {
    int n = idx >= off[1] ? 3 : 2; uint64_t k = idx - off[(size_t)n - 2]; double sc = (k % 2) ? 1e-90 : 1e90; k /= 2;
    std::vector<double> a((size_t)n), b((size_t)n);
    for (int i = 0; i < n; ++i) { a[(size_t)i] = AV[k % 5]; k /= 5; } for (int i = 0; i < n; ++i) { b[(size_t)i] = AV[k % 5]; k /= 5; }
    c.site("cor(v,v) [scaled]");
    double r0 = VT::cor<double, double>(a, b);
    if (!std::isfinite(r0)) { c.tag("cor:constant-vector(not judged)"); return; }
    c.nontrivial();
    std::vector<double> as = a, bs = b; for (auto& x : as) x *= sc; for (auto& x : bs) x *= sc;
    double r1 = VT::cor<double, double>(as, bs);
    if (!(std::fabs(r1 - r0) <= 1e-12)) c.fail("cor|changes-under-common-scaling", "cor(" + vf::vstr(a) + ", " + vf::vstr(b) + ") = " + vf::num(r0) + " but " + vf::num(r1) + " when both vectors are multiplied by " + vf::num(sc));
  }, 5.0);
}
// length combinations for every function with a size requirement; contents 1,2,3 (weights 1,2,3): one function per case
static void spaceShapes(vf::Runner& R) {
  const int NF2 = 19;
  R.space("shapes:pairs:len0..3", 16 * NF2, [=](uint64_t idx, vf::Case& c) {
    int f = (int)(idx % NF2), n1 = (int)((idx / NF2) % 4), n2 = (int)(idx / NF2 / 4);
    std::vector<double> a = iota1<double>(n1), b = iota1<double>(n2); std::vector<int> ai = iota1<int>(n1), bi = iota1<int>(n2);
    static const char* nm[NF2] = {"operator+(v,v)", "operator-(v,v)", "operator*(v,v)", "operator/(v,v)", "sumProd", "scalar", "cos", "cov", "cor", "miDiscrete",
      "mean(v,w)", "center(v,w)", "var(v,w)", "sd(v,w)", "norm(v,w)", "operator+=(v,v)", "operator-=(v,v)", "operator*=(v,v)", "operator/=(v,v)"};
    std::string in = std::string(nm[f]) + " with lengths " + str(n1) + " and " + str(n2);
    if (c.verbose) c.note(in);
    if (n1 && n2) c.nontrivial();
    c.site(nm[f]);
    std::vector<double> r(a); double x = 0;
    Ex e = guard<double>([&] {
      switch (f) {
        case 0: r = a + b; break; case 1: r = a - b; break; case 2: r = a * b; break; case 3: r = a / b; break;
        case 4: if (n1 || n2) x = (double)VT::sumProd(ai, bi); break;   // (0,0): judged in the pair space
        case 5: x = VT::scalar<double, double>(a, b); break; case 6: x = VT::cos<double, double>(a, b); break;
        case 7: x = VT::cov<double, double>(a, b); break; case 8: x = VT::cor<double, double>(a, b); break; case 9: x = VT::miDiscrete<int, double>(ai, bi); break;
        case 10: x = VT::mean<double, double>(a, b); break; case 11: r = VT::center<double, double>(a, b); break;
        case 12: x = VT::var<double, double>(a, b); break; case 13: x = VT::sd<double, double>(a, b); break; case 14: x = VT::norm<double, double>(a, b); break;
        case 15: r += b; break; case 16: r -= b; break; case 17: r *= b; break; default: r /= b; break;
      }
    });
    if (f < 15) {
      if (n1 != n2) { if (e != DIM) c.fail(std::string(nm[f]) + "|size-mismatch-not-reported", in + ": " + exname(e)); else c.tag("raised-DimensionException"); }
      else if (e != NONE) c.fail(std::string(nm[f]) + "|exception-on-equal-lengths", in + ": " + exname(e));
    } else {
      // compound assignment: the header is silent. Demanded: no out-of-range access; either DimensionException or the common prefix updated.
      if (e == DIM) c.tag("raised-DimensionException");
      else if (e != NONE) c.fail(std::string(nm[f]) + "|unexpected-exception", in + ": " + exname(e));
      else { bool ok = r.size() == (size_t)n1; int m = std::min(n1, n2);
        for (int i = 0; ok && i < m; ++i) { double ai_ = a[(size_t)i], bi_ = b[(size_t)i]; ok = r[(size_t)i] == (f == 15 ? ai_ + bi_ : f == 16 ? ai_ - bi_ : f == 17 ? ai_ * bi_ : ai_ / bi_); }
        if (!ok) c.fail(std::string(nm[f]) + "|value", in + ": got " + vf::vstr(r)); c.tag(n1 == n2 ? "compound-assignment:equal" : "compound-assignment:unequal-silent"); }
    }
  }, 5.0);
  const int NF3 = 4;
  R.space("shapes:triples:len0..3", 64 * NF3, [=](uint64_t idx, vf::Case& c) {
    int f = (int)(idx % NF3); std::vector<int> d = vf::digits(idx / NF3, {4, 4, 4});
    std::vector<double> a = iota1<double>(d[0]), b = iota1<double>(d[1]), w = iota1<double>(d[2]);
    static const char* nm[NF3] = {"scalar(v,v,w)", "cos(v,v,w)", "cov(v,v,w)", "cor(v,v,w)"};
    std::string in = std::string(nm[f]) + " with lengths " + str(d[0]) + "," + str(d[1]) + "," + str(d[2]);
    if (c.verbose) c.note(in);
    if (d[0] && d[1] && d[2]) c.nontrivial();
    c.site(nm[f]);
    double x = 0;
    Ex e = guard<double>([&] { switch (f) { case 0: x = VT::scalar<double, double>(a, b, w); break; case 1: x = VT::cos<double, double>(a, b, w); break; case 2: x = VT::cov<double, double>(a, b, w); break; default: x = VT::cor<double, double>(a, b, w); } });
    bool eq = d[0] == d[1] && d[1] == d[2];
    if (!eq) { if (e != DIM) c.fail(std::string(nm[f]) + "|size-mismatch-not-reported", in + ": " + exname(e)); else c.tag("raised-DimensionException"); }
    else if (e != NONE) c.fail(std::string(nm[f]) + "|exception-on-equal-lengths", in + ": " + exname(e));
  }, 5.0);
}
template<class T> static void spaceLong(vf::Runner& R) {
  // group 0: one-vector functions; groups 1..7: pair functions against the reversed vector (families without the tie families)
  uint64_t nt = famTotal();
  R.space(std::string("families:") + Alpha<T>::n() + ":len6..64:" + tieName(), nt, [=](uint64_t idx, vf::Case& c) {
    std::string nm; std::vector<T> v = family<T>(idx, &nm);
    c.nontrivial(); c.tag("family:" + nm.substr(0, nm.find(':')));
    unaryChecks<T>(v, c, false);
    if (idx % 9973 == 11) c.sample(std::string(Alpha<T>::n()) + " family " + nm);
  }, 10.0);
  std::vector<uint64_t> sel;   // indices of constant/ramp/alternating/spike families
  { uint64_t base = 0; for (int l = LMIN; l <= LMAX; ++l) { for (uint64_t j = 0; j < 8 + 2 * (uint64_t)l; ++j) sel.push_back(base + j); base += famCount(l); } }
  R.space(std::string("families:") + Alpha<T>::n() + ":pairs-with-reverse:len6..64:x7groups", sel.size() * NGROUPS, [=](uint64_t idx, vf::Case& c) {
    int g = (int)(idx % NGROUPS); std::vector<T> v = family<T>(sel[idx / NGROUPS]); std::vector<T> w(v.rbegin(), v.rend());
    if (g == G_OPS || g == G_INPLACE) for (auto& x : w) if (x == 0) x = 1;      // keep the int quotient defined
    c.nontrivial();
    pairChecks<T>(g, v, w, c);
  }, 10.0);
}
static void spaceLongDouble(vf::Runner& R) {
  uint64_t nt = famTotal();
  R.space("families:double:shannon+logdomain:len6..64:" + tieName(), 2 * nt, [=](uint64_t idx, vf::Case& c) {
    std::vector<double> v = family<double>(idx / 2);
    c.nontrivial();
    if (idx % 2 == 0) { shannonChecks(v, c); logChecks(0, v, 0, c); } else logChecks(1, v, 0, c);
  }, 10.0);
  R.space("families:logspace:len6..64", (uint64_t)(LMAX - LMIN + 1) * NLOGFAM * 3, [=](uint64_t idx, vf::Case& c) {
    int g = (int)(idx % 3); std::vector<double> v = logFamily(idx / 3);
    c.nontrivial();
    if (g < 2) logChecks(g, v, 0, c);
    else { std::vector<double> w(v.size()); for (size_t i = 0; i < w.size(); ++i) w[i] = wval((int)(i % NW)); logWeightedChecks(v, w, 0, c); }
  }, 10.0);
}
static void spaceLogUnweighted(vf::Runner& R, int L) {
  uint64_t nv = nvec(NLOG, L);
  R.space("logspace:len<=" + str(L) + ":x7shifts:x2groups", nv * NSHIFT * 2, [=](uint64_t idx, vf::Case& c) {
    int g = (int)(idx % 2); int s = (int)((idx / 2) % NSHIFT); std::vector<double> v = mklog(decode(idx / 2 / NSHIFT, NLOG, L));
    if (v.size() >= 2) c.nontrivial();
    logChecks(g, v, shiftval(s), c);
    if (idx % 20011 == 3) c.sample("log-domain reductions on " + vf::vstr(v) + " shifted by " + vf::num(shiftval(s)));
  }, 5.0);
}
static void spaceLog(vf::Runner& R, int L, int LW) {
  spaceLogUnweighted(R, L);
  uint64_t nv2 = nvec(NLOG, LW), nw = nvec(NW, LW);
  R.space("logspace-weighted:len<=" + str(LW) + ":x7shifts", nv2 * nw * NSHIFT, [=](uint64_t idx, vf::Case& c) {
    int s = (int)(idx % NSHIFT); uint64_t k = idx / NSHIFT;
    std::vector<double> v = mklog(decode(k % nv2, NLOG, LW)), w = mkw(decode(k / nv2, NW, LW));
    if (v.size() >= 2 && w.size() == v.size()) c.nontrivial();
    logWeightedChecks(v, w, shiftval(s), c);
  }, 5.0);
  R.space("logsum:pairs:x7shifts", (uint64_t)NLOG * NLOG * NSHIFT, [=](uint64_t idx, vf::Case& c) {
    int s = (int)(idx % NSHIFT); int a = (int)((idx / NSHIFT) % NLOG), b = (int)(idx / NSHIFT / NLOG);
    if (a != b) c.nontrivial();
    logsumChecks(logval(a), logval(b), shiftval(s), c);
  }, 5.0);
  // dense differences around the points where exp(lny-lnx) underflows / becomes negligible
  R.space("logsum:difference-lattice", 2 * 3201 * 5, [=](uint64_t idx, vf::Case& c) {
    static const double base[5] = {0, -1, 700, -700, 1e10}; int bsel = (int)(idx % 5); uint64_t k = idx / 5; bool swap = k % 2; double d = -(double)(k / 2) * 0.25;   // 0 .. -800 step 1/4
    c.nontrivial();
    double a = base[bsel], b = base[bsel] + d; if (swap) std::swap(a, b);
    logsumChecks(a, b, 0, c);
  }, 5.0);
}
static void spaceSeq(vf::Runner& R) {
  R.space("seq:int:from,to in -4..4:by 1..4", 9 * 9 * 4, [=](uint64_t idx, vf::Case& c) {
    std::vector<int> d = vf::digits(idx, {4, 9, 9}); int by = d[0] + 1, from = d[1] - 4, to = d[2] - 4;
    std::string in = "seq<int>(" + str(from) + "," + str(to) + "," + str(by) + ")";
    if (c.verbose) c.note(in);
    if (from != to) c.nontrivial();
    std::vector<int> want; if (from <= to) for (int x = from; x <= to; x += by) want.push_back(x); else for (int x = from; x >= to; x -= by) want.push_back(x);
    c.site("VectorTools::seq");
    std::vector<int> g = VT::seq(from, to, by);
    const char* cls = from < to ? "ascending" : from > to ? "descending" : "single";
    c.tag(std::string("seq:") + cls);
    if (g != want) c.fail(std::string("seq|value|") + cls, in + ": got " + vf::vstr(g) + " expected " + vf::vstr(want) + " (header: from included, to included, step by)");
  }, 5.0);
  R.space("seq:double:from,to in -1..1 step 1/4:by {1/4,1/2,3/4,1}", 9 * 9 * 4, [=](uint64_t idx, vf::Case& c) {
    std::vector<int> d = vf::digits(idx, {4, 9, 9}); double by = 0.25 * (d[0] + 1), from = 0.25 * (d[1] - 4), to = 0.25 * (d[2] - 4);
    std::string in = "seq<double>(" + vf::num(from) + "," + vf::num(to) + "," + vf::num(by) + ")";
    if (c.verbose) c.note(in);
    if (from != to) c.nontrivial();
    std::vector<double> want; if (from <= to) for (double x = from; x <= to; x += by) want.push_back(x); else for (double x = from; x >= to; x -= by) want.push_back(x);   // dyadic: exact
    c.site("VectorTools::seq");
    std::vector<double> g = VT::seq(from, to, by);
    const char* cls = from < to ? "ascending" : from > to ? "descending" : "single";
    if (g != want) c.fail(std::string("seq|value|") + cls, in + ": got " + vf::vstr(g) + " expected " + vf::vstr(want));
  }, 5.0);
}
// decimal (non-dyadic) steps: from = i/10, to = j/10 (+ an offset of 0, -1/2000 or +1/2000), by = k/10. The number of elements is decided in
// integers: the sequence holds from + m.by for every m with from + m.by <= to in exact decimal arithmetic (offset 0: m <= |j-i|/k; a negative
// offset takes the multiple just above 'to' out, a positive one changes nothing); values are judged within the rounding of m additions.
static void spaceSeqDecimal(vf::Runner& R) {
  R.space("seq:double:decimal:from,to in 0..12 tenths:by {1,2,3,7} tenths:offset {0,-1/2000,+1/2000}", 13 * 13 * 4 * 3, [=](uint64_t idx, vf::Case& c) {
    static const int KS[4] = {1, 2, 3, 7};
    std::vector<int> d = vf::digits(idx, {3, 4, 13, 13}); int off = d[0] == 0 ? 0 : d[0] == 1 ? -1 : 1, k = KS[d[1]], i = d[2], j = d[3];
    if (i == j && off != 0) { c.tag("seq:skipped(single point with offset)"); return; }
    bool asc = i < j || (i == j);
    // 'to' = j/10 + off/2000, moved away from 'from' for off = +1 and towards it for off = -1 (descending: mirrored)
    double from = i / 10.0, to = j / 10.0 + (asc ? off : -off) / 2000.0, by = k / 10.0;
    int span = asc ? j - i : i - j;                       // in tenths
    int count = span / k + 1; if (off == -1 && span % k == 0) --count;   // the multiple that coincided with j/10 is now beyond 'to'
    if (off == -1 && span == 0) return;
    std::string in = "seq<double>(" + vf::num(from) + "," + vf::num(to) + "," + vf::num(by) + ")";
    if (c.verbose) c.note(in);
    c.nontrivial();
    c.site("VectorTools::seq");
    std::vector<double> g = VT::seq(from, to, by);
    const char* cls = off == 0 ? "decimal-step" : off < 0 ? "decimal-step,end-just-below-a-multiple" : "decimal-step,end-just-above-a-multiple";
    c.tag(std::string("seq:") + cls);
    if ((int)g.size() != count) { c.fail(std::string("seq|count|") + cls, in + ": got " + str(g.size()) + " elements " + vf::vstr(g) + ", expected " + str(count) + " (from included, every from+m.by up to and including to)"); return; }
    for (int m = 0; m < count; ++m) {
      double want = (asc ? i + m * k : i - m * k) / 10.0;
      if (!(std::fabs(g[(size_t)m] - want) <= (m + 2) * 2.3e-16 * 2.0)) { c.fail(std::string("seq|value|") + cls, in + ": element " + str(m) + " is " + vf::num(g[(size_t)m]) + ", expected " + vf::num(want)); return; }
    }
  }, 5.0);
}
static void spaceFdr(vf::Runner& R, int L) {
  R.space("computeFdr:len<=" + str(L), nvec(5, L), [=](uint64_t idx, vf::Case& c) {
    static const double pv[5] = {0.5, 0.125, 1.0, 0.015625, 0.25};
    std::vector<int> d = decode(idx, 5, L); size_t n = d.size(); std::vector<double> p(n); for (size_t i = 0; i < n; ++i) p[i] = pv[d[i]];
    std::string in = "p=" + vf::vstr(p);
    if (c.verbose) c.note(in);
    if (n >= 2) c.nontrivial();
    c.site("StatTools::computeFdr");
    std::vector<double> g = StatTools::computeFdr(p);
    if (g.size() != n) { c.fail("computeFdr|size", in + ": got " + vf::vstr(g)); return; }
    // header: r = p * n / i with i the rank of p among the sorted p-values (1 = smallest). Equal p-values may take any rank of their group.
    bool ok = true, ties = false;
    for (size_t i = 0; i < n && ok; ++i) {
      size_t lo = 1, hi = 0; for (size_t j = 0; j < n; ++j) { if (p[j] < p[i]) ++lo; if (p[j] <= p[i]) ++hi; }
      if (hi > lo) ties = true;
      bool hit = false; for (size_t k = lo; k <= hi; ++k) { LD ref = (LD)p[i] * (LD)n / (LD)k; if (fabsl((LD)g[i] - ref) <= 4 * EPS * ref) hit = true; }   // two roundings
      ok = hit;
    }
    c.tag(ties ? "fdr:with-ties" : "fdr:distinct");
    if (!ok) c.fail("computeFdr|value", in + ": got " + vf::vstr(g) + " expected p*n/rank");
    if (idx % 499 == 7) c.sample("computeFdr(" + vf::vstr(p) + ") = " + vf::vstr(g));
  }, 5.0);
}
static void spaceLists(vf::Runner& R) {
  // lists of 0..3 vectors, each of length 0..2 over {0,1,2}; function selector keeps append apart from the set overloads
  const uint64_t nv = nvec(3, 2), nl = nvec((int)nv, 3);
  R.space("lists:<=3 vectors of len<=2 over {0,1,2}:x3functions", nl * 3, [=](uint64_t idx, vf::Case& c) {
    int f = (int)(idx % 3); std::vector<int> which = decode(idx / 3, (int)nv, 3);
    std::vector<std::vector<int>> vv; for (int w : which) vv.push_back(decode((uint64_t)w, 3, 2));
    std::string in = "list="; for (auto& v : vv) in += vf::vstr(v);
    if (c.verbose) c.note(in);
    if (vv.size() >= 2) c.nontrivial();
    if (f == 0) {
      std::vector<int> want; for (auto& v : vv) want.insert(want.end(), v.begin(), v.end());
      c.site("VectorTools::append(list)"); auto g = VT::append(vv);
      // concatenation of a list of vectors is not among the operations the statement names: recorded, not judged
      c.tag(g == want ? "append(list):concatenates" : "append(list):differs-not-judged");
    } else if (f == 1) {
      std::vector<int> want; for (auto& v : vv) for (int x : v) if (std::find(want.begin(), want.end(), x) == want.end()) want.push_back(x);
      c.site("VectorTools::vectorUnion(list)"); auto g = VT::vectorUnion(vv);
      if (toSet(g) != toSet(want)) c.fail("vectorUnion(list)|elements", in + ": got " + vf::vstr(g));
      else if (g.size() != want.size()) c.fail("vectorUnion(list)|duplicates-not-removed", in + ": got " + vf::vstr(g));
    } else {
      std::set<int> want; if (!vv.empty()) for (int x : vv[0]) { bool all = true; for (auto& v : vv) if (std::find(v.begin(), v.end(), x) == v.end()) all = false; if (all) want.insert(x); }
      c.site("VectorTools::vectorIntersection(list)"); auto g = VT::vectorIntersection(vv);
      if (toSet(g) != want) c.fail("vectorIntersection(list)|elements", in + ": got " + vf::vstr(g));
    }
  }, 5.0);
  // extract: every vector of valid positions of length 0..3 into vectors of length 1..3; breaks
  R.space("extract:v len1..3:positions len<=3", 3 * nvec(3, 3), [=](uint64_t idx, vf::Case& c) {
    int n = (int)(idx % 3) + 1; std::vector<int> d = decode(idx / 3, 3, 3); std::vector<int> v = iota1<int>(n); for (auto& x : v) x *= 10;
    std::vector<size_t> pos; std::vector<int> want; for (int x : d) { pos.push_back((size_t)(x % n)); want.push_back(v[(size_t)(x % n)]); }
    if (pos.size() >= 2) c.nontrivial();
    c.site("VectorTools::extract"); auto g = VT::extract(v, pos);
    if (g != want) c.fail("extract|value", "v=" + vf::vstr(v) + " positions=" + vf::vstr(pos) + ": got " + vf::vstr(g));
  }, 5.0);
  R.space("breaks:double:len<=3:classes1..4", nvec(5, 3) * 4, [=](uint64_t idx, vf::Case& c) {
    unsigned k = (unsigned)(idx % 4) + 1; std::vector<double> v = mk<double>(decode(idx / 4, 5, 3));
    std::string in = "v=" + vf::vstr(v) + " classes=" + str(k);
    if (v.size() >= 2) c.nontrivial();
    c.site("VectorTools::breaks");
    std::vector<double> g; Ex e = guard<double>([&] { g = VT::breaks(v, k); });
    if (v.empty()) { if (e != EMPTY) c.fail("breaks|empty-input-not-reported", in + ": " + exname(e)); return; }
    double mn = *std::min_element(v.begin(), v.end()), mx = *std::max_element(v.begin(), v.end());
    bool ok = e == NONE && g.size() == k + 1; for (unsigned i = 0; ok && i <= k; ++i) ok = closeTo(g[i], (LD)mn + ((LD)mx - (LD)mn) * i / k, 4 * EPS * (fabsl((LD)mn) + fabsl((LD)mx)));
    if (ok) ok = g[0] == mn && g[k] == mx;
    if (!ok) c.fail("breaks|value", in + ": got " + vf::vstr(g));
  }, 5.0);
}

int main(int argc, char** argv) {
  vf::Runner R(argc, argv, "C07");
  static NullOutputStream* nul = new NullOutputStream();
  ApplicationTools::message.reset(nul, [](OutputStream*) {}); ApplicationTools::warning.reset(nul, [](OutputStream*) {}); ApplicationTools::error.reset(nul, [](OutputStream*) {});
  bool th = R.thorough();
  int L = th ? 7 : 5;
  g_allTies = th;
  spaceUnary<int>(R, L); spaceUnary<double>(R, L); spaceUnaryDoubleExtra(R, L);
  spaceShapes(R); spaceIntWeightedMean(R); spaceCorScale(R);
  spacePairs<int>(R, 3); spacePairs<double>(R, 3);
  spaceWeighted(R, 3); spaceTriples(R, 3);
  spaceSeq(R);
  spaceSeqDecimal(R); spaceFdr(R, L); spaceLists(R);
  spaceLog(R, 4, 3);
  spaceLong<int>(R); spaceLong<double>(R); spaceLongDouble(R);
  if (th) { spacePairs<int>(R, 4); spacePairs<double>(R, 4); spaceWeighted(R, 4); spaceLogUnweighted(R, 5); }
  R.expectSeen("raised-DimensionException"); R.expectSeen("raised-EmptyVectorException"); R.expectSeen("raised-ElementNotFoundException");
  R.expectSeen("lse:finite-where-naive-overflows"); R.expectSeen("lse:finite-where-naive-underflows"); R.expectSeen("lse:shift-law-checked");
  R.expectSeen("logsum:two-log-zeros"); R.expectSeen("ties-at-extremum"); R.expectSeen("repeated-elements"); R.expectSeen("fdr:with-ties"); R.expectSeen("seq:descending");
  R.note("exceptions: DimensionException is demanded for every size mismatch of a function that takes several vectors (the code raises it; the header documents it for most), EmptyVectorException for min/max/which*/range/order/breaks on the empty vector, ElementNotFoundException for which/whichAll of an absent element");
  R.note("not judged (header silent, definition gives no value): mean/var/cov/cor of too few elements or zero variance, zero norms, weight sums of zero, normalizeWeights=false with weights that do not sum to one, median of the empty vector (0 accepted), logSumExp/sumExp with weights when the largest exponent is infinite (BadNumberException accepted), compound assignment with a longer right operand (prefix update accepted)");
  R.note("int median of an even-length vector: either integer neighbour of the mid-point accepted; computeFdr: tied p-values may take any rank inside their tie group; order: any sorting permutation accepted (ties unordered)");
  R.note("int products are only evaluated when no partial product leaves the int range; int quotients only with non-zero divisors; extract only with valid positions");
  return R.finish();
}
