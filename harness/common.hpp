// shared by harnesses: silence the library's process-wide streams (never null: the library dereferences them unguarded)
#pragma once
#include <Bpp/App/ApplicationTools.h>
#include <Bpp/Io/OutputStream.h>
#include <memory>
namespace vfh {
inline void silence() {
  bpp::ApplicationTools::message = std::make_shared<bpp::NullOutputStream>();
  bpp::ApplicationTools::warning = std::make_shared<bpp::NullOutputStream>();
  bpp::ApplicationTools::error = std::make_shared<bpp::NullOutputStream>();
}
// classify an exception thrown by library code
template<class F> inline std::string outcome(F f) {
  try { f(); return "ok"; }
  catch (bpp::Exception& e) { return std::string("bpp:") + typeid(e).name(); }
  catch (std::exception& e) { return std::string("std:") + typeid(e).name(); }
  catch (...) { return "foreign"; }
}
}
