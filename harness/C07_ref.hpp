// C07 helper: alphabets, index decoding, exception classification, long-double reference models and derived tolerances.
#pragma once
#include "vf.hpp"
#include <Bpp/Numeric/VectorTools.h>
#include <Bpp/Numeric/NumTools.h>
#include <Bpp/Numeric/Stat/StatTools.h>
#include <cfloat>
#include <set>
#include <limits>

namespace c07 {
using namespace bpp;
typedef long double LD;
typedef VectorTools VT;
static const LD EPS = (LD)DBL_EPSILON;                 // 2^-52 = 1 ulp(1.0) of double
static const LD DENORM = (LD)4.9406564584124654e-324L; // smallest positive double
static const double INF = std::numeric_limits<double>::infinity();

// ---------- alphabets (index 0 = simplest value) ----------
template<class T> struct Alpha;
template<> struct Alpha<int> {
  static const char* n() { return "int"; }
  static int val(int d) { static const int a[5] = {0, 1, -1, 2, -2}; return a[d]; }
  static int fam(int k) { return k; }                 // long structured families: integer k -> value
  static int absent() { return 7; }
  enum { isInt = 1 };
};
template<> struct Alpha<double> {
  static const char* n() { return "double"; }
  static double val(int d) { static const double a[5] = {0, 1, 0.25, 2, -1.5}; return a[d]; }
  static double fam(int k) { return 0.25 * k; }       // dyadic: sums stay exact
  static double absent() { return 7.5; }
  enum { isInt = 0 };
};
static const int NW = 4;
static inline double wval(int d) { static const double a[NW] = {1, 0, 0.5, 0.25}; return a[d]; }
static const int NLOG = 11;
static inline double logval(int d) {
  static const double a[NLOG] = {0, -1, 1, -800, 800, -745.2, 709.8, -1e300, 1e300, -INF, INF};
  return a[d];
}
static const int NSHIFT = 7;
static inline double shiftval(int d) { static const double a[NSHIFT] = {0, 1, -1, 700, -700, 1e300, -1e300}; return a[d]; }

// number of vectors of length 0..L over an alphabet of size A, and the idx-th of them (shorter first)
static inline uint64_t nvec(int A, int L) { uint64_t s = 0, p = 1; for (int k = 0; k <= L; ++k) { s += p; p *= (uint64_t)A; } return s; }
static inline std::vector<int> decode(uint64_t idx, int A, int L) {
  uint64_t p = 1;
  for (int k = 0; k <= L; ++k) {
    if (idx < p) { std::vector<int> d((size_t)k); for (int i = 0; i < k; ++i) { d[(size_t)i] = (int)(idx % (uint64_t)A); idx /= (uint64_t)A; } return d; }
    idx -= p; p *= (uint64_t)A;
  }
  fprintf(stderr, "C07 harness: decode index out of range\n"); abort();
}
template<class T> static std::vector<T> mk(const std::vector<int>& d) { std::vector<T> v(d.size()); for (size_t i = 0; i < d.size(); ++i) v[i] = Alpha<T>::val(d[i]); return v; }
static inline std::vector<double> mkw(const std::vector<int>& d) { std::vector<double> v(d.size()); for (size_t i = 0; i < d.size(); ++i) v[i] = wval(d[i]); return v; }
static inline std::vector<double> mklog(const std::vector<int>& d) { std::vector<double> v(d.size()); for (size_t i = 0; i < d.size(); ++i) v[i] = logval(d[i]); return v; }

// ---------- exception classification ----------
enum Ex { NONE = 0, DIM, EMPTY, NOTFOUND, BADNUM, OTHERBPP };
static inline const char* exname(Ex e) {
  static const char* n[] = {"no exception", "DimensionException", "EmptyVectorException", "ElementNotFoundException", "BadNumberException", "other bpp::Exception"};
  return n[e];
}
// runs f; bpp exceptions are classified; foreign exceptions propagate (-> terminate -> crash|site signature by the supervisor)
template<class T, class F> static Ex guard(F f) {
  try { f(); return NONE; }
  catch (DimensionException&) { return DIM; }
  catch (EmptyVectorException<T>&) { return EMPTY; }
  catch (ElementNotFoundException<T>&) { return NOTFOUND; }
  catch (BadNumberException&) { return BADNUM; }
  catch (Exception&) { return OTHERBPP; }
}

// cov/var/sd/cor only instantiate when InputType == OutputType (cov passes the centred OutputType vectors to scalar<InputType,...>):
// a compile-time restriction, so the moment functions are exercised for double only.
template<class T> struct Mo {   // int: not instantiable
  static bool has() { return false; }
  static double var(const std::vector<T>&, bool) { return 0; } static double sd(const std::vector<T>&, bool) { return 0; }
  static double cov(const std::vector<T>&, const std::vector<T>&, bool) { return 0; } static double cor(const std::vector<T>&, const std::vector<T>&) { return 0; }
};
template<> struct Mo<double> {
  static bool has() { return true; }
  static double var(const std::vector<double>& v, bool u) { return VT::var<double, double>(v, u); } static double sd(const std::vector<double>& v, bool u) { return VT::sd<double, double>(v, u); }
  static double cov(const std::vector<double>& a, const std::vector<double>& b, bool u) { return VT::cov<double, double>(a, b, u); } static double cor(const std::vector<double>& a, const std::vector<double>& b) { return VT::cor<double, double>(a, b); }
};

// ---------- comparisons ----------
template<class T> static bool same(T a, T b) { return a == b; }
template<> bool same<double>(double a, double b) { return (std::isnan(a) && std::isnan(b)) || a == b; }
template<class T> static bool sameVec(const std::vector<T>& a, const std::vector<T>& b) {
  if (a.size() != b.size()) return false;
  for (size_t i = 0; i < a.size(); ++i) if (!same<T>(a[i], b[i])) return false;
  return true;
}
// |got - ref| <= tol for finite ref; infinities must match exactly; NaN never matches
static inline bool closeTo(double got, LD ref, LD tol) {
  if (std::isnan(got) || std::isnan(ref)) return false;
  if (std::isinf(got) || std::isinf(ref)) return (LD)got == ref;
  return fabsl((LD)got - ref) <= tol;
}
static inline std::string ld(LD x) { char b[64]; if (std::isnan(x)) return "nan"; if (std::isinf(x)) return x > 0 ? "inf" : "-inf"; snprintf(b, sizeof b, "%.21Lg", x); return b; }
// forward error bound of a recursively evaluated sum of n terms with k extra roundings per term: gamma_{n+k} * sum|t_i|,
// with a factor 8 of head-room (the bound is first-order); 'mag' = sum of absolute values of everything that is added.
static inline LD sumTol(size_t n, LD mag) { return 8 * (LD)(n + 8) * EPS * mag; }

// ---------- reference models (long double; exact for the integer / dyadic alphabets) ----------
struct Moments { LD mean, q, absq; bool ok; };   // q = sum w_i (x_i-m)^2 style accumulations are built by the callers

template<class T> static LD rsum(const std::vector<T>& v) { LD s = 0; for (auto x : v) s += (LD)x; return s; }

struct Cov { LD value, tol; bool defined; };
// covariance with weights wn that sum to one (uniform 1/n for the unweighted functions); unbiased divisor D
template<class T> static Cov rcov(const std::vector<T>& a, const std::vector<T>& b, const std::vector<LD>& wn, bool unbiased, LD D) {
  Cov r; r.defined = false; r.value = 0; r.tol = 0;
  size_t n = a.size(); if (n == 0) return r;
  LD ma = 0, mb = 0; for (size_t i = 0; i < n; ++i) { ma += wn[i] * (LD)a[i]; mb += wn[i] * (LD)b[i]; }
  LD q = 0, mag = 0;
  for (size_t i = 0; i < n; ++i) {
    q += wn[i] * ((LD)a[i] - ma) * ((LD)b[i] - mb);
    mag += wn[i] * (fabsl((LD)a[i]) + fabsl(ma)) * (fabsl((LD)b[i]) + fabsl(mb));
  }
  // the means carry a relative error of (n+2) eps each, which enters every centred term: covered by doubling n in the bound
  LD tq = sumTol(3 * n, mag);
  if (!unbiased) { r.value = q; r.tol = tq; r.defined = true; return r; }
  if (!(D > 0)) return r;                                   // 0/0 or x/0: the definition gives no value
  r.value = q / D; r.tol = tq / D + fabsl(q / D) * 8 * (LD)(n + 8) * EPS / D; r.defined = true; return r;
}
static inline std::vector<LD> uniformW(size_t n) { return std::vector<LD>(n, n ? (LD)1 / (LD)n : 0); }

// log-sum-exp reference: value, tolerance; 'kind' 0 finite, +1 = +inf, -1 = -inf
struct Lse { LD value, tol, M; int kind; };
static inline Lse rlse(const std::vector<double>& v) {
  Lse r; r.kind = 0; r.value = 0; r.tol = 0; r.M = -INF;
  for (double x : v) if ((LD)x > r.M) r.M = x;
  if (v.empty() || (std::isinf(r.M) && r.M < 0)) { r.kind = -1; r.value = -INF; return r; }
  if (std::isinf(r.M)) { r.kind = 1; r.value = INF; return r; }
  LD x = 0; for (double e : v) x += expl((LD)e - r.M);
  r.value = r.M + logl(x);
  // x >= 1 is a sum of n correctly rounded terms in (0,1]: relative error <= (n+2) eps -> absolute error of log x <= (n+2) eps;
  // each exponent v_i - M is rounded (<= eps |v_i - M| / 2) but then the term is <= exp(-|d|): |d| exp(-|d|) <= 1/e; log: 1 ulp of log x;
  // final addition: 1 ulp of |M| + log x. Factor 2 of head-room.
  r.tol = EPS * (4 * (LD)v.size() + 8 + 2 * fabsl(r.M) + 2 * fabsl(r.value));
  return r;
}
// weighted: sum over entries with w_i > 0; zero-weight entries contribute nothing whatever their exponent
static inline Lse rlseW(const std::vector<double>& v, const std::vector<double>& w) {
  Lse r; r.kind = 0; r.value = 0; r.tol = 0; r.M = -INF;
  for (size_t i = 0; i < v.size(); ++i) if (w[i] > 0 && (LD)v[i] > r.M) r.M = v[i];
  if (std::isinf(r.M) && r.M < 0) { r.kind = -1; r.value = -INF; return r; }
  if (std::isinf(r.M)) { r.kind = 1; r.value = INF; return r; }
  LD x = 0; for (size_t i = 0; i < v.size(); ++i) if (w[i] > 0) x += (LD)w[i] * expl((LD)v[i] - r.M);
  r.value = r.M + logl(x);
  r.tol = EPS * (4 * (LD)v.size() + 8 + 2 * fabsl(r.M) + 2 * fabsl(r.value) + 2 * fabsl(logl(x)));
  return r;
}
// sum of exponentials as a double-range verdict: lo/hi acceptance interval, or +inf expected
struct SumExp { LD value; bool mustBeInf, mayBeInf; LD tol; };
static inline SumExp rsumexp(const Lse& l, size_t n) {
  SumExp r; r.mustBeInf = r.mayBeInf = false; r.tol = 0; r.value = 0;
  if (l.kind > 0) { r.mustBeInf = true; r.value = INF; return r; }
  if (l.kind < 0) { r.value = 0; r.tol = 0; return r; }
  LD e = expl(l.value);              // long double exponent range (1e4932) covers every finite double result
  LD rel = (LD)(n + 8) * 4 * EPS;    // exp(M) 1 ulp, shifted sum (n+2) ulp, product 1 ulp; factor 4 head-room
  if (l.value > 11000) { r.mustBeInf = true; r.value = INF; return r; }
  r.value = e;
  if (e > (LD)DBL_MAX * (1 + rel)) r.mustBeInf = true;
  else if (e > (LD)DBL_MAX * (1 - rel)) r.mayBeInf = true;
  r.tol = e * rel + (LD)(n + 2) * DENORM;   // gradual underflow: each factor/product is only accurate to half a subnormal step
  return r;
}
static inline bool sumexpOk(double got, const SumExp& r) {
  if (std::isnan(got)) return false;
  if (r.mustBeInf) return std::isinf(got) && got > 0;
  if (std::isinf(got)) return r.mayBeInf && got > 0;
  return fabsl((LD)got - r.value) <= r.tol;
}
} // namespace c07
