// C11 — constraint-removing reparametrisation is a faithful change of variables
// VF-VARIANT: san
// VF-RULE: E2 product spaces, every index executed. (1) bare transforms: every (bound pair | bound) x scale x {tanh,tan} x value-lattice point for the round trip original->transformed->original; every step k of the transformed-coordinate lattice x=-30..30 (step 1/8) for monotonicity (step k vs a fixed anchor step) and for first/second derivative vs central differences of the implementation's own map. (2) wrapper: every constraint kind (8 interval shapes + none + non-interval) in every slot for 1 and 2 parameters, cyclic assignments for 3..5, x bound choice x initial value (incl. at a closed bound and 1e-9 from a bound) x wrapper class (plain/first/second order) x with/without sub-list x transformed-coordinate lattice point. A case is non-trivial when the transform is not the identity and the lattice step / value lies where the map is not saturated (round trip: always). A wrapper assigned from a wrapper over another function (kinds of the first x kinds of the second x wrapper class x 5 points) must answer what a fresh wrapper over an equal function answers.
// VF-BOUND: bounds from {-1000,-1,0,2.5,1000} (thorough, bare transforms: also -999,1e-3,999, i.e. 28 pairs) instead of all of [-1e3,1e3]; scales {0.1,1,10} (thorough adds 0.25,4) instead of [0.1,10]; 5..9 values per interval (mid, 10%, 1e-9 from either bound, thorough adds 1e-6 and 1e-3) instead of every value; transformed coordinates on the lattice -30..30 step 1/8 (bare transforms, 1-parameter wrapper in thorough; step 1/2 in quick) and coarse 11- / 5-point lattices for 2 / 3..5 parameters instead of all reals in [-30,30]; 3..5-parameter functions take the 10 cyclic kind assignments instead of all 10^n
// VF-LEVEL: bounded-exhaustive differential check on the real classes: every listed configuration x value x lattice point is executed; tolerances are rounding/truncation bounds derived next to their use; nothing sampled
// VF-ASSUME: libm tanh/atanh/tan/atan/exp/log accurate to 2 ulp;; the quadratic test objective (harness code) has the gradient/Hessian it reports;; central differences with h=scale*2^-12 and the stated truncation bound represent 'agree with finite differences';; behaviour between lattice points is not observed
// VF-TECHNIQUE: exhaustive enumeration of configuration x value lattices on the real code; round trip, anchored monotonicity, finite-difference derivative oracle, chain-rule composition with a known quadratic
// VF-BUDGET_QUICK: 150
#include "vf.hpp"
#include <Bpp/Numeric/TransformedParameter.h>
#include <Bpp/Numeric/Function/ReparametrizationFunctionWrapper.h>
#include <Bpp/Numeric/AbstractParametrizable.h>
#include <Bpp/Numeric/Constraints.h>
#include <Bpp/App/ApplicationTools.h>
#include <Bpp/Io/OutputStream.h>
#include <cmath>
#include <cfloat>
#include <algorithm>
using namespace bpp;
using vf::num; using vf::str;

static const double EPS = DBL_EPSILON;          // 2^-52
static const double TINYC = 1e-12;              // the nudge the wrapper documents (NumConstants::TINY), restated here on purpose
static const double BND[5] = {-1000, -1, 0, 2.5, 1000};
// bound pairs lb<ub, simplest first
static const int PAIRS[10][2] = {{1, 3}, {2, 3}, {1, 2}, {2, 4}, {3, 4}, {1, 4}, {0, 2}, {0, 1}, {0, 3}, {0, 4}};
// bare-transform spaces: quick uses the 10 pairs above; thorough adds narrow intervals far from 0 and a tiny bound (28 pairs over 8 values)
static std::vector<std::pair<double, double>> pairsFor(bool th) {
  std::vector<std::pair<double, double>> r; for (auto& p : PAIRS) r.push_back({BND[p[0]], BND[p[1]]});
  if (th) {
    static const double B8[8] = {-1000, -999, -1, 0, 1e-3, 2.5, 999, 1000};
    for (int i = 0; i < 8; ++i) for (int j = i + 1; j < 8; ++j) { std::pair<double, double> q(B8[i], B8[j]); if (std::find(r.begin(), r.end(), q) == r.end()) r.push_back(q); }
  }
  return r;
}
static std::vector<double> boundsFor(bool th) { std::vector<double> r = {0, -1, 2.5, 1000, -1000}; if (th) { r.push_back(1e-3); r.push_back(999); r.push_back(-999); } return r; }
static const int NX = 481;                       // x = -30 + k/8, k = 0..480
static inline double latx(int k) { return -30.0 + k / 8.0; }
static inline double max3(double a, double b, double c) { return std::max(a, std::max(b, c)); }
static std::string line1(const std::string& s) { return s.substr(0, s.find('\n')); }   // bpp exceptions carry a stack trace after the first line

// -------------------------------------------------------------------------------------------------
// Part 1: bare transforms
// -------------------------------------------------------------------------------------------------
// Evaluation error of the back-transform F(x) (derived):
//  tanh form  F=(tanh(z)+1)*w/2+lb : tanh 2ulp (<=2u abs), +1 (2u abs on a value <=2), *w/2 (rel u), +lb (u*M)  -> <= 8u*M = 4 eps M
//  atan form  F=(atan(z)+PI/2)*w/PI+lb : atan 2ulp (<=3.2u), +PI/2 (<=3.2u), *w/PI (rel 2u) -> ~4u*w <= 8u*M, +lb (u*M) -> <= 9u*M
//  half line  F=exp(x)/s+b or x/s+1+b : exp 2ulp rel, /s rel u, +b u*M -> <= 4u*M
// with M = max(1,|bounds|,|F|) and u = eps/2.  We use dF = 6*eps*M for all of them.
static inline double dF(double M) { return 6 * EPS * M; }

struct Tf {            // one bare transform under test
  std::unique_ptr<TransformedParameter> p;
  std::string cls, desc;
  double scale, M0;    // M0 = max(1,|bounds|)
  double at(double x) { p->setValue(x); return p->getOriginalValue(); }
};

// reference shape of the half-line map (orientation-agnostic): g(x)=exp(x) below 0, x+1 above
static long double gref(long double x) { return x < 0 ? expl(x) : x + 1; }

// anchored monotonicity of the back-transform at lattice step k -> k+1, plus derivative checks at x_k
static void latticeStep(Tf& T, int k, vf::Case& c, bool halfline, long double refDiff /* exact size of this step in the reference shape */) {
  const std::string& cls = T.cls;
  double s = T.scale, h = s / 4096.0;          // h = scale * 2^-12 (exact)
  double xk = latx(k), xk1 = latx(k + 1 <= NX - 1 ? k + 1 : k);
  c.site("TransformedParameter::getOriginalValue");
  double a0 = T.at(1.0 * s), a1 = T.at(1.125 * s);            // anchor step, in the unsaturated zone for every scale
  double F0 = T.at(xk), F1 = T.at(xk1);
  double M = max3(T.M0, std::fabs(F0), std::fabs(F1));
  if (!(std::isfinite(F0) && std::isfinite(F1) && std::isfinite(a0) && std::isfinite(a1))) { c.fail("transform|monotone|" + cls, T.desc + ": non-finite image at x=" + num(xk)); return; }
  int dir = a1 > a0 ? 1 : (a1 < a0 ? -1 : 0);
  if (dir == 0) { c.fail("transform|monotone|" + cls, T.desc + ": anchor step x=" + num(s) + "->" + num(1.125 * s) + " is flat (" + num(a0) + ")"); return; }
  if (k + 1 <= NX - 1) {
    double d = (F1 - F0) * dir;
    // each image carries at most dF(M) evaluation error: a reversed step is only an alarm beyond 2 dF; strictness is only demanded
    // where the exact step exceeds 4 dF (tanh saturates for |x/scale| >~ 19, exp(x) is absorbed by a large bound)
    bool demandStrict = (double)refDiff > 4 * dF(M);
    if (d < -2 * dF(M)) c.fail("transform|monotone|" + cls, T.desc + ": step x=" + num(xk) + "->" + num(xk1) + " goes " + num(F0) + "->" + num(F1) + " against the anchor direction " + str(dir));
    else if (demandStrict && !(d > 0)) c.fail("transform|monotone|" + cls, T.desc + ": step x=" + num(xk) + "->" + num(xk1) + " is flat at " + num(F0) + " (exact step " + num((double)refDiff) + ")");
    if (demandStrict) { c.nontrivial(); c.tag("step-strict"); } else c.tag("step-saturated(not-demanded-strict)");
  }
  // derivatives vs central differences of the implementation's own map
  if (halfline && std::fabs(xk) < h) { c.tag("kink-at-0-skipped"); return; }   // second derivative discontinuous at 0 by design
  c.site("TransformedParameter::get*OrderDerivative");
  double Fm = T.at(xk - h), Fp = T.at(xk + h);
  double L = 0;
  double pts[3] = {xk - h, xk, xk + h};
  for (double x : pts) { T.p->setValue(x); L = max3(L, std::fabs(T.p->getFirstOrderDerivative()), s * std::fabs(T.p->getSecondOrderDerivative())); }
  T.p->setValue(xk);
  double D1 = T.p->getFirstOrderDerivative(), D2 = T.p->getSecondOrderDerivative();
  double fd1 = (Fp - Fm) / (2 * h), fd2 = (Fp - 2 * F0 + Fm) / (h * h);
  L = std::max(L, std::fabs(fd1));
  double Mx = max3(M, std::fabs(Fm), std::fabs(Fp));
  // truncation: |fd1-F'| <= h^2/6 max|F'''|, |fd2-F''| <= h^2/12 max|F''''| over the stencil.
  //   tanh: |F'''| <= 4 F'/s^2, |F''''| <= 20 F'/s^3;  atan: |F'''| <= 6 F'/s^2, |F''''| <= 12 F'/s^3;  exp: all equal F'.
  //   => both below 8 (h/s)^2 L resp. 8 (h/s)^2 L / s (L = local derivative scale over the stencil)
  // rounding: 2 dF/(2h) for fd1, 4 dF/h^2 for fd2; doubled to cover the rounding of the reported derivative itself
  double r = h / s;
  double tol1 = 8 * r * r * L + 2 * dF(Mx) / h;
  double tol2 = 8 * r * r * L / s + 8 * dF(Mx) / (h * h);
  if (!(std::fabs(D1 - fd1) <= tol1)) c.fail("transform|first-derivative|" + cls, T.desc + ": x=" + num(xk) + " reported " + num(D1) + " central difference " + num(fd1) + " tol " + num(tol1));
  if (!(std::fabs(D2 - fd2) <= tol2)) c.fail("transform|second-derivative|" + cls, T.desc + ": x=" + num(xk) + " reported " + num(D2) + " central difference " + num(fd2) + " tol " + num(tol2));
  // the derivative check has discriminating power where the tolerance is small against the local scale
  if (tol2 < 1e-3 * L / s) c.tag("derivative-check-sharp"); else c.tag("derivative-check-coarse(saturated)");
}

static std::vector<double> scales(bool th) { return th ? std::vector<double>{1, 0.1, 10, 0.25, 4} : std::vector<double>{1, 0.1, 10}; }

// interval value lattice: fractions of the width and absolute offsets from the bounds
static std::vector<double> intervalValues(double lb, double ub, bool th) {
  double w = ub - lb;
  std::vector<double> v = {lb + 0.5 * w, lb + 0.1 * w, ub - 0.1 * w, lb + 1e-9, ub - 1e-9};
  if (th) { v.push_back(lb + 1e-6); v.push_back(ub - 1e-6); v.push_back(lb + 1e-3 * w); v.push_back(ub - 1e-3 * w); }
  return v;
}
static const double HOFF[] = {0.5, 1, 7, 900, 1 + 1e-9, 1e-9, 1 - 1e-9, 1e-6, 30};   // distance from the bound (quick: first 6, thorough: all 9)

static void bareSpaces(vf::Runner& R, bool th) {
  std::vector<double> sc = scales(th);
  int nsc = (int)sc.size();
  int nval = (int)intervalValues(0, 1, th).size();
  std::string tier = th ? "scales5:values9" : "scales3:values5";
  std::vector<std::pair<double, double>> prs = pairsFor(th); int npr = (int)prs.size();
  std::vector<double> hb = boundsFor(th); int nhb = (int)hb.size();

  // ---- interval transforms: round trip
  R.space("interval:roundtrip:pairs" + str(npr) + ":" + tier + ":tanh,tan", (uint64_t)nval * 2 * nsc * npr, [=](uint64_t idx, vf::Case& c) {
    std::vector<int> d = vf::digits(idx, {nval, 2, nsc, npr});
    double lb = prs[d[3]].first, ub = prs[d[3]].second, s = sc[d[2]]; bool hyper = d[1] == 0;
    double v = intervalValues(lb, ub, th)[d[0]];
    std::string cls = hyper ? "interval-tanh" : "interval-tan";
    std::string desc = cls + " ]" + num(lb) + "," + num(ub) + "[ scale " + num(s) + " value " + num(v);
    double mid = lb + 0.5 * (ub - lb);
    // |T^-1(T(v)) - v| <= 64 eps max(1,|lb|,|ub|,|v|): the forward map rounds its argument 2(v-lb)/w-1 (or pi(v-lb)/w-pi/2) with
    // absolute error u, the inverse undoes the function exactly up to 2ulp, so the error is ~u*w/2 + dF <= 8 eps M; 64 leaves margin.
    double tol = 64 * EPS * max3(1, std::max(std::fabs(lb), std::fabs(ub)), std::fabs(v));
    try {
      c.site("IntervalTransformedParameter ctor");
      IntervalTransformedParameter p("t", v, lb, ub, s, hyper);
      c.site("IntervalTransformedParameter::getOriginalValue");
      double back = p.getOriginalValue();
      if (!(std::fabs(back - v) <= tol)) c.fail("transform|roundtrip|" + cls, desc + ": constructor then getOriginalValue gives " + num(back) + " (transformed " + num(p.getValue()) + ", tol " + num(tol) + ")");
      c.site("IntervalTransformedParameter::setOriginalValue");
      IntervalTransformedParameter q("t", mid, lb, ub, s, hyper);
      q.setOriginalValue(v);
      double back2 = q.getOriginalValue();
      if (!(std::fabs(back2 - v) <= tol)) c.fail("transform|roundtrip|" + cls, desc + ": setOriginalValue then getOriginalValue gives " + num(back2) + " (transformed " + num(q.getValue()) + ", tol " + num(tol) + ")");
      if (p.getValue() != q.getValue()) c.fail("transform|ctor-vs-setter|" + cls, desc + ": constructor gives transformed " + num(p.getValue()) + ", setter " + num(q.getValue()));
      c.nontrivial(); c.tag(cls + "-roundtrip");
      if (idx % 97 == 5) c.sample(desc + " -> x=" + num(p.getValue()) + " -> " + num(back));
    } catch (bpp::Exception& e) { c.fail("transform|exception|" + cls, desc + ": " + line1(e.what())); }
  }, 5.0);

  // ---- interval transforms: lattice steps (monotone + derivatives)
  R.space("interval:lattice:x-30..30/8:pairs" + str(npr) + ":" + std::string(th ? "scales5" : "scales3") + ":tanh,tan", (uint64_t)NX * 2 * nsc * npr, [=](uint64_t idx, vf::Case& c) {
    std::vector<int> d = vf::digits(idx, {NX, 2, nsc, npr});
    double lb = prs[d[3]].first, ub = prs[d[3]].second, s = sc[d[2]]; bool hyper = d[1] == 0; int k = d[0];
    Tf T; T.cls = hyper ? "interval-tanh" : "interval-tan"; T.scale = s; T.M0 = max3(1, std::fabs(lb), std::fabs(ub));
    T.desc = T.cls + " ]" + num(lb) + "," + num(ub) + "[ scale " + num(s);
    try {
      c.site("IntervalTransformedParameter ctor");
      T.p.reset(new IntervalTransformedParameter("t", lb + 0.5 * (ub - lb), lb, ub, s, hyper));
      long double w = (long double)ub - lb, z0 = (long double)latx(k) / s, z1 = (long double)latx(std::min(k + 1, NX - 1)) / s;
      long double ref = hyper ? (tanhl(z1) - tanhl(z0)) * w / 2 : (atanl(z1) - atanl(z0)) * w / 3.14159265358979323846264338327950288L;
      latticeStep(T, k, c, false, ref);
    } catch (bpp::Exception& e) { c.fail("transform|exception|" + T.cls, T.desc + ": " + line1(e.what())); }
  }, 5.0);

  // ---- half-line transforms (unit scale only: the documented formula is continuous only there)
  int noff = th ? 9 : 6;
  R.space("halfline:roundtrip:bounds" + str(nhb) + ":offsets" + str(noff) + ":pos,neg", (uint64_t)noff * 2 * nhb, [=](uint64_t idx, vf::Case& c) {
    std::vector<int> d = vf::digits(idx, {noff, 2, nhb});
    double b = hb[d[2]]; bool pos = d[1] == 0; double off = HOFF[d[0]];
    double v = pos ? b + off : b - off;
    std::string cls = pos ? "halfline-pos" : "halfline-neg";
    std::string desc = cls + (pos ? " ]" + num(b) + ",+inf[" : " ]-inf," + num(b) + "[") + " value " + num(v);
    // log/exp (or the linear branch) undo each other up to 2ulp relative on |v-b|, plus the rounding of the final +b: <= 4 eps M; 64 leaves margin
    double tol = 64 * EPS * max3(1, std::fabs(b), std::fabs(v));
    try {
      c.site("RTransformedParameter ctor");
      RTransformedParameter p("t", v, b, pos);
      c.site("RTransformedParameter::getOriginalValue");
      double back = p.getOriginalValue();
      if (!(std::fabs(back - v) <= tol)) c.fail("transform|roundtrip|" + cls, desc + ": constructor then getOriginalValue gives " + num(back) + " (transformed " + num(p.getValue()) + ", tol " + num(tol) + ")");
      c.site("RTransformedParameter::setOriginalValue");
      RTransformedParameter q("t", pos ? b + 3 : b - 3, b, pos);
      q.setOriginalValue(v);
      double back2 = q.getOriginalValue();
      if (!(std::fabs(back2 - v) <= tol)) c.fail("transform|roundtrip|" + cls, desc + ": setOriginalValue then getOriginalValue gives " + num(back2) + " (transformed " + num(q.getValue()) + ", tol " + num(tol) + ")");
      if (p.getValue() != q.getValue()) c.fail("transform|ctor-vs-setter|" + cls, desc + ": constructor gives transformed " + num(p.getValue()) + ", setter " + num(q.getValue()));
      c.nontrivial(); c.tag(cls + "-roundtrip");
      if (idx % 7 == 3) c.sample(desc + " -> x=" + num(p.getValue()) + " -> " + num(back));
    } catch (bpp::Exception& e) { c.fail("transform|exception|" + cls, desc + ": " + line1(e.what())); }
  }, 5.0);

  R.space("halfline:lattice:x-30..30/8:bounds" + str(nhb) + ":pos,neg", (uint64_t)NX * 2 * nhb, [=](uint64_t idx, vf::Case& c) {
    std::vector<int> d = vf::digits(idx, {NX, 2, nhb});
    double b = hb[d[2]]; bool pos = d[1] == 0; int k = d[0];
    Tf T; T.cls = pos ? "halfline-pos" : "halfline-neg"; T.scale = 1; T.M0 = std::max(1.0, std::fabs(b));
    T.desc = T.cls + (pos ? " ]" + num(b) + ",+inf[" : " ]-inf," + num(b) + "[");
    try {
      c.site("RTransformedParameter ctor");
      T.p.reset(new RTransformedParameter("t", pos ? b + 3 : b - 3, b, pos));
      // the statement fixes neither the direction nor which half of the coordinate axis is logarithmic for the negative orientation:
      // strictness is demanded only where both mirror images of the reference shape move by more than the evaluation error
      long double x0 = latx(k), x1 = latx(std::min(k + 1, NX - 1));
      long double r1 = gref(x1) - gref(x0), r2 = gref(-x0) - gref(-x1);
      latticeStep(T, k, c, true, std::min(r1, r2));
    } catch (bpp::Exception& e) { c.fail("transform|exception|" + T.cls, T.desc + ": " + line1(e.what())); }
  }, 5.0);
}

// -------------------------------------------------------------------------------------------------
// Part 2: the wrapper
// -------------------------------------------------------------------------------------------------
// a constraint that is not an interval: accepts everything (the wrapper must pass the parameter through)
struct AnyConstraint : public ConstraintInterface {
  AnyConstraint* clone() const override { return new AnyConstraint(*this); }
  bool isCorrect(double) const override { return true; }
  bool includes(double, double) const override { return true; }
  double getLimit(double v) const override { return v; }
  double getAcceptedLimit(double v) const override { return v; }
  std::string getDescription() const override { return "any"; }
  ConstraintInterface* operator&(const ConstraintInterface&) const override { return clone(); }
  bool isEmpty() const override { return false; }
};

enum Kind { CC = 0, OO, CO, OC, LC, LO, UC, UO, NONE, NONINT, NKIND };
static const char* KNAME[NKIND] = {"[lb,ub]", "]lb,ub[", "[lb,ub[", "]lb,ub]", "[lb,+inf[", "]lb,+inf[", "]-inf,ub]", "]-inf,ub[", "unconstrained", "non-interval"};
static const char* kclass(int k) { return k <= OC ? "interval-tanh" : k <= LO ? "halfline-pos" : k <= UO ? "halfline-neg" : "placebo"; }

struct SlotCfg {
  int kind; double lb, ub, init; bool atBound;
  std::string s() const { std::string r = KNAME[kind]; if (kind <= OC) r += " lb=" + num(lb) + " ub=" + num(ub); else if (kind <= LO) r += " lb=" + num(lb); else if (kind <= UO) r += " ub=" + num(ub); return r + " init=" + num(init); }
  bool inside(double v) const {
    if (!std::isfinite(v)) return false;
    switch (kind) {
      case CC: return lb <= v && v <= ub; case OO: return lb < v && v < ub; case CO: return lb <= v && v < ub; case OC: return lb < v && v <= ub;
      case LC: return v >= lb; case LO: return v > lb; case UC: return v <= ub; case UO: return v < ub; default: return true;
    }
  }
  std::shared_ptr<ConstraintInterface> constraint() const {
    switch (kind) {
      case CC: return std::make_shared<IntervalConstraint>(lb, ub, true, true);
      case OO: return std::make_shared<IntervalConstraint>(lb, ub, false, false);
      case CO: return std::make_shared<IntervalConstraint>(lb, ub, true, false);
      case OC: return std::make_shared<IntervalConstraint>(lb, ub, false, true);
      case LC: return std::make_shared<IntervalConstraint>(true, lb, true);
      case LO: return std::make_shared<IntervalConstraint>(true, lb, false);
      case UC: return std::make_shared<IntervalConstraint>(false, ub, true);
      case UO: return std::make_shared<IntervalConstraint>(false, ub, false);
      case NONINT: return std::make_shared<AnyConstraint>();
      default: return nullptr;
    }
  }
};
static const int NINIT = 7;
// kind, bound choice (0..9), initial value choice (0..6) -> slot
static SlotCfg makeSlot(int kind, int bc, int ic) {
  SlotCfg s; s.kind = kind; s.lb = s.ub = 0; s.atBound = false;
  if (kind <= OC) {
    s.lb = BND[PAIRS[bc % 10][0]]; s.ub = BND[PAIRS[bc % 10][1]]; double w = s.ub - s.lb;
    bool cl = (kind == CC || kind == CO), cu = (kind == CC || kind == OC);
    switch (ic) {
      case 0: s.init = s.lb + 0.5 * w; break; case 1: s.init = s.lb + 0.1 * w; break; case 2: s.init = s.ub - 0.1 * w; break;
      case 3: s.init = s.lb + 1e-9; break; case 4: s.init = s.ub - 1e-9; break;
      case 5: s.init = cl ? s.lb : s.lb + 1e-9; s.atBound = cl; break;          // at the bound where it is closed
      default: s.init = cu ? s.ub : s.ub - 1e-9; s.atBound = cu; break;
    }
  } else if (kind <= UO) {
    bool pos = kind <= LO; double b = BND[bc % 5]; if (pos) s.lb = b; else s.ub = b;
    bool closed = (kind == LC || kind == UC);
    static const double off[NINIT] = {0.5, 1, 7, 900, 1 + 1e-9, 1e-9, 0};
    double o = off[ic]; if (ic == 6) { if (closed) s.atBound = true; else o = 1e-9; }
    s.init = pos ? b + o : b - o;
  } else {
    static const double vals[NINIT] = {0.5, -1, 7, 900, -1000, 1e-9, 0};
    s.init = vals[ic];
  }
  return s;
}

// the objective: f(v) = sum a_i v_i + sum b_i v_i^2 + sum_{i<j} c_ij v_i v_j (small integer coefficients)
struct PolyFn : public virtual SecondOrderDerivable, public AbstractParametrizable {
  int n;
  static double A(int i) { return i + 1; }
  static double B(int i) { return (i % 2) ? -1 : 2; }
  static double Cc(int i, int j) { return 1 + ((i + j) % 2); }
  PolyFn(const std::vector<SlotCfg>& sl) : AbstractParametrizable(""), n((int)sl.size()) {
    for (int i = 0; i < n; ++i) addParameter_(new Parameter("p" + str(i), sl[i].init, sl[i].constraint()));
  }
  PolyFn* clone() const override { return new PolyFn(*this); }
  std::vector<double> vals() const { std::vector<double> v(n); for (int i = 0; i < n; ++i) v[i] = getParameters()[i].getValue(); return v; }
  static double poly(const std::vector<double>& v) {
    int n = (int)v.size(); double r = 0;
    for (int i = 0; i < n; ++i) r += A(i) * v[i] + B(i) * v[i] * v[i];
    for (int i = 0; i < n; ++i) for (int j = i + 1; j < n; ++j) r += Cc(i, j) * v[i] * v[j];
    return r;
  }
  static double grad(const std::vector<double>& v, int i) { double r = A(i) + 2 * B(i) * v[i]; for (int j = 0; j < (int)v.size(); ++j) if (j != i) r += Cc(std::min(i, j), std::max(i, j)) * v[j]; return r; }
  static double hess(int i, int j) { return i == j ? 2 * B(i) : Cc(std::min(i, j), std::max(i, j)); }
  static int ix(const std::string& nm) { return atoi(nm.c_str() + 1); }
  void setParameters(const ParameterList& pl) override { matchParametersValues(pl); }
  double getValue() const override { return poly(vals()); }
  void enableFirstOrderDerivatives(bool) override {}
  bool enableFirstOrderDerivatives() const override { return true; }
  void enableSecondOrderDerivatives(bool) override {}
  bool enableSecondOrderDerivatives() const override { return true; }
  double getFirstOrderDerivative(const std::string& v) const override { return grad(vals(), ix(v)); }
  double getSecondOrderDerivative(const std::string& v) const override { return hess(ix(v), ix(v)); }
  double getSecondOrderDerivative(const std::string& v1, const std::string& v2) const override { return hess(ix(v1), ix(v2)); }
};

// variant: 0 plain, 1 first-order, 2 second-order wrapper; sub: wrap only the even slots (plus a foreign name that must be ignored)
static void wrapperCase(const std::vector<SlotCfg>& sl, int variant, bool sub, const std::vector<double>& x, int onlySlot, vf::Case& c, bool sample) {
  int n = (int)sl.size();
  std::string cfg; for (int i = 0; i < n; ++i) cfg += (i ? "; p" : "p") + str(i) + ":" + sl[i].s();
  cfg += std::string(" | wrapper=") + (variant == 0 ? "plain" : variant == 1 ? "first-order" : "second-order") + (sub ? " sub-list(even slots)" : "") + " | x=" + vf::vstr(x) + (onlySlot >= 0 ? " (only slot " + str(onlySlot) + " updated)" : "");
  auto f = std::make_shared<PolyFn>(sl);
  std::vector<double> v0(n); for (int i = 0; i < n; ++i) v0[i] = sl[i].init;
  std::vector<bool> wrapped(n, true);
  std::vector<double> x0(n, 0);   // transformed coordinates right after wrapping
  ParameterList subl;
  if (sub) { for (int i = 0; i < n; ++i) { wrapped[i] = (i % 2 == 0); if (wrapped[i]) subl.addParameter(f->getParameters()[i]); } subl.addParameter(Parameter("foreign", 3.0)); }
  std::shared_ptr<ReparametrizationFunctionWrapper> w; ReparametrizationDerivableFirstOrderWrapper* w1 = nullptr; ReparametrizationDerivableSecondOrderWrapper* w2 = nullptr;
  bool verbose = sub;   // the verbose path only writes to ApplicationTools::message (silenced)
  try {
    c.site("ReparametrizationFunctionWrapper ctor");
    if (variant == 0) w = sub ? std::make_shared<ReparametrizationFunctionWrapper>(f, subl, verbose) : std::make_shared<ReparametrizationFunctionWrapper>(f, verbose);
    else if (variant == 1) { auto p = sub ? std::make_shared<ReparametrizationDerivableFirstOrderWrapper>(f, subl, verbose) : std::make_shared<ReparametrizationDerivableFirstOrderWrapper>(f, verbose); w1 = p.get(); w = p; }
    else { auto p = sub ? std::make_shared<ReparametrizationDerivableSecondOrderWrapper>(f, subl, verbose) : std::make_shared<ReparametrizationDerivableSecondOrderWrapper>(f, verbose); w2 = p.get(); w1 = p.get(); w = p; }
  } catch (bpp::Exception& e) { c.fail("wrapper|wrapping-raises", cfg + ": " + line1(e.what())); return; }

  // --- immediately after wrapping
  {
    std::vector<double> now = f->vals();
    for (int i = 0; i < n; ++i) if (now[i] != v0[i]) c.fail("wrapper|wrapping-changed-function-parameters", cfg + ": p" + str(i) + " was " + num(v0[i]) + " is " + num(now[i]));
    size_t nw = 0; for (int i = 0; i < n; ++i) nw += wrapped[i];
    if (w->getNumberOfParameters() != nw) { c.fail("wrapper|parameter-set", cfg + ": wrapper has " + str(w->getNumberOfParameters()) + " parameters, expected " + str(nw)); return; }
    for (int i = 0; i < n; ++i) if (wrapped[i]) {
      if (!w->hasParameter("p" + str(i))) { c.fail("wrapper|parameter-set", cfg + ": p" + str(i) + " missing"); return; }
      const TransformedParameter* tp = dynamic_cast<const TransformedParameter*>(&w->parameter("p" + str(i)));
      if (!tp) { c.fail("wrapper|parameter-set", cfg + ": p" + str(i) + " is not a TransformedParameter"); return; }
      c.site("TransformedParameter::getOriginalValue (initial)");
      x0[i] = tp->getValue();
      double back = tp->getOriginalValue();
      double M = max3(1, std::max(std::fabs(sl[i].lb), std::fabs(sl[i].ub)), std::fabs(v0[i]));
      // a value at a closed bound is moved by TINY and an open bound is moved by TINY (two nudges at most) + the round-trip bound of part 1
      double tol = sl[i].kind >= NONE ? 0 : 4 * TINYC + 64 * EPS * M;
      if (!(std::fabs(back - v0[i]) <= tol)) c.fail(std::string("wrapper|initial-values|") + kclass(sl[i].kind), cfg + ": back-transform of the initial coordinate of p" + str(i) + " (" + num(tp->getValue()) + ") is " + num(back) + ", the function had " + num(v0[i]) + " (tol " + num(tol) + ")");
    }
  }
  // --- evaluate at the transformed point x
  ParameterList pl;
  { int j = 0; for (int i = 0; i < n; ++i) if (wrapped[i]) { if (onlySlot < 0 || onlySlot == i) { Parameter p(w->parameter("p" + str(i))); p.setValue(x[i]); pl.addParameter(p); } ++j; } }
  bool raised = false; std::string what;
  c.site("ReparametrizationFunctionWrapper::setParameters");
  try { w->setParameters(pl); } catch (ConstraintException& e) { raised = true; what = line1(e.what()); }
  catch (bpp::Exception& e) { c.fail("wrapper|update-raises", cfg + ": " + line1(e.what())); return; }
  // back-transformed point as the wrapper's own transformed parameters report it
  std::vector<double> bt(n, 0), T1(n, 1), T2(n, 0);
  bool anyOutside = false;
  for (int i = 0; i < n; ++i) if (wrapped[i]) {
    const TransformedParameter& tp = dynamic_cast<const TransformedParameter&>(w->parameter("p" + str(i)));
    bool touched = onlySlot < 0 || onlySlot == i;
    if (touched && tp.getValue() != x[i]) c.fail("wrapper|transformed-coordinate-not-stored", cfg + ": p" + str(i) + " holds " + num(tp.getValue()));
    c.site("TransformedParameter::getOriginalValue");
    bt[i] = tp.getOriginalValue(); T1[i] = tp.getFirstOrderDerivative(); T2[i] = tp.getSecondOrderDerivative();
    if (!sl[i].inside(bt[i])) { anyOutside = true; c.fail(std::string("wrapper|constraint|") + kclass(sl[i].kind), cfg + ": back-transformed p" + str(i) + " = " + num(bt[i]) + " violates " + KNAME[sl[i].kind] + (raised ? " (update raised: " + what + ")" : "")); }
    if (sl[i].kind >= NONE && touched && bt[i] != x[i]) c.fail("wrapper|pass-through", cfg + ": unconstrained p" + str(i) + " back-transforms " + num(x[i]) + " to " + num(bt[i]));
  }
  if (raised) { if (!anyOutside) c.fail("wrapper|constraint|exception", cfg + ": update raised " + what); c.tag("wrapper-update-raised"); return; }
  std::vector<double> fv = f->vals();
  for (int i = 0; i < n; ++i) {
    bool touched = wrapped[i] && (onlySlot < 0 || onlySlot == i);
    // (a coordinate equal to the one the wrapper already holds is not an update: the function then keeps the value it had, which the
    //  initial-values clause has compared with the back-transform)
    if (touched) { if (fv[i] != bt[i] && !(x[i] == x0[i] && fv[i] == v0[i])) c.fail("wrapper|function-not-at-back-transformed-point", cfg + ": function has p" + str(i) + " = " + num(fv[i]) + ", back-transform is " + num(bt[i])); }
    else if (!wrapped[i]) { if (fv[i] != v0[i]) c.fail("wrapper|unlisted-parameter-changed", cfg + ": p" + str(i) + " = " + num(fv[i]) + " was " + num(v0[i])); }
    else {   // wrapped but not part of this update: must keep the value it had (up to the nudges)
      double M = max3(1, std::max(std::fabs(sl[i].lb), std::fabs(sl[i].ub)), std::fabs(v0[i]));
      double tol = sl[i].kind >= NONE ? 0 : 4 * TINYC + 64 * EPS * M;
      if (!(std::fabs(fv[i] - v0[i]) <= tol)) c.fail(std::string("wrapper|untouched-parameter-moved|") + kclass(sl[i].kind), cfg + ": p" + str(i) + " = " + num(fv[i]) + " was " + num(v0[i]));
    }
    if (!sl[i].inside(fv[i])) c.fail(std::string("wrapper|constraint|") + kclass(sl[i].kind), cfg + ": function parameter p" + str(i) + " = " + num(fv[i]) + " violates " + KNAME[sl[i].kind]);
  }
  c.site("ReparametrizationFunctionWrapper::getValue");
  double val = w->getValue(), want = PolyFn::poly(fv);
  if (!(val == want) && !(std::isnan(val) && std::isnan(want))) c.fail("wrapper|value", cfg + ": wrapper value " + num(val) + ", function at its parameters " + num(want));
  // --- the wrapped function has another owner, who moves it back to where it started; evaluating the wrapper once more at the transformed
  //     point it already holds must bring the function back to the back-transformed point ("evaluated at any transformed point equals the
  //     original function at the back-transformed point" -- whatever was evaluated in between)
  {
    ParameterList mv; for (int i = 0; i < n; ++i) { Parameter q(f->getParameters()[(size_t)i]); q.setValue(v0[i]); mv.addParameter(q); }
    c.site("wrapped function moved directly"); f->setParameters(mv);
    bool moved = f->vals() != fv;
    c.site("ReparametrizationFunctionWrapper::f(same point)");
    double again = 0; bool r2 = false; try { again = w->f(pl); } catch (bpp::Exception& e) { r2 = true; c.fail("wrapper|update-raises", cfg + " (re-evaluation at the held point): " + line1(e.what())); }
    if (!r2) {
      std::vector<double> fv2 = f->vals(); bool same = true;
      for (int i = 0; i < n; ++i) if (wrapped[i] && (onlySlot < 0 || onlySlot == i) && fv2[i] != fv[i]) same = false;
      if (!same) c.fail("wrapper|function-not-at-back-transformed-point|re-evaluated-at-the-held-point-after-the-function-was-moved", cfg + ": function now at " + vf::vstr(fv2) + ", was at " + vf::vstr(fv) + " after the first evaluation of the same transformed point");
      else if (!(again == PolyFn::poly(fv2)) && !(std::isnan(again) && std::isnan(PolyFn::poly(fv2)))) c.fail("wrapper|value", cfg + " (re-evaluation): " + num(again) + " vs " + num(PolyFn::poly(fv2)));
      if (moved) c.tag("wrapper:re-evaluated-after-external-move");
      // the coordinates that were not part of the update are where the other owner left them: put the function back for the clauses below
      ParameterList back; for (int i = 0; i < n; ++i) { Parameter q(f->getParameters()[(size_t)i]); q.setValue(fv[i]); back.addParameter(q); } f->setParameters(back);
    }
  }
  // --- chain rule (exact composition; T', T'' are the values validated against finite differences in part 1)
  bool nontriv = false; for (int i = 0; i < n; ++i) if (wrapped[i] && sl[i].kind < NONE && (onlySlot < 0 || onlySlot == i)) nontriv = true;
  if (w1) for (int i = 0; i < n; ++i) if (wrapped[i]) {
    c.site("ReparametrizationDerivableFirstOrderWrapper::getFirstOrderDerivative");
    double g = PolyFn::grad(fv, i), got = w1->getFirstOrderDerivative("p" + str(i)), exp1 = g * T1[i];
    // one product of two doubles: 1 rounding; 4 eps covers any association
    if (std::isfinite(exp1) && !(std::fabs(got - exp1) <= 4 * EPS * std::fabs(exp1))) c.fail("wrapper|chain-rule-first", cfg + ": d/dp" + str(i) + " = " + num(got) + ", f'*T' = " + num(g) + "*" + num(T1[i]) + " = " + num(exp1));
    if (w2) {
      c.site("ReparametrizationDerivableSecondOrderWrapper::getSecondOrderDerivative");
      double H = PolyFn::hess(i, i), got2 = w2->getSecondOrderDerivative("p" + str(i));
      double t1 = H * T1[i] * T1[i], t2 = g * T2[i], exp2 = t1 + t2;
      // two products, a square and a sum: <= 4 roundings on the terms; 8 eps (|t1|+|t2|)
      if (std::isfinite(exp2) && !(std::fabs(got2 - exp2) <= 8 * EPS * (std::fabs(t1) + std::fabs(t2)))) c.fail("wrapper|chain-rule-second", cfg + ": d2/dp" + str(i) + "2 = " + num(got2) + ", f''T'^2+f'T'' = " + num(exp2));
      // the two-variable query with the same variable twice is the second derivative in that variable
      { double gotv = w2->getSecondOrderDerivative("p" + str(i), "p" + str(i));
        if (std::isfinite(exp2) && !(std::fabs(gotv - exp2) <= 8 * EPS * (std::fabs(t1) + std::fabs(t2)))) c.fail("wrapper|chain-rule-second|two-variable-query-with-one-variable", cfg + ": d2/dp" + str(i) + "dp" + str(i) + " = " + num(gotv) + ", f''T'^2+f'T'' = " + num(exp2) + " (one-variable query: " + num(got2) + ")"); }
      for (int j = i + 1; j < n; ++j) if (wrapped[j]) {
        double gotc = w2->getSecondOrderDerivative("p" + str(i), "p" + str(j)), expc = PolyFn::hess(i, j) * T1[i] * T1[j];
        double gotd = w2->getSecondOrderDerivative("p" + str(j), "p" + str(i));
        if (std::isfinite(expc) && (!(std::fabs(gotc - expc) <= 8 * EPS * std::fabs(expc)) || !(std::fabs(gotd - expc) <= 8 * EPS * std::fabs(expc)))) c.fail("wrapper|chain-rule-cross", cfg + ": d2/dp" + str(i) + "dp" + str(j) + " = " + num(gotc) + " / " + num(gotd) + ", f_ij T_i' T_j' = " + num(expc));
      }
    }
  }
  if (nontriv) c.nontrivial();
  c.tag(std::string("wrapper-") + (variant == 0 ? "plain" : variant == 1 ? "first" : "second") + (sub ? "-sublist" : ""));
  if (sample) c.sample(cfg + " -> function at " + vf::vstr(fv) + " value " + num(val));
}

static const double CX11[11] = {0, 0.125, -0.125, 1, -1, 5, -5, 19, -19, 30, -30};
static const double CX5[5] = {0, 0.125, -1, 30, -30};

// a wrapper assigned from a wrapper over ANOTHER function (other constraints on the same names) is a wrapper of that function: evaluated
// at a transformed point it must answer what a fresh wrapper over an equal function answers (value or the same refusal)
static void assignedCase(const std::vector<SlotCfg>& slA, const std::vector<SlotCfg>& slB, int variant, const std::vector<double>& x, vf::Case& c) {
  std::string cfg = "wrapper(" + std::string(variant == 0 ? "plain" : variant == 1 ? "first-order" : "second-order") + ") over [p0:" + slA[0].s() + "; p1:" + slA[1].s() + "] assigned from a wrapper over [p0:" + slB[0].s() + "; p1:" + slB[1].s() + "], x=" + vf::vstr(x);
  try {
    auto fA = std::make_shared<PolyFn>(slA), fB = std::make_shared<PolyFn>(slB), fR = std::make_shared<PolyFn>(slB);
    c.site("ReparametrizationFunctionWrapper::operator=");
    std::shared_ptr<ReparametrizationFunctionWrapper> wA, wR;
    if (variant == 0) { auto a = std::make_shared<ReparametrizationFunctionWrapper>(fA, false); ReparametrizationFunctionWrapper b(fB, false); *a = b; wA = a; wR = std::make_shared<ReparametrizationFunctionWrapper>(fR, false); }
    else if (variant == 1) { auto a = std::make_shared<ReparametrizationDerivableFirstOrderWrapper>(fA, false); ReparametrizationDerivableFirstOrderWrapper b(fB, false); *a = b; wA = a; wR = std::make_shared<ReparametrizationDerivableFirstOrderWrapper>(fR, false); }
    else { auto a = std::make_shared<ReparametrizationDerivableSecondOrderWrapper>(fA, false); ReparametrizationDerivableSecondOrderWrapper b(fB, false); *a = b; wA = a; wR = std::make_shared<ReparametrizationDerivableSecondOrderWrapper>(fR, false); }
    if (wA->getNumberOfParameters() != wR->getNumberOfParameters()) { c.fail("wrapper|assigned|parameter-set", cfg); return; }
    ParameterList pl = wR->getParameters(); for (size_t i = 0; i < pl.size() && i < x.size(); ++i) pl[i].setValue(x[i]);
    c.site("ReparametrizationFunctionWrapper::f (assigned wrapper)");
    double vr = 0, va = 0; bool rr = false, ra = false;
    try { vr = wR->f(pl); } catch (bpp::Exception&) { rr = true; }
    try { va = wA->f(pl); } catch (bpp::Exception& e) { ra = true; if (!rr) { c.fail("wrapper|assigned|evaluation-raises", cfg + ": " + line1(e.what())); return; } }
    if (rr != ra) { c.fail("wrapper|assigned|evaluation-outcome-differs-from-fresh-wrapper", cfg); return; }
    if (!rr && !(va == vr || std::fabs(va - vr) <= 1e-12 * std::max(1.0, std::fabs(vr)))) c.fail("wrapper|assigned|value-differs-from-fresh-wrapper", cfg + ": " + num(va) + " vs " + num(vr));
    c.nontrivial(); c.tag("wrapper-assigned-judged");
  } catch (bpp::Exception& e) { c.fail("wrapper|assigned|raises", cfg + ": " + line1(e.what())); }
}

static void wrapperSpaces(vf::Runner& R, bool th) {
  // ---- one parameter: every kind x bound choice x initial value x wrapper class x sub-list x lattice point
  int step = th ? 1 : 4;                      // x lattice step 1/8 (thorough) or 1/2 (quick)
  int nx = (NX - 1) / step + 1;
  R.space(std::string("wrapper:n1:kinds10:bounds10:init7:variants6:x-30..30/") + (th ? "8" : "2"), (uint64_t)nx * 6 * NINIT * 10 * NKIND, [=](uint64_t idx, vf::Case& c) {
    std::vector<int> d = vf::digits(idx, {nx, 6, NINIT, 10, NKIND});
    int kind = d[4];
    if (kind >= NONE && d[3] > 0) { c.tag("duplicate-bound-choice(unconstrained)"); return; }
    if (kind >= LC && kind <= UO && d[3] >= 5) { c.tag("duplicate-bound-choice(half-line)"); return; }
    std::vector<SlotCfg> sl = {makeSlot(kind, d[3], d[2])};
    // lattice order: 0, then outwards
    int k = d[0]; int off = (k + 1) / 2 * ((k % 2) ? 1 : -1); int mid = (nx - 1) / 2;
    double x = latx((mid + off) * step);
    wrapperCase(sl, d[1] % 3, d[1] >= 3, {x}, -1, c, idx % 50021 == 11);
  }, 5.0);

  // ---- two parameters: every kind in every slot
  R.space("wrapper:n2:kinds10x10:variants6:x11x11", (uint64_t)11 * 11 * 6 * NKIND * NKIND, [=](uint64_t idx, vf::Case& c) {
    std::vector<int> d = vf::digits(idx, {11, 11, 6, NKIND, NKIND});
    std::vector<SlotCfg> sl = {makeSlot(d[3], 3 * d[3] + d[4], (d[3] + 2 * d[4]) % NINIT), makeSlot(d[4], d[3] + 7 * d[4] + 1, (3 * d[3] + d[4] + 5) % NINIT)};
    wrapperCase(sl, d[2] % 3, d[2] >= 3, {CX11[d[0]], CX11[d[1]]}, -1, c, idx % 30011 == 11);
  }, 5.0);
  // assignment between wrappers over functions with other constraints on the same names: kinds of A x kinds of B x class x 5 points
  R.space("wrapper:assigned-from-a-wrapper-over-another-function:kinds10x10:variants3:x5", (uint64_t)5 * 3 * NKIND * NKIND, [=](uint64_t idx, vf::Case& c) {
    std::vector<int> d = vf::digits(idx, {5, 3, NKIND, NKIND});
    std::vector<SlotCfg> slA = {makeSlot(d[2], 3 * d[2] + d[3], (d[2] + 2 * d[3]) % NINIT), makeSlot(d[3], d[2] + 7 * d[3] + 1, (3 * d[2] + d[3] + 5) % NINIT)};
    std::vector<SlotCfg> slB = {makeSlot(d[3], 2 * d[2] + d[3] + 3, (d[2] + d[3] + 1) % NINIT), makeSlot(d[2], 5 * d[2] + d[3] + 2, (2 * d[2] + 3 * d[3]) % NINIT)};
    assignedCase(slA, slB, d[1], {CX5[d[0]], CX5[(d[0] + 2) % 5]}, c);
  }, 5.0);
  // partial update: only one of the two coordinates is sent to the wrapper
  R.space("wrapper:n2-partial:kinds10x10:variants2:slot2:x11", (uint64_t)11 * 2 * 2 * NKIND * NKIND, [=](uint64_t idx, vf::Case& c) {
    std::vector<int> d = vf::digits(idx, {11, 2, 2, NKIND, NKIND});
    std::vector<SlotCfg> sl = {makeSlot(d[3], 3 * d[3] + d[4], (d[3] + 2 * d[4]) % NINIT), makeSlot(d[4], d[3] + 7 * d[4] + 1, (3 * d[3] + d[4] + 5) % NINIT)};
    wrapperCase(sl, d[2] ? 2 : 0, false, {CX11[d[0]], CX11[d[0]]}, d[1], c, idx % 1009 == 11);
  }, 5.0);

  // ---- three to five parameters: cyclic kind assignments
  for (int n = 3; n <= 5; ++n) {
    uint64_t pts = 1; for (int i = 0; i < n; ++i) pts *= 5;
    int nvar = th ? 6 : 2;
    R.space("wrapper:n" + str(n) + ":cyclic10:variants" + str(nvar) + ":x5^" + str(n), pts * nvar * NKIND, [=](uint64_t idx, vf::Case& c) {
      std::vector<int> rad(n, 5); rad.push_back(nvar); rad.push_back(NKIND);
      std::vector<int> d = vf::digits(idx, rad);
      int shift = d[n + 1], var = d[n];
      std::vector<SlotCfg> sl; std::vector<double> x;
      for (int i = 0; i < n; ++i) { int kind = (shift + 3 * i) % NKIND; sl.push_back(makeSlot(kind, shift + 2 * i, (shift + i) % NINIT)); x.push_back(CX5[d[i]]); }
      int variant, sub; if (th) { variant = var % 3; sub = var >= 3; } else { variant = var ? 0 : 2; sub = var; }
      wrapperCase(sl, variant, sub, x, -1, c, idx % 20011 == 11);
    }, 5.0);
  }
}

int main(int argc, char** argv) {
  static auto nul = std::make_shared<NullOutputStream>();
  ApplicationTools::message = nul; ApplicationTools::warning = nul; ApplicationTools::error = nul;
  vf::Runner R(argc, argv, "C11");
  bool th = R.thorough();
  bareSpaces(R, th);
  wrapperSpaces(R, th);
  R.expectSeen("step-strict"); R.expectSeen("step-saturated(not-demanded-strict)"); R.expectSeen("kink-at-0-skipped");
  R.expectSeen("derivative-check-sharp");
  R.expectSeen("interval-tanh-roundtrip"); R.expectSeen("interval-tan-roundtrip"); R.expectSeen("halfline-pos-roundtrip"); R.expectSeen("halfline-neg-roundtrip");
  R.expectSeen("wrapper-second"); R.expectSeen("wrapper-plain-sublist");
  R.note("'strictly monotone' is judged against an anchor step of the same transform (x=scale..1.125*scale): every lattice step must go the same way; the direction itself is not dictated. Strictness is demanded only where the exact step exceeds 4x the evaluation error of the map (tanh saturates for |x/scale| >~ 19).");
  R.note("derivatives are judged against central differences of the implementation's own back-transform with h=scale*2^-12; the stencil straddling the half-line kink at 0 is skipped (second derivative discontinuous there by design); half-line transforms at unit scale only.");
  R.note("wrapper chain rule: f', f'' come from the harness' quadratic, T', T'' from the wrapper's transformed parameters (the same code judged against finite differences in the bare-transform spaces).");
  R.note("'still equal the values it had' after wrapping: within 4*TINY (1e-12 nudges of closed-bound values / open bounds) + the round-trip rounding bound.");
  return R.finish();
}
