// C04 — matrix operations match their definitions for every shape and storage layout
// VF-VARIANT: san
// VF-RULE: E2, one MatrixTools call per case, result compared entry by entry with an exact dyadic-rational reference. Per routine, over ALL requested shape pairs (rA,cA,rB,cB) in 0..N: space ":cube" = every storage class (RowMatrix/ColMatrix/LinearMatrix) of every operand and of the result (27 combinations; x3 class rotations of the imaginary parts) x result pre-state (unsized, too large+garbage; thorough also too small, right size+garbage) on the injective integer pattern; space ":variants" = every result pre-state x every entry pattern (injective integer, sign-alternating, zero-sprinkled, dyadic k/4) x every routine parameter (exponent, scalar, vector length n-2..n+1, imaginary part one row/column off) under the three mixed storage assignments; small routines have the full product in one space ":full". Tiny spaces: every entry assignment over {-1,0,2} for every shape pair up to 2x2. directSum(list): every list of <=2 shapes in 0..N and of 3 shapes in 0..3 (thorough 0..4). lap: every cost matrix of the stated alphabets plus structured families, in each storage class, against all n! permutations and the dual certificate. A case is non-trivial when the operands are conformable and the result has at least one entry (lap: n >= 2); non-conformable cases are counted under 'raised-DimensionException'.
// VF-BOUND: shapes 0..5 (quick) / 0..7 (thorough); entries from four fixed patterns plus exhaustive {-1,0,2} up to 2x2 instead of all integer/real entries; storage cube crossed with 2 (quick) / 4 (thorough) pre-states on one pattern, the other patterns and parameters under 3 mixed storage assignments; lap: all n<=3 over {0,1,2} and {-3/2,1/4,3}, n=4 over {0,1}, thorough also n=3 over {0,1,2,3} and {-3/2,1/4,3,5}; families n=5..6 (thorough ..7): all zero-cost permutations, 12 closed forms, all one-cheap-entry-per-row matrices (n<=5, thorough n<=6) instead of all cost matrices up to 7x7
// VF-LEVEL: bounded-exhaustive differential check of the real MatrixTools code under ASan/UBSan/libstdc++ assertions against exact dyadic-rational definitions; every case of the stated finite spaces is executed; lap optimality decided by brute force over all permutations plus dual feasibility/tightness/objective
// VF-ASSUME: the exact rational reference in harness/C04_ref.hpp implements the textbook definitions;; conformability and expected output shape are evaluated on the dimensions the operand objects REPORT (RowMatrix cannot hold 0xn, ColMatrix cannot hold nx0);; entries outside the dyadic alphabets behave like those inside (rounding of "the same finite sum" is not exercised except in covar, where a derived bound is used);; a libstdc++ assertion failure inside an armed library call is contained in-process (own definition of std::__glibcxx_assert_fail + longjmp) and reported with the signature the supervisor would give to the abort
// VF-TECHNIQUE: exhaustive enumeration with exact reference model; brute-force optimality and dual certificate for lap
// VF-BUDGET_QUICK: 400
// VF-BUDGET_THOROUGH: 3000
#include "vf.hpp"
#include "C04_ref.hpp"
#include <Bpp/Numeric/Matrix/Matrix.h>
#include <Bpp/Numeric/Matrix/MatrixTools.h>
#include <Bpp/Numeric/VectorExceptions.h>
#include <memory>
#include <functional>
#include <csetjmp>
#include <cstdio>
#include <type_traits>
using namespace bpp;
using namespace c04;
using vf::str;

typedef Matrix<double> MD;
typedef std::unique_ptr<MD> MP;
static const char* CN[3] = {"Row", "Col", "Lin"};
static const char* PRE[5] = {"unsized", "too-small", "too-large", "right-size", "right-size,check=false"};

static MP mk(int cls) {
  switch (cls) { case 0: return MP(new RowMatrix<double>()); case 1: return MP(new ColMatrix<double>()); default: return MP(new LinearMatrix<double>()); }
}
static MP mk(int cls, size_t r, size_t c) {
  switch (cls) { case 0: return MP(new RowMatrix<double>(r, c)); case 1: return MP(new ColMatrix<double>(r, c)); default: return MP(new LinearMatrix<double>(r, c)); }
}
// what a storage class reports after being sized r x c (soundness decision: RowMatrix has no 0xn, ColMatrix no nx0)
static void rep(int cls, size_t& r, size_t& c) { if (cls == 0 && r == 0) c = 0; if (cls == 1 && c == 0) r = 0; }
static void garbage(MD& m) { for (size_t i = 0; i < m.getNumberOfRows(); ++i) for (size_t j = 0; j < m.getNumberOfColumns(); ++j) m(i, j) = -7777.0 + 13.0 * (double)i + (double)j; }
static MP mkOut(int cls, int pre, size_t r, size_t c) {
  switch (pre) { case 0: return mk(cls); case 1: r = r ? r - 1 : 0; c = c ? c - 1 : 0; break; case 2: r += 2; c += 1; break; default: break; }
  MP m = mk(cls, r, c); garbage(*m); return m;
}
// concrete-class dispatch for the routines that are templates on the matrix class
template<class F> void with1(MD& m, F f) {
  if (auto* p = dynamic_cast<RowMatrix<double>*>(&m)) f(*p);
  else if (auto* q = dynamic_cast<ColMatrix<double>*>(&m)) f(*q);
  else f(dynamic_cast<LinearMatrix<double>&>(m));
}
template<class F> void with2(MD& a, MD& b, F f) { with1(a, [&](auto& ca) { with1(b, [&](auto& cb) { f(ca, cb); }); }); }

static Dy patEntry(int which, int pat, size_t i, size_t j) {
  static const int a[4] = {1, 3, 2, 5}, b[4] = {8, 11, 13, 7}, cc[4] = {1, 2, 3, 15};   // each b*i + c*j is injective on 0..7 x 0..7
  int w = which & 3;
  long long base = a[w] + b[w] * (long long)i + cc[w] * (long long)j;
  switch (pat) {
    case 0: return Dy(base);
    case 1: return Dy(((i + j + (size_t)which) % 2) ? -base : base);
    case 2: return ((i + 2 * j + (size_t)which) % 3 == 0) ? Dy(0) : Dy((which & 1) ? -base : base);
    default: return Dy(base - 30, 2);
  }
}
static Dy patVec(int which, int pat, size_t k) {
  long long base = 2 + which + 3 * (long long)k;
  switch (pat) {
    case 0: return Dy(base);
    case 1: return Dy(((k + (size_t)which) % 2) ? -base : base);
    case 2: return ((k + (size_t)which) % 3 == 0) ? Dy(0) : Dy(-base);
    default: return Dy(base - 9, 2);
  }
}
static const long long ALPHA[3] = {-1, 0, 2};

// ---- in-process containment of libstdc++ assertion failures --------------------------------------------------------------
// Under -D_GLIBCXX_ASSERTIONS an out-of-range std::vector index calls std::__glibcxx_assert_fail (prints, then abort()). The engine turns
// such a death into "crash|<site>|glibcxx-assertion", but every death costs a fork of the sanitized supervisor (~10 ms, serial), and on
// this tree hundreds of thousands of cases die that way. The executable therefore provides its own definition of that one function:
// while a library call is armed by call(), the failure is recorded and control returns to call() by longjmp (the abandoned library
// frames only own small vectors; nothing in the library is global); the case is then reported with the SAME signature the
// supervisor would have produced. Outside an armed call it prints the usual message and aborts, so everything else is unchanged.
static jmp_buf g_jb; static volatile int g_armed = 0; static char g_assertMsg[400];
namespace std {
void __glibcxx_assert_fail(const char* file, int line, const char* function, const char* condition) noexcept {
  if (g_armed) {
    g_armed = 0;
    snprintf(g_assertMsg, sizeof g_assertMsg, "%s:%d: Assertion '%s' failed in %.200s", file ? file : "?", line, condition ? condition : "?", function ? function : "?");
    longjmp(g_jb, 1);
  }
  if (file && function && condition) fprintf(stderr, "%s:%d: %s: Assertion '%s' failed.\n", file, line, function, condition);
  abort();
}
}
enum Res { OK_, DIMEX, BPPEX, STDEX, ASSERTFAIL };
template<class F> Res call(F f) {
  if (setjmp(g_jb)) return ASSERTFAIL;
  g_armed = 1;
  try { f(); g_armed = 0; return OK_; }
  catch (DimensionException&) { g_armed = 0; return DIMEX; }
  catch (bpp::Exception&) { g_armed = 0; return BPPEX; }
  catch (std::logic_error& e) { g_armed = 0; if (std::string(e.what()).find("C04 harness") != std::string::npos) throw; return STDEX; }
  catch (std::exception&) { g_armed = 0; return STDEX; }
}

struct Opd { MP m; RM ref; int cls = 0; };

struct Ctx {
  vf::Case& c;
  int rA = 0, cA = 0, rB = 0, cB = 0, clsA = 0, clsB = 0, clsO = 0, rot = 0, pre = 0, pat = 0, extra = 0;
  bool tiny = false; std::vector<int> entA, entB;
  std::function<std::string()> moreFn;   // routine-specific part of the description (lazy)
  std::string siteName;
  bool wantSample = false;
  Ctx(vf::Case& c_) : c(c_) {}
  void site(const char* s) { siteName = s; c.site(s); }
  void crashed(const std::string& d) { c.fail("crash|" + siteName + "|glibcxx-assertion", d + ": the call dies on a libstdc++ assertion (out-of-range index): " + g_assertMsg); }
  Dy entry(int which, size_t i, size_t j, size_t creq) const {
    if (tiny && which == 0) return Dy(ALPHA[entA.at(i * creq + j)]);
    if (tiny && which == 1) return Dy(ALPHA[entB.at(i * creq + j)]);
    return patEntry(which, pat, i, j);
  }
  Opd opd(int which, int cls, size_t r, size_t cc) const {
    Opd o; o.cls = cls; o.m = mk(cls, r, cc);
    size_t rr = o.m->getNumberOfRows(), cr = o.m->getNumberOfColumns();
    o.ref = RM(rr, cr);
    for (size_t i = 0; i < rr; ++i) for (size_t j = 0; j < cr; ++j) { Dy v = entry(which, i, j, cc); (*o.m)(i, j) = v.d(); o.ref(i, j) = v; }
    return o;
  }
  RV vec(int which, size_t len, std::vector<double>& out) const {
    RV v(len); out.resize(len); for (size_t k = 0; k < len; ++k) { v[k] = patVec(which, pat, k); out[k] = v[k].d(); } return v;
  }
  static std::string mstr(const RM& m) {
    std::string s = "["; for (size_t i = 0; i < m.r; ++i) { s += i ? ";" : ""; for (size_t j = 0; j < m.c; ++j) s += (j ? " " : "") + dstr(m(i, j)); } return s + "]";
  }
  std::string desc(const Opd* A = nullptr, const Opd* B = nullptr) const {
    std::string s;
    if (A) s += std::string("A=") + CN[A->cls] + "Matrix " + str(rA) + "x" + str(cA) + "(reports " + str(A->ref.r) + "x" + str(A->ref.c) + ")" + mstr(A->ref) + " ";
    if (B) s += std::string("B=") + CN[B->cls] + "Matrix " + str(rB) + "x" + str(cB) + "(reports " + str(B->ref.r) + "x" + str(B->ref.c) + ")" + mstr(B->ref) + " ";
    s += std::string("O=") + CN[clsO] + "Matrix pre-state=" + PRE[pre] + (tiny ? " entries{-1,0,2}" : " pattern=" + str(pat)) + (moreFn ? " " + moreFn() : std::string());
    return s;
  }
  // verdict on raise / no raise; returns true when the result is to be compared
  typedef std::function<std::string()> DescFn;
  bool judge(const std::string& op, bool conformable, Res r, const DescFn& dfn, const char* ncClause = "nonconformable-accepted") {
    if (wantSample) c.sample(op + ": " + dfn() + " -> " + (r == OK_ ? "returned" : r == DIMEX ? "DimensionException" : "other outcome") + (conformable ? " (conformable)" : " (non-conformable)"));
    if (r == OK_ && conformable) { c.tag("computed"); return true; }
    if (r == DIMEX && !conformable) { c.tag("raised-DimensionException"); return false; }
    std::string d = dfn();
    if (r == ASSERTFAIL) { crashed(d); return false; }
    if (!conformable) {
      if (r == DIMEX) { c.tag("raised-DimensionException"); return false; }
      if (r == OK_) c.fail(op + "|" + ncClause, d + ": non-conformable operands were accepted without DimensionException");
      else c.fail(op + "|nonconformable-wrong-exception", d + ": non-conformable operands raised something other than DimensionException");
      return false;
    }
    if (r == OK_) { c.tag("computed"); return true; }
    if (r == DIMEX) c.fail(op + "|conformable-rejected", d + ": conformable operands raised DimensionException");
    else c.fail(op + "|foreign-exception", d + ": conformable operands raised an exception");
    return false;
  }
  bool cmp(const std::string& op, const char* what, const MD& got, const RM& want, int cls, const DescFn& d) {
    size_t er = want.r, ec = want.c; rep(cls, er, ec);
    if (got.getNumberOfRows() != er || got.getNumberOfColumns() != ec) {
      c.fail(op + "|dims" + what, d() + ": output reports " + str(got.getNumberOfRows()) + "x" + str(got.getNumberOfColumns()) + ", definition gives " + str(er) + "x" + str(ec));
      return false;
    }
    for (size_t i = 0; i < er; ++i) for (size_t j = 0; j < ec; ++j) {
      double g = got(i, j), w = want(i, j).d();
      if (!(g == w)) { c.fail(op + "|value" + what, d() + ": entry (" + str(i) + "," + str(j) + ") is " + vf::num(g) + ", definition gives " + vf::num(w)); return false; }
    }
    if (er * ec > 0) c.nontrivial();
    return true;
  }
};
typedef void (*OpFn)(Ctx&);

// ======================================================================================================================
// routines
// ======================================================================================================================
static void op_copy(Ctx& x) {
  const char* op = "copy(A,O)";
  Opd A = x.opd(0, x.clsA, x.rA, x.cA); MP O = mkOut(x.clsO, x.pre, A.ref.r, A.ref.c);
  x.site(op);
  Res r = call([&] { with2(*A.m, *O, [&](auto& a, auto& o) { MatrixTools::copy(a, o); }); });
  auto d = [&] { return x.desc(&A); };
  if (x.judge(op, true, r, d)) x.cmp(op, "", *O, A.ref, x.clsO, d);
}
static void op_getId(Ctx& x) {
  const char* op = "getId(n,O)";
  size_t n = (size_t)x.extra; MP O = mkOut(x.clsO, x.pre, n, n); x.moreFn = [&]() -> std::string { return "n=" + str(n); };
  x.site(op);
  Res r = call([&] { with1(*O, [&](auto& o) { MatrixTools::getId(n, o); }); });
  auto d = [&] { return x.desc(); };
  if (x.judge(op, true, r, d)) x.cmp(op, "", *O, rid(n), x.clsO, d);
}
static void op_diagVec(Ctx& x) {   // diag(vector) -> matrix and diag(scalar, n) -> matrix
  size_t n = (size_t)(x.extra / 2); bool scalar = x.extra % 2;
  const char* op = scalar ? "diag(x,n,O)" : "diag(D,O)";
  std::vector<double> D; RV rD = x.vec(0, n, D);
  if (scalar) for (size_t k = 0; k < n; ++k) { rD[k] = patVec(0, x.pat, 1); }
  MP O = mkOut(x.clsO, x.pre, n, n); x.moreFn = [&]() -> std::string { return "n=" + str(n); };
  x.site(op);
  Res r = call([&] { if (scalar) MatrixTools::diag(patVec(0, x.pat, 1).d(), n, *O); else MatrixTools::diag(D, *O); });
  auto d = [&] { return x.desc(); };
  if (x.judge(op, true, r, d)) x.cmp(op, "", *O, rdiag(rD), x.clsO, d);
}
static void op_diagOf(Ctx& x) {    // diag(matrix) -> vector; square only
  const char* op = "diag(M,v)";
  Opd A = x.opd(0, x.clsA, x.rA, x.cA);
  std::vector<double> out; if (x.pre) out.assign(9, -7777.0);
  x.moreFn = [&]() -> std::string { return x.pre ? "v pre-sized 9" : "v empty"; };
  x.site(op);
  Res r = call([&] { MatrixTools::diag(*A.m, out); });
  auto d = [&] { return x.desc(&A); };
  if (!x.judge(op, A.ref.r == A.ref.c, r, d)) return;
  if (out.size() != A.ref.r) { x.c.fail(std::string(op) + "|dims", d() + ": vector has length " + str(out.size())); return; }
  for (size_t i = 0; i < out.size(); ++i) if (!(out[i] == A.ref(i, i).d())) { x.c.fail(std::string(op) + "|value", d() + ": element " + str(i) + " is " + vf::num(out[i])); return; }
  if (!out.empty()) x.c.nontrivial();
}
static void op_scale(Ctx& x) {
  const char* op = "scale(A,a,b)";
  static const Dy as[5] = {Dy(1), Dy(-2), Dy(1), Dy(3), Dy(1, 1)}, bs[5] = {Dy(0), Dy(0), Dy(3), Dy(-1), Dy(1, 2)};
  Dy a = as[x.extra], b = bs[x.extra];
  Opd A = x.opd(0, x.clsA, x.rA, x.cA); x.moreFn = [&]() -> std::string { return "a=" + dstr(a) + " b=" + dstr(b); };
  auto d = [&] { return x.desc(&A); };
  x.site(op);
  Res r = call([&] { with1(*A.m, [&](auto& m) { if (b.n == 0) MatrixTools::scale(m, a.d()); else MatrixTools::scale(m, a.d(), b.d()); }); });
  if (!x.judge(op, true, r, d)) return;
  RM W(A.ref.r, A.ref.c); for (size_t k = 0; k < W.a.size(); ++k) W.a[k] = a * A.ref.a[k] + b;
  x.cmp(op, "", *A.m, W, A.cls, d);
}
static void op_mult(Ctx& x) {
  const char* op = "mult(A,B,O)";
  Opd A = x.opd(0, x.clsA, x.rA, x.cA), B = x.opd(1, x.clsB, x.rB, x.cB);
  MP O = mkOut(x.clsO, x.pre, A.ref.r, B.ref.c);
  x.site(op);
  Res r = call([&] { MatrixTools::mult(*A.m, *B.m, *O); });
  auto d = [&] { return x.desc(&A, &B); };
  if (x.judge(op, A.ref.c == B.ref.r, r, d)) x.cmp(op, "", *O, rmul(A.ref, B.ref), x.clsO, d);
}
// shape of an imaginary part for offset mode k (0: same as the real part)
static void imagShape(int mode, int who /*0:iA 1:iB*/, int& r, int& c) {
  switch (mode) {
    case 1: if (who == 0) r = r ? r - 1 : r + 1; break;
    case 2: if (who == 0) c = c ? c - 1 : c + 1; break;
    case 3: if (who == 1) r = r ? r - 1 : r + 1; break;
    case 4: if (who == 1) c = c ? c - 1 : c + 1; break;
    case 5: if (who == 0) { r += 1; c += 1; } break;
    default: break;
  }
}
static bool sameShape(const RM& a, const RM& b) { return a.r == b.r && a.c == b.c; }
static void op_multC(Ctx& x) {     // real/imaginary pairs
  int mode = x.extra;
  const char* op = "mult(A,iA,B,iB,O,iO)";
  int riA = x.rA, ciA = x.cA, riB = x.rB, ciB = x.cB; imagShape(mode, 0, riA, ciA); imagShape(mode, 1, riB, ciB);
  Opd A = x.opd(0, x.clsA, x.rA, x.cA), B = x.opd(1, x.clsB, x.rB, x.cB);
  Opd iA = x.opd(2, (x.clsA + x.rot) % 3, riA, ciA), iB = x.opd(3, (x.clsB + x.rot) % 3, riB, ciB);
  int clsiO = (x.clsO + x.rot) % 3;
  MP O = mkOut(x.clsO, x.pre, A.ref.r, B.ref.c), iO = mkOut(clsiO, x.pre, A.ref.r, B.ref.c);
  x.moreFn = [&]() -> std::string { return std::string("iA=") + CN[iA.cls] + " reports " + str(iA.ref.r) + "x" + str(iA.ref.c) + " iB=" + CN[iB.cls] + " reports " + str(iB.ref.r) + "x" + str(iB.ref.c) + " iO=" + CN[clsiO]; };
  bool imagOK = sameShape(A.ref, iA.ref) && sameShape(B.ref, iB.ref), inner = A.ref.c == B.ref.r;
  x.site(imagOK ? op : "mult(A,iA,B,iB,O,iO)[imaginary part of different shape]");
  Res r = call([&] { MatrixTools::mult(*A.m, *iA.m, *B.m, *iB.m, *O, *iO); });
  auto d = [&] { return x.desc(&A, &B); };
  if (!x.judge(op, inner && imagOK, r, d, inner ? "nonconformable-imaginary-part-accepted" : "nonconformable-accepted")) return;
  CM a{A.ref, iA.ref}, b{B.ref, iB.ref}; CM w = cmul(a, b);
  x.cmp(op, "", *O, w.re, x.clsO, d); x.cmp(op, "-imaginary", *iO, w.im, clsiO, d);
}
static size_t offLen(size_t n, int k) {   // k: 0 -> n, 1 -> n+1, 2 -> n-1 (n+2 when n == 0)
  return k == 0 ? n : (k == 1 ? n + 1 : (n ? n - 1 : n + 2));
}
static void op_multD(Ctx& x) {
  const char* op = "mult(A,D,B,O)";
  Opd A = x.opd(0, x.clsA, x.rA, x.cA), B = x.opd(1, x.clsB, x.rB, x.cB);
  std::vector<double> D; RV rD = x.vec(0, offLen(A.ref.c, x.extra), D); x.moreFn = [&]() -> std::string { return "|D|=" + str(D.size()); };
  MP O = mkOut(x.clsO, x.pre, A.ref.r, B.ref.c);
  x.site(op);
  Res r = call([&] { MatrixTools::mult(*A.m, D, *B.m, *O); });
  auto d = [&] { return x.desc(&A, &B); };
  if (x.judge(op, A.ref.c == B.ref.r && D.size() == A.ref.c, r, d)) x.cmp(op, "", *O, rmul(rmul(A.ref, rdiag(rD)), B.ref), x.clsO, d);
}
static void op_multCD(Ctx& x) {    // real/imaginary pairs with complex diagonal
  const char* op = "mult(A,iA,D,iD,B,iB,O,iO)";
  int v = x.extra;   // 0 conformable | 1 |D|+1 | 2 |iD|+1 | 3 |iD|-1 | 4 iA one row off | 5 iB one column off
  int riA = x.rA, ciA = x.cA, riB = x.rB, ciB = x.cB; if (v == 4) imagShape(1, 0, riA, ciA); if (v == 5) imagShape(4, 1, riB, ciB);
  Opd A = x.opd(0, x.clsA, x.rA, x.cA), B = x.opd(1, x.clsB, x.rB, x.cB);
  Opd iA = x.opd(2, (x.clsA + x.rot) % 3, riA, ciA), iB = x.opd(3, (x.clsB + x.rot) % 3, riB, ciB);
  std::vector<double> D, iD; size_t n = A.ref.c;
  RV rD = x.vec(0, offLen(n, v == 1 ? 1 : 0), D), riD = x.vec(1, offLen(n, v == 2 ? 1 : (v == 3 ? 2 : 0)), iD);
  int clsiO = (x.clsO + x.rot) % 3;
  MP O = mkOut(x.clsO, x.pre, A.ref.r, B.ref.c), iO = mkOut(clsiO, x.pre, A.ref.r, B.ref.c);
  x.moreFn = [&]() -> std::string { return std::string("iA=") + CN[iA.cls] + " reports " + str(iA.ref.r) + "x" + str(iA.ref.c) + " iB=" + CN[iB.cls] + " reports " + str(iB.ref.r) + "x" + str(iB.ref.c) + " |D|=" + str(D.size()) + " |iD|=" + str(iD.size()) + " iO=" + CN[clsiO]; };
  bool imagOK = sameShape(A.ref, iA.ref) && sameShape(B.ref, iB.ref) && iD.size() == D.size(), realOK = A.ref.c == B.ref.r && D.size() == n;
  x.site(imagOK ? op : "mult(A,iA,D,iD,B,iB,O,iO)[imaginary part of different shape]");
  Res r = call([&] { MatrixTools::mult(*A.m, *iA.m, D, iD, *B.m, *iB.m, *O, *iO); });
  auto d = [&] { return x.desc(&A, &B); };
  if (!x.judge(op, realOK && imagOK, r, d, realOK ? "nonconformable-imaginary-part-accepted" : "nonconformable-accepted")) return;
  CM a{A.ref, iA.ref}, dm{rdiag(rD), rdiag(riD)}, b{B.ref, iB.ref}; CM w = cmul(cmul(a, dm), b);
  x.cmp(op, "", *O, w.re, x.clsO, d); x.cmp(op, "-imaginary", *iO, w.im, clsiO, d);
}
static void op_multT(Ctx& x) {     // tridiagonal middle factor
  const char* op = "mult(A,D,U,L,B,O)";
  Opd A = x.opd(0, x.clsA, x.rA, x.cA), B = x.opd(1, x.clsB, x.rB, x.cB);
  long n = (long)A.ref.c, lD = n, lU = n - 1, lL = n - 1;
  // one vector length off at a time: D in {n-1,n+1}; U,L in {n-2,n,n+1}
  switch (x.extra) { case 1: lD = n - 1; break; case 2: lD = n + 1; break; case 3: lU = n - 2; break; case 4: lU = n; break; case 5: lU = n + 1; break;
                     case 6: lL = n - 2; break; case 7: lL = n; break; case 8: lL = n + 1; break; default: break; }
  bool exists = (lD >= 0 && lU >= 0 && lL >= 0);
  if (!exists && !(x.extra == 0 && n == 0)) { x.c.tag("variant-does-not-exist"); return; }
  // n == 0: there is no U of length -1, so every operand set is non-conformable; use empty U, L
  bool conf = exists && A.ref.c == B.ref.r && lD == n && lU == n - 1 && lL == n - 1;
  std::vector<double> D, U, L; RV rD = x.vec(0, (size_t)std::max(lD, 0L), D), rU = x.vec(1, (size_t)std::max(lU, 0L), U), rL = x.vec(2, (size_t)std::max(lL, 0L), L);
  x.moreFn = [&]() -> std::string { return "|D|=" + str(D.size()) + " |U|=" + str(U.size()) + " |L|=" + str(L.size()) + " D=" + vf::vstr(D) + " U=" + vf::vstr(U) + " L=" + vf::vstr(L); };
  MP O = mkOut(x.clsO, x.pre, A.ref.r, B.ref.c);
  x.site(op);
  Res r = call([&] { MatrixTools::mult(*A.m, D, U, L, *B.m, *O); });
  auto d = [&] { return x.desc(&A, &B); };
  if (x.judge(op, conf, r, d)) x.cmp(op, "", *O, rmul(rmul(A.ref, rtridiag(rD, rU, rL)), B.ref), x.clsO, d);
}
static void op_add(Ctx& x) {
  const char* op = "add(A,B)";
  Opd A = x.opd(0, x.clsA, x.rA, x.cA), B = x.opd(1, x.clsB, x.rB, x.cB);
  x.site(op);
  Res r = call([&] { with2(*A.m, *B.m, [&](auto& a, auto& b) { MatrixTools::add(a, b); }); });
  auto d = [&] { return x.desc(&A, &B); };
  if (x.judge(op, sameShape(A.ref, B.ref), r, d)) x.cmp(op, "", *A.m, radd(A.ref, B.ref), A.cls, d);
}
static void op_addx(Ctx& x) {
  const char* op = "add(A,x,B)";
  static const Dy xs[4] = {Dy(1), Dy(-3), Dy(1, 2), Dy(0)};   // x = 0: nothing is added, but the operands must still be conformable
  Dy xv = xs[x.extra]; double xd = xv.d(); x.moreFn = [&]() -> std::string { return "x=" + dstr(xv); };
  Opd A = x.opd(0, x.clsA, x.rA, x.cA), B = x.opd(1, x.clsB, x.rB, x.cB);
  x.site(op);
  Res r = call([&] { with2(*A.m, *B.m, [&](auto& a, auto& b) { MatrixTools::add(a, xd, b); }); });
  auto d = [&] { return x.desc(&A, &B); };
  if (x.judge(op, sameShape(A.ref, B.ref), r, d)) x.cmp(op, "", *A.m, radd(A.ref, B.ref, xv), A.cls, d);
}
static void op_transpose(Ctx& x) {
  const char* op = "transpose(A,O)";
  Opd A = x.opd(0, x.clsA, x.rA, x.cA); MP O = mkOut(x.clsO, x.pre, A.ref.c, A.ref.r);
  x.site(op);
  Res r = call([&] { with2(*A.m, *O, [&](auto& a, auto& o) { MatrixTools::transpose(a, o); }); });
  auto d = [&] { return x.desc(&A); };
  if (x.judge(op, true, r, d)) x.cmp(op, "", *O, rtrans(A.ref), x.clsO, d);
}
static void op_pow(Ctx& x) {       // template on ONE matrix class: A and O share it
  const char* op = "pow(A,p,O)";
  size_t p = (size_t)x.extra; x.moreFn = [&]() -> std::string { return "p=" + str(p); }; x.clsO = x.clsA;
  Opd A = x.opd(0, x.clsA, x.rA, x.cA); MP O = mkOut(x.clsA, x.pre, A.ref.r, A.ref.r);
  x.site(op);
  Res r = call([&] { with1(*A.m, [&](auto& a) { typedef typename std::decay<decltype(a)>::type T; MatrixTools::pow(a, p, dynamic_cast<T&>(*O)); }); });
  auto d = [&] { return x.desc(&A); };
  if (x.judge(op, A.ref.r == A.ref.c, r, d)) x.cmp(op, "", *O, rpow(A.ref, p), x.clsA, d);
}
static void op_taylor(Ctx& x) {    // vO is a vector of RowMatrix; A RowMatrix (deduced) or any class through the abstract interface
  const char* op = "Taylor(A,p,vO)";
  size_t p = (size_t)x.extra; x.clsO = 0;
  Opd A = x.opd(0, x.clsA, x.rA, x.cA);
  std::vector<RowMatrix<double>> vO;
  if (x.pre == 1) { vO.resize(1, RowMatrix<double>(2, 3)); garbage(vO[0]); }
  if (x.pre == 2) { vO.resize(p + 3, RowMatrix<double>(A.ref.r + 1, A.ref.r + 2)); for (auto& m : vO) garbage(m); }
  int vpre = x.pre; x.pre = 0;
  x.moreFn = [&]() -> std::string { return "p=" + str(p) + " vO pre-state: " + (vpre == 0 ? "empty" : vpre == 1 ? "one 2x3 matrix" : "p+3 larger matrices"); };
  x.site(op);
  Res r = call([&] { if (x.clsA == 0) MatrixTools::Taylor(dynamic_cast<RowMatrix<double>&>(*A.m), p, vO); else MatrixTools::Taylor<MD, double>(*A.m, p, vO); });
  auto d = [&] { return x.desc(&A); };
  if (!x.judge(op, A.ref.r == A.ref.c, r, d)) return;
  if (vO.size() != p + 1) { x.c.fail(std::string(op) + "|dims", d() + ": vO has " + str(vO.size()) + " matrices, p+1 = " + str(p + 1)); return; }
  for (size_t k = 0; k <= p; ++k) if (!x.cmp(op, "", vO[k], rpow(A.ref, k), 0, [&] { return d() + " (power " + str(k) + ")"; })) return;
}
static void op_kron(Ctx& x) {
  const char* op = "kroneckerMult(A,B,O)";
  Opd A = x.opd(0, x.clsA, x.rA, x.cA), B = x.opd(1, x.clsB, x.rB, x.cB);
  bool check = x.pre != 4; MP O = mkOut(x.clsO, check ? x.pre : 3, A.ref.r * B.ref.r, A.ref.c * B.ref.c);
  x.site(op);
  Res r = call([&] { if (check) MatrixTools::kroneckerMult(*A.m, *B.m, *O); else MatrixTools::kroneckerMult(*A.m, *B.m, *O, false); });
  auto d = [&] { return x.desc(&A, &B); };
  if (x.judge(op, true, r, d)) x.cmp(op, "", *O, rkron(A.ref, B.ref), x.clsO, d);
}
static void op_kronDiag(Ctx& x) {
  const char* op = "kroneckerMult(A,dim,v,O)";
  size_t dim = (size_t)(x.extra / 2); Dy v = (x.extra % 2) ? Dy(-1, 1) : Dy(3); x.moreFn = [&]() -> std::string { return "dim=" + str(dim) + " v=" + dstr(v); };
  Opd A = x.opd(0, x.clsA, x.rA, x.cA);
  bool check = x.pre != 4; MP O = mkOut(x.clsO, check ? x.pre : 3, A.ref.r * dim, A.ref.c * dim);
  double vd = v.d();
  x.site(op);
  Res r = call([&] { if (check) MatrixTools::kroneckerMult(*A.m, dim, vd, *O); else MatrixTools::kroneckerMult(*A.m, dim, vd, *O, false); });
  auto d = [&] { return x.desc(&A); };
  if (x.judge(op, true, r, d)) x.cmp(op, "", *O, rkron(A.ref, rdiag(RV(dim, v))), x.clsO, d);
}
static void op_kronRepl(Ctx& x) {
  const char* op = "kroneckerMult(A,B,dA,dB,O)";
  Dy dA = x.extra ? Dy(0) : Dy(7), dB = x.extra ? Dy(1, 2) : Dy(-5); x.moreFn = [&]() -> std::string { return "dA=" + dstr(dA) + " dB=" + dstr(dB); };
  Opd A = x.opd(0, x.clsA, x.rA, x.cA), B = x.opd(1, x.clsB, x.rB, x.cB);
  bool check = x.pre != 4; MP O = mkOut(x.clsO, check ? x.pre : 3, A.ref.r * B.ref.r, A.ref.c * B.ref.c);
  double a = dA.d(), b = dB.d();
  x.site(op);
  Res r = call([&] { if (check) MatrixTools::kroneckerMult(*A.m, *B.m, a, b, *O); else MatrixTools::kroneckerMult(*A.m, *B.m, a, b, *O, false); });
  auto d = [&] { return x.desc(&A, &B); };
  if (x.judge(op, true, r, d)) x.cmp(op, "", *O, rkron(rdiagrepl(A.ref, dA), rdiagrepl(B.ref, dB)), x.clsO, d);
}
static void op_had(Ctx& x) {
  const char* op = "hadamardMult(A,B,O)";
  Opd A = x.opd(0, x.clsA, x.rA, x.cA), B = x.opd(1, x.clsB, x.rB, x.cB);
  MP O = mkOut(x.clsO, x.pre, A.ref.r, A.ref.c);
  x.site(op);
  Res r = call([&] { MatrixTools::hadamardMult(*A.m, *B.m, *O); });
  auto d = [&] { return x.desc(&A, &B); };
  if (x.judge(op, sameShape(A.ref, B.ref), r, d)) x.cmp(op, "", *O, rhad(A.ref, B.ref), x.clsO, d);
}
static void op_hadC(Ctx& x) {
  const char* op = "hadamardMult(A,iA,B,iB,O,iO)";
  int mode = x.extra;
  int riA = x.rA, ciA = x.cA, riB = x.rB, ciB = x.cB; imagShape(mode, 0, riA, ciA); imagShape(mode, 1, riB, ciB);
  Opd A = x.opd(0, x.clsA, x.rA, x.cA), B = x.opd(1, x.clsB, x.rB, x.cB);
  Opd iA = x.opd(2, (x.clsA + x.rot) % 3, riA, ciA), iB = x.opd(3, (x.clsB + x.rot) % 3, riB, ciB);
  int clsiO = (x.clsO + x.rot) % 3;
  MP O = mkOut(x.clsO, x.pre, A.ref.r, A.ref.c), iO = mkOut(clsiO, x.pre, A.ref.r, A.ref.c);
  x.moreFn = [&]() -> std::string { return std::string("iA=") + CN[iA.cls] + " reports " + str(iA.ref.r) + "x" + str(iA.ref.c) + " iB=" + CN[iB.cls] + " reports " + str(iB.ref.r) + "x" + str(iB.ref.c) + " iO=" + CN[clsiO]; };
  bool imagOK = sameShape(A.ref, iA.ref) && sameShape(B.ref, iB.ref), realOK = sameShape(A.ref, B.ref);
  x.site(imagOK ? op : "hadamardMult(A,iA,B,iB,O,iO)[imaginary part of different shape]");
  Res r = call([&] { MatrixTools::hadamardMult(*A.m, *iA.m, *B.m, *iB.m, *O, *iO); });
  auto d = [&] { return x.desc(&A, &B); };
  if (!x.judge(op, realOK && imagOK, r, d, realOK ? "nonconformable-imaginary-part-accepted" : "nonconformable-accepted")) return;
  CM a{A.ref, iA.ref}, b{B.ref, iB.ref}; CM w = chad(a, b);
  x.cmp(op, "", *O, w.re, x.clsO, d); x.cmp(op, "-imaginary", *iO, w.im, clsiO, d);
}
static void op_hadV(Ctx& x) {
  const char* op = "hadamardMult(A,v,O,row)";
  bool row = x.extra % 2; int off = x.extra / 2;
  Opd A = x.opd(0, x.clsA, x.rA, x.cA);
  size_t n = row ? A.ref.r : A.ref.c;
  std::vector<double> V; RV rV = x.vec(0, offLen(n, off), V); x.moreFn = [&]() -> std::string { return std::string("row=") + (row ? "true" : "false") + " |v|=" + str(V.size()); };
  MP O = mkOut(x.clsO, x.pre, A.ref.r, A.ref.c);
  x.site(op);
  Res r = call([&] { if (row) MatrixTools::hadamardMult(*A.m, V, *O); else MatrixTools::hadamardMult(*A.m, V, *O, false); });
  auto d = [&] { return x.desc(&A); };
  if (!x.judge(op, V.size() == n, r, d)) return;
  RM W(A.ref.r, A.ref.c); for (size_t i = 0; i < W.r; ++i) for (size_t j = 0; j < W.c; ++j) W(i, j) = A.ref(i, j) * rV[row ? i : j];
  x.cmp(op, "", *O, W, x.clsO, d);
}
static void op_dsum(Ctx& x) {
  const char* op = "directSum(A,B,O)";
  Opd A = x.opd(0, x.clsA, x.rA, x.cA), B = x.opd(1, x.clsB, x.rB, x.cB);
  MP O = mkOut(x.clsO, x.pre, A.ref.r + B.ref.r, A.ref.c + B.ref.c);
  x.site(op);
  Res r = call([&] { MatrixTools::directSum(*A.m, *B.m, *O); });
  auto d = [&] { return x.desc(&A, &B); };
  if (x.judge(op, true, r, d)) x.cmp(op, "", *O, rdsum({&A.ref, &B.ref}), x.clsO, d);
}
static void op_covar(Ctx& x) {
  const char* op = "covar(A,O)";
  Opd A = x.opd(0, x.clsA, x.rA, x.cA);
  size_t rr = A.ref.r, n = A.ref.c;
  if (n == 0) { x.c.tag("not-judged:covariance-of-zero-observations"); return; }
  MP O = mkOut(x.clsO, x.pre, rr, rr);
  x.site(op);
  Res r = call([&] { MatrixTools::covar(*A.m, *O); });
  auto d = [&] { return x.desc(&A); };
  if (!x.judge(op, true, r, d)) return;
  size_t er = rr, ec = rr; rep(x.clsO, er, ec);
  if (O->getNumberOfRows() != er || O->getNumberOfColumns() != ec) { x.c.fail(std::string(op) + "|dims", d() + ": output reports " + str(O->getNumberOfRows()) + "x" + str(O->getNumberOfColumns())); return; }
  // population covariance C_ij = S_ij/n - (s_i/n)(s_j/n), S = A A^T, s = row sums: exact rational (n S_ij - s_i s_j)/n^2.
  // The code evaluates fl(fl(S_ij*fl(1/n)) - fl(fl(s_i/n)*fl(s_j/n))): at most 2 roundings on the first term, 3 on the second, 1 on the
  // difference => |error| <= 4u(|S_ij|/n + |s_i s_j|/n^2)(1+O(u)), u = 2^-53; we allow 8u of that sum. Exact when n is a power of two.
  RM S = rmul(A.ref, rtrans(A.ref)); RV s(rr); for (size_t i = 0; i < rr; ++i) for (size_t j = 0; j < n; ++j) s[i] = s[i] + A.ref(i, j);
  bool pow2 = (n & (n - 1)) == 0;
  for (size_t i = 0; i < er; ++i) for (size_t j = 0; j < ec; ++j) {
    Dy num = Dy((long long)n) * S(i, j) - s[i] * s[j];
    double want = num.d() / ((double)n * (double)n), g = (*O)(i, j);
    double mag = std::fabs(S(i, j).d()) / (double)n + std::fabs((s[i] * s[j]).d()) / ((double)n * (double)n);
    double tol = pow2 ? 0.0 : 8.0 * std::ldexp(1.0, -53) * mag;
    if (!(std::fabs(g - want) <= tol)) { x.c.fail(std::string(op) + "|value", d() + ": entry (" + str(i) + "," + str(j) + ") is " + vf::num(g) + ", definition gives " + vf::num(want) + " (allowed " + vf::num(tol) + ")"); return; }
  }
  if (er) x.c.nontrivial();
}
static void op_extrema(Ctx& x) {   // whichMax, whichMin, max, min
  Opd A = x.opd(0, x.clsA, x.rA, x.cA);
  size_t cells = A.ref.r * A.ref.c;
  size_t k = 0;
  if (x.extra > 0) {   // plant a peak at cell k-1 and a trough at the mirrored cell
    k = (size_t)x.extra - 1; if (k >= cells) { x.c.tag("variant-does-not-exist"); return; }
    A.ref.a[k] = Dy(1000); (*A.m)(k / A.ref.c, k % A.ref.c) = 1000.0;
    size_t t = cells - 1 - k; if (t != k) { A.ref.a[t] = Dy(-1000); (*A.m)(t / A.ref.c, t % A.ref.c) = -1000.0; }
    x.moreFn = [&]() -> std::string { return "peak at cell " + str(k); };
  }
  auto d = [&] { return x.desc(&A); };
  std::vector<size_t> pM, pm; double vM = 0, vm = 0;
  x.site("whichMax(A)"); Res r1 = call([&] { with1(*A.m, [&](auto& a) { pM = MatrixTools::whichMax(a); }); });
  x.site("whichMin(A)"); Res r2 = call([&] { with1(*A.m, [&](auto& a) { pm = MatrixTools::whichMin(a); }); });
  x.site("max(A)"); Res r3 = call([&] { vM = MatrixTools::max(*A.m); });
  x.site("min(A)"); Res r4 = call([&] { vm = MatrixTools::min(*A.m); });
  if (r1 == ASSERTFAIL || r2 == ASSERTFAIL || r3 == ASSERTFAIL || r4 == ASSERTFAIL) { x.siteName = "whichMax+whichMin+max+min"; x.crashed(d()); return; }
  if (r1 != OK_ || r2 != OK_ || r3 != OK_ || r4 != OK_) { x.c.fail("extrema|foreign-exception", d()); return; }
  if (cells == 0) { x.c.tag("not-judged:extremum-of-empty-matrix"); return; }
  x.c.tag("computed");
  Dy M = A.ref.a[0], m = A.ref.a[0]; for (auto& e : A.ref.a) { if (M < e) M = e; if (e < m) m = e; }
  if (pM.size() != 2 || pM[0] >= A.ref.r || pM[1] >= A.ref.c || !(A.ref(pM[0], pM[1]) == M)) x.c.fail("whichMax(A)|value", d() + ": returned " + vf::vstr(pM) + ", maximum is " + dstr(M));
  if (pm.size() != 2 || pm[0] >= A.ref.r || pm[1] >= A.ref.c || !(A.ref(pm[0], pm[1]) == m)) x.c.fail("whichMin(A)|value", d() + ": returned " + vf::vstr(pm) + ", minimum is " + dstr(m));
  if (!(vM == M.d())) x.c.fail("max(A)|value", d() + ": returned " + vf::num(vM) + ", maximum is " + dstr(M));
  if (!(vm == m.d())) x.c.fail("min(A)|value", d() + ": returned " + vf::num(vm) + ", minimum is " + dstr(m));
  x.c.nontrivial();
}
static void op_sum(Ctx& x) {
  const char* op = "sumElements(A)";
  Opd A = x.opd(0, x.clsA, x.rA, x.cA);
  double g = 0; x.site(op);
  Res r = call([&] { g = MatrixTools::sumElements(*A.m); });
  auto d = [&] { return x.desc(&A); };
  if (!x.judge(op, true, r, d)) return;
  Dy s; for (auto& e : A.ref.a) s = s + e;
  if (!(g == s.d())) x.c.fail(std::string(op) + "|value", d() + ": returned " + vf::num(g) + ", definition gives " + dstr(s));
  if (!A.ref.a.empty()) x.c.nontrivial();
}
static void op_isSym(Ctx& x) {
  const char* op = "isSymmetric(A)";
  Opd A = x.opd(0, x.clsA, x.rA, x.cA); size_t pi = 0, pj = 0;
  if (!x.tiny && A.ref.r == A.ref.c) {   // symmetric base, optionally one upper-triangle cell perturbed
    size_t n = A.ref.r;
    for (size_t i = 0; i < n; ++i) for (size_t j = 0; j < n; ++j) { Dy v = patEntry(0, x.pat, std::min(i, j), std::max(i, j)); A.ref(i, j) = v; (*A.m)(i, j) = v.d(); }
    if (x.extra > 0) {
      size_t k = (size_t)x.extra - 1, cnt = 0; bool done = false;
      for (size_t i = 0; i < n && !done; ++i) for (size_t j = i + 1; j < n && !done; ++j) if (cnt++ == k) { A.ref(i, j) = A.ref(i, j) + Dy(1); (*A.m)(i, j) = A.ref(i, j).d(); done = true; pi = i; pj = j; }
      x.moreFn = [&]() -> std::string { return "asymmetry at (" + str(pi) + "," + str(pj) + ")"; };
      if (!done) { x.c.tag("variant-does-not-exist"); return; }
    }
  } else if (!x.tiny && x.extra > 0) { x.c.tag("variant-does-not-exist"); return; }
  bool g = false; x.site(op);
  Res r = call([&] { with1(*A.m, [&](auto& a) { g = MatrixTools::isSymmetric(a); }); });
  auto d = [&] { return x.desc(&A); };
  if (!x.judge(op, true, r, d)) return;
  bool w = A.ref.r == A.ref.c; for (size_t i = 0; w && i < A.ref.r; ++i) for (size_t j = 0; j < A.ref.c; ++j) if (!(A.ref(i, j) == A.ref(j, i))) w = false;
  if (g != w) x.c.fail(std::string(op) + "|value", d() + ": returned " + str(g) + ", definition gives " + str(w));
  x.c.tag(w ? "symmetric" : "not-symmetric");
  if (A.ref.r > 1 && A.ref.r == A.ref.c) x.c.nontrivial();
}

// ======================================================================================================================
// space builders
// ======================================================================================================================
struct OpDef {
  const char* name; OpFn fn; bool usesA, usesB; int nClsA, nClsB, nClsO, nRot, nPre, nPat, nExtra; int tinyExtra; /* 0: no tiny space */
};
// Lattice spaces. When the full product (classes x rot x pre-state x pattern x parameter x shapes) is small it is one space ":full".
// Otherwise it is split into two complete products over ALL shape pairs:
//   ":cube"     every storage-class combination (x rot) x pre-state in {unsized, too large} (thorough: all four) x pattern 0, parameter 0
//   ":variants" every pre-state x pattern x parameter, with the three mixed storage assignments (A,B,O) = (s,s+1,s+2) mod 3, rot 1
static void latticeSpace(vf::Runner& R, const OpDef& o, int N, bool th) {
  int s = N + 1; OpFn fn = o.fn;
  std::vector<int> shapes = {o.usesB ? s : 1, o.usesB ? s : 1, o.usesA ? s : 1, o.usesA ? s : 1};
  std::vector<int> full = {o.nClsA, o.nClsB, o.nClsO, o.nRot, o.nPre, o.nPat, o.nExtra}; full.insert(full.end(), shapes.begin(), shapes.end());
  if (vf::product(full) <= 150000) {
    R.space(std::string(o.name) + ":full:shapes<=" + str(N), vf::product(full), [=](uint64_t idx, vf::Case& c) {
      std::vector<int> d = vf::digits(idx, full);
      Ctx x(c); x.clsA = d[0]; x.clsB = d[1]; x.clsO = d[2]; x.rot = d[3]; x.pre = d[4]; x.pat = d[5]; x.extra = d[6]; x.cB = d[7]; x.rB = d[8]; x.cA = d[9]; x.rA = d[10];
      x.wantSample = (idx % 20011 == 10007);
      fn(x);
    }, 5.0);
    return;
  }
  std::vector<int> preV = th ? std::vector<int>{0, 1, 2, 3} : std::vector<int>{0, 2}, patV = std::vector<int>{0};
  if (o.nPre == 1) preV = {0};
  if (o.nPat == 1) patV = {0};
  std::vector<int> cube = {o.nClsA, o.nClsB, o.nClsO, o.nRot, (int)preV.size(), (int)patV.size()}; cube.insert(cube.end(), shapes.begin(), shapes.end());
  R.space(std::string(o.name) + ":cube:pre" + str(preV.size()) + ":pat" + str(patV.size()) + ":shapes<=" + str(N), vf::product(cube), [=](uint64_t idx, vf::Case& c) {
    std::vector<int> d = vf::digits(idx, cube);
    Ctx x(c); x.clsA = d[0]; x.clsB = d[1]; x.clsO = d[2]; x.rot = d[3]; x.pre = preV[(size_t)d[4]]; x.pat = patV[(size_t)d[5]]; x.extra = 0; x.cB = d[6]; x.rB = d[7]; x.cA = d[8]; x.rA = d[9];
    x.wantSample = (idx % 60013 == 30011);
    fn(x);
  }, 5.0);
  std::vector<int> var = {3, o.nPre, o.nPat, o.nExtra}; var.insert(var.end(), shapes.begin(), shapes.end());
  bool oIsA = (o.nClsO == 1); int rot = o.nRot > 1 ? 1 : 0;
  R.space(std::string(o.name) + ":variants:shapes<=" + str(N), vf::product(var), [=](uint64_t idx, vf::Case& c) {
    std::vector<int> d = vf::digits(idx, var);
    Ctx x(c); x.clsA = d[0]; x.clsB = (d[0] + 1) % 3; x.clsO = oIsA ? d[0] : (d[0] + 2) % 3; x.rot = rot; x.pre = d[1]; x.pat = d[2]; x.extra = d[3]; x.cB = d[4]; x.rB = d[5]; x.cA = d[6]; x.rA = d[7];
    x.wantSample = (idx % 60013 == 30011);
    fn(x);
  }, 5.0);
}
// tiny spaces: all entry assignments over {-1,0,2} for every shape (pair) up to 2x2; three mixed storage assignments
struct TinyCell { int rA, cA, rB, cB; uint64_t first, count; };
static std::vector<TinyCell> tinyCells(bool usesB, uint64_t& total) {
  std::vector<TinyCell> v; total = 0;
  for (int rA = 0; rA <= 2; ++rA) for (int cA = 0; cA <= 2; ++cA) for (int rB = 0; rB <= (usesB ? 2 : 0); ++rB) for (int cB = 0; cB <= (usesB ? 2 : 0); ++cB) {
    uint64_t n = 1; for (int k = 0; k < rA * cA + rB * cB; ++k) n *= 3;
    v.push_back({rA, cA, rB, cB, total, n}); total += n;
  }
  return v;
}
static void tinySpace(vf::Runner& R, const OpDef& o) {
  uint64_t total = 0; std::vector<TinyCell> cells = tinyCells(o.usesB, total);
  OpFn fn = o.fn; int nExtra = o.tinyExtra; int rot = o.nRot > 1 ? 1 : 0; bool sameCls = (o.nClsO == 1 && o.nClsB == 1);
  R.space(std::string(o.name) + ":entries{-1,0,2}:shapes<=2", total * 3 * (uint64_t)nExtra, [=](uint64_t idx, vf::Case& c) {
    int st = (int)(idx % 3); idx /= 3; int extra = (int)(idx % (uint64_t)nExtra); idx /= (uint64_t)nExtra;
    size_t k = 0; while (k + 1 < cells.size() && cells[k + 1].first <= idx) ++k;
    const TinyCell& t = cells[k]; uint64_t e = idx - t.first;
    Ctx x(c); x.tiny = true; x.rA = t.rA; x.cA = t.cA; x.rB = t.rB; x.cB = t.cB; x.extra = extra; x.pre = 2; x.pat = 0; x.rot = rot;
    x.clsA = st; x.clsB = (st + 1) % 3; x.clsO = sameCls ? st : (st + 2) % 3;
    x.entA.resize((size_t)(t.rA * t.cA)); x.entB.resize((size_t)(t.rB * t.cB));
    for (auto& q : x.entA) { q = (int)(e % 3); e /= 3; } for (auto& q : x.entB) { q = (int)(e % 3); e /= 3; }
    fn(x);
  }, 5.0);
}

// directSum of a list of up to three matrices: lists of length <= 2 over all shapes 0..N, lists of length 3 over shapes 0..N3
static void dsumListSpace(vf::Runner& R, int N, int N3) {
  uint64_t S = (uint64_t)(N + 1) * (uint64_t)(N + 1), S3 = (uint64_t)(N3 + 1) * (uint64_t)(N3 + 1), lists = 1 + S + S * S + S3 * S3 * S3;
  R.space("directSum(list,O):len<=2:shapes<=" + str(N) + ":len3:shapes<=" + str(N3), lists * 108, [=](uint64_t idx, vf::Case& c) {
    std::vector<int> d = vf::digits(idx % 108, {3, 3, 3, 2, 2}); uint64_t l = idx / 108;
    int c0 = d[0], rot = d[1]; Ctx x(c); x.clsO = d[2]; x.pre = d[3] ? 2 : 0; x.pat = d[4] ? 3 : 0;
    int len = 0; uint64_t base = S; int side = N + 1;
    if (l >= 1) { l -= 1; len = 1; if (l >= S) { l -= S; len = 2; if (l >= S * S) { l -= S * S; len = 3; base = S3; side = N3 + 1; } } }
    std::vector<Opd> ops; std::string ds = "list:";
    for (int k = 0; k < len; ++k) { uint64_t sh = l % base; l /= base; int r = (int)(sh / (uint64_t)side), cc = (int)(sh % (uint64_t)side);
      ops.push_back(x.opd(k, (c0 + k * rot) % 3, (size_t)r, (size_t)cc));
      ds += std::string(" ") + CN[ops.back().cls] + " " + str(r) + "x" + str(cc) + "(reports " + str(ops.back().ref.r) + "x" + str(ops.back().ref.c) + ")" + Ctx::mstr(ops.back().ref); }
    std::vector<MD*> vA; std::vector<const RM*> vR; for (auto& o : ops) { vA.push_back(o.m.get()); vR.push_back(&o.ref); }
    RM W = rdsum(vR); MP O = mkOut(x.clsO, x.pre, W.r, W.c); x.moreFn = [&]() -> std::string { return ds; };
    const char* op = "directSum(list,O)";
    x.site(op);
    Res r = call([&] { MatrixTools::directSum(vA, *O); });
    auto dd = [&] { return x.desc(); };
    if (x.judge(op, true, r, dd)) x.cmp(op, "", *O, W, x.clsO, dd);
  }, 5.0);
}

// ======================================================================================================================
// linear assignment
// ======================================================================================================================
static void lapCase(vf::Case& c, int cls, size_t n, const std::vector<Dy>& cost, const std::string& what, bool wantSample = false) {
  MP C = mk(cls, n, n);
  for (size_t i = 0; i < n; ++i) for (size_t j = 0; j < n; ++j) (*C)(i, j) = cost[i * n + j].d();
  std::vector<int> rowSol(n, -7), colSol(n, -7); std::vector<double> u(n, -7777.0), v(n, -7777.0);
  double got = 0;
  auto d = [&]() { RM m(n, n); m.a = cost; return std::string(CN[cls]) + "Matrix " + what + " cost=" + Ctx::mstr(m) + " rowSol=" + vf::vstr(rowSol) + " colSol=" + vf::vstr(colSol) + " u=" + vf::vstr(u) + " v=" + vf::vstr(v) + " returned=" + vf::num(got); };
  c.site("lap");
  Res r = call([&] { got = MatrixTools::lap(*C, rowSol, colSol, u, v); });
  if (r == ASSERTFAIL) { c.fail("crash|lap|glibcxx-assertion", d() + ": the call dies on a libstdc++ assertion (out-of-range index): " + g_assertMsg); return; }
  if (r != OK_) { c.fail("lap|exception", d()); return; }
  c.tag("lap-returned");
  // permutation
  std::vector<int> seen(n, 0); bool perm = true;
  for (size_t i = 0; i < n; ++i) { int j = rowSol[i]; if (j < 0 || (size_t)j >= n || seen[(size_t)j]++) { perm = false; break; } }
  if (!perm) { c.fail("lap|rowSol-not-a-permutation", d()); return; }
  for (size_t i = 0; i < n; ++i) if (colSol[(size_t)rowSol[i]] != (int)i) { c.fail("lap|colSol-not-inverse-of-rowSol", d()); return; }
  Dy tot; for (size_t i = 0; i < n; ++i) tot = tot + cost[i * n + (size_t)rowSol[i]];
  if (!(got == tot.d())) { c.fail("lap|returned-cost-differs-from-assignment-cost", d()); return; }
  // optimality over all n! permutations
  std::vector<size_t> p(n); for (size_t i = 0; i < n; ++i) p[i] = i;
  Dy best; bool first = true;
  do { Dy s; for (size_t i = 0; i < n; ++i) s = s + cost[i * n + p[i]]; if (first || s < best) { best = s; first = false; } } while (std::next_permutation(p.begin(), p.end()));
  if (!(tot == best)) { c.fail("lap|cost-not-minimal", d() + " minimum over all permutations=" + dstr(best)); return; }
  // dual certificate (all quantities are dyadic and small: double arithmetic on them is exact)
  for (size_t i = 0; i < n; ++i) if (!std::isfinite(u[i]) || !std::isfinite(v[i])) { c.fail("lap|dual-variables-not-finite", d()); return; }
  double su = 0; for (size_t i = 0; i < n; ++i) su += u[i] + v[i];
  for (size_t i = 0; i < n; ++i) for (size_t j = 0; j < n; ++j) {
    double cij = cost[i * n + j].d();
    if (!(u[i] + v[j] <= cij)) { c.fail("lap|dual-infeasible", d() + " at (" + str(i) + "," + str(j) + ")"); return; }
    if ((size_t)rowSol[i] == j && !(u[i] + v[j] == cij)) { c.fail("lap|dual-not-tight-on-assignment", d() + " at (" + str(i) + "," + str(j) + ")"); return; }
  }
  if (!(su == tot.d())) { c.fail("lap|dual-objective-differs-from-cost", d()); return; }
  if (n >= 2) c.nontrivial();
  if (wantSample) c.sample("lap: " + d() + " = brute-force minimum, duals certify");
}
static const Dy LAPA[2][4] = {{Dy(0), Dy(1), Dy(2), Dy(3)}, {Dy(-3, 1), Dy(1, 2), Dy(3), Dy(5)}};
// all n x n matrices, n in nLo..nHi, over the first q letters of alphabet al, in each storage class
static void lapAllSpace(vf::Runner& R, const std::string& name, int nLo, int nHi, int q, int al, double timeout) {
  std::vector<uint64_t> first; uint64_t total = 0;
  for (int n = nLo; n <= nHi; ++n) { first.push_back(total); uint64_t k = 1; for (int e = 0; e < n * n; ++e) k *= (uint64_t)q; total += k; }
  R.space(name, total * 3, [=](uint64_t idx, vf::Case& c) {
    bool smp = (idx % 20011 == 10007);
    int cls = (int)(idx % 3); idx /= 3;
    size_t k = 0; while (k + 1 < first.size() && first[k + 1] <= idx) ++k;
    size_t n = (size_t)nLo + k; uint64_t e = idx - first[k];
    std::vector<Dy> cost(n * n); for (auto& x : cost) { x = LAPA[al][e % (uint64_t)q]; e /= (uint64_t)q; }
    lapCase(c, cls, n, cost, "n=" + str(n), smp);
  }, timeout);
}
// structured families for larger n
static void lapFamilySpace(vf::Runner& R, int nLo, int nHi, int nFnHi, double timeout) {
  struct Blk { int n, fam; uint64_t first, count; };
  std::vector<Blk> blks; uint64_t total = 0;
  for (int n = nLo; n <= nHi; ++n) {
    uint64_t f = 1; for (int k = 2; k <= n; ++k) f *= (uint64_t)k;
    blks.push_back({n, 0, total, f}); total += f;              // permutation costs
    blks.push_back({n, 1, total, 12}); total += 12;            // closed forms (rank one, constant, Monge, ...) x {integer, dyadic}
    if (n <= nFnHi) { uint64_t g = 1; for (int k = 0; k < n; ++k) g *= (uint64_t)n; blks.push_back({n, 2, total, g}); total += g; }   // one cheap entry per row
  }
  R.space("lap:families:n" + str(nLo) + ".." + str(nHi) + ":rowfn<=" + str(nFnHi), total * 3, [=](uint64_t idx, vf::Case& c) {
    int cls = (int)(idx % 3); idx /= 3;
    size_t b = 0; while (b + 1 < blks.size() && blks[b + 1].first <= idx) ++b;
    size_t n = (size_t)blks[b].n; uint64_t e = idx - blks[b].first; std::vector<Dy> cost(n * n); std::string what;
    if (blks[b].fam == 0) {
      std::vector<size_t> p(n); for (size_t i = 0; i < n; ++i) p[i] = i;
      for (uint64_t k = 0; k < e; ++k) std::next_permutation(p.begin(), p.end());
      for (size_t i = 0; i < n; ++i) for (size_t j = 0; j < n; ++j) cost[i * n + j] = (j == p[i]) ? Dy(0) : Dy(1 + (long long)((i + j) % 3));
      what = "zero-cost permutation, n=" + str(n);
    } else if (blks[b].fam == 1) {
      int f = (int)(e % 6); bool dy = e >= 6;
      for (size_t i = 0; i < n; ++i) for (size_t j = 0; j < n; ++j) {
        long long I = (long long)i, J = (long long)j, N = (long long)n, v2 = 0;
        switch (f) { case 0: v2 = (I + 1) * (J + 1); break; case 1: v2 = -(I + 1) * (J + 1); break; case 2: v2 = (I + 1) * (N - J); break;
                     case 3: v2 = 3; break; case 4: v2 = (I > J ? I - J : J - I); break; default: v2 = (I - J) * (I - J) - 2 * I; break; }
        cost[i * n + j] = dy ? Dy(v2 - 3, 2) : Dy(v2);
      }
      what = "closed form " + str(f) + (dy ? "/4" : "") + ", n=" + str(n);
    } else {
      for (size_t i = 0; i < n; ++i) { size_t fi = (size_t)(e % n); e /= n; for (size_t j = 0; j < n; ++j) cost[i * n + j] = (j == fi) ? Dy(0) : Dy(2); }
      what = "one cheap entry per row, n=" + str(n);
    }
    lapCase(c, cls, n, cost, what);
  }, timeout);
}

int main(int argc, char** argv) {
  vf::Runner R(argc, argv, "C04");
  bool th = R.thorough();
  int N = th ? 7 : 5;
  int cells = (N + 1) * (N + 1), pairs = N * (N + 1) / 2;
  //                 name                              fn           A      B      cA cB cO rot pre pat extra        tinyExtra
  std::vector<OpDef> ops = {
    {"copy(A,O)",                         op_copy,     true,  false, 3, 1, 3, 1, 4, 4, 1,           1},
    {"getId(n,O)",                        op_getId,    false, false, 1, 1, 3, 1, 4, 1, N + 1,       0},
    {"diag(D,O)+diag(x,n,O)",             op_diagVec,  false, false, 1, 1, 3, 1, 4, 4, 2 * (N + 1), 0},
    {"diag(M,v)",                         op_diagOf,   true,  false, 3, 1, 1, 1, 2, 4, 1,           1},
    {"scale(A,a,b)",                      op_scale,    true,  false, 3, 1, 1, 1, 1, 4, 5,           5},
    {"mult(A,B,O)",                       op_mult,     true,  true,  3, 3, 3, 1, 4, 4, 1,           1},
    {"mult(A,iA,B,iB,O,iO)",              op_multC,    true,  true,  3, 3, 3, 3, 4, 2, 6,           1},
    {"mult(A,D,B,O)",                     op_multD,    true,  true,  3, 3, 3, 1, 4, 4, 3,           1},
    {"mult(A,iA,D,iD,B,iB,O,iO)",         op_multCD,   true,  true,  3, 3, 3, 3, 4, 3, 6,           1},   // pattern 2 has diagonal entries that are zero in one part only
    {"mult(A,D,U,L,B,O)",                 op_multT,    true,  true,  3, 3, 3, 1, 4, 2, 9,           1},
    {"add(A,B)",                          op_add,      true,  true,  3, 3, 1, 1, 1, 4, 1,           1},
    {"add(A,x,B)",                        op_addx,     true,  true,  3, 3, 1, 1, 1, 4, 4,           4},
    {"transpose(A,O)",                    op_transpose, true, false, 3, 1, 3, 1, 4, 4, 1,           1},
    {"pow(A,p,O)",                        op_pow,      true,  false, 3, 1, 1, 1, 4, 4, 7,           7},
    {"Taylor(A,p,vO)",                    op_taylor,   true,  false, 3, 1, 1, 1, 3, 4, 5,           5},
    {"kroneckerMult(A,B,O)",              op_kron,     true,  true,  3, 3, 3, 1, 5, 2, 1,           1},
    {"kroneckerMult(A,dim,v,O)",          op_kronDiag, true,  false, 3, 1, 3, 1, 5, 4, 8,           8},
    {"kroneckerMult(A,B,dA,dB,O)",        op_kronRepl, true,  true,  3, 3, 3, 1, 5, 2, 2,           2},
    {"hadamardMult(A,B,O)",               op_had,      true,  true,  3, 3, 3, 1, 4, 4, 1,           1},
    {"hadamardMult(A,iA,B,iB,O,iO)",      op_hadC,     true,  true,  3, 3, 3, 3, 4, 2, 6,           1},
    {"hadamardMult(A,v,O,row)",           op_hadV,     true,  false, 3, 1, 3, 1, 4, 4, 6,           6},
    {"directSum(A,B,O)",                  op_dsum,     true,  true,  3, 3, 3, 1, 4, 4, 1,           1},
    {"covar(A,O)",                        op_covar,    true,  false, 3, 1, 3, 1, 4, 4, 1,           1},
    {"whichMax+whichMin+max+min",         op_extrema,  true,  false, 3, 1, 1, 1, 1, 4, cells + 1,   1},
    {"sumElements(A)",                    op_sum,      true,  false, 3, 1, 1, 1, 1, 4, 1,           1},
    {"isSymmetric(A)",                    op_isSym,    true,  false, 3, 1, 1, 1, 1, 4, pairs + 1,   1},
  };
  for (auto& o : ops) latticeSpace(R, o, N, th);
  dsumListSpace(R, N, th ? 4 : 3);
  for (auto& o : ops) if (o.tinyExtra) tinySpace(R, o);
  // linear assignment: per-case alarm (the solver has data-dependent loops)
  lapAllSpace(R, "lap:all:n0..3:{0,1,2}", 0, 3, 3, 0, 1.0);
  lapAllSpace(R, "lap:all:n0..3:{-3/2,1/4,3}", 0, 3, 3, 1, 1.0);
  lapAllSpace(R, "lap:all:n4:{0,1}", 4, 4, 2, 0, 1.0);
  if (th) lapAllSpace(R, "lap:all:n3:{0,1,2,3}", 3, 3, 4, 0, 1.0);
  if (th) lapAllSpace(R, "lap:all:n3:{-3/2,1/4,3,5}", 3, 3, 4, 1, 1.0);
  lapFamilySpace(R, 5, th ? 7 : 6, th ? 6 : 5, 2.0);

  R.expectSeen("raised-DimensionException");
  R.expectSeen("computed");
  R.note("conformability and the expected output shape are evaluated on the dimensions the operand objects report: RowMatrix sized 0xn reports 0x0, ColMatrix sized nx0 reports 0x0");
  R.note("a real/imaginary pair whose parts report different shapes (or D/iD of different lengths) is a non-conformable operand set and must raise DimensionException");
  R.note("kroneckerMult(...,check=false) is only exercised with a correctly pre-sized result (the caller waived the resize)");
  R.note("covar on a matrix with zero columns (no observations) and extrema of an empty matrix are executed/recorded but not judged: no textbook value exists");
  R.note("whichMax/whichMin with ties: any position holding the extremum is accepted");
  R.note("covar: (1/n)AA^T - mu mu^T (population covariance, as coded and as the header formula reads once the 1/n is restored); exact comparison when n is a power of two, otherwise 8u(|S_ij|/n+|s_i s_j|/n^2), u=2^-53, from counting the roundings of the coded evaluation order");
  R.note("lap is judged on square cost matrices only (the quantifier of the property); non-square input raises bpp::Exception by design");
  return R.finish();
}
