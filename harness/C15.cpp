// C15 — tree/DAG queries follow graph-theoretic definitions; re-rooting keeps topology
// VF-VARIANT: san
// VF-RULE: E2: (a) every recursive tree (parent[i]<i) with 1..7 nodes and every labelled tree (Pruefer code) with 1..6 nodes (thorough: also every labelled 7-node tree, not re-rooted), built through createNode/addSon, x every new root (and "not re-rooted") x every node, ordered node pair and node subset of size <=3: rootAt clauses (same edge ids and end points, edge table agreeing with the links, new root the unique father-less node, still valid) and father/sons/branches/leaves-under/subtree/node-path/edge-path/MRCA against a parent-array reference; six structured families (path, star, caterpillar, balanced binary, comb, broom) with 8..12 nodes x 2 labellings x every root; (b) every labelled tree with 1..6|7 nodes x unRoot(false) x every new root; (c) every directed graph on <=4|5 labelled nodes (tree container with root 0; DAG container, arcs added through addSon/addFather) and every undirected graph on <=5|6 nodes for the validity predicates, fresh and cached, and DAG rootedness; every digraph on <=4 nodes x every new root x (validity and rootedness asked before or not) through DAG rootAt, validity, rootedness and (without reciprocal arcs) the agreement of edge table and node table judged afterwards; every digraph on <=3|4 nodes with at least one self arc on the DAG container (self arcs added before or after a validity query); (d) observer variant with node/edge objects: re-rooting keeps every edge object on its edge (recursive trees <=6|7 nodes x root), object-level wrappers agree with the id-level queries, setFather/addSon with an edge object (recursive trees <=5|6 nodes x node x father x 3 kinds of edge object), each followed by a plain creation under the root that must leave every existing link and edge object as it was, validity for every digraph on <=3|4 nodes x every root, DAG observer addSon/addFather with edge objects. E1: breadth-first histories of createNode/createNodeFromNode/setFather/addSon/removeSon/deleteNode/rootAt/unRoot(false|true)/setOutGroup/isValid/isRooted over <=5 node ids from the empty graph (depth 6|7) and from every recursive 4-node tree (depth 3..4|4), both 3-node trees (4|5) and three 5-node trees (3|3) on the tree container; of createNode/addSon/addFather/removeSon/removeFather/deleteNode/rootAt/isValid/isRooted over <=4 node ids from the empty graph and from 3 and 4 isolated nodes (depth 4|5) on the DAG container; in every reached state (every cache status) the answer isValid() would give now and a fresh evaluation are compared with the definition evaluated on the graph read through the public getters, and every rootAt on a valid (rooted or un-rooted) tree is judged. A case is non-trivial when the tree has >=2 nodes (E2 trees), the graph has >=1 arc (E2 graphs) or the transition changed the canonical state (E1).
// VF-BOUND: all tree shapes and labellings up to 6 nodes and all recursive trees with 7 nodes instead of 12 nodes, six enumerated families (not random trees) for 8..12; node subsets of size <=3; all digraphs up to 4 (quick) / 5 (thorough) nodes instead of DAGs on 6; histories of depth <=2..6 from seed trees over <=5 node ids (tree) and <=4 node ids (DAG) instead of unbounded histories; no self-loops except in the DAG validity space (every digraph on <=3|4 nodes with at least one self arc), no parallel links
// VF-LEVEL: bounded-exhaustive differential check of the real containers against independent reference algorithms; every case of the stated finite spaces and every history up to the stated depth is executed under ASan/UBSan
// VF-ASSUME: the reference algorithms in harness/C15_ref.hpp (BFS parent arrays, Kahn) are right;; the public getters getAllNodes/getOutgoingNeighbors/getIncomingNeighbors/getAllEdges/getTop/getBottom/getRoot/isDirected report the stored graph (GlobalGraph structure integrity is property C14);; E1 canonical states relabel edge ids by rank: the library uses edge ids only as ordered map keys and generates fresh ids above all existing ones, so behaviour is invariant under order-preserving relabelling;; histories never create self-loops or parallel links and, while the graph is undirected, never unlink (those reach the structure-integrity defects of C14, not the predicates of C15)
// VF-TECHNIQUE: exhaustive enumeration of tree shapes / digraphs / edit histories on the real code against a reference model
// VF-BUDGET_QUICK: 240
#include "vf.hpp"
#include <set>
#include "C15_ref.hpp"
#include <Bpp/Graph/TreeGraphImpl.h>
#include <Bpp/Graph/DAGraphImpl.h>
#include <Bpp/Graph/AssociationTreeGraphImplObserver.h>
#include <Bpp/Graph/AssociationDAGraphImplObserver.h>
#include <Bpp/App/ApplicationTools.h>
#include <Bpp/Io/OutputStream.h>
using namespace bpp;
using namespace c15;
using vf::str;

typedef AssociationTreeGlobalGraphObserver<int, int> TObs;
typedef AssociationDAGlobalGraphObserver<int, int> DObs;

// ------------------------------------------------------------------------------------------------
// reading the implementation through public getters
// ------------------------------------------------------------------------------------------------
template<class G> GView viewOf(const G& g) {
  GView v; v.directed = g.isDirected(); v.root = g.getRoot();
  v.nodes = g.getAllNodes();
  for (auto x : v.nodes) { v.out[x] = g.getOutgoingNeighbors(x); v.in[x] = g.getIncomingNeighbors(x); }
  return v;
}
template<class G> std::vector<EdgeRec> edgesOf(const G& g) {
  std::vector<EdgeRec> r;
  for (auto e : g.getAllEdges()) r.push_back(EdgeRec{{(int)e, (int)g.getTop(e), (int)g.getBottom(e)}});
  return r;
}
static std::vector<EdgeRec> unoriented(std::vector<EdgeRec> v) { for (auto& e : v) if (e[1] > e[2]) std::swap(e[1], e[2]); std::sort(v.begin(), v.end()); return v; }
static std::string edgesStr(const std::vector<EdgeRec>& v) { std::string s = "{"; for (auto& e : v) s += "e" + str(e[0]) + ":" + str(e[1]) + ">" + str(e[2]) + " "; return s + "}"; }
static std::vector<int> toInt(const std::vector<unsigned>& v) { return std::vector<int>(v.begin(), v.end()); }
static std::vector<int> sortedInt(const std::vector<unsigned>& v) { std::vector<int> r(v.begin(), v.end()); std::sort(r.begin(), r.end()); return r; }

// validity answers of a tree container in its present state (on a copy: the object's cache is not touched)
struct Validity { bool fresh, cached, freshRaised, cachedRaised; };
static Validity treeValidity(const TreeGlobalGraph& T) {
  Validity v{false, false, false, false};
  TreeGlobalGraph cp(T);
  try { v.fresh = cp.isTree(); } catch (bpp::Exception&) { v.freshRaised = true; }
  try { v.cached = cp.isValid(); } catch (bpp::Exception&) { v.cachedRaised = true; }
  return v;
}
static Validity dagValidity(const DAGlobalGraph& D) {
  Validity v{false, false, false, false};
  DAGlobalGraph cp(D);
  try { v.fresh = cp.isDA(); } catch (bpp::Exception&) { v.freshRaised = true; }
  try { v.cached = cp.isValid(); } catch (bpp::Exception&) { v.cachedRaised = true; }
  return v;
}
// judge the two answers against the definition; a raised bpp::Exception counts as "not true" (see note)
template<class F> static void judgeValidity(vf::Case& c, const char* what, const Validity& v, bool ref, F ctx) {   // ctx: callable giving the description (built only on failure)
  if (v.freshRaised || v.cachedRaised) c.tag(std::string(what) + "-validity-raised");
  if (v.fresh != ref) c.fail(std::string("validity|") + what + "-predicate-differs-from-definition", ctx() + ": fresh answer " + str(v.fresh) + ", definition " + str(ref));
  else if (v.cached != v.fresh) c.fail(std::string("validity|") + what + "-isValid-stale-cache", ctx() + ": isValid() answers " + str(v.cached) + " but a fresh evaluation gives " + str(v.fresh) + " (definition " + str(ref) + ")");
}

// ------------------------------------------------------------------------------------------------
// rootAt clauses (graph level)
// ------------------------------------------------------------------------------------------------
// returns true when the tree is now correctly rooted at r (so that the queries can be judged)
template<class F> static bool judgeReroot(vf::Case& c, const TreeGlobalGraph& T, const std::vector<EdgeRec>& before, unsigned r, bool raised, bool wasUnrooted, F ctxf) {
  std::vector<EdgeRec> after = edgesOf(T);
  GView g = viewOf(T);
  bool okRoot = !raised && g.root == r && g.directed;
  for (auto x : g.nodes) if (g.in[x].size() != (x == r ? 0u : 1u)) okRoot = false;
  Validity v = treeValidity(T);
  bool okValid = refIsTree(g) && v.fresh && v.cached;
  bool okEdges = unoriented(before) == unoriented(after);
  // the same identity must be reported from both sides: edge e = (top, bottom) is the edge found from top to bottom
  for (auto& e : after) { try { if ((int)T.getEdge((unsigned)e[1], (unsigned)e[2]) != e[0]) okEdges = false; } catch (bpp::Exception&) { okEdges = false; } }
  bool good = true;
  if (wasUnrooted) {
    // one clause: an un-rooted (undirected) valid tree must become the tree rooted at r, every edge keeping its identity
    if (raised || !okRoot || !okValid || !okEdges) {
      c.fail("rootAt|unrooted-tree-not-rerooted", ctxf() + (raised ? ": raised an exception" : "") + (okEdges ? "" : ": edge table " + edgesStr(after) + " disagrees with the links or with the edges before " + edgesStr(before)) + "; now " + g.str() + " valid=" + str(v.cached));
      good = false;
    }
    return good;
  }
  if (raised) { c.fail("rootAt|raises-on-valid-tree", ctxf()); good = false; }
  else {
    if (!okRoot) { c.fail("rootAt|new-root-not-unique-fatherless-node", ctxf() + "; now " + g.str()); good = false; }
    if (!okValid) { c.fail("rootAt|tree-invalid-afterwards", ctxf() + "; now " + g.str() + " fresh=" + str(v.fresh) + " cached=" + str(v.cached)); good = false; }
  }
  if (!okEdges) { c.fail("rootAt|edge-ids-or-end-points-changed", ctxf() + "; before " + edgesStr(before) + " after " + edgesStr(after)); good = false; }
  return good;
}

// ------------------------------------------------------------------------------------------------
// structural queries against the reference tree
// ------------------------------------------------------------------------------------------------
static void judgeQueries(vf::Case& c, const TreeGlobalGraph& T, const RefTree& R, const std::string& ctx) {
  int n = R.n;
  for (int x = 0; x < n; ++x) {
    std::string cx = ctx + " node " + str(x);
    c.site("TreeGraphImpl::getFatherOfNode");
    bool hf = T.hasFather(x);
    if (hf != (R.par[x] >= 0)) c.fail("queries|father", cx + ": hasFather=" + str(hf));
    try {
      unsigned f = T.getFatherOfNode(x);
      if (R.par[x] < 0 || (int)f != R.par[x]) c.fail("queries|father", cx + ": getFatherOfNode=" + str(f) + " expected " + str(R.par[x]));
      unsigned e = T.getEdgeToFather(x);
      if ((int)e != R.parEdge[x]) c.fail("queries|father", cx + ": getEdgeToFather=" + str(e) + " expected " + str(R.parEdge[x]));
    } catch (bpp::Exception&) { if (R.par[x] >= 0) c.fail("queries|father", cx + ": getFatherOfNode raised, expected " + str(R.par[x])); }
    c.site("TreeGraphImpl::getSons");
    std::vector<int> s = sortedInt(T.getSons(x));
    if (s != R.sons(x) || T.getNumberOfSons(x) != R.kids[x].size() || T.isLeaf(x) != R.kids[x].empty()) c.fail("queries|sons", cx + ": getSons=" + lst(s) + " expected " + lst(R.sons(x)) + " isLeaf=" + str(T.isLeaf(x)));
    std::vector<int> b = sortedInt(T.getBranches(x));
    if (b != R.branches(x)) c.fail("queries|branches", cx + ": getBranches=" + lst(b) + " expected " + lst(R.branches(x)));
    c.site("TreeGraphImpl::getLeavesUnderNode");
    std::vector<int> l = sortedInt(T.getLeavesUnderNode(x));
    if (l != R.leavesUnder(x)) c.fail("queries|leaves-under", cx + ": getLeavesUnderNode=" + lst(l) + " expected " + lst(R.leavesUnder(x)));
    c.site("TreeGraphImpl::getSubtreeNodes");
    std::vector<int> sn = sortedInt(T.getSubtreeNodes(x));
    if (sn != R.subtree(x)) c.fail("queries|subtree-nodes", cx + ": getSubtreeNodes=" + lst(sn) + " expected " + lst(R.subtree(x)));
    c.site("TreeGraphImpl::getSubtreeEdges");
    std::vector<int> se = sortedInt(T.getSubtreeEdges(x));
    if (se != R.subtreeEdges(x)) c.fail("queries|subtree-edges", cx + ": getSubtreeEdges=" + lst(se) + " expected " + lst(R.subtreeEdges(x)));
    c.site("TreeGraphImpl::MRCA");
    unsigned m1 = T.MRCA(std::vector<unsigned>{(unsigned)x});
    if ((int)m1 != x) c.fail("queries|MRCA", cx + ": MRCA({x})=" + str(m1));
  }
  uint64_t nRelated = 0, nUnrelated = 0;
  for (int a = 0; a < n; ++a) for (int b = 0; b < n; ++b) {
      if (a == b) continue;
      bool related = R.isAnc(a, b) || R.isAnc(b, a);
      (related ? nRelated : nUnrelated)++;
      c.site("TreeGraphImpl::getNodePathBetweenTwoNodes");
      std::vector<int> p = toInt(T.getNodePathBetweenTwoNodes(a, b, true));
      if (p != R.path(a, b, true)) c.fail("queries|node-path", ctx + " from " + str(a) + " to " + str(b) + ": got " + lst(p) + " expected " + lst(R.path(a, b, true)));
      std::vector<int> q = toInt(T.getNodePathBetweenTwoNodes(a, b, false));
      if (q != R.path(a, b, false)) c.fail("queries|node-path-without-ancestor", ctx + " from " + str(a) + " to " + str(b) + ": got " + lst(q) + " expected " + lst(R.path(a, b, false)));
      c.site("TreeGraphImpl::getEdgePathBetweenTwoNodes");
      std::vector<int> ep = toInt(T.getEdgePathBetweenTwoNodes(a, b));
      if (ep != R.edgePath(a, b)) c.fail("queries|edge-path", ctx + " from " + str(a) + " to " + str(b) + ": got " + lst(ep) + " expected " + lst(R.edgePath(a, b)));
      c.site("TreeGraphImpl::MRCA");
      try {
        unsigned m = T.MRCA(std::vector<unsigned>{(unsigned)a, (unsigned)b});
        if ((int)m != R.mrca(a, b)) c.fail("queries|MRCA", ctx + ": MRCA({" + str(a) + "," + str(b) + "})=" + str(m) + " expected " + str(R.mrca(a, b)));
      } catch (bpp::Exception& e) { c.fail("queries|MRCA", ctx + ": MRCA({" + str(a) + "," + str(b) + "}) raised: " + e.what()); }
    }
  if (!c.muted) { if (nRelated) c.out->hist["pair:ancestor-descendant"] += nRelated; if (nUnrelated) c.out->hist["pair:unrelated"] += nUnrelated; }
  for (int a = 0; a < n; ++a) for (int b = a + 1; b < n; ++b) for (int d = b + 1; d < n; ++d) {
        c.site("TreeGraphImpl::MRCA");
        std::vector<int> s{a, b, d};
        try {
          unsigned m = T.MRCA(std::vector<unsigned>{(unsigned)a, (unsigned)b, (unsigned)d});
          if ((int)m != R.mrca(s)) c.fail("queries|MRCA", ctx + ": MRCA(" + lst(s) + ")=" + str(m) + " expected " + str(R.mrca(s)));
        } catch (bpp::Exception& e) { c.fail("queries|MRCA", ctx + ": MRCA(" + lst(s) + ") raised: " + e.what()); }
      }
}

static void buildTree(TreeGlobalGraph& T, const std::vector<int>& par) {
  int n = (int)par.size();
  for (int i = 0; i < n; ++i) T.createNode();
  for (int i = 1; i < n; ++i) T.addSon((unsigned)par[i], (unsigned)i);   // edge id i-1 links par[i] -> i
}

// one tree x one new root (r == n: no re-rooting): build, validity, rootAt clauses, all queries
static void treeCase(vf::Case& c, const std::vector<int>& par, int r, const std::string& label) {
  int n = (int)par.size();
  std::string ctx = label + " " + parStr(par) + (r < n ? " rootAt(" + str(r) + ")" : " (not re-rooted)");
  if (n >= 2) c.nontrivial();
  c.site("TreeGraphImpl build");
  TreeGlobalGraph T(true);
  buildTree(T, par);
  c.site("TreeGraphImpl::isValid");
  judgeValidity(c, "tree", treeValidity(T), true, [&] { return ctx + " after construction"; });
  if (!T.isValid() || !T.isRooted()) return;
  std::vector<EdgeRec> before = edgesOf(T);
  int root = 0;
  if (r < n) {
    bool raised = false;
    c.site("TreeGraphImpl::rootAt");
    try { T.rootAt((unsigned)r); } catch (bpp::Exception&) { raised = true; }
    if (!judgeReroot(c, T, before, (unsigned)r, raised, false, [&] { return ctx; })) return;
    root = r;
    c.tag("rerooted");
  }
  RefTree R(n, before, root);
  judgeQueries(c, T, R, ctx);
}

// ------------------------------------------------------------------------------------------------
// E2 spaces
// ------------------------------------------------------------------------------------------------
struct Block { int n; uint64_t start, trees, per; };
static std::vector<Block> blocks(int nmin, int nmax, uint64_t (*count)(int), std::function<uint64_t(int)> per, uint64_t& total) {
  std::vector<Block> b; total = 0;
  for (int n = nmin; n <= nmax; ++n) { Block k{n, total, count(n), per(n)}; total += k.trees * k.per; b.push_back(k); }
  return b;
}
static const Block& findBlock(const std::vector<Block>& b, uint64_t idx) { size_t i = 0; while (i + 1 < b.size() && idx >= b[i + 1].start) ++i; return b[i]; }

// allRootsUpTo: trees with more nodes are judged as built (not re-rooted) only
static void spaceTrees(vf::Runner& R, const std::string& kind, int nmax, int allRootsUpTo) {
  bool rec = kind == "recursive";
  uint64_t total; auto bl = blocks(1, nmax, rec ? nRecursive : nLabelled, [=](int n) { return n <= allRootsUpTo ? (uint64_t)(n + 1) : (uint64_t)1; }, total);
  std::string nm = "queries:" + kind + "-trees:n<=" + str(nmax) + ":x-newroot" + (allRootsUpTo < nmax ? "(n<=" + str(allRootsUpTo) + ")" : "");
  R.space(nm, total, [=](uint64_t idx, vf::Case& c) {
    const Block& k = findBlock(bl, idx); uint64_t o = idx - k.start;
    int r = k.per == 1 ? k.n : (int)(o % k.per); uint64_t t = o / k.per;
    std::vector<int> par = rec ? recursiveTree(k.n, t) : labelledTree(k.n, t);
    treeCase(c, par, r, kind);
    if (idx % 997 == 5) c.sample(kind + " " + parStr(par) + " newroot=" + str(r) + " judged");
  }, 10.0);
}

struct FamCase { int fam, n, lab, r; };
static void spaceFamilies(vf::Runner& R) {
  std::vector<FamCase> L;
  for (int n = 8; n <= 12; ++n) for (int fam = 0; fam < 6; ++fam) for (int lab = 0; lab < 2; ++lab) for (int r = 0; r <= n; ++r) L.push_back(FamCase{fam, n, lab, r});
  R.space("queries:family-trees:n8..12:x-newroot", L.size(), [=](uint64_t idx, vf::Case& c) {
    const FamCase& f = L[idx];
    treeCase(c, familyTree(f.fam, f.n, f.lab), f.r, std::string(familyName(f.fam)) + (f.lab ? "(mirrored labels)" : ""));
    c.tag(std::string("family:") + familyName(f.fam));
  }, 20.0);
}

static void spaceUnrootReroot(vf::Runner& R, int nmax) {
  uint64_t total; auto bl = blocks(1, nmax, nLabelled, [](int n) { return (uint64_t)n; }, total);
  R.space("reroot-unrooted:labelled-trees:n<=" + str(nmax) + ":x-newroot", total, [=](uint64_t idx, vf::Case& c) {
    const Block& k = findBlock(bl, idx); uint64_t o = idx - k.start;
    int r = (int)(o % k.per); uint64_t t = o / k.per; int n = k.n;
    std::vector<int> par = labelledTree(n, t);
    std::string ctx = "labelled " + parStr(par) + " unRoot(false) rootAt(" + str(r) + ")";
    if (n >= 2) c.nontrivial();
    TreeGlobalGraph T(true);
    buildTree(T, par);
    std::vector<EdgeRec> before = edgesOf(T);
    c.site("TreeGraphImpl::unRoot");
    T.unRoot(false);
    if (T.isRooted()) c.fail("unRoot|still-rooted", ctx);
    judgeValidity(c, "tree", treeValidity(T), true, [&] { return ctx + " after unRoot(false)"; });
    if (unoriented(edgesOf(T)) != unoriented(before)) c.fail("unRoot|edge-ids-or-end-points-changed", ctx);
    bool raised = false;
    c.site("TreeGraphImpl::rootAt (unrooted)");
    try { T.rootAt((unsigned)r); } catch (bpp::Exception&) { raised = true; }
    c.tag(raised ? "reroot-unrooted:raised" : "reroot-unrooted:returned");
    if (!judgeReroot(c, T, before, (unsigned)r, raised, true, [&] { return ctx; })) return;
    if (n > 6) return;   // 7 nodes: the re-rooting clauses only (the queries on 7-node trees are judged in the recursive-tree space)
    RefTree Rf(n, before, r);
    judgeQueries(c, T, Rf, ctx);
  }, 10.0);
}

// every directed graph on n labelled nodes, arcs in the order (0,1),(0,2),..,(1,0),(1,2),..
static std::vector<std::pair<int, int>> arcList(int n, uint64_t mask, bool directed) {
  std::vector<std::pair<int, int>> a; int bit = 0;
  for (int x = 0; x < n; ++x) for (int y = 0; y < n; ++y) {
      if (x == y || (!directed && x > y)) continue;
      if ((mask >> bit) & 1) a.push_back({x, y});
      ++bit;
    }
  return a;
}
static std::string arcsStr(int n, const std::vector<std::pair<int, int>>& a, bool directed) {
  std::string s = "n=" + str(n) + (directed ? " arcs={" : " edges={"); for (auto& p : a) s += str(p.first) + (directed ? ">" : "-") + str(p.second) + " "; return s + "}";
}

static void spaceDigraphs(vf::Runner& R, int nmax) {
  std::vector<Block> bl; uint64_t total = 0;
  for (int n = 1; n <= nmax; ++n) { bl.push_back(Block{n, total, 1ull << (n * (n - 1)), 1}); total += 1ull << (n * (n - 1)); }
  R.space("validity:digraphs:n<=" + str(nmax), total, [=](uint64_t idx, vf::Case& c) {
    const Block& k = findBlock(bl, idx); int n = k.n; uint64_t mask = idx - k.start;
    auto arcs = arcList(n, mask, true);
    if (!arcs.empty()) c.nontrivial();
    {
      c.site("TreeGraphImpl::isValid (digraph)");
      TreeGlobalGraph T(true);
      for (int i = 0; i < n; ++i) T.createNode();
      for (auto& a : arcs) T.addSon((unsigned)a.first, (unsigned)a.second);
      GView g = viewOf(T); bool ref = refIsTree(g);
      bool v1 = T.isValid(), v2 = T.isValid(), fresh = T.isTree();
      c.tag(ref ? "digraph:is-tree" : "digraph:not-tree");
      if (fresh != ref || v1 != ref) c.fail("validity|tree-predicate-differs-from-definition", "tree container, root 0, " + arcsStr(n, arcs, true) + ": isValid=" + str(v1) + " isTree=" + str(fresh) + ", definition " + str(ref));
      else if (v2 != v1) c.fail("validity|tree-isValid-stale-cache", "tree container " + arcsStr(n, arcs, true) + ": second isValid() differs");
    }
    {
      c.site("DAGraphImpl::isValid (digraph)");
      DAGlobalGraph D(true);
      for (int i = 0; i < n; ++i) D.createNode();
      // alternate the two entry points that add an arc
      int kk = 0; for (auto& a : arcs) { if (kk++ % 2) D.addFather((unsigned)a.second, (unsigned)a.first); else D.addSon((unsigned)a.first, (unsigned)a.second); }
      GView g = viewOf(D); bool ref = refIsDag(g);
      bool v1 = D.isValid(), v2 = D.isValid(), fresh = D.isDA();
      c.tag(ref ? "digraph:acyclic" : "digraph:cyclic");
      if (fresh != ref || v1 != ref) c.fail("validity|dag-predicate-differs-from-definition", "DAG container " + arcsStr(n, arcs, true) + ": isValid=" + str(v1) + " isDA=" + str(fresh) + ", definition " + str(ref));
      else if (v2 != v1) c.fail("validity|dag-isValid-stale-cache", "DAG container " + arcsStr(n, arcs, true) + ": second isValid() differs");
      // rootedness as documented in DAGraph.h ("has only one node with no father"), judged on acyclic graphs (there is always >= 1 such node)
      if (ref) {
        bool rooted = D.isRooted(), rooted2 = D.isRooted();
        if (rooted != (fatherless(g) == 1) || rooted2 != rooted) c.fail("rootedness|dag-isRooted-differs-from-definition", "DAG container " + arcsStr(n, arcs, true) + ": isRooted=" + str(rooted) + "/" + str(rooted2) + " but " + str(fatherless(g)) + " node(s) without father");
      }
    }
    if (idx % 50021 == 17) c.sample(arcsStr(n, arcs, true) + " judged for tree and DAG validity");
  }, 10.0);
}

// every digraph x every new root x "validity and rootedness asked before": DAG re-rooting is a topology edit like the others, the cached
// answers must follow it. (Re-rooting a graph with reciprocal arcs can leave a cycle; the predicate has to say so.)
static void spaceDigraphsRootAt(vf::Runner& R, int nmax) {
  std::vector<Block> bl; uint64_t total = 0;
  for (int n = 1; n <= nmax; ++n) { uint64_t cnt = (1ull << (n * (n - 1))) * (uint64_t)n * 2; bl.push_back(Block{n, total, cnt, 1}); total += cnt; }
  R.space("validity:digraphs-then-rootAt:n<=" + str(nmax) + ":roots:asked-before2", total, [=](uint64_t idx, vf::Case& c) {
    const Block& k = findBlock(bl, idx); int n = k.n; uint64_t r0 = idx - k.start;
    bool asked = r0 % 2; unsigned root = (unsigned)((r0 / 2) % n); uint64_t mask = r0 / 2 / n;
    auto arcs = arcList(n, mask, true);
    if (!arcs.empty()) c.nontrivial();
    c.site("DAGraphImpl::rootAt (digraph)");
    DAGlobalGraph D(true);
    for (int i = 0; i < n; ++i) D.createNode();
    for (auto& a : arcs) D.addSon((unsigned)a.first, (unsigned)a.second);
    if (asked) { try { D.isValid(); D.isRooted(); } catch (bpp::Exception&) {} }
    bool raised = false;
    try { D.rootAt(root); } catch (bpp::Exception&) { raised = true; }
    GView g = viewOf(D); bool ref = refIsDag(g);
    auto ctx = [&] { return "DAG container " + arcsStr(n, arcs, true) + (asked ? " isValid() isRooted()" : "") + " rootAt(" + str(root) + ")" + (raised ? " (raised)" : "") + " giving [" + g.str() + "]"; };
    judgeValidity(c, "dag", dagValidity(D), ref, ctx);
    if (ref) {
      DAGlobalGraph cp(D); bool rooted = cp.isRooted();
      if (rooted != (fatherless(g) == 1)) c.fail("rootedness|dag-isRooted-differs-from-definition", ctx() + ": isRooted() answers " + str(rooted) + " but " + str(fatherless(g)) + " node(s) have no father");
    }
    // the edge table must describe the same arcs as the node table (graphs with a reciprocal pair are left out: re-orienting one arc of the
    // pair lands on the other one, and the unchanged library then keeps an edge that no node lists)
    bool reciprocal = false; for (auto& a : arcs) for (auto& b : arcs) if (a.first == b.second && a.second == b.first) reciprocal = true;
    if (!reciprocal && !raised) {
      for (auto& e : edgesOf(D)) {
        auto it = g.out.find((unsigned)e[1]);
        if (it == g.out.end() || std::find(it->second.begin(), it->second.end(), (unsigned)e[2]) == it->second.end()) { c.fail("rootAt|dag-edge-table-disagrees-with-the-node-table", ctx() + ": edge " + str(e[0]) + " is recorded as " + str(e[1]) + ">" + str(e[2]) + ", which no node lists"); break; }
      }
      c.tag("dag-rootAt:edge-table-judged");
    }
    c.tag(ref ? "dag-rootAt:acyclic-afterwards" : "dag-rootAt:cyclic-afterwards");
    if (raised) c.tag("dag-rootAt:raised");
    if (idx % 50021 == 19) c.sample(ctx());
  }, 10.0);
}

// DAG container only: every digraph on <=n nodes that carries at least one self arc (x>x). A self arc is a cycle, so the predicate must be
// false whatever else the graph holds. (The tree container and the re-rooting clauses stay without self arcs: see VF-BOUND.)
static void spaceDagSelfArcs(vf::Runner& R, int nmax) {
  std::vector<Block> bl; uint64_t total = 0;
  for (int n = 1; n <= nmax; ++n) { uint64_t cnt = (1ull << (n * n)) * 2; bl.push_back(Block{n, total, cnt, 1}); total += cnt; }
  R.space("validity:dag-digraphs-with-self-arcs:n<=" + str(nmax) + ":asked-between2", total, [=](uint64_t idx, vf::Case& c) {
    const Block& k = findBlock(bl, idx); int n = k.n; uint64_t r0 = idx - k.start; bool askBetween = r0 % 2; uint64_t mask = r0 / 2;
    std::vector<std::pair<int, int>> arcs, selfs; int bit = 0;
    for (int x = 0; x < n; ++x) for (int y = 0; y < n; ++y) { if ((mask >> bit) & 1) (x == y ? selfs : arcs).push_back({x, y}); ++bit; }
    if (selfs.empty()) { c.tag("no-self-arc(covered by the plain digraph space, skipped)"); return; }
    c.nontrivial();
    c.site("DAGraphImpl::isValid (self arcs)");
    DAGlobalGraph D(true);
    for (int i = 0; i < n; ++i) D.createNode();
    bool raised = false;
    try {
      for (auto& a : arcs) D.addSon((unsigned)a.first, (unsigned)a.second);
      if (askBetween) D.isValid();                        // the self arcs arrive after the predicate has been cached
      for (auto& a : selfs) D.addSon((unsigned)a.first, (unsigned)a.second);
    } catch (bpp::Exception&) { raised = true; }
    GView g = viewOf(D); bool ref = refIsDag(g);
    auto all = arcs; all.insert(all.end(), selfs.begin(), selfs.end());
    auto ctx = [&] { return "DAG container " + arcsStr(n, all, true) + (askBetween ? " (isValid() asked before the self arcs were added)" : "") + (raised ? " (an addSon raised)" : "") + " giving [" + g.str() + "]"; };
    judgeValidity(c, "dag", dagValidity(D), ref, ctx);
    c.tag(raised ? "dag-self-arc:refused" : ref ? "dag-self-arc:graph-acyclic-afterwards" : "dag-self-arc:cyclic");
  }, 10.0);
}

static void spaceUndirected(vf::Runner& R, int nmax) {
  std::vector<Block> bl; uint64_t total = 0;
  for (int n = 1; n <= nmax; ++n) { bl.push_back(Block{n, total, 1ull << (n * (n - 1) / 2), 1}); total += 1ull << (n * (n - 1) / 2); }
  R.space("validity:undirected-graphs:n<=" + str(nmax), total, [=](uint64_t idx, vf::Case& c) {
    const Block& k = findBlock(bl, idx); int n = k.n; uint64_t mask = idx - k.start;
    auto arcs = arcList(n, mask, false);
    if (!arcs.empty()) c.nontrivial();
    c.site("TreeGraphImpl::isValid (undirected)");
    TreeGlobalGraph T(false);
    for (int i = 0; i < n; ++i) T.createNode();
    for (auto& a : arcs) T.addSon((unsigned)a.first, (unsigned)a.second);
    GView g = viewOf(T); bool ref = refIsTree(g);
    bool v1 = T.isValid(), v2 = T.isValid(), fresh = T.isTree();
    c.tag(ref ? "undirected:is-tree" : "undirected:not-tree");
    if (T.isRooted()) c.fail("rootedness|undirected-tree-container-reports-rooted", arcsStr(n, arcs, false));
    if (fresh != ref || v1 != ref) c.fail("validity|tree-predicate-differs-from-definition", "undirected tree container, root 0, " + arcsStr(n, arcs, false) + ": isValid=" + str(v1) + " isTree=" + str(fresh) + ", definition " + str(ref));
    else if (v2 != v1) c.fail("validity|tree-isValid-stale-cache", "undirected tree container " + arcsStr(n, arcs, false));
  }, 10.0);
}

// ------------------------------------------------------------------------------------------------
// observer variant
// ------------------------------------------------------------------------------------------------
struct ObsTree {
  std::unique_ptr<TObs> obs;
  std::vector<std::shared_ptr<int>> N, E;   // node objects by label, edge object of the branch above node i (E[0] unused)
  ObsTree(const std::vector<int>& par) : obs(new TObs(true)) {
    int n = (int)par.size();
    for (int i = 0; i < n; ++i) N.push_back(std::make_shared<int>(i));
    for (int i = 0; i < n; ++i) E.push_back(std::make_shared<int>(100 + i));
    for (int i = 0; i < n; ++i) obs->createNode(N[i]);
    for (int i = 1; i < n; ++i) obs->link(N[par[i]], N[i], E[i]);
  }
};
template<class T> static std::vector<int> vals(const std::vector<std::shared_ptr<T>>& v) { std::vector<int> r; for (auto& p : v) r.push_back(p ? *p : -1); std::sort(r.begin(), r.end()); return r; }
template<class T> static std::vector<int> valsSeq(const std::vector<std::shared_ptr<T>>& v) { std::vector<int> r; for (auto& p : v) r.push_back(p ? *p : -1); return r; }

static void spaceObserverReroot(vf::Runner& R, int nmax) {
  uint64_t total; auto bl = blocks(1, nmax, nRecursive, [](int n) { return (uint64_t)n; }, total);
  R.space("observer:reroot:recursive-trees:n<=" + str(nmax) + ":x-newroot", total, [=](uint64_t idx, vf::Case& c) {
    const Block& k = findBlock(bl, idx); uint64_t o = idx - k.start;
    int r = (int)(o % k.per); uint64_t t = o / k.per; int n = k.n;
    std::vector<int> par = recursiveTree(n, t);
    std::string ctx = "observer " + parStr(par) + " rootAt(node " + str(r) + ")";
    if (n >= 2) c.nontrivial();
    c.site("AssociationTreeGraphImplObserver build");
    ObsTree ot(par); TObs& O = *ot.obs;
    if (!O.isValid()) { c.fail("validity|tree-predicate-differs-from-definition", ctx + ": not valid after construction"); return; }
    std::vector<unsigned> idBefore(n, 0); std::vector<EdgeRec> before = edgesOf(*O.getGraph());
    for (int i = 1; i < n; ++i) idBefore[i] = O.getEdgeGraphid(ot.E[i]);
    c.site("AssociationTreeGraphImplObserver::rootAt");
    try { O.rootAt(ot.N[r]); } catch (bpp::Exception&) { c.fail("rootAt|raises-on-valid-tree", ctx); return; }
    // edge identities and attached objects
    for (int i = 1; i < n; ++i) {
      bool ok = O.hasEdge(ot.E[i]) && O.getEdgeGraphid(ot.E[i]) == idBefore[i] && O.getEdgeFromGraphid(idBefore[i]) == ot.E[i];
      if (ok) { auto nd = O.getNodes(ot.E[i]); int a = nd.first ? *nd.first : -1, b = nd.second ? *nd.second : -1; ok = (a == i && b == par[i]) || (a == par[i] && b == i); }
      if (!ok) { c.fail("observer|rootAt-edge-object-detached-or-moved", ctx + ": edge object of branch " + str(par[i]) + "-" + str(i)); return; }
    }
    if (O.getRoot() != ot.N[r] || !O.isValid() || !O.isRooted()) c.fail("rootAt|new-root-not-unique-fatherless-node", ctx + ": observer root/validity");
    RefTree Rf(n, before, r);
    const TreeGlobalGraph& G = *O.getGraph();
    { // the graph-level clauses once more (the wrappers below walk the edge table)
      GView g = viewOf(G); bool okG = g.root == (unsigned)r && refIsTree(g);
      for (auto x : g.nodes) if (g.in[x].size() != (x == (unsigned)r ? 0u : 1u)) okG = false;
      bool okE = unoriented(edgesOf(G)) == unoriented(before);
      for (auto& e : edgesOf(G)) { try { if ((int)G.getEdge((unsigned)e[1], (unsigned)e[2]) != e[0]) okE = false; } catch (bpp::Exception&) { okE = false; } }
      if (!okG) { c.fail("rootAt|new-root-not-unique-fatherless-node", ctx + "; now " + g.str()); return; }
      if (!okE) { c.fail("rootAt|edge-ids-or-end-points-changed", ctx + "; before " + edgesStr(before) + " after " + edgesStr(edgesOf(G))); return; }
    }
    // attached objects seen from the re-rooted tree, and wrappers against the id-level queries
    for (int x = 0; x < n; ++x) {
      std::string cx = ctx + " node " + str(x);
      c.site("AssociationTreeGraphImplObserver queries");
      if (Rf.par[x] >= 0) {
        int child = (par[x] == Rf.par[x]) ? x : Rf.par[x];   // the branch between x and its new father was created above 'child'
        if (O.getEdgeToFather(ot.N[x]) != ot.E[child]) c.fail("observer|rootAt-edge-object-detached-or-moved", cx + ": getEdgeToFather gives another object");
        if (O.getEdgeLinking(ot.N[Rf.par[x]], ot.N[x]) != ot.E[child]) c.fail("observer|rootAt-edge-object-detached-or-moved", cx + ": getEdgeLinking gives another object");
        if (O.getFatherOfNode(ot.N[x]) != ot.N[G.getFatherOfNode(x)]) c.fail("observer|wrapper-differs-from-id-level-query", cx + ": getFatherOfNode");
      }
      if (O.hasFather(ot.N[x]) != G.hasFather(x)) c.fail("observer|wrapper-differs-from-id-level-query", cx + ": hasFather");
      if (vals(O.getSons(ot.N[x])) != sortedInt(G.getSons(x))) c.fail("observer|wrapper-differs-from-id-level-query", cx + ": getSons");
      { std::vector<int> want; for (auto e : G.getBranches(x)) want.push_back(*O.getEdgeFromGraphid(e)); std::sort(want.begin(), want.end());
        if (vals(O.getBranches(ot.N[x])) != want) c.fail("observer|wrapper-differs-from-id-level-query", cx + ": getBranches"); }
      if (vals(O.getLeavesUnderNode(ot.N[x])) != sortedInt(G.getLeavesUnderNode(x))) c.fail("observer|wrapper-differs-from-id-level-query", cx + ": getLeavesUnderNode");
      if (vals(O.getSubtreeNodes(ot.N[x])) != sortedInt(G.getSubtreeNodes(x))) c.fail("observer|wrapper-differs-from-id-level-query", cx + ": getSubtreeNodes");
      { std::vector<int> want; for (auto e : G.getSubtreeEdges(x)) want.push_back(*O.getEdgeFromGraphid(e)); std::sort(want.begin(), want.end());
        if (vals(O.getSubtreeEdges(ot.N[x])) != want) c.fail("observer|wrapper-differs-from-id-level-query", cx + ": getSubtreeEdges"); }
    }
    for (int a = 0; a < n; ++a) for (int b = 0; b < n; ++b) {
        if (a == b) continue;
        std::string cx = ctx + " pair " + str(a) + "," + str(b);
        if (valsSeq(O.getNodePathBetweenTwoNodes(ot.N[a], ot.N[b], true)) != toInt(G.getNodePathBetweenTwoNodes(a, b, true))) c.fail("observer|wrapper-differs-from-id-level-query", cx + ": getNodePathBetweenTwoNodes");
        { std::vector<int> want; for (auto e : G.getEdgePathBetweenTwoNodes(a, b)) want.push_back(*O.getEdgeFromGraphid(e));
          if (valsSeq(O.getEdgePathBetweenTwoNodes(ot.N[a], ot.N[b])) != want) c.fail("observer|wrapper-differs-from-id-level-query", cx + ": getEdgePathBetweenTwoNodes"); }
        try {
          unsigned m = G.MRCA(std::vector<unsigned>{(unsigned)a, (unsigned)b});
          auto mo = O.MRCA(std::vector<std::shared_ptr<int>>{ot.N[a], ot.N[b]});
          if (mo != ot.N[m]) c.fail("observer|wrapper-differs-from-id-level-query", cx + ": MRCA");
        } catch (bpp::Exception&) {}
      }
    c.tag("observer:rerooted");
  }, 10.0);
}

// setFather / addSon with an edge object.
// variant 0: the edge object currently attached to the branch above the node (re-grafting a node together with its branch)
// variant 1: an edge object announced to the observer with associateEdge under an unused edge id
// variant 2: an edge object unknown to the observer (the tree observer refuses it: recorded, not judged)
static void spaceObserverEdit(vf::Runner& R, int nmax) {
  uint64_t total; auto bl = blocks(2, nmax, nRecursive, [](int n) { return (uint64_t)(n * n * 3 * 2); }, total);
  R.space("observer:setFather-addSon-with-edge:recursive-trees:n<=" + str(nmax), total, [=](uint64_t idx, vf::Case& c) {
    const Block& k = findBlock(bl, idx); uint64_t o = idx - k.start; int n = k.n;
    std::vector<int> d = vf::digits(o % k.per, {2, 3, n, n}); uint64_t t = o / k.per;
    int isAdd = d[0], variant = d[1], x = d[2], f = d[3];
    std::vector<int> par = recursiveTree(n, t);
    std::string ctx = std::string("observer ") + parStr(par) + (isAdd ? " addSon(father " + str(f) + ", son " + str(x) : " setFather(node " + str(x) + ", father " + str(f)) + ", edge object variant " + str(variant) + ")";
    if (x == f) { c.tag("edit:skipped"); return; }
    if (isAdd && (par[x] == f || par[f] == x)) { c.tag("edit:skipped"); return; }             // would create a parallel or reciprocal link
    if (!isAdd && variant == 0 && x == 0) { c.tag("edit:skipped"); return; }                     // the root has no branch above it
    c.nontrivial();
    c.site("AssociationTreeGraphImplObserver build");
    ObsTree ot(par); TObs& O = *ot.obs;
    std::shared_ptr<int> e;
    if (variant == 0) e = ot.E[isAdd ? (x == 0 ? 1 : x) : x];
    else {
      e = std::make_shared<int>(999);
      // (an observer that refuses to associate an object with an edge id absent from the graph is within its rights: recorded, not judged)
      if (variant == 1) { try { O.associateEdge(e, 50); } catch (bpp::Exception&) { c.tag("edit:associateEdge-with-unused-id-refused"); return; } }
    }
    std::vector<unsigned> idBefore(n, 0); for (int i = 1; i < n; ++i) idBefore[i] = O.getEdgeGraphid(ot.E[i]);
    bool raised = false;
    c.site(isAdd ? "AssociationTreeGraphImplObserver::addSon(edge)" : "AssociationTreeGraphImplObserver::setFather(edge)");
    try { if (isAdd) O.addSon(ot.N[f], ot.N[x], e); else O.setFather(ot.N[x], ot.N[f], e); } catch (bpp::Exception&) { raised = true; }
    std::string tg = std::string(isAdd ? "addSon-edge:v" : "setFather-edge:v") + str(variant) + (raised ? ":raised" : ":done");
    c.tag(tg);
    const TreeGlobalGraph& G = *O.getGraph();
    if (!raised) {
      bool linked = false; unsigned gid = 0;
      try { gid = G.getEdge((unsigned)f, (unsigned)x); linked = true; } catch (bpp::Exception&) {}
      if (!linked) c.fail(isAdd ? "observer|addSon-no-link-created" : "observer|setFather-no-link-created", ctx);
      else {
        bool ok = O.hasEdge(e) && O.getEdgeGraphid(e) == gid && O.getEdgeFromGraphid(gid) == e && O.getEdgeLinking(ot.N[f], ot.N[x]) == e;
        if (ok && G.getIncomingNeighbors(x).size() == 1) ok = O.getEdgeToFather(ot.N[x]) == e;
        if (!ok) c.fail(isAdd ? "observer|addSon-edge-object-not-on-new-link" : "observer|setFather-edge-object-not-on-new-link", ctx + ": getEdgeLinking(father, node) " + (O.getEdgeLinking(ot.N[f], ot.N[x]) ? "gives another object" : "gives no object") + ", hasEdge(object)=" + str(O.hasEdge(e)));
      }
    }
    // the other branches keep their objects (the branch above x is replaced by setFather)
    for (int i = 1; i < n; ++i) {
      if (!isAdd && i == x && !raised) continue;
      if (e == ot.E[i]) continue;
      bool ok = O.hasEdge(ot.E[i]) && O.getEdgeGraphid(ot.E[i]) == idBefore[i] && O.getEdgeLinking(ot.N[par[i]], ot.N[i]) == ot.E[i];
      if (!ok && !(raised && !isAdd && i == x)) c.fail("observer|edit-disturbs-other-edge-objects", ctx + ": branch " + str(par[i]) + "-" + str(i));
    }
    // validity after the edit
    c.site("AssociationTreeGraphImplObserver::isValid");
    GView g = viewOf(G);
    judgeValidity(c, "tree", treeValidity(G), refIsTree(g), [&] { return ctx + " giving " + g.str(); });
    // a later plain creation under the root gets an edge of its own: every link that existed keeps its identity, end points and object
    if (!raised) {
      c.site("AssociationTreeGraphImplObserver::createNode(origin,new) after the edit");
      std::vector<EdgeRec> before = edgesOf(G);
      std::vector<std::pair<std::shared_ptr<int>, unsigned>> objs;
      for (int i = 1; i < n; ++i) if (O.hasEdge(ot.E[i])) objs.push_back({ot.E[i], O.getEdgeGraphid(ot.E[i])});
      if (O.hasEdge(e)) objs.push_back({e, O.getEdgeGraphid(e)});
      auto fresh = std::make_shared<int>(7777);
      bool r2 = false; try { O.createNode(ot.N[0], fresh); } catch (bpp::Exception&) { r2 = true; }
      if (r2) c.tag("edit:follow-up-creation-raised");
      else {
        std::vector<EdgeRec> after = edgesOf(G);
        bool kept = after.size() == before.size() + 1;
        for (auto& b : before) if (std::find(after.begin(), after.end(), b) == after.end()) kept = false;
        if (!kept) c.fail("observer|later-creation-disturbs-existing-links", ctx + " then createNode(root, new): links before " + edgesStr(before) + " after " + edgesStr(after));
        else for (auto& ob : objs) if (!O.hasEdge(ob.first) || O.getEdgeGraphid(ob.first) != ob.second || O.getEdgeFromGraphid(ob.second) != ob.first) { c.fail("observer|later-creation-disturbs-edge-objects", ctx + " then createNode(root, new): the object of edge " + str(ob.second) + " is no longer on it"); break; }
        c.tag("edit:follow-up-creation-judged");
      }
    }
  }, 10.0);
}

static void spaceObserverDigraphs(vf::Runner& R, int nmax) {
  std::vector<Block> bl; uint64_t total = 0;
  for (int n = 1; n <= nmax; ++n) { uint64_t cnt = (1ull << (n * (n - 1))) * (uint64_t)n; bl.push_back(Block{n, total, cnt, 1}); total += cnt; }
  R.space("observer:validity:digraphs:n<=" + str(nmax) + ":x-root", total, [=](uint64_t idx, vf::Case& c) {
    const Block& k = findBlock(bl, idx); int n = k.n; uint64_t o = idx - k.start;
    int r = (int)(o % (uint64_t)n); uint64_t mask = o / (uint64_t)n;
    auto arcs = arcList(n, mask, true);
    if (!arcs.empty()) c.nontrivial();
    std::vector<std::shared_ptr<int>> N; for (int i = 0; i < n; ++i) N.push_back(std::make_shared<int>(i));
    {
      c.site("AssociationTreeGraphImplObserver::isValid (digraph)");
      TObs O(true);
      for (int i = 0; i < n; ++i) O.createNode(N[i]);
      int kk = 0; for (auto& a : arcs) O.link(N[a.first], N[a.second], std::make_shared<int>(100 + kk++));
      O.setRoot(N[r]);
      GView g = viewOf(*O.getGraph()); bool ref = refIsTree(g);
      bool v1 = O.isValid(), v2 = O.isValid();
      c.tag(ref ? "observer-digraph:is-tree" : "observer-digraph:not-tree");
      if (v1 != ref) c.fail("validity|tree-predicate-differs-from-definition", "tree observer, root " + str(r) + ", " + arcsStr(n, arcs, true) + ": isValid=" + str(v1) + ", definition " + str(ref));
      else if (v2 != v1) c.fail("validity|tree-isValid-stale-cache", "tree observer " + arcsStr(n, arcs, true));
    }
    if (r == 0) {
      c.site("AssociationDAGraphImplObserver::isValid (digraph)");
      DObs O;
      for (int i = 0; i < n; ++i) O.createNode(N[i]);
      std::vector<std::shared_ptr<int>> eo; int kk = 0;
      // addSon / addFather with a fresh edge object: the object must sit on the new link
      for (auto& a : arcs) { eo.push_back(std::make_shared<int>(100 + kk)); if (kk++ % 2) O.addFather(N[a.second], N[a.first], eo.back()); else O.addSon(N[a.first], N[a.second], eo.back()); }
      for (size_t i = 0; i < arcs.size(); ++i) if (O.getEdgeLinking(N[arcs[i].first], N[arcs[i].second]) != eo[i]) c.fail("observer|dag-addSon-edge-object-not-on-new-link", "DAG observer " + arcsStr(n, arcs, true) + " arc #" + str(i));
      GView g = viewOf(*O.getGraph()); bool ref = refIsDag(g);
      bool v1 = O.isValid(), v2 = O.isValid();
      if (v1 != ref) c.fail("validity|dag-predicate-differs-from-definition", "DAG observer " + arcsStr(n, arcs, true) + ": isValid=" + str(v1) + ", definition " + str(ref));
      else if (v2 != v1) c.fail("validity|dag-isValid-stale-cache", "DAG observer " + arcsStr(n, arcs, true));
    }
  }, 10.0);
}

// ------------------------------------------------------------------------------------------------
// E1: edit histories on the tree container
// ------------------------------------------------------------------------------------------------
struct TreeSys : vf::SysBase {
  enum { N = 5 };
  enum Kind { CREATE, CREATESON, SETFATHER, ADDSON, REMOVESON, DELETE, ROOTAT, OUTGROUP, UNROOT, UNROOTJOIN, ISVALID, ISROOTED, SETROOT };
  std::unique_ptr<TreeGlobalGraph> T;
  explicit TreeSys(const std::vector<int>& seed) : T(new TreeGlobalGraph(true)) { buildTree(*T, seed); }
  static int nops() { return 1 + N + 3 * N * N + 3 * N + 4 + N; }
  struct Op { Kind k; int a, b; };
  static Op decode(int op) {
    if (op >= 1 + N + 3 * N * N + 3 * N + 4) return Op{SETROOT, op - (1 + N + 3 * N * N + 3 * N + 4), 0};   // Graph::setRoot (public through the Graph interface; what the observers' setRoot calls)
    if (op == 0) return Op{CREATE, 0, 0};
    op -= 1; if (op < N) return Op{CREATESON, op, 0};
    op -= N; if (op < N * N) return Op{SETFATHER, op / N, op % N};
    op -= N * N; if (op < N * N) return Op{ADDSON, op / N, op % N};
    op -= N * N; if (op < N * N) return Op{REMOVESON, op / N, op % N};
    op -= N * N; if (op < N) return Op{DELETE, op, 0};
    op -= N; if (op < N) return Op{ROOTAT, op, 0};
    op -= N; if (op < N) return Op{OUTGROUP, op, 0};
    op -= N; static const Kind last[] = {UNROOT, UNROOTJOIN, ISVALID, ISROOTED};
    return Op{last[op], 0, 0};
  }
  std::string opname(int op) const {
    Op o = decode(op);
    switch (o.k) {
      case CREATE: return "createNode()";
      case CREATESON: return "createNodeFromNode(" + str(o.a) + ")";
      case SETROOT: return "Graph::setRoot(" + str(o.a) + ")";
      case SETFATHER: return "setFather(node " + str(o.a) + ", father " + str(o.b) + ")";
      case ADDSON: return "addSon(node " + str(o.a) + ", son " + str(o.b) + ")";
      case REMOVESON: return "removeSon(node " + str(o.a) + ", son " + str(o.b) + ")";
      case DELETE: return "deleteNode(" + str(o.a) + ")";
      case ROOTAT: return "rootAt(" + str(o.a) + ")";
      case OUTGROUP: return "setOutGroup(" + str(o.a) + ")";
      case UNROOT: return "unRoot(false)";
      case UNROOTJOIN: return "unRoot(true)";
      case ISVALID: return "isValid()";
      default: return "isRooted()";
    }
  }
  // READ-ONLY access to the private structure
  bool has(int x) const { return T->nodeStructure_.count((unsigned)x) != 0; }
  bool arc(int a, int b) const { auto it = T->nodeStructure_.find((unsigned)a); return it != T->nodeStructure_.end() && it->second.first.count((unsigned)b); }
  size_t indeg(int x) const { return T->nodeStructure_.at((unsigned)x).second.size(); }
  size_t outdeg(int x) const { return T->nodeStructure_.at((unsigned)x).first.size(); }
  bool enabled(int op) {
    Op o = decode(op); bool dir = T->directed_;
    switch (o.k) {
      case CREATE: return T->highestNodeID_ < (unsigned)N;
      case CREATESON: return T->highestNodeID_ < (unsigned)N && has(o.a);
      case SETFATHER: return o.a != o.b && has(o.a) && has(o.b) && (dir || (indeg(o.a) == 0 && !arc(o.b, o.a)));
      case ADDSON: return o.a != o.b && has(o.a) && has(o.b) && !arc(o.a, o.b);
      case REMOVESON: return dir && has(o.a) && has(o.b) && arc(o.a, o.b);
      case DELETE: return has(o.a);   // also on un-rooted (undirected) trees: a legal edit there too
      case ROOTAT: return has(o.a);
      case SETROOT: return has(o.a);
      case OUTGROUP: return has(o.a) && T->highestNodeID_ + 2 <= (unsigned)N;
      case UNROOTJOIN: {
        if (!dir) return false;
        // joining the two sons of the root links them: not when they are linked already (parallel link)
        if (has((int)T->root_) && outdeg((int)T->root_) == 2) { auto& m = T->nodeStructure_.at(T->root_).first; unsigned s0 = m.begin()->first, s1 = m.rbegin()->first; if (arc((int)s0, (int)s1)) return false; }
        return true;
      }
      default: return true;
    }
  }
  // node table and edge table describe the same links (their agreement is property C14; here it only guards the judgements)
  bool consistent() const {
    size_t arcs = 0; for (auto& nd : T->nodeStructure_) arcs += nd.second.first.size();
    if (!T->directed_) arcs /= 2;
    if (arcs != T->edgeStructure_.size()) return false;
    for (auto& e : T->edgeStructure_) { auto it = T->nodeStructure_.find(e.second.first); if (it == T->nodeStructure_.end()) return false; auto jt = it->second.first.find(e.second.second); if (jt == it->second.first.end() || jt->second != e.first) return false; }
    return true;
  }
  std::string canon() const {
    std::map<unsigned, int> rank; int k = 0; for (auto& e : T->edgeStructure_) rank[e.first] = k++;
    auto rk = [&](unsigned e) { auto it = rank.find(e); return it == rank.end() ? "?" + std::to_string(e) : std::to_string(it->second); };
    std::string s = T->directed_ ? "D" : "U"; s += " r" + std::to_string(T->root_) + " hn" + std::to_string(T->highestNodeID_) + " v" + std::to_string((int)T->isValid_) + " |";
    for (auto& nd : T->nodeStructure_) {
      s += std::to_string(nd.first) + ":o{";
      for (auto& p : nd.second.first) s += std::to_string(p.first) + "/" + rk(p.second) + " ";
      s += "}i{";
      for (auto& p : nd.second.second) s += std::to_string(p.first) + "/" + rk(p.second) + " ";
      s += "} ";
    }
    s += "| ";
    for (auto& e : T->edgeStructure_) s += rk(e.first) + ":" + std::to_string(e.second.first) + ">" + std::to_string(e.second.second) + " ";
    return s;
  }
  void apply(int op, vf::Case& c) {
    Op o = decode(op);
    bool judge = !c.muted;
    std::string before; GView pre; std::vector<EdgeRec> preEdges; bool preValid = false;
    bool preConsistent = true;
    if (judge) { before = canon(); pre = viewOf(*T); preEdges = edgesOf(*T); preValid = refIsTree(pre); preConsistent = consistent(); }
    bool raised = false, answer = false;
    try {
      switch (o.k) {
        case CREATE: T->createNode(); break;
        case CREATESON: T->createNodeFromNode((unsigned)o.a); break;
        case SETFATHER: T->setFather((unsigned)o.a, (unsigned)o.b); break;
        case ADDSON: T->addSon((unsigned)o.a, (unsigned)o.b); break;
        case REMOVESON: T->removeSon((unsigned)o.a, (unsigned)o.b); break;
        case DELETE: T->deleteNode((unsigned)o.a); break;
        case ROOTAT: T->rootAt((unsigned)o.a); break;
        case SETROOT: static_cast<Graph&>(*T).setRoot((unsigned)o.a); break;
        case OUTGROUP: T->setOutGroup((unsigned)o.a); break;
        case UNROOT: T->unRoot(false); break;
        case UNROOTJOIN: T->unRoot(true); break;
        case ISVALID: answer = T->isValid(); break;
        default: answer = T->isRooted(); break;
      }
    } catch (bpp::Exception&) { raised = true; }
    if (!judge) return;
    auto ctx = [&] { return "tree container in state [" + pre.str() + "] after " + opname(op); };
    GView g = viewOf(*T);
    bool ref = refIsTree(g);
    c.site("TreeGraphImpl::isValid (history)");
    judgeValidity(c, "tree", treeValidity(*T), ref, [&] { return ctx() + " giving [" + g.str() + "]"; });
    if (o.k == ISVALID && !raised && answer != preValid) c.fail("validity|tree-isValid-stale-cache", ctx() + ": answered " + str(answer));
    if (o.k == ISROOTED && (raised || answer != pre.directed)) c.fail("rootedness|tree-isRooted", ctx() + ": answered " + str(answer));
    if (!consistent()) c.tag("tree-state:edge-table-disagrees-with-node-table");
    // deleting an existing node is a legal edit in every state: it returns, the node is gone, and the links among the other nodes stay
    if (o.k == DELETE && pre.has((unsigned)o.a) && preConsistent) {
      if (raised) c.fail("edit|deleteNode-of-an-existing-node-raised", ctx() + " giving [" + g.str() + "]");
      else {
        bool ok = !g.has((unsigned)o.a) && g.nodes.size() + 1 == pre.nodes.size();
        std::multiset<std::pair<int, int>> want, got;
        for (auto& e : preEdges) if (e[1] != o.a && e[2] != o.a) want.insert({e[1], e[2]});
        for (auto& e : edgesOf(*T)) got.insert({e[1], e[2]});
        if (!ok || want != got) c.fail("edit|deleteNode-result-differs-from-definition", ctx() + " giving [" + g.str() + "]");
      }
    }
    if (o.k == ROOTAT && preValid && preConsistent) { judgeReroot(c, *T, preEdges, (unsigned)o.a, raised, !pre.directed, ctx); c.tag(pre.directed ? "history:rootAt-on-valid-rooted-tree" : "history:rootAt-on-valid-unrooted-tree"); }
    if (canon() != before) c.nontrivial();
    static const char* kn[] = {"createNode", "createNodeFromNode", "setFather", "addSon", "removeSon", "deleteNode", "rootAt", "setOutGroup", "unRoot", "unRoot", "isValid", "isRooted", "setRoot"};
    c.tag(std::string("tree-op:") + kn[o.k] + (raised ? ":raised" : ""));
    c.tag(ref ? "tree-state:valid" : "tree-state:invalid");
  }
};

// ------------------------------------------------------------------------------------------------
// E1: edit histories on the DAG container
// ------------------------------------------------------------------------------------------------
struct DagSys : vf::SysBase {
  enum { N = 4 };
  enum Kind { CREATE, ADDSON, ADDFATHER, REMOVESON, REMOVEFATHER, DELETE, ISVALID, ISROOTED, ROOTAT };
  std::unique_ptr<DAGlobalGraph> D;
  explicit DagSys(int initialNodes) : D(new DAGlobalGraph(true)) { for (int i = 0; i < initialNodes; ++i) D->createNode(); }
  static int nops() { return 1 + 4 * N * N + N + 2 + N; }
  struct Op { Kind k; int a, b; };
  static Op decode(int op) {
    if (op == 0) return Op{CREATE, 0, 0};
    op -= 1;
    static const Kind four[] = {ADDSON, ADDFATHER, REMOVESON, REMOVEFATHER};
    if (op < 4 * N * N) return Op{four[op / (N * N)], (op % (N * N)) / N, op % N};
    op -= 4 * N * N; if (op < N) return Op{DELETE, op, 0};
    op -= N; if (op < 2) return Op{op == 0 ? ISVALID : ISROOTED, 0, 0};
    return Op{ROOTAT, op - 2, 0};
  }
  std::string opname(int op) const {
    Op o = decode(op);
    switch (o.k) {
      case CREATE: return "createNode()";
      case ADDSON: return "addSon(node " + str(o.a) + ", son " + str(o.b) + ")";
      case ADDFATHER: return "addFather(node " + str(o.a) + ", father " + str(o.b) + ")";
      case REMOVESON: return "removeSon(node " + str(o.a) + ", son " + str(o.b) + ")";
      case REMOVEFATHER: return "removeFather(node " + str(o.a) + ", father " + str(o.b) + ")";
      case DELETE: return "deleteNode(" + str(o.a) + ")";
      case ISVALID: return "isValid()";
      case ROOTAT: return "rootAt(" + str(o.a) + ")";
      default: return "isRooted()";
    }
  }
  bool has(int x) const { return D->nodeStructure_.count((unsigned)x) != 0; }
  bool arc(int a, int b) const { auto it = D->nodeStructure_.find((unsigned)a); return it != D->nodeStructure_.end() && it->second.first.count((unsigned)b); }
  bool enabled(int op) {
    Op o = decode(op);
    switch (o.k) {
      case CREATE: return D->highestNodeID_ < (unsigned)N;
      case ADDSON: return o.a != o.b && has(o.a) && has(o.b) && !arc(o.a, o.b);
      case ADDFATHER: return o.a != o.b && has(o.a) && has(o.b) && !arc(o.b, o.a);
      case REMOVESON: return has(o.a) && has(o.b) && arc(o.a, o.b);
      case REMOVEFATHER: return has(o.a) && has(o.b) && arc(o.b, o.a);
      case DELETE: return has(o.a);
      case ROOTAT: return has(o.a);
      default: return true;
    }
  }
  std::string canon() const {
    std::map<unsigned, int> rank; int k = 0; for (auto& e : D->edgeStructure_) rank[e.first] = k++;
    auto rk = [&](unsigned e) { auto it = rank.find(e); return it == rank.end() ? "?" + std::to_string(e) : std::to_string(it->second); };
    std::string s = "hn" + std::to_string(D->highestNodeID_) + " v" + std::to_string((int)D->isValid_) + " rt" + std::to_string((int)D->isRooted_) + " |";
    for (auto& nd : D->nodeStructure_) {
      s += std::to_string(nd.first) + ":o{";
      for (auto& p : nd.second.first) s += std::to_string(p.first) + "/" + rk(p.second) + " ";
      s += "}i{";
      for (auto& p : nd.second.second) s += std::to_string(p.first) + "/" + rk(p.second) + " ";
      s += "} ";
    }
    s += "| ";
    for (auto& e : D->edgeStructure_) s += rk(e.first) + ":" + std::to_string(e.second.first) + ">" + std::to_string(e.second.second) + " ";
    return s;
  }
  void apply(int op, vf::Case& c) {
    Op o = decode(op);
    bool judge = !c.muted;
    std::string before; GView pre;
    if (judge) { before = canon(); pre = viewOf(*D); }
    bool raised = false, answer = false;
    try {
      switch (o.k) {
        case CREATE: D->createNode(); break;
        case ADDSON: D->addSon((unsigned)o.a, (unsigned)o.b); break;
        case ADDFATHER: D->addFather((unsigned)o.a, (unsigned)o.b); break;
        case REMOVESON: D->removeSon((unsigned)o.a, (unsigned)o.b); break;
        case REMOVEFATHER: D->removeFather((unsigned)o.a, (unsigned)o.b); break;
        case DELETE: D->deleteNode((unsigned)o.a); break;
        case ISVALID: answer = D->isValid(); break;
        case ROOTAT: D->rootAt((unsigned)o.a); break;
        default: answer = D->isRooted(); break;
      }
    } catch (bpp::Exception&) { raised = true; }
    if (!judge) return;
    auto ctx = [&] { return "DAG container in state [" + pre.str() + "] after " + opname(op); };
    GView g = viewOf(*D);
    if (g.nodes.empty()) { c.tag("dag-state:empty"); }
    else {
      c.site("DAGraphImpl::isValid (history)");
      bool ref = refIsDag(g);
      judgeValidity(c, "dag", dagValidity(*D), ref, [&] { return ctx() + " giving [" + g.str() + "]"; });
      if (o.k == ISVALID && (raised || answer != ref)) c.fail("validity|dag-isValid-stale-cache", ctx() + ": answered " + str(answer));
      // rootedness (DAGraph.h: "has only one node with no father"), judged on acyclic graphs; what the object would answer now (on a copy)
      if (ref) {
        c.site("DAGraphImpl::isRooted (history)");
        DAGlobalGraph cp(*D); bool rooted = cp.isRooted();
        if (rooted != (fatherless(g) == 1)) c.fail("rootedness|dag-isRooted-differs-from-definition", ctx() + " giving [" + g.str() + "]: isRooted() would answer " + str(rooted) + " but " + str(fatherless(g)) + " node(s) have no father");
        c.tag(fatherless(g) == 1 ? "dag-state:rooted" : "dag-state:several-roots");
      }
      c.tag(ref ? "dag-state:acyclic" : "dag-state:cyclic");
    }
    if (canon() != before) c.nontrivial();
    static const char* kn[] = {"createNode", "addSon", "addFather", "removeSon", "removeFather", "deleteNode", "isValid", "isRooted", "rootAt"};
    c.tag(std::string("dag-op:") + kn[o.k] + (raised ? ":raised" : ""));
  }
};

static void exploreTree(vf::Runner& R, const std::vector<int>& seed, int depth) {
  std::string nm = "tree-history:ids<=5:seed" + lst(seed) + ":d" + str(depth);
  R.explore(nm, depth, TreeSys::nops(), [seed]() { return std::unique_ptr<TreeSys>(new TreeSys(seed)); }, 10.0);
}

int main(int argc, char** argv) {
  static std::shared_ptr<OutputStream> nul(new NullOutputStream());
  ApplicationTools::message = nul; ApplicationTools::warning = nul; ApplicationTools::error = nul;
  vf::Runner R(argc, argv, "C15");
  bool th = R.thorough();

  spaceTrees(R, "recursive", 7, 7);
  spaceTrees(R, "labelled", th ? 7 : 6, 6);
  spaceFamilies(R);
  spaceUnrootReroot(R, th ? 7 : 6);
  spaceDigraphs(R, th ? 5 : 4);
  spaceDigraphsRootAt(R, 4);
  spaceDagSelfArcs(R, th ? 4 : 3);
  R.expectSeen("dag-rootAt:cyclic-afterwards"); R.expectSeen("dag-rootAt:acyclic-afterwards");
  spaceUndirected(R, th ? 6 : 5);
  spaceObserverReroot(R, th ? 7 : 6);
  spaceObserverEdit(R, th ? 6 : 5);
  spaceObserverDigraphs(R, th ? 4 : 3);

  // E1 histories: from the empty graph, and from seed trees so that bounded depth reaches edits of 3-, 4- and 5-node trees
  exploreTree(R, {}, th ? 7 : 6);
  for (uint64_t t = 0; t < nRecursive(4); ++t) exploreTree(R, recursiveTree(4, t), th ? 4 : ((t == 0 || t == 2 || t == 5) ? 4 : 3));   // quick: star, mixed and path one level deeper; thorough: all six
  exploreTree(R, {-1, 0, 0}, th ? 5 : 4);
  exploreTree(R, {-1, 0, 1}, th ? 5 : 4);
  exploreTree(R, {-1, 0, 0, 1, 1}, 3);
  exploreTree(R, {-1, 0, 1, 2, 3}, 3);
  exploreTree(R, {-1, 0, 1, 1, 0}, 3);
  R.explore("dag-history:ids<=4:from-empty:d5", 5, DagSys::nops(), []() { return std::unique_ptr<DagSys>(new DagSys(0)); }, 10.0);
  R.explore("dag-history:ids<=4:from-3-isolated-nodes:d" + str(th ? 5 : 4), th ? 5 : 4, DagSys::nops(), []() { return std::unique_ptr<DagSys>(new DagSys(3)); }, 10.0);
  R.explore("dag-history:ids<=4:from-4-isolated-nodes:d" + str(th ? 5 : 4), th ? 5 : 4, DagSys::nops(), []() { return std::unique_ptr<DagSys>(new DagSys(4)); }, 10.0);

  R.expectSeen("pair:ancestor-descendant"); R.expectSeen("pair:unrelated"); R.expectSeen("rerooted");
  R.expectSeen("digraph:is-tree"); R.expectSeen("digraph:not-tree"); R.expectSeen("digraph:acyclic"); R.expectSeen("digraph:cyclic");
  R.expectSeen("undirected:is-tree"); R.expectSeen("undirected:not-tree");
  R.expectSeen("tree-state:valid"); R.expectSeen("tree-state:invalid"); R.expectSeen("tree-op:isValid"); R.expectSeen("tree-op:rootAt");
  R.expectSeen("history:rootAt-on-valid-rooted-tree"); R.expectSeen("history:rootAt-on-valid-unrooted-tree");
  R.expectSeen("dag-state:acyclic"); R.expectSeen("dag-state:cyclic"); R.expectSeen("dag-op:isValid");
  R.expectSeen("setFather-edge:v0:done");

  R.note("validity: a bpp::Exception raised by isValid()/isTree() (this happens when the recorded root node has been deleted) is counted as 'not true'; only a wrong true/false answer is a violation");
  R.note("reference tree predicate: root exists, n-1 arcs (edges), every node reachable from the root along arcs; reference DAG predicate: Kahn; empty graphs are not judged");
  R.note("lists returned by getSons/getBranches/getLeavesUnderNode/getSubtree* are compared as sets (no order is promised); paths are compared as sequences from the first to the second node; includeAncestor=false is read as 'the path without the common ancestor' (as coded)");
  R.note("MRCA is judged on sets of 1..3 distinct nodes; the empty set is outside the domain");
  R.note("tree observer: setFather/addSon with an edge object the observer does not know raise 'Unexisting edge object' (recorded, not judged); judged are the calls that succeed: the object currently on the branch above the node, and an object announced with associateEdge under an unused edge id");
  R.note("DAG isRooted is judged against DAGraph.h ('has only one node with no father') on acyclic graphs only");
  R.note("setOutGroup is part of the history alphabet as a state driver only; in this tree it always raises after deleting the root (observation, not judged)");
  return R.finish();
}
