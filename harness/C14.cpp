// C14 — graph and object-association views stay consistent with a reference model
// VF-VARIANT: san
// VF-RULE: E1 breadth-first search, de-duplicated on the canonical state (every private field of GlobalGraph / AssociationGraphImplObserver, addresses renamed, plus the reference), over all histories of public operations with every argument from a small universe, including absent ids/objects. A crash / sanitizer report / hang is a finding of the history that was running (recovered from a per-worker black box). A transition is non-trivial when it changed the canonical state.
// VF-BOUND: GlobalGraph alone: <= 4 (quick) / 5 (thorough) node ids and <= 6 / 8 edge ids ever created, start directed and start undirected, state graph closed (histories of any length within the id budget). Observer (4 spaces per start mode): topology = 3 node + 2 edge objects + "no edge object", <= 4 node / 4 edge ids, all histories to depth 4 (quick) / 5 (thorough; plus 4 node objects, <= 5 ids, depth 4); association = 2+2 objects, <= 3 ids, associate/dissociate and object-less nodes/edges made on the subject graph (createNode, createNodeFromNode, createNodeOnEdge, deleteNode at graph level), depth 6 / 7, and 3+1 objects, <= 4 ids, depth 4 / 5; index = 2+2 objects, indices 0..1 explicit + allocated, depth 5 / 6. Replaces "length <= 6 over <= 4 nodes exhaustively" (the graph layer is closed, the observer layer is cut at depth 4-7) and "random length 40 over 8 nodes" (not run: nothing is sampled).
// VF-LEVEL: bounded-exhaustive differential check of the real code against an independent reference multigraph + association maps: every reachable state within the bound is audited (cross-view invariants on private state, state = reference, every query and iterator = reference, must-raise operations raise bpp::Exception and leave every private field unchanged, copies own distinct objects with isomorphic relations)
// VF-ASSUME: the reference model in harness/C14_model.hpp and C14.cpp is right;; sequential library, no hidden global state (checked by the determinism gate);; protected GlobalGraph::link/unlink/switchNodes/setRoot are reached only through public callers;; self-loops, orientate(), isTree/isDA, getLeavesFromNode, getAllInnerNodes, observer operator= and outputToDot are outside the check
// VF-TECHNIQUE: explicit-state BFS over operation histories with a reference model (differential), real code under ASan/UBSan + libstdc++ assertions
// VF-BUDGET_QUICK: 400
// VF-BUDGET_THOROUGH: 1500
#include "vf.hpp"
#include "C14_probe.hpp"
#include "C14_model.hpp"
#include <Bpp/Graph/AssociationGraphImplObserver.h>
using namespace bpp;
using namespace c14;
using vf::str;

namespace {

// judge raise/return against the expectation. true = go on with the state checks
struct StepCtx { Sink& s; std::string part, opclass, ctx; };
void sfail(StepCtx& k, const std::string& clause, const std::string& d, bool div) { k.s.fail(k.part + "|" + k.opclass + "|" + clause, k.ctx + ": " + d, div); }
void judgeOutcome(StepCtx& k, Expect ex, Outcome out, const std::string& what, bool changed) {
  k.s.tag(expName(ex));
  k.s.tag(out == RETURNED ? "out:returned" : out == RAISED_BPP ? "out:raised-bpp" : "out:raised-foreign");
  if (out == RETURNED) { if (ex == MUST_RAISE) sfail(k, "must-raise-but-returned", "the call returned normally" + std::string(changed ? " and changed the state" : ""), true); return; }
  if (ex == MUST_OK) { sfail(k, "raised-unexpectedly", "raised '" + what + "'" + (changed ? " after changing the state" : ""), true); return; }
  if (out == RAISED_FOREIGN) sfail(k, "raised-non-bpp-exception", "raised " + what + " instead of a bpp::Exception", false);
  if (changed) sfail(k, "raise-changed-state", "raised '" + what + "' but the private state is not what it was before the call", true);
}

// =================================================================================================================
// GlobalGraph alone
// =================================================================================================================
struct GSys : vf::SysBase {
  enum K { CREATE, FROMNODE, ONEDGE, FROMEDGE, DELNODE, MKDIR, MKUNDIR, ITER_ABSENT, COPY };
  struct Op { K k; U a; };
  int NN, EE; bool dir0;
  std::vector<Op> ops; int depth = 0;
  std::unique_ptr<GlobalGraph> g; GModel m;
  std::string part() const { return m.directed ? "graph:dir" : "graph:undir"; }   // mode of the current state
  GSys(bool directed, int nn, int ee) : NN(nn), EE(ee), dir0(directed), g(new GlobalGraph(directed)) {
    m.directed = directed;
    ops.push_back({CREATE, 0});
    for (U a = 0; a <= (U)NN; ++a) ops.push_back({FROMNODE, a});
    for (U a = 0; a <= (U)EE; ++a) ops.push_back({ONEDGE, a});
    for (U a = 0; a <= (U)EE; ++a) ops.push_back({FROMEDGE, a});
    for (U a = 0; a <= (U)NN; ++a) ops.push_back({DELNODE, a});
    ops.push_back({MKDIR, 0}); ops.push_back({MKUNDIR, 0}); ops.push_back({ITER_ABSENT, 0}); ops.push_back({COPY, 0});
  }
  int nops() const { return (int)ops.size(); }
  std::string opname(int i) const {
    const Op& o = ops[i];
    switch (o.k) {
      case CREATE: return "createNode()"; case FROMNODE: return "createNodeFromNode(" + str(o.a) + ")"; case ONEDGE: return "createNodeOnEdge(" + str(o.a) + ")";
      case FROMEDGE: return "createNodeFromEdge(" + str(o.a) + ")"; case DELNODE: return "deleteNode(" + str(o.a) + ")"; case MKDIR: return "makeDirected()";
      case MKUNDIR: return "makeUndirected()"; case ITER_ABSENT: return "neighbour/edge iterator factories on an absent node"; default: return "copy-construct, clone(), assign; edit the copy";
    }
  }
  std::string opclass(const Op& o) const {
    switch (o.k) {
      case CREATE: return "createNode"; case FROMNODE: return m.hasN(o.a) ? "createNodeFromNode" : "createNodeFromNode[absent-node]";
      case ONEDGE: return m.hasE(o.a) ? "createNodeOnEdge" : "createNodeOnEdge[absent-edge]"; case FROMEDGE: return m.hasE(o.a) ? "createNodeFromEdge" : "createNodeFromEdge[absent-edge]";
      case DELNODE: return m.hasN(o.a) ? "deleteNode" : "deleteNode[absent-node]"; case MKDIR: return "makeDirected"; case MKUNDIR: return "makeUndirected";
      case ITER_ABSENT: return "iterator-factory[absent-node]"; default: return "copy";
    }
  }
  Expect expect(const Op& o) const {
    switch (o.k) {
      case FROMNODE: case DELNODE: return m.hasN(o.a) ? MUST_OK : MUST_RAISE;
      case ONEDGE: case FROMEDGE: return m.hasE(o.a) ? MUST_OK : MUST_RAISE;
      case MKUNDIR: return (m.directed && m.reciprocal()) ? MAY_RAISE : MUST_OK;
      case ITER_ABSENT: return MUST_RAISE;
      default: return MUST_OK;
    }
  }
  bool enabled(int i) {
    const Op& o = ops[i]; if (expect(o) == MUST_RAISE) return true;
    int dn = 0, de = 0;
    switch (o.k) { case CREATE: dn = 1; break; case FROMNODE: dn = 1; de = 1; break; case ONEDGE: dn = 1; de = 2; break; case FROMEDGE: dn = 2; de = 3; break; default: break; }
    return (int)m.nextN + dn <= NN && (int)m.nextE + de <= EE;
  }
  std::string dumpImpl() const { return gdump(*g, [](const void*) { return std::string("?"); }); }
  std::string canon() const { return dumpImpl() + " || " + m.proj(); }

  void step(int i, Sink& s, bool audit) {
    const Op o = ops[i];
    StepCtx k{s, part(), opclass(o), ""};
    Expect ex = expect(o);
    std::string before = audit ? dumpImpl() : std::string(), beforeRef = audit ? m.proj() : std::string();
    bool first = depth == 0; ++depth;
    if (audit) k.ctx = "state [" + gproj(*g) + "] then " + opname(i);
    if (o.k == COPY) { if (audit) copyCheck(k); return; }
    Outcome out = RETURNED; std::string what; U ret = 0; bool hasRet = false;
    try {
      switch (o.k) {
        case CREATE: ret = g->createNode(); hasRet = true; break;
        case FROMNODE: ret = g->createNodeFromNode(o.a); hasRet = true; break;
        case ONEDGE: ret = g->createNodeOnEdge(o.a); hasRet = true; break;
        case FROMEDGE: ret = g->createNodeFromEdge(o.a); hasRet = true; break;
        case DELNODE: g->deleteNode(o.a); break;
        case MKDIR: g->makeDirected(); break;
        case MKUNDIR: g->makeUndirected(); break;
        case ITER_ABSENT: {
          U n = m.nextN; for (U x = 0; x < m.nextN; ++x) if (!m.hasN(x)) { n = x; break; }
          const GlobalGraph& cg = *g;
          // each factory must raise; the first one that returns ends the operation (the others are not touched any more)
          int raised = 0;
          try { auto it = g->outgoingNeighborNodesIterator(n); } catch (bpp::Exception&) { ++raised; }
          if (raised == 1) try { auto it = cg.outgoingNeighborNodesIterator(n); } catch (bpp::Exception&) { ++raised; }
          if (raised == 2) try { auto it = g->outgoingEdgesIterator(n); } catch (bpp::Exception&) { ++raised; }
          if (raised == 3) try { auto it = cg.outgoingEdgesIterator(n); } catch (bpp::Exception&) { ++raised; }
          if (raised == 4) try { auto it = g->incomingNeighborNodesIterator(n); } catch (bpp::Exception&) { ++raised; }
          if (raised == 5) try { auto it = cg.incomingNeighborNodesIterator(n); } catch (bpp::Exception&) { ++raised; }
          if (raised == 6) try { auto it = g->incomingEdgesIterator(n); } catch (bpp::Exception&) { ++raised; }
          if (raised == 7) try { auto it = cg.incomingEdgesIterator(n); } catch (bpp::Exception&) { ++raised; }
          if (raised == 8) throw bpp::Exception("all eight iterator factories raised");
          break; }
        default: break;
      }
    }
    catch (bpp::Exception& e) { out = RAISED_BPP; what = line1(e.what()); }
    catch (std::exception& e) { out = RAISED_FOREIGN; what = std::string(typeid(e).name()) + " '" + line1(e.what()) + "'"; }
    // reference
    U wantRet = 0;
    if (out == RETURNED && ex != MUST_RAISE) switch (o.k) {
      case CREATE: wantRet = m.newNode(); break;
      case FROMNODE: wantRet = m.newNode(); m.newEdge(o.a, wantRet); break;
      case ONEDGE: { auto p = m.edges.at(o.a); m.edges.erase(o.a); wantRet = m.newNode(); m.newEdge(p.first, wantRet); m.newEdge(wantRet, p.second); break; }
      case FROMEDGE: { auto p = m.edges.at(o.a); m.edges.erase(o.a); U anchor = m.newNode(); m.newEdge(p.first, anchor); m.newEdge(anchor, p.second); wantRet = m.newNode(); m.newEdge(anchor, wantRet); break; }
      case DELNODE: m.removeNode(o.a); break;
      case MKDIR: if (!m.directed) { m.directed = true; adoptOrientation(m, *g); } break;
      case MKUNDIR: m.directed = false; break;
      default: break;
    }
    if (!audit) return;
    std::string after = dumpImpl();
    judgeOutcome(k, ex, out, what, after != before);
    if (after != before) s.nontrivial = true;
    s.tag(k.part + " " + k.opclass);
    if (s.diverged) return;
    if (out == RETURNED && hasRet && ret != wantRet) { sfail(k, "returned-id-differs", "returned " + str(ret) + ", reference " + str(wantRet), true); return; }
    std::string inv = ginvariant(*g);
    if (!inv.empty()) { sfail(k, "views-disagree:" + inv.substr(0, inv.find(':')), inv, true); return; }
    if (gproj(*g) != m.proj()) { sfail(k, "state-differs-from-reference", "implementation [" + gproj(*g) + "] reference [" + m.proj() + "]", true); return; }
    // the query audit is a function of the state: it runs on every transition that enters a state (and on the first step for the initial state)
    if (!first && after == before && m.proj() == beforeRef) return;
    s.tag("state-audited");
    Q q{s, part(), "state [" + gproj(*g) + "]"};
    auditGraphQueries(*g, m, q);
  }
  void copyCheck(StepCtx& k) {
    std::string before = dumpImpl();
    try {
      GlobalGraph c1(*g); std::unique_ptr<GlobalGraph> c2(g->clone()); GlobalGraph c3(!g->directed_); c3.createNode(); c3 = *g;
      auto nm = [](const void*) { return std::string("?"); };
      if (gdump(c1, nm) != before || gdump(*c2, nm) != before || gdump(c3, nm) != before) sfail(k, "copy-differs", "copy [" + gdump(c1, nm) + "] clone [" + gdump(*c2, nm) + "] assigned [" + gdump(c3, nm) + "]", false);
      c1.createNode(); c2->createNode(); c3.createNode();
      if (dumpImpl() != before) sfail(k, "copy-not-independent", "editing a copy changed the source: [" + dumpImpl() + "]", true);
      GModel mc = m; Q q{k.s, part(), "copy of [" + before + "]"};
      GlobalGraph c4(*g); auditGraphQueries(c4, mc, q);
    }
    catch (std::exception& e) { sfail(k, "raised-unexpectedly", "raised '" + line1(e.what()) + "'", false); }
    k.s.tag(k.part + " copy");
  }

  void apply(int i, vf::Case& c);
};

// shared by both systems: muted = plain step; otherwise audited step, bracketed by the black-box record (see C14_probe.hpp)
template<class S> void applyLocal(S& sys, int i, vf::Case& c) {
  if (c.muted) { Sink q; q.quiet = true; sys.step(i, q, false); return; }
  std::string site = sys.part() + " " + sys.opclass(sys.ops[i]);
  c.site(site.c_str());
  blackBox().begin(c.slot ? str((unsigned long long)c.slot->cur) : std::string("?"), site, c.witness);
  Sink s; sys.step(i, s, true);
  blackBox().end();
  for (auto& f : s.fails) c.fail(f.first, f.second);
  for (auto& t : s.tags) c.tag(t);
  if (s.nontrivial) c.nontrivial();
  if (!s.diverged) c.failed = false;  // query-level findings do not corrupt the state: keep exploring behind them
}
void GSys::apply(int i, vf::Case& c) { applyLocal(*this, i, c); }

#include "C14_obs.hpp"

}  // namespace

int main(int argc, char** argv) {
  vf::Runner R(argc, argv, "C14");
  bool th = R.thorough();
  const double CT = 20.0;
  bbDir() = R.tmpdir;
  for (int d = 1; d >= 0; --d) {
    int nn = th ? 5 : 4, ee = th ? 8 : 6;
    GSys proto(d, nn, ee);
    std::string name = std::string("graph:") + (d ? "dir" : "undir") + ":n" + str(nn) + ":e" + str(ee);
    R.explore(name, 64, proto.nops(), [=] { return std::unique_ptr<GSys>(new GSys(d, nn, ee)); }, CT);
    recoverWitnesses(R, name);
  }
  obsSpaces(R, th, CT);
  R.expectSeen("exp:must-raise"); R.expectSeen("exp:must-succeed"); R.expectSeen("out:raised-bpp"); R.expectSeen("out:returned"); R.expectSeen("query-raised-bpp");
  R.note("only public entry points are called (GlobalGraph link/unlink/setRoot are reached through createNodeFromNode/createNodeOnEdge/deleteNode and the observer); private fields are only read");
  R.note("makeDirected: the orientation of each edge is documented as arbitrary, so the reference adopts the orientation found in the node table and demands that the edge table agrees with it");
  R.note("a second link between an already linked pair (parallel edge) may either raise (state unchanged) or succeed with all views agreeing as a multigraph; makeUndirected on reciprocal relations likewise");
  R.note("degree / number of neighbours = number of incident edges (what the code computes in directed mode); leaf = at most one distinct neighbour (Graph.h); getAllLeaves = nodes for which isLeaf holds");
  R.note("observer list queries skip nodes/edges that have no object (as coded); lists are compared as multisets; getNumberOfEdges of the observer = number of associated edge objects");
  R.note("a must-raise call has to leave every private field unchanged, with one modelled exception: createNode(origin,new,edge) is createNode(new) then link(...), so when the link raises (absent origin, edge object in use) the new orphan node exists and is associated; the reference models that sequential effect (an atomic implementation is accepted too)");
  R.note("associateNode/associateEdge with a graph id that does not exist is not driven: the library allows it on purpose (tree observers associate an edge object to the id they then pass to link(a,b,edgeId)); associating to an id that already has an object may raise, or must replace the old object (at most one object per id)");
  R.note("dissociateNode/Edge keep the object's index (as coded); deleting a node or edge must forget graph id and index of its object in every map");
  R.note("a std::exception that is not a bpp::Exception on a must-raise call is reported under its own signature class raised-non-bpp-exception; getNode/getEdge with a vacant index may return null, raise bpp::Exception or the std::out_of_range of vector::at (tagged, not judged)");
  R.note("copies of an observer share the subject graph by construction (shared_ptr); they are checked at copy time and destroyed, later edits of the source are not replayed against a living copy");
  R.note("graph-layer signatures carry the mode of the state (graph:dir / graph:undir): a mode-independent graph defect appears under two signatures; observer-layer signatures (obs|...) carry no mode because that layer has no mode-dependent code");
  R.note("engine work-around: the engine records a dying E1 worker with the level-local case index as witness; the harness keeps a per-worker black-box record of the running history and puts it into such violations after each explore() (C14_probe.hpp)");
  return R.finish();
}
