// C09 helpers: families, parameter lattices, restriction intervals, canonical state and the partition audit.
#pragma once
#include "vf.hpp"
#include "common.hpp"
#include <Bpp/Numeric/Prob/GammaDiscreteDistribution.h>
#include <Bpp/Numeric/Prob/BetaDiscreteDistribution.h>
#include <Bpp/Numeric/Prob/GaussianDiscreteDistribution.h>
#include <Bpp/Numeric/Prob/ExponentialDiscreteDistribution.h>
#include <Bpp/Numeric/Prob/TruncatedExponentialDiscreteDistribution.h>
#include <Bpp/Numeric/Prob/UniformDiscreteDistribution.h>
#include <Bpp/Numeric/Prob/SimpleDiscreteDistribution.h>
#include <Bpp/Numeric/Prob/ConstantDistribution.h>
#include <Bpp/Numeric/Prob/InvariantMixedDiscreteDistribution.h>
#include <Bpp/Numeric/Prob/MixtureOfDiscreteDistributions.h>
#include <Bpp/Numeric/NumConstants.h>
#include <cmath>
#include <limits>

namespace c09 {
using namespace bpp;
using vf::num;
using vf::str;
typedef AbstractDiscreteDistribution ADD;
static const double EPS = std::numeric_limits<double>::epsilon();
static const double INF = std::numeric_limits<double>::infinity();

enum Fam { F_GAMMA = 0, F_GAMMAOFF, F_BETA, F_GAUSS, F_EXPO, F_TEXP, F_UNIF, NFAM };
static const char* FAMNAME[NFAM] = {"gamma", "gamma+offset", "beta", "gaussian", "exponential", "truncexp", "uniform"};
// short parameter names in constructor-argument order (the harness's own order; the object may register them differently)
static const int NPAR[NFAM] = {2, 3, 2, 2, 1, 2, 0};
static const char* PNAME[NFAM][3] = {{"alpha", "beta", ""}, {"alpha", "beta", "offset"}, {"alpha", "beta", ""}, {"mu", "sigma", ""},
                                     {"lambda", "", ""}, {"lambda", "tp", ""}, {"", "", ""}};

// a trivial client subclass: the discretisation scheme is a protected member that only the beta family exposes in its constructor
template<class D> struct WithScheme : D {
  template<class... A> WithScheme(short s, A... a) : D(a...) {
    if (this->discretizationScheme_ != s) { this->discretizationScheme_ = s; this->discretize(); }
  }
  WithScheme(const WithScheme&) = default;
  WithScheme& operator=(const WithScheme&) = default;
  WithScheme* clone() const { return new WithScheme(*this); }
};

// p: constructor arguments in PNAME order; uniform: p[0]=min p[1]=max
inline std::unique_ptr<ADD> makeFam(Fam f, size_t k, const double* p, short scheme) {
  bool plain = (scheme == 1);
  switch (f) {
    case F_GAMMA: return std::unique_ptr<ADD>(plain ? new GammaDiscreteDistribution(k, p[0], p[1]) : new WithScheme<GammaDiscreteDistribution>(scheme, k, p[0], p[1]));
    case F_GAMMAOFF: return std::unique_ptr<ADD>(plain ? new GammaDiscreteDistribution(k, p[0], p[1], 0.05, 0.05, true, p[2]) : new WithScheme<GammaDiscreteDistribution>(scheme, k, p[0], p[1], 0.05, 0.05, true, p[2]));
    case F_BETA: return std::unique_ptr<ADD>(new BetaDiscreteDistribution(k, p[0], p[1], scheme));
    case F_GAUSS: return std::unique_ptr<ADD>(plain ? new GaussianDiscreteDistribution(k, p[0], p[1]) : new WithScheme<GaussianDiscreteDistribution>(scheme, k, p[0], p[1]));
    case F_EXPO: return std::unique_ptr<ADD>(plain ? new ExponentialDiscreteDistribution(k, p[0]) : new WithScheme<ExponentialDiscreteDistribution>(scheme, k, p[0]));
    case F_TEXP: return std::unique_ptr<ADD>(plain ? new TruncatedExponentialDiscreteDistribution(k, p[0], p[1]) : new WithScheme<TruncatedExponentialDiscreteDistribution>(scheme, k, p[0], p[1]));
    case F_UNIF: return std::unique_ptr<ADD>(plain ? new UniformDiscreteDistribution((unsigned)k, p[0], p[1]) : new WithScheme<UniformDiscreteDistribution>(scheme, (unsigned)k, p[0], p[1]));
    default: return nullptr;
  }
}
// dst = src through the concrete family's own assignment operator
inline void assignFam(Fam f, ADD& dst, const ADD& src) {
  switch (f) {
    case F_GAMMA: case F_GAMMAOFF: dynamic_cast<GammaDiscreteDistribution&>(dst) = dynamic_cast<const GammaDiscreteDistribution&>(src); break;
    case F_BETA: dynamic_cast<BetaDiscreteDistribution&>(dst) = dynamic_cast<const BetaDiscreteDistribution&>(src); break;
    case F_GAUSS: dynamic_cast<GaussianDiscreteDistribution&>(dst) = dynamic_cast<const GaussianDiscreteDistribution&>(src); break;
    case F_EXPO: dynamic_cast<ExponentialDiscreteDistribution&>(dst) = dynamic_cast<const ExponentialDiscreteDistribution&>(src); break;
    case F_TEXP: dynamic_cast<TruncatedExponentialDiscreteDistribution&>(dst) = dynamic_cast<const TruncatedExponentialDiscreteDistribution&>(src); break;
    case F_UNIF: dynamic_cast<UniformDiscreteDistribution&>(dst) = dynamic_cast<const UniformDiscreteDistribution&>(src); break;
    default: break;
  }
}

// ---------------------------------------------------------------------------------------------------------------------------
// parameter lattices (E2). L: shapes / rates / scales over three orders of magnitude inside the regular range
inline std::vector<double> latticeL(bool th) {
  return th ? std::vector<double>{0.1, 0.2, 0.5, 1, 2, 3, 5, 10, 30, 100} : std::vector<double>{0.1, 0.5, 1, 3, 10, 100};
}
inline std::vector<std::vector<double>> paramLattice(Fam f, bool th) {
  std::vector<double> L = latticeL(th);
  std::vector<std::vector<double>> out;
  switch (f) {
    case F_GAMMA: case F_BETA:
      for (double a : L) for (double b : L) out.push_back({a, b});
      break;
    case F_GAMMAOFF: {
      std::vector<double> A = th ? std::vector<double>{0.1, 0.5, 1, 3, 10, 100} : std::vector<double>{0.5, 3};
      std::vector<double> B = th ? std::vector<double>{0.1, 1, 10} : std::vector<double>{1, 10};
      std::vector<double> O = th ? std::vector<double>{0, 0.1, 0.5, 3, 100, -1, -10} : std::vector<double>{0, 0.5, 3, -1};
      for (double o : O) for (double a : A) for (double b : B) out.push_back({a, b, o});
      break; }
    case F_GAUSS: {
      std::vector<double> M = th ? std::vector<double>{0, 0.1, 0.5, 1, 3, 10, 100, -1, -10} : std::vector<double>{0, 0.5, 3, 100, -1};
      for (double m : M) for (double s : L) out.push_back({m, s});
      break; }
    case F_EXPO:
      for (double a : L) out.push_back({a});
      break;
    case F_TEXP:
      for (double a : L) for (double t : L) out.push_back({a, t});
      break;
    case F_UNIF:
      out = {{0, 1}, {-1, 1}, {0, 0.1}, {0.1, 100}, {10, 100}, {-3, -1}};
      if (th) { out.push_back({-100, 100}); out.push_back({0.5, 3}); out.push_back({-0.1, 0}); out.push_back({1, 1000}); }
      break;
    default: break;
  }
  return out;
}

// restriction intervals for a parameter point (E2): closed sub-intervals of the support defined from the closed-form mean m and
// standard deviation s of the parent: 1 = [m/2,2m]-like, 2 = nested inside 1, 3 = left part, 4 = right part, 5 = far sub-interval
// (for the families with unbounded support so far out that its mass is below the resolution of a double).
static const int NRESTR = 6;
struct Iv { double lo, hi; bool any; };   // any=false: no restriction
inline Iv restrictionFor(Fam f, const double* p, int r) {
  if (r == 0) return {0, 0, false};
  double m, s, off = 0;
  switch (f) {
    case F_GAMMA: case F_GAMMAOFF: case F_EXPO: {
      if (f == F_EXPO) { m = 1 / p[0]; s = m; } else { m = p[0] / p[1]; s = std::sqrt(p[0]) / p[1]; }
      if (f == F_GAMMAOFF) off = p[2];
      switch (r) {
        case 1: return {off + m / 2, off + 2 * m, true};
        case 2: return {off + 0.75 * m, off + 1.5 * m, true};
        case 3: return {off, off + m, true};
        case 4: return {off + m, INF, true};
        default: return {off + m + 300 * s, off + m + 600 * s, true};
      } }
    case F_GAUSS:
      m = p[0]; s = p[1];
      switch (r) {
        case 1: return {m - s, m + 2 * s, true};
        case 2: return {m - s / 2, m + s, true};
        case 3: return {-INF, m, true};
        case 4: return {m + s / 2, INF, true};
        default: return {m + 40 * s, m + 80 * s, true};
      }
    case F_BETA:
      switch (r) {
        case 1: return {0.1, 0.9, true};
        case 2: return {0.25, 0.75, true};
        case 3: return {0, 0.5, true};
        case 4: return {0.5, 1, true};
        default: return {0.4, 0.6, true};
      }
    case F_TEXP: case F_UNIF: {
      double a = (f == F_UNIF) ? std::min(p[0], p[1]) : 0, w = (f == F_UNIF) ? std::fabs(p[1] - p[0]) : p[1];
      switch (r) {
        case 1: return {a + w / 4, a + 3 * w / 4, true};
        case 2: return {a + w / 3, a + w / 2, true};
        case 3: return {a, a + w / 2, true};
        case 4: return {a + w / 2, a + w, true};
        default: return {a + w / 8, a + w / 4, true};
      } }
    default: return {0, 0, false};
  }
}
inline IntervalConstraint ivc(const Iv& v) { return IntervalConstraint(v.lo, v.hi, true, true); }
inline std::string ivs(const Iv& v) { return v.any ? "[" + num(v.lo) + "," + num(v.hi) + "]" : std::string("none"); }

// ---------------------------------------------------------------------------------------------------------------------------
// canonical concrete state (reads private members; never calls non-public code)
inline std::string canonOf(const DiscreteDistributionInterface& di);
inline std::string canonADD(const ADD& d) {
  std::string s = d.getName() + "{";
  const ParameterList& pl = d.getParameters();
  for (size_t i = 0; i < pl.size(); ++i) {
    s += pl[i].getName() + "=" + num(pl[i].getValue());
    if (pl[i].hasConstraint()) s += "@" + pl[i].getConstraint()->getDescription();
    s += ";";
  }
  s += "k=" + str(d.numberOfCategories_) + ";med=" + str((int)d.median_) + ";sch=" + str((int)d.discretizationScheme_);
  s += ";dom=" + std::string(d.intMinMax_->inclLowerBound_ ? "[" : "(") + num(d.intMinMax_->lowerBound_) + "," + num(d.intMinMax_->upperBound_) + (d.intMinMax_->inclUpperBound_ ? "]" : ")");
  s += ";b=";
  for (double b : d.bounds_) s += num(b) + ",";
  s += ";d=";
  for (auto& e : d.distribution_) s += num(e.first) + ":" + num(e.second) + ",";
  if (auto* g = dynamic_cast<const GammaDiscreteDistribution*>(&d)) s += ";g=" + num(g->alpha_) + "," + num(g->beta_) + "," + num(g->offset_) + "," + num(g->ga1_);
  if (auto* g = dynamic_cast<const BetaDiscreteDistribution*>(&d)) s += ";g=" + num(g->alpha_) + "," + num(g->beta_) + "," + num(g->diffln_);
  if (auto* g = dynamic_cast<const GaussianDiscreteDistribution*>(&d)) s += ";g=" + num(g->mu_) + "," + num(g->sigma_);
  if (auto* g = dynamic_cast<const ExponentialDiscreteDistribution*>(&d)) s += ";g=" + num(g->lambda_);
  if (auto* g = dynamic_cast<const TruncatedExponentialDiscreteDistribution*>(&d)) s += ";g=" + num(g->lambda_) + "," + num(g->tp_) + "," + num(g->cond_);
  if (auto* g = dynamic_cast<const UniformDiscreteDistribution*>(&d)) s += ";g=" + num(g->min_) + "," + num(g->max_);
  if (auto* g = dynamic_cast<const ConstantDistribution*>(&d)) s += ";g=" + num(g->value_);
  if (auto* g = dynamic_cast<const InvariantMixedDiscreteDistribution*>(&d)) s += ";g=" + num(g->invariant_) + "," + num(g->p_) + ";nested=" + canonOf(*g->dist_);
  if (auto* g = dynamic_cast<const MixtureOfDiscreteDistributions*>(&d)) {
    s += ";w="; for (double w : g->probas_) s += num(w) + ",";
    for (auto& n : g->vdd_) s += ";nested=" + canonOf(*n);
  }
  return s + "}";
}
inline std::string canonOf(const DiscreteDistributionInterface& di) {
  const ADD* a = dynamic_cast<const ADD*>(&di);
  return a ? canonADD(*a) : std::string("?");
}

// ---------------------------------------------------------------------------------------------------------------------------
// observed partition through the public interface
struct Snap {
  size_t k = 0; std::vector<double> v, p, b; double lb = 0, ub = 0; bool slb = false, sub = false; double prec = 0;
  bool med = false; short scheme = 0;
};
inline Snap snap(const ADD& d) {
  Snap s; s.k = d.getNumberOfCategories(); s.v = d.getCategories(); s.p = d.getProbabilities();
  s.lb = d.getLowerBound(); s.ub = d.getUpperBound(); s.slb = d.strictLowerBound(); s.sub = d.strictUpperBound(); s.prec = d.precision();
  s.med = d.median_; s.scheme = d.discretizationScheme_;   // read-only observation of the two mode flags
  s.b.clear();
  if (s.k >= 1) s.b = d.getBounds();
  return s;
}
inline std::string snapStr(const Snap& s) {
  std::string r = "k=" + str(s.k) + " median=" + str((int)s.med) + " scheme=" + str((int)s.scheme) + " domain=" + (s.slb ? "(" : "[") + num(s.lb) + "," + num(s.ub) + (s.sub ? ")" : "]") + " classes:";
  for (size_t i = 0; i < s.v.size(); ++i) {
    r += " {";
    if (i + 1 < s.b.size()) r += "[" + num(s.b[i]) + "," + num(s.b[i + 1]) + "] ";
    r += "v=" + num(s.v[i]) + " p=" + (i < s.p.size() ? num(s.p[i]) : std::string("?")) + "}";
    if (i >= 5 && s.v.size() > 8) { r += " ... (" + str(s.v.size()) + " classes)"; break; }
  }
  return r;
}

// accuracy of the parent's own cumulative/quantile pair in probability units: incompleteGamma stops its series at 1e-8 ("accurate"), the
// chi-square/beta quantiles iterate to a relative step of 5e-7 and the property's companion check (C08) holds p(q(u)) = u to 1e-8 for all
// families; 1e-5 is the figure the design fixes (two orders of headroom). Closed-form families: rounding only.
inline double tolQ(Fam f) { return (f == F_EXPO || f == F_TEXP || f == F_UNIF) ? 1e-12 : 1e-5; }
// absolute accuracy assumed for the parent's cumulative function and (per unit of scale) partial expectation: the series/continued fractions
// of the gamma/beta/normal type stop at 1e-8 (C08 holds them to 1e-8 / 1e-12); closed forms: rounding only
inline double accF(Fam f) { return (f == F_EXPO || f == F_TEXP || f == F_UNIF) ? 1e-13 : 4e-8; }

// A bound or quantile is a double: it cannot be closer to the exact quantile than the double grid allows. Where the parent's cumulative
// function is steep on that grid (beta with a shape below 1 next to 1, say) one step of the grid is a visible step in probability. The
// slack of a computed abscissa x is the change of the parent's own cumulative function over x -+ 2 grid steps (clamped to the domain).
inline double gridSlack(const ADD& d, double x, double lb, double ub) {
  if (!std::isfinite(x)) return 0;
  double a = std::nextafter(std::nextafter(x, -INF), -INF), b = std::nextafter(std::nextafter(x, INF), INF);
  if (a < lb) a = lb; if (b > ub) b = ub;
  double s = std::fabs(d.pProb(b) - d.pProb(a));
  return std::isfinite(s) ? s : 0;
}
struct AuditOpt { size_t kreq; bool med; short scheme; Fam fam; };
// c.fail plus a per-family break-down of the failing clause in the outcome histogram (the signature itself stays family-free)
inline void failF(vf::Case& c, const std::string& sig, const std::string& fam, const std::string& detail) {
  c.fail(sig, detail); c.tag("viol[" + sig + "]@" + fam);
}

// every clause of the statement that concerns ONE state of a discretised continuous family
inline void auditPartition(const ADD& d, const AuditOpt& o, vf::Case& c, const std::string& ctx) {
  Snap s = snap(d);
  std::string fam = FAMNAME[o.fam];
  auto where = [&]() { return ctx + " -> " + snapStr(s); };
  size_t k = s.k;
  // class of the reported domain by its mass under the parent (a label for the structural clauses, not an excuse: every class is judged)
  double M0 = d.pProb(s.ub) - d.pProb(s.lb);
  // "tail domain": the mass of one class (M/k) is below 1e-5 -- the order of the probabilities the library's quantile functions resolve
  // (qChisq answers -1 outside [2e-6, 1-2e-6]; the cumulative functions are accurate to 1e-8 absolute)
  std::string dc = !(M0 > 0) ? "|zero-mass-domain" : (M0 / (double)std::max<size_t>(k, 1) < 1e-5 ? "|tail-domain(class-mass<1e-5)" : "");
  auto fail = [&](const std::string& sig, const std::string& det) { failF(c, sig, fam, det); };
  // --- class count
  if (k != o.kreq || s.v.size() != o.kreq || s.p.size() != o.kreq) {
    fail("count|classes-differ-from-requested", where() + " | requested " + str(o.kreq) + ", getNumberOfCategories=" + str(k) + ", class list has " + str(s.v.size()));
    return;
  }
  if (s.med != o.med) fail("count|median-flag-differs-from-requested", where());
  // --- probabilities
  double sum = 0; bool pok = true;
  for (size_t i = 0; i < k; ++i) { if (!(s.p[i] >= 0) || !std::isfinite(s.p[i])) pok = false; sum += s.p[i]; }
  if (!pok) fail("prob|negative-or-not-a-number" + dc, where());
  else if (!(std::fabs(sum - 1) <= 1e-12 * (double)k)) fail("prob|sum-differs-from-one" + dc, where() + " | sum=" + num(sum));
  // --- class values
  bool vok = true;
  for (size_t i = 0; i < k; ++i) if (!std::isfinite(s.v[i])) vok = false;
  for (size_t i = 0; i + 1 < k; ++i) if (!(s.v[i] < s.v[i + 1])) vok = false;
  if (!vok) fail("values|not-strictly-increasing-or-not-finite" + dc, where());
  // --- bounds
  bool bok = (s.b.size() == k + 1);
  if (!bok) fail("bounds|getBounds-size", where());
  else {
    if (s.b[0] != s.lb || s.b[k] != s.ub) { fail("bounds|getBounds-ends-differ-from-domain", where()); bok = false; }
    bool mono = true, inside = true, fin = true;
    for (size_t i = 1; i < k; ++i) {
      if (std::isnan(s.b[i])) fin = false;
      if (!(s.b[i] >= s.b[i - 1])) mono = false;
      if (!(s.b[i] >= s.lb && s.b[i] <= s.ub)) inside = false;
    }
    if (k >= 1 && !(s.b[k] >= s.b[k - 1])) mono = false;
    if (!fin) { fail("bounds|not-a-number" + dc, where()); bok = false; }
    else {
      if (!inside) { fail("bounds|interior-bound-outside-domain" + dc, where()); bok = false; }
      if (!mono) { fail("bounds|decreasing" + dc, where()); bok = false; }
    }
    for (size_t i = 0; i + 1 < k; ++i) {
      double g = 0; bool threw = false;
      try { g = d.getBound(i); } catch (Exception&) { threw = true; }
      if (threw || g != s.b[i + 1]) { fail("bounds|getBound-differs-from-getBounds", where()); break; }
    }
  }
  // --- "equal probabilities when possible": the scheme exists to fall back on equal intervals whenever two consecutive bounds of the
  //     equal-probability partition coincide (an empty class interval cannot carry the same mass as the others); whichever branch was
  //     taken, no class interval of the result is empty (equal intervals over a domain with non-empty interior are never empty)
  if (bok && s.scheme == 3 && s.ub > s.lb) {
    for (size_t i = 0; i < k; ++i) if (s.b[i] == s.b[i + 1]) {
      fail("bounds|empty-class-interval-in-the-equal-probability-when-possible-scheme" + dc, where() + " | class " + str(i) + " is [" + num(s.b[i]) + "," + num(s.b[i + 1]) + "] with probability " + num(s.p[i]));
      break;
    }
  }
  // --- each value inside its own class interval, up to the resolution the object declares for class values: the boundary adjustment
  //     moves a value by one precision() and the duplicate separation by at most k of them
  if (bok && vok) {
    for (size_t i = 0; i < k; ++i) {
      // ... in units of precision() or of the double grid at that value, whichever is coarser (beta declares 1e-20, far below the grid:
      // two classes whose bounds coincide cannot hold two distinct values closer than one grid step)
      double ulp = std::nextafter(std::fabs(s.v[i]), INF) - std::fabs(s.v[i]);
      double tv = (double)(k + 1) * std::max(s.prec, ulp);
      if (!(s.v[i] >= s.b[i] - tv && s.v[i] <= s.b[i + 1] + tv)) {
        // Which failing site? With median-valued classes the library multiplies every class median by one common factor (mean over the
        // domain / mean of the medians) so that the discrete mean is kept: a median times that factor can leave its class although the
        // median itself is inside. That site is told apart from any other way a value can be outside its class by recomputing the recipe
        // with the object's own parent functions: the class median must lie in the class, and the reported value must be that median
        // times the factor (or, when the product leaves the domain, the domain end it was moved back to).
        std::string why = s.med ? "median" : "mean";
        if (s.med && M0 > 0 && (s.scheme == 1 || s.scheme == 3)) {
          double minX = d.pProb(s.lb), ec = M0 / (double)k, t = 0;
          std::vector<double> md(k);
          for (size_t j = 0; j < k; ++j) { md[j] = d.qProb(minX + ((double)j + 0.5) * ec); t += md[j]; }
          // a second site: a class-median probability closer than 2e-6 to 0 or 1 is outside the documented working range of the gamma-type
          // quantile function (qChisq answers its sentinel -1 there); the sentinel is then taken for a class median
          bool qrange = false;
          for (size_t j = 0; j < k; ++j) { double u = minX + ((double)j + 0.5) * ec; double tj = (double)(k + 1) * std::max(s.prec, std::nextafter(std::fabs(md[j]), INF) - std::fabs(md[j]));
            if ((u > 1 - 2e-6 || u < 2e-6) && !(md[j] >= s.b[j] - tj && md[j] <= s.b[j + 1] + tj)) qrange = true; }
          if (qrange) why = "median|quantile-function-answers-outside-the-class-for-a-class-median-probability-within-2e-6-of-0-or-1";
          double factor = (d.Expectation(s.ub) - d.Expectation(s.lb)) / t / ec;
          double resc = md[i] * factor;
          bool medianInside = md[i] >= s.b[i] - tv && md[i] <= s.b[i + 1] + tv;
          bool isRescaled = std::fabs(s.v[i] - resc) <= tv + 1e-9 * std::fabs(resc);
          bool movedBack = (resc > s.ub && std::fabs(s.v[i] - s.ub) <= tv) || (resc < s.lb && std::fabs(s.v[i] - s.lb) <= tv);
          if (!qrange && factor > 0 && std::isfinite(factor) && medianInside && (isRescaled || movedBack)) why = "median|class-median-inside-but-common-rescaling-factor-moves-it-out";
        }
        fail(std::string("values|outside-own-class-interval|") + why + dc, where() + " | class " + str(i) + " value " + num(s.v[i]) + " not in [" + num(s.b[i]) + "," + num(s.b[i + 1]) + "]");
        break;
      }
    }
  }
  if (!bok || !pok) return;
  // --- masses against the parent's own cumulative function, relative to the mass of the reported domain
  std::vector<double> F(k + 1);
  for (size_t i = 0; i <= k; ++i) F[i] = d.pProb(s.b[i]);
  double M = F[k] - F[0];
  if (!(M > 0) || !std::isfinite(M)) { c.tag("domain-mass-zero"); return; }
  bool equalP = true;
  for (size_t i = 0; i < k; ++i) if (std::fabs(s.p[i] - 1.0 / (double)k) > 4 * EPS) equalP = false;
  bool eqprobScheme = (s.scheme == 1) || (s.scheme == 3 && equalP && k > 1) || (s.scheme == 3 && k == 1);
  // equal-probability: the bounds are quantiles, F(b_i) = F(lb) + i M/k up to the quantile accuracy at both ends; equal-interval: the
  // probabilities are the very differences recomputed here (rounding only)
  double tolP0 = ((eqprobScheme ? 2 * tolQ(o.fam) : 0) + 16 * EPS) / M;
  if (tolP0 >= 0.5 / (double)k) c.tag("domain-mass-below-quantile-resolution");
  else {
    std::vector<double> sl(k + 1, 0.0);
    if (eqprobScheme) for (size_t i = 1; i < k; ++i) sl[i] = gridSlack(d, s.b[i], s.lb, s.ub);
    for (size_t i = 0; i < k; ++i) {
      double want = (F[i + 1] - F[i]) / M;
      double tolP = tolP0 + (sl[i] + sl[i + 1]) / M;
      if (!(std::fabs(s.p[i] - want) <= tolP)) {
        fail("mass|class-probability-differs-from-parent-mass" + dc, where() + " | class " + str(i) + ": p=" + num(s.p[i]) + " parent mass/domain mass=" + num(want) + " (domain mass " + num(M) + ", tolerance " + num(tolP) + ")");
        break;
      }
    }
  }
  if (s.scheme == 1 && !equalP) fail("mass|unequal-probabilities-in-equal-probability-scheme", where());
  // --- mean-valued classes reproduce the parent's mean over the domain
  if (!s.med && eqprobScheme && vok) {
    double El = d.Expectation(s.lb), Eu = d.Expectation(s.ub);
    double want = (Eu - El) / M, got = 0, S = std::fabs(want);
    for (size_t i = 0; i < k; ++i) { got += s.p[i] * s.v[i]; S += s.p[i] * std::fabs(s.v[i]); }
    double Emax = std::max(std::fabs(El), std::fabs(Eu));
    // the class values are differences of the parent's partial expectation divided by M/k: the sum telescopes; what remains is rounding
    // (cancellation in the differences), the value adjustments of at most (k+1) precision(), and 1e-9 relative slack
    // ... and the parent's own inaccuracy: a class value is (E(b_i+1)-E(b_i))/(M/k); when that leaves the class by the inaccuracy of E the
    // library substitutes the class midpoint, so each class may shift the discrete mean by p_i * 2 accF scale / (M/k)
    double tolM = 1e-9 * S + (double)(k + 1) * s.prec + 64 * EPS * (double)k * Emax / M + 2 * (double)k * accF(o.fam) * std::max(Emax, S) / M;
    if (!(std::fabs(got - want) <= tolM))
      fail("mean|discrete-mean-differs-from-parent-mean-over-domain" + dc, where() + " | sum p_i v_i=" + num(got) + " parent (E(ub)-E(lb))/mass=" + num(want) + " tolerance " + num(tolM));
    else c.tag("mean-checked");
  }
}

// value -> class look-up at every bound, class value and class midpoint
inline void auditLookup(const ADD& d, vf::Case& c, const std::string& ctx) {
  Snap s = snap(d);
  size_t k = s.k;
  if (s.v.size() != k || s.b.size() != k + 1 || k == 0) return;
  for (size_t i = 0; i + 1 <= k; ++i) if (!(s.b[i + 1] >= s.b[i])) return;   // judged by the bounds clause
  for (size_t i = 0; i < k; ++i) if (!std::isfinite(s.v[i])) return;           // judged by the values clause
  std::vector<double> xs;
  for (size_t i = 0; i <= k; ++i) xs.push_back(s.b[i]);
  for (size_t i = 0; i < k; ++i) { xs.push_back(s.v[i]); xs.push_back(s.b[i] / 2 + s.b[i + 1] / 2); }
  bool f1 = false, f3 = false;
  // getCategoryIndex: the header does not say whether the index counts from 0 (as getCategory(i) does) or from 1; the function is judged
  // as a whole: one of the two conventions must classify every test point correctly
  std::string bad0, bad1; size_t npts = 0;
  struct Both { double x; size_t jv, ji; }; std::vector<Both> both;   // points where both look-ups answered
  for (double x : xs) {
    if (!std::isfinite(x)) continue;
    bool inDom = (s.slb ? x > s.lb : x >= s.lb) && (s.sub ? x < s.ub : x <= s.ub);
    if (!inDom) continue;
    std::vector<size_t> ok;   // classes whose closed interval contains x
    for (size_t i = 0; i < k; ++i) if (s.b[i] <= x && x <= s.b[i + 1]) ok.push_back(i);
    if (ok.empty()) continue;
    ++npts;
    auto in = [&](size_t j) { for (size_t q : ok) if (q == j) return true; return false; };
    std::string exp = "{"; for (size_t q : ok) exp += str(q) + " "; exp += "}";
    size_t jv = k;
    if (!f1) {
      try {
        double r = d.getValueCategory(x);
        size_t j = k; for (size_t i = 0; i < k; ++i) if (s.v[i] == r) j = i;
        jv = j;
        if (j == k) { c.fail("lookup|getValueCategory|returns-a-value-that-is-no-class-value", ctx + " -> " + snapStr(s) + " | getValueCategory(" + num(x) + ")=" + num(r)); f1 = true; }
        else if (!in(j)) { c.fail("lookup|getValueCategory|wrong-class", ctx + " -> " + snapStr(s) + " | getValueCategory(" + num(x) + ")=" + num(r) + " = class " + str(j) + " (counting from 0), but the value lies in class " + exp); f1 = true; }
      } catch (Exception& e) { c.fail("lookup|getValueCategory|raises-inside-domain", ctx + " -> " + snapStr(s) + " | x=" + num(x) + ": " + e.what()); f1 = true; }
    }
    if (!f3) {
      bool foreign = false; size_t j = 0;
      try { j = d.getCategoryIndex(x); }
      catch (Exception& e) { c.fail("lookup|getCategoryIndex|raises-inside-domain", ctx + " -> " + snapStr(s) + " | x=" + num(x) + ": " + e.what()); f3 = true; continue; }
      catch (std::exception&) { throw; }
      catch (...) { foreign = true; }
      if (foreign) { c.fail("lookup|getCategoryIndex|throws-an-object-that-is-no-exception", ctx + " -> " + snapStr(s) + " | getCategoryIndex(" + num(x) + ") threw an object that is not an exception; the value lies in class " + exp + " (counting from 0)"); f3 = true; continue; }
      if (!in(j) && bad0.empty()) bad0 = "getCategoryIndex(" + num(x) + ")=" + str(j) + " but the value lies in class " + exp + " counting from 0";
      if (!(j >= 1 && in(j - 1)) && bad1.empty()) bad1 = "getCategoryIndex(" + num(x) + ")=" + str(j) + " but the value lies in class " + exp + " counting from 0, i.e. one more counting from 1";
      if (jv < k) both.push_back(Both{x, jv, j});
    }
  }
  // the classes are a partition: a value on a bound belongs to one of the two adjacent classes, and both look-ups must name the same one
  if (!f1 && !f3 && !c.failed && (bad0.empty() || bad1.empty())) {
    for (int conv = 0; conv < 2; ++conv) {
      if (!(conv == 0 ? bad0.empty() : bad1.empty())) continue;
      const Both* w = nullptr; for (auto& b : both) if (b.ji != b.jv + (size_t)conv) { w = &b; break; }
      if (!w) break;                                      // this convention makes the two look-ups agree everywhere
      if (conv == 0 && bad1.empty()) continue;            // try the other convention before judging
      c.fail("lookup|the-two-look-ups-put-one-value-in-different-classes", ctx + " -> " + snapStr(s) + " | getValueCategory(" + num(w->x) + ") names class " + str(w->jv) + ", getCategoryIndex(" + num(w->x) + ")=" + str(w->ji) + " (index counted from " + str(conv) + ")");
    }
  }
  if (!f3 && !bad0.empty() && !bad1.empty())
    c.fail("lookup|getCategoryIndex|wrong-class", ctx + " -> " + snapStr(s) + " | no index convention fits: counting from 0: " + bad0 + "; counting from 1: " + bad1);
  if (npts) c.tag("lookup-checked");
}

// the four cumulative class queries against partial sums of the class probabilities
inline void auditCumulative(const ADD& d, vf::Case& c, const std::string& ctx) {
  std::vector<double> v = d.getCategories(), p = d.getProbabilities();
  size_t k = v.size();
  if (p.size() != k) return;
  double tot = 0; for (double x : p) tot += x;
  if (!(std::fabs(tot - 1) <= 1e-12 * (double)k)) return;   // judged by the normalisation clause
  double tol = 2e-12 * (double)k;  // rounding of k-term sums plus the admitted normalisation defect (two of the queries are 1 - complement)
  double below = 0;
  for (size_t i = 0; i < k; ++i) {
    double le = below + p[i], above = tot - le, ge = tot - below;
    double a = d.getInfCumulativeProbability(v[i]), b = d.getIInfCumulativeProbability(v[i]), s1 = d.getSupCumulativeProbability(v[i]), s2 = d.getSSupCumulativeProbability(v[i]);
    std::string at = ctx + " | class " + str(i) + " of " + str(k) + " value " + num(v[i]);
    if (!(std::fabs(a - below) <= tol)) { c.fail("cumulative|Pr(x<v)-differs-from-partial-sum", at + ": got " + num(a) + " expected " + num(below)); return; }
    if (!(std::fabs(b - le) <= tol)) { c.fail("cumulative|Pr(x<=v)-differs-from-partial-sum", at + ": got " + num(b) + " expected " + num(le)); return; }
    if (!(std::fabs(s1 - above) <= tol)) { c.fail("cumulative|Pr(x>v)-differs-from-partial-sum", at + ": got " + num(s1) + " expected " + num(above)); return; }
    if (!(std::fabs(s2 - ge) <= tol)) { c.fail("cumulative|Pr(x>=v)-differs-from-partial-sum", at + ": got " + num(s2) + " expected " + num(ge)); return; }
    below = le;
  }
}

// compound distributions: class count consistent with the class list, non-negative probabilities summing to one
inline void auditNormalisation(const DiscreteDistributionInterface& d, vf::Case& c, const std::string& ctx, const std::string& kind) {
  std::vector<double> v = d.getCategories(), p = d.getProbabilities();
  size_t k = d.getNumberOfCategories();
  std::string st = ctx + " -> k=" + str(k) + " values=" + vf::vstr(v) + " probs=" + vf::vstr(p);
  if (v.size() != k || p.size() != k) { c.fail("compound|class-count-differs-from-class-list|" + kind, st); return; }
  double sum = 0; bool ok = true;
  for (double x : p) { if (!(x >= 0) || !std::isfinite(x)) ok = false; sum += x; }
  if (!ok) c.fail("compound|probability-negative-or-not-a-number|" + kind, st);
  else if (!(std::fabs(sum - 1) <= 1e-12 * (double)std::max<size_t>(k, 1))) c.fail("compound|probabilities-do-not-sum-to-one|" + kind, st + " sum=" + num(sum));
  for (size_t i = 0; i + 1 < v.size(); ++i) if (!(v[i] < v[i + 1])) { c.fail("compound|class-values-not-increasing|" + kind, st); break; }
}

// parent functions on a grid of the reported domain
inline void auditParent(const ADD& d, Fam f, vf::Case& c, const std::string& ctx) {
  double lb = d.getLowerBound(), ub = d.getUpperBound();
  double Fl = d.pProb(lb), Fu = d.pProb(ub), M = Fu - Fl;
  std::string fam = FAMNAME[f];
  if (!(Fl >= -1e-15 && Fu <= 1 + 1e-12)) { failF(c, "parent|pProb-outside-[0,1]", fam, ctx + " | pProb(" + num(lb) + ")=" + num(Fl) + " pProb(" + num(ub) + ")=" + num(Fu)); return; }
  if (!(M > 0)) { c.tag("domain-mass-zero"); return; }
  double tq = tolQ(f);
  if (2 * tq / M >= 1.0 / 256) { c.tag("domain-mass-below-quantile-resolution"); return; }
  const int N = 128;
  std::vector<double> u(N + 1), x(N + 1);
  for (int j = 0; j <= N; ++j) u[j] = Fl + ((double)j / N) * M;
  x[0] = lb; x[N] = ub;
  for (int j = 1; j < N; ++j) x[j] = d.qProb(u[j]);
  // quantile: monotone, inside the domain, inverse of the cumulative function
  for (int j = 1; j < N; ++j) {
    if (!(x[j] >= lb && x[j] <= ub)) {
      // a quantile can leave the domain by its own inaccuracy only: allow the distance that corresponds to tq in probability
      double Fx = d.pProb(x[j]);
      if (!(std::isfinite(x[j]) && std::fabs(Fx - u[j]) <= tq)) { failF(c, "parent|qProb-leaves-the-domain", fam, ctx + " | qProb(" + num(u[j]) + ")=" + num(x[j]) + " domain [" + num(lb) + "," + num(ub) + "]"); return; }
    }
    if (!(x[j] >= x[j - 1]) && j > 1) { failF(c, "parent|qProb-not-monotone", fam, ctx + " | qProb(" + num(u[j - 1]) + ")=" + num(x[j - 1]) + " > qProb(" + num(u[j]) + ")=" + num(x[j])); return; }
    double Fx = d.pProb(x[j]);
    if (!(std::fabs(Fx - u[j]) <= tq + gridSlack(d, x[j], lb, ub))) { failF(c, "parent|pProb(qProb(u))-differs-from-u", fam, ctx + " | u=" + num(u[j]) + " qProb=" + num(x[j]) + " pProb(qProb)=" + num(Fx)); return; }
  }
  // second grid: linear in x between the 1/128 and 127/128 quantiles (interleaved with the first by sorting)
  std::vector<double> g(x.begin() + 1, x.end() - 1);
  for (int j = 0; j <= N; ++j) g.push_back(x[1] + ((double)j / N) * (x[N - 1] - x[1]));
  g.push_back(lb); g.push_back(ub);
  std::sort(g.begin(), g.end());
  std::vector<double> Fg(g.size()), Eg(g.size());
  double Emax = 0, xmax = 0;
  for (size_t j = 0; j < g.size(); ++j) { Fg[j] = d.pProb(g[j]); Eg[j] = d.Expectation(g[j]); if (std::isfinite(Eg[j])) Emax = std::max(Emax, std::fabs(Eg[j])); }
  // accuracy of the parent's cumulative function in absolute terms (series truncated at 1e-8 for the gamma/beta type; rounding otherwise)
  double aF = accF(f);
  for (size_t j = 0; j + 1 < g.size(); ++j) {
    double a = g[j], b = g[j + 1];
    if (!(Fg[j + 1] >= Fg[j] - 2 * aF) || !(Fg[j] >= -aF && Fg[j + 1] <= 1 + aF)) { failF(c, "parent|pProb-not-monotone-or-outside-[0,1]", fam, ctx + " | pProb(" + num(a) + ")=" + num(Fg[j]) + " pProb(" + num(b) + ")=" + num(Fg[j + 1])); return; }
    if (!std::isfinite(a) || !std::isfinite(b) || std::fabs(a) > 1e22 || std::fabs(b) > 1e22) continue;   // the artificial +-1.7e23 ends: no mass there
    // derivative relation dE = x dF in integrated form: the increment of the partial expectation over [a,b] lies between a dF and b dF
    double dF = Fg[j + 1] - Fg[j], dE = Eg[j + 1] - Eg[j];
    double lo = std::min(a * dF, b * dF), hi = std::max(a * dF, b * dF);
    double tol = (std::fabs(a) + std::fabs(b) + 1) * 4 * aF + 16 * EPS * Emax + 1e-9 * std::fabs(dE);
    if (!(dE >= lo - tol && dE <= hi + tol)) {
      failF(c, "parent|expectation-increment-outside-[a*dF,b*dF]", fam, ctx + " | on [" + num(a) + "," + num(b) + "]: dF=" + num(dF) + " dE=" + num(dE) + " must lie in [" + num(lo) + "," + num(hi) + "] (tolerance " + num(tol) + ")");
      return;
    }
  }
  c.tag("parent-grid-checked");
}

}  // namespace c09
